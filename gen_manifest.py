#!/usr/bin/env python3
"""Writes MANIFEST.json from the table below (kept as code so that the 20 entries stay consistent)."""
import json
CLAIMED = {
 "C15": dict(
   text="Lean theorems for every code length n and every data word: decode(encode d) = d with no flag; any single stored-bit flip (incl. the overall parity bit) returns d, ded=0, sec=1 iff not the parity bit; any two distinct flips give ded=1, sec=0; compute_m_n leaves room for the data (k<=128, kernel-decided table); counters count events and saturate. Model tied to the real ECCEncoder/ECCDecoder, lane modules and LiteDRAMNativePortECC by exhaustive single/double flips and cycle-accurate co-simulation.",
   note="Trusted: Lean kernel; SECDED contract as stated in Props/C15.lean; LiteX's ecc.py helper functions are modelled semantically (cover = positions with bit i set) and compared exhaustively for k<=128; CSR shims; Nat<->bit-list glue of the driver.",
   technique="Lean 4 proof (XOR linearity over positions, all n) + exhaustive flip correspondence against the real encoder/decoder/port in Migen",
   design="§6 C15"),
 "C16": dict(
   text="Lean theorems (exact arithmetic, all datasheet values, all clocks, all rates): the margin formula covers the datasheet ns value on the least favourable phases and is tight, ck counts are spanned, max of both is honoured, tRC covers tRP+tRAS, the refresh interval is never longer than the datasheet's. Model tied to SDRAMModule(...).timing_settings for every class of the library x speedgrade x rate x fine-refresh mode x dense frequency grid, and to SPD-built modules (independent JEDEC decode of the SPD bytes).",
   note="Trusted: Lean kernel; datasheet numbers read from the class attributes as exact decimals; integer-Hz clocks; float slack accepted only on the safe side when the exact quotient is within 1e-9 of an integer.",
   technique="Lean 4 proof (ceil/floor arithmetic over exact rationals) + exhaustive-library x dense-grid correspondence with modules.py",
   design="§6 C16"),
 "C20": dict(
   text="Lean theorems: for every DFI phase value (all address/bank bits, all command codes, masked or not, sync done or not) the LPDDR4 and the LPDDR5 adapter outputs decode, by JEDEC truth-table decoders written from the standards, to exactly the requested operation/bank/row/column/AP/AB/MR operands, valid iff there is one; truth tables are regenerated from the source on every run and the proofs re-checked against them. The LPDDR4 command pipeline (bit-slips, overlap masks) is modelled cycle-accurately; a pin-level stream monitor states placement-at-slot and only-overlaps-suppressed.",
   note="Trusted: Lean kernel; JEDEC decoders in Spec/JedecLpddr4.lean, Spec/JedecLpddr5.lean and the DFI conventions in Spec/LpddrExpect.lean; table translator; the pipeline placement/suppression claim is checked by the Lean stream monitor on implementation traces and by co-simulation, its unbounded theorem is proved for the model in Props/C20 where stated; LPDDR5PHY's PipeValid command path is modelled, not co-simulated.",
   technique="Lean 4 proof over generated truth tables (round trip through JEDEC decoders) + exhaustive-by-class correspondence of adapters and command pipeline in Migen",
   design="§6 C20"),
 "C17": dict(
   text="Lean theorems, decided by the kernel over the encoding tables regenerated from init.py on every run: DDR3/DDR4 MR0/MR1/MR2/MR3/MR6, SDR/DDR/LPDDR/DDR2 MR and LPDDR4 MR1/MR2 decode (JEDEC decoders written from the standards) to the BL/CL/CWL/WR/termination values handed in, fields never overlap or overflow, every default (CL,CWL) pair is encodable; write-recovery clause proved for WR derived from tWR (_partial) with a counter-example theorem for the code's tWTR-derived WR. Model tied to the real get_sdram_phy_init_sequence over all table keys/options, WR checked against the module library x clock grid, C and Python headers parsed back and compared.",
   note="Trusted: Lean kernel; JEDEC MR decoders (Spec/JedecMR.lean); ast-based table translator; RPC and LPDDR5 MR contents not modelled (header equivalence only). Known findings: c17-wr-from-twtr, c17-ddr2-wr-const, c17-py-clamshell.",
   technique="Lean 4 proof by kernel decision over generated tables + exhaustive correspondence with init.py",
   design="§6 C17"),
 "C02": dict(
   text="Cycle-accurate Lean model of the whole controller core (N bank machines, two command choosers, steerer, timing gates, refresher) co-simulated signal-by-signal against LiteDRAMController over random configurations; Lean theorem bm_run_legal: in every reachable state of a bank machine, under the stated environment contract (refresher's precharge-all only in REFRESH, refresh withdrawn only after it), ACT is issued only on a precharged bank and RD/WR only on the open row the head request addresses, incl. auto-precharge and refresh, for every configuration; the whole-controller statement (specification monitor Dram.Mon never rejects) is evaluated on every implementation trace, not proved (dfi_stream_legal_full).",
   note="Trusted: Lean kernel; Spec/Dram.lean (JEDEC command decode, bank automaton, strobe rules); co-simulation coverage as reported. Proved: bank-machine layer against its environment contract; composed controller: model-checked by simulation only (partial).",
   technique="Lean 4 proof (inductive joint invariant bank machine / reference bank, lifted over all input histories) + cycle-exact co-simulation of the controller model + Lean specification monitor on implementation traces",
   design="§6 C02"),
 "C03": dict(
   text="Lean theorems for every parameter value and unbounded time: tXXDController spacing (two gated strobes never closer than txxd cycles, from reset), tFAWController (any tFAW window holds at most four gated activates), bank machine tRCD and tRP delay chains (ghost counters), worst-phase conversion c*n-(n-1); composed with C16's margin theorem they give the datasheet distances. The composed statement (Dram.Mon with the timing table accepts every controller trace) is evaluated on every implementation trace; the controller model is co-simulated cycle-exactly.",
   note="Trusted: Lean kernel; timing rules of Spec/Dram.lean; distances required of the controller are cycles*n-(n-1) DRAM clocks (C16 proves this covers the ns value). Composition over the multiplexer is partial (monitor + co-simulation).",
   technique="Lean 4 proof (timer/shift-register invariants with ghost clocks) + co-simulation + Lean timing monitor on implementation DFI traces",
   design="§6 C03"),
 "C04": dict(
   text="Lean theorems for every tREFI/tRP/tRFC/postponing: the refresh timer pulses exactly every tREFI cycles for ever, the postponer passes one request per `postponing` pulses, every REF of the executer is preceded by its precharge-all exactly tRP cycles earlier, deadline accounting; refresher model co-simulated cycle-exactly (stand-alone and inside the controller); on implementation traces the check verifies the k-th refresh deadline with the explicit grant bound D(cfg), PREA-before-REF, and ZQCS recurrence. The grant-latency bound itself is bounded liveness of the composed controller: stated (refresh_grant_bound_full), measured, not proved.",
   note="Trusted: Lean kernel; D(cfg) formula; datasheet rate needs C16's refresh_interval_not_longer (proved) and the tREFI fix. Partial: grant latency bound.",
   technique="Lean 4 proof (counter periodicity by induction, timeline invariant with ghost) + co-simulation + deadline monitor",
   design="§6 C04"),
 "C19": dict(
   text="Lean transcription of phy/model.py (Model/SimPhy) co-simulated cycle-exactly against the real SDRAMPHYModel on random legal DFI traces (all memtypes, masks, auto-precharge, back-to-back bursts, init images under both address mappings), outputs and final memories compared; the same traces are run through an independent reference DRAM with data (Spec/DramData) and the implementation must agree with it; theorems relate the transcription to the reference.",
   note="Trusted: Lean kernel; Spec/DramData.lean (the independent DRAM); the legal-trace generator; rddata_valid judged on phase 0 only.",
   technique="Lean 4 proof (refinement SimPhy -> reference DRAM on legal traces) + co-simulation + reference comparison",
   design="§6 C19"),
 "C01": dict(
   text="Cycle-accurate Lean model of the whole memory core (crossbar + controller + simulation PHY/DRAM, Model/Core.lean) co-simulated signal-by-signal (all port handshakes, read data, all DFI phases) against the real crossbar, LiteDRAMController and SDRAMPHYModel for 1..8 ports over random configurations; the port-memory specification monitor (Spec/PortMemory: effects in acceptance order, byte enables, reads in command order) is evaluated on the implementation's port events. Proved lemmas: crossbar grant stability under lock, strobe routing, address bijection (C06), bank-machine legality (C02), timing gates (C03); the top-level composition `core_memory_semantics_full` is stated, not proved.",
   note="Trusted: Lean kernel; Spec/PortMemory.lean; co-simulation coverage as reported; PHY = SDRAMPHYModel (C19). Partial: top-level refinement theorem.",
   technique="Lean 4 proof (component lemmas) + cycle-exact whole-core co-simulation + Lean port-memory monitor on implementation traces",
   design="§6 C01"),
 "C05": dict(
   text="Lean theorems: round-robin fairness (a requester that keeps requesting is granted within n-1 enabled arbitrations), crossbar grant changes only when the bank is idle and unlocked, anti-starvation timers force a direction switch within read_time/write_time cycles; explicit Bound(cfg) fixed; on implementation traces (whole-core co-simulation) every offer->accept and accept->strobe latency is checked against Bound(cfg). Known finding c05-same-bank-lockout (a master monopolising a bank starves the others) is demonstrated on the real code every run. The composed bound is stated, not proved.",
   note="Trusted: Lean kernel; Bound(cfg) formula of the harness; anti-starvation timeouts enabled. Partial: composed latency bound (measured, reported as max latency / Bound).",
   technique="Lean 4 proof (arbiter and timer lemmas) + whole-core co-simulation + latency monitor",
   design="§6 C05"),
 "C12": dict(
   text="Cycle-accurate Lean models of LiteDRAMDMAReader/Writer and of LiteX's stream.SyncFIFO in its four shapes (wire, Buffer, SyncFIFO, SyncFIFOBuffered), co-simulated against the real modules for native and AXI ports, depths 1..16, buffered or not, with a memory side that pulses read data without waiting for ready; specification monitors (Spec/DmaSpec: one word per accepted address in order with last on the matching word, no overrun; each (address,data) pair written once and paired) evaluated on the implementation; theorems on the reservation accounting.",
   note="Trusted: Lean kernel; Spec/DmaSpec.lean; memory returns data in command order. CSR front-end not modelled.",
   technique="Lean 4 proof (reservation invariant) + cycle-exact co-simulation + Lean stream monitors",
   design="§6 C12"),
 "C07": dict(
   text="Cycle-accurate Lean models of LiteDRAMNativePortDownConverter and LiteDRAMNativePortUpConverter including the LiteX stream converters and FIFOs inside them, co-simulated against the real converters (up 1:2..1:32, down 2:1..8:1, both/write/read, reverse) with a controller side that behaves like the crossbar (commands queued, data strobes as unconditional pulses in command order, long stalls with several commands outstanding); the port-memory specification (Spec/PortMemory) is evaluated on the user side and the controller-side memory compared through the byte-addressed view; theorems for every schedule: down-converter command expansion (none lost/duplicated/reordered), write-beat order and read-data regrouping, up-converter select mask and byte-enable masking, word/chunk view round-trips; the up-converter's misplacement of non-ascending addresses is proved on the model by two witnesses that are replayed on the real converter (known finding).",
   note="Trusted: Lean kernel; Spec/PortMemory.lean; controller-side stub written from crossbar.py; master obeys the port rules of the property. Equal-width path (plain connect) not modelled.",
   technique="Lean 4 proof (FSM/trace invariants by induction over schedules, refuting witnesses by kernel evaluation) + cycle-exact co-simulation + Lean port-memory specification evaluated on implementation runs",
   design="§6 C07"),
 "C08": dict(
   text="Lean model of migen's AsyncFIFO (gray-coded pointers, two-stage synchronisers, dual-clock memory with registered read) and of LiteDRAMNativePortCDC (three of them), where time is a sequence of instants at which the write clock, the read clock or both rise; theorem cdc_fifo_correct for EVERY such sequence and every valid/ready behaviour: the words delivered are exactly the first words accepted, in order, and never more than depth are in flight - proved by an invariant over the history (synchronised pointer copies lag, reader never passes what it saw written, writer never more than depth ahead of what it saw read, unread slots intact, output register holds the next word), with the two gray-code facts checked by kernel evaluation for depths 2..32; the model is tied to the real LiteDRAMNativePortCDC edge by edge in Migen's two-clock simulation over 13 period pairs x random phases (thousands of coincident edges), and the stream specification is evaluated on all three channels of the real module.",
   note="Trusted: Lean kernel; Spec/FifoSpec.lean; Migen's simulator (MultiReg = two plain registers; no metastability, which is what the gray code addresses); stream masters hold valid until ready.",
   technique="Lean 4 proof (history invariant by induction over arbitrary two-clock schedules; finite gray-code tables by decide +kernel) + edge-exact two-clock co-simulation + Lean stream specification evaluated on implementation runs",
   design="§6 C08"),
 "C09": dict(
   text="Cycle-accurate Lean model of LiteDRAMAXI2Native: LiteX AXIBurst2Beat, channel buffers, buffered write/read FIFOs with their reservation counters, write-ID/response FIFOs (storage modelled exactly), round-robin arbitration and the read-modify-write FSM, co-simulated against the real module for data widths 16..128, buffer depths 2..16, base addresses, with and without read-modify-write under legal AXI4 traffic (FIXED/INCR/WRAP, lengths 1..16, narrow sizes, unaligned starts, strobes inside the active lanes, W leading or trailing AW, stalls on all five channels incl. long B/R back-pressure); two Lean specifications are evaluated on the real module: Spec/AxiSpec (one B per burst in order with its ID and only after its data reached the native port; len+1 R beats with ID and LAST in order) and Spec/PortMemory (strobed bytes, read-after-response); theorems: FIXED/INCR/WRAP address sequences of the burst-to-beat generator, byte-exact read-modify-write merge, RMW starts only on a drained write path and what each RMW state does, read reservation bounded for every run, command source/arbitration. Three genuine defects found and fixed.",
   note="Trusted: Lean kernel; Spec/AxiSpec.lean, Spec/PortMemory.lean; native-side stub written from crossbar.py; the master avoids read/write hazards so the memory specification is sequential.",
   technique="Lean 4 proof (address-generator induction step, byte-level merge induction, invariants over runs) + cycle-exact co-simulation + two Lean specifications evaluated on implementation runs",
   design="§6 C09"),
 "C10": dict(
   text="Cycle-accurate Lean models of LiteDRAMWishbone2Native (three-state FSM for equal/wider buses; burst up-converter with write merging and read cache for narrower buses) and LiteDRAMNative2Wishbone, co-simulated against the real modules; for every width ratio the port-memory specification is evaluated at the Wishbone side of the real module under classic cycles, incrementing bursts, mixed read/write under one CYC, byte selects and aborts at random cycles, and the native-side memory compared; theorems for every master behaviour and port timing: acknowledge only on completion and only to a requesting, non-aborted master, exactly one completion per accepted access and at most one acknowledge per completion (counting over whole runs), aborted writes complete without byte enables, lane placement arithmetic, cache invalidated by every write and by CYC low, reads wait for pending merged writes, cache hits/port reads return the requested lane. One genuine defect (abort in WRITE hangs the bridge) found and fixed.",
   note="Trusted: Lean kernel; Spec/PortMemory.lean; native-side stub written from crossbar.py; aborted writes only to a scratch region. Wider-bus composition with the down-converter judged by the specification (converter covered by C07).",
   technique="Lean 4 proof (FSM invariants, counting by induction over schedules, lane arithmetic) + cycle-exact co-simulation + Lean port-memory specification evaluated on implementation runs",
   design="§6 C10"),
 "C11": dict(
   text="Cycle-accurate Lean model of LiteDRAMAvalonMM2Native (FSM, command and write-data FIFOs), co-simulated against the real module on ports of the Avalon width; for every width ratio (equal, down- and up-conversion through the real LiteDRAMNativePortConverter) the port-memory specification is evaluated on the Avalon side of the real module under legal master traffic (singles, read/write bursts of 1..max beats, byte enables, idle gaps inside write bursts, don't-care address after the first beat) and the native-side memory compared; theorems for every master behaviour and port timing: single accesses, write bursts (beats numbered consecutively, beat k queued for base+k with the data presented when accepted, idle cycles neutral, burst left only after all n beats), read bursts (n commands at consecutive addresses with last on the final one, every returned word one readdatavalid beat, exit after the n-th). Three genuine defects found and fixed.",
   note="Trusted: Lean kernel; Spec/PortMemory.lean; native-side stub written from crossbar.py; Avalon master obeys the hold rules. For unequal widths the composition with the converter is judged by the specification (the converter itself is covered cycle-exactly by C07).",
   technique="Lean 4 proof (FSM invariants by induction over schedules) + cycle-exact co-simulation + Lean port-memory specification evaluated on implementation runs",
   design="§6 C11"),
 "C13": dict(
   text="Cycle-accurate Lean model of LiteDRAMFIFO (pre/post FIFOs, LiteX width converters, _LiteDRAMFIFOCtrl, writer/reader on the DMA engine models, BYPASS/DRAM/PUMP/DRAIN FSM with Migen's last-assignment-wins multiplexing), co-simulated against the real FIFO for ratios 1..8, with/without bypass, depths 2..16 (many pointer wrap-arounds) under seven rate patterns and random port timing with stalls; the FIFO specification (Spec/FifoSpec: source stream = sink stream, read-back in write order, no write to an unread DRAM word, at most depth words held) is evaluated on the implementation; theorems for every schedule and every shape: level <= depth, pointers level apart, the write slot is never an unread slot, k-th read fetches the k-th written slot across wrap-around; the bypass FIFO's invented word is proved on the model by a witness replayed on the real FIFO (known finding); one genuine defect fixed.",
   note="Trusted: Lean kernel; Spec/FifoSpec.lean; DRAM-side stub written from crossbar.py (commands of both ports ordered by acceptance).",
   technique="Lean 4 proof (pointer/level invariants by induction over schedules, refuting witness by kernel evaluation) + cycle-exact co-simulation + Lean FIFO specification evaluated on implementation runs",
   design="§6 C13"),
 "C14": dict(
   text="Cycle-accurate Lean models of the PRBS31/counter Generator, _LiteDRAMBISTGenerator and _LiteDRAMBISTChecker (composed with the DMA engine models), co-simulated against the real cores and their CSR wrappers on native and AXI ports of 8..128 bits under random port timings, cascade stalls, spurious start strobes and resets; theorems for every schedule: the generator hands exactly the run's sequence (seqAddr i, seqData i) to the DMA engine, the checker's errors register equals the number of positions whose returned word differs, which over a faithful memory is 0 without repeated addresses and k for k corrupted positions; address theorems (8-bit ports inside [base,end); wider ports inside the code's mask window; the full range claim is refuted by a Lean witness that is replayed on the real generator: known finding). The specification (Spec/BistSpec) is evaluated on the implementation's port traffic and error counts.",
   note="Trusted: Lean kernel; Spec/BistSpec.lean; CSR shims; memory returns read data in command order. AsyncFIFO CDC of the wrappers and the Pattern generator/checker are not modelled.",
   technique="Lean 4 proof (FSM invariants by induction over schedules, memory/count lemmas, refuting witness) + cycle-exact co-simulation + Lean specification evaluated on implementation runs",
   design="§6 C14"),
 "C18": dict(
   text="Lean models of the DFI injector (combinational multiplexer + phase injectors) and of the rate converter (Serializer/Deserializer on two aligned clocks), co-simulated cycle-exactly against the real DFIInjector and DFIRateConverter; theorems: hardware mode is transparent in both directions and software mode isolates the controller (all values), serializer emits the latched word slot by slot, one slow cycle later; the converter's specification (Spec/RateSpec: command latency and phase order, write/read data windows) is evaluated on the implementation.",
   note="Trusted: Lean kernel; Spec/RateSpec.lean; CSR shims; aligned clocks; vendor serialisers out of scope.",
   technique="Lean 4 proof (mux equalities, serializer induction) + co-simulation (1 and 2 clocks) + Lean specification monitor",
   design="§6 C18"),
 "C06": dict(
   text="Lean theorems over the parametric address-map model for every geometry satisfying WF: left and right inverse (injective, onto), A10 never a column bit, row part, consecutive walk; model tied to the real crossbar routing and _AddressSlicer by exhaustive (small geometries) and dense evaluation in Migen's simulator.",
   note="Trusted: Lean kernel, Spec (Loc/addrOf/encodeCol in Props/C06.lean), correspondence harness; the steerer's rank/bank split is replicated in the harness and re-observed end-to-end by C01/C02 whole-core runs.",
   technique="Lean 4 proof (div/mod arithmetic, unbounded geometry) + exhaustive/dense correspondence with the real Migen routing expressions",
   design="§6 C06"),
}
NOT_YET = {}
ALL = ["C%02d" % i for i in range(1, 21)]
m = dict(version=1,
  setup_cmd="/venv/bin/python check.py --setup",
  hooks=dict(guard="LITEDRAM_VERIF", enable="checks set LITEDRAM_VERIF=1 in their own environment before importing /repo (no source hooks are needed so far)",
             baseline_off_cmd="cd /repo && env -u LITEDRAM_VERIF /venv/bin/python -m pytest -ra -q -p no:cacheprovider --timeout=900 --continue-on-collection-errors",
             source_commits=[], add_only=True),
  engines=[dict(name="lean-model+cosim", path="check.py", serves_properties=sorted(CLAIMED),
                kind_free_text="Lean 4 parametric models and theorems (lean/), native model driver, Python co-simulation harness against /repo in Migen's simulator")],
  checks=[], notes="see DESIGN.md", not_applicable=[])
for pid in ALL:
    if pid in CLAIMED:
        c = CLAIMED[pid]
        m["checks"].append(dict(property_id=pid,
            quick_cmd="/venv/bin/python check.py %s --tier quick" % pid,
            thorough_cmd="/venv/bin/python check.py %s --tier thorough" % pid,
            evidence_file="evidence/%s.json" % pid,
            replay_cmd_template="/venv/bin/python check.py %s --replay {path}" % pid,
            engine="lean-model+cosim",
            level_claimed=dict(category="proof", text=c["text"], design_ref=c["design"]),
            level_note=c["note"], technique=c["technique"]))
    else:
        m["not_applicable"].append(dict(property_id=pid, reason=NOT_YET.get(pid, "not claimed yet: model/proof/correspondence for this property not built at this commit (work in progress, see DESIGN.md §6)")))
json.dump(m, open("MANIFEST.json", "w"), indent=1)
print("claimed:", sorted(CLAIMED))
