#!/usr/bin/env python3
"""Validate MANIFEST.json and evidence/*.json against the schemas in /root/.vp (needs jsonschema: python3-vt)."""
import json, sys, glob
import jsonschema
ok = True
def check(path, schema):
    global ok
    try:
        jsonschema.validate(json.load(open(path)), json.load(open(schema)))
        print("valid  ", path)
    except Exception as e:
        ok = False
        print("INVALID", path, str(e)[:300])
check("MANIFEST.json", "/root/.vp/MANIFEST.schema.json")
for p in sorted(glob.glob("evidence/*.json")):
    check(p, "/root/.vp/EVIDENCE.schema.json")
sys.exit(0 if ok else 1)
