#!/venv/bin/python
"""Entry point of every registered check.

    check.py <Cxx> [--tier quick|thorough] [--replay FILE]
    check.py --setup            (MANIFEST.setup_cmd: translators + full lake build)

Pipeline (DESIGN.md §5): regenerate tables from /repo -> lake build of the property's proof
module and of the model driver -> audit (#print axioms, forbidden tokens) -> correspondence
(model vs /repo working tree) with the specification monitors evaluated on the implementation's
own behaviour -> verdict, evidence, replay.
Exit 0 = held; 1 = VIOLATION line printed; 2 = infrastructure failure / time-out (no verdict).
"""
import sys, os, json, time, argparse, importlib, traceback

sys.path.insert(0, os.path.dirname(os.path.abspath(__file__)))
from vlib import core


def setup():
    from translators import regen_all
    regen_all()
    ok, log = core.lean_build([])
    print(log[-3000:])
    return 0 if ok else 2


def main():
    ap = argparse.ArgumentParser()
    ap.add_argument("pid", nargs="?")
    ap.add_argument("--tier", default=os.environ.get("VERIF_TIER", "quick"))
    ap.add_argument("--replay")
    ap.add_argument("--setup", action="store_true")
    args = ap.parse_args()
    if args.setup:
        return setup()
    pid = args.pid
    seed = int(os.environ.get("VERIF_SEED", "0"))
    tier = args.tier if args.tier in ("quick", "thorough") else "quick"
    t0 = time.time()
    harness = importlib.import_module("harness." + pid.lower())

    # 1. translators (tables regenerated from /repo on every run)
    proof_problems = []
    try:
        from translators import regen_all
        regen_all()
    except Exception as e:
        proof_problems.append("translator failed: %r" % (e,))

    # 2. build: driver first (needed for the search even if a proof is broken), then the proofs
    ok_drv, log_drv = core.lean_build(["drv"])
    if not ok_drv:
        # the driver is part of the machinery, but it also imports Generated tables: a table that
        # no longer type-checks lands here.  No model => cannot tie; treat as broken obligation.
        proof_problems.append("model driver does not build:\n" + log_drv[-1500:])
    ok_prf, log_prf = core.lean_build(["LitedramVerif.Props." + m for m in core.prop_modules(pid)])
    if not ok_prf:
        proof_problems.append("proof module Props/%s.lean no longer checks:\n%s" % (pid, log_prf[-2500:]))

    # 3. audit
    audit = dict(ok=False, theorems=[], axioms={}, problems=["not run"])
    if ok_prf:
        audit = core.lean_audit(pid)
        if not audit["ok"]:
            proof_problems += audit["problems"]
        if tier == "thorough":
            rc, out = core.sh(["lake", "env", "leanchecker"] + ["LitedramVerif.Props." + m for m in core.prop_modules(pid)], cwd=core.LEAN, timeout=3000)
            audit["leanchecker_rc"] = rc
            if rc != 0:
                proof_problems.append("leanchecker rejected Props.%s: %s" % (pid, out[-800:]))

    # 4. correspondence + monitors on the implementation
    res = core.Result()
    infra_error = None
    if ok_drv:
        try:
            if args.replay:
                res = harness.replay(json.load(open(args.replay)), tier, seed)
            else:
                res = harness.run(tier, seed)
        except Exception:
            infra_error = traceback.format_exc()
    if (proof_problems or res.mismatches) and not res.violations and hasattr(harness, "search") and not args.replay:
        # something broke: deeper, directed search for a concrete failing input on the real code
        try:
            res.merge(harness.search(tier, seed))
        except Exception:
            infra_error = (infra_error or "") + traceback.format_exc()

    # 5. verdict
    kf = core.load_known_findings()
    known = {f["signature"]: f for f in kf.get("findings", []) if f["property"] == pid}
    new_viol = [v for v in res.violations if v.get("signature") not in known]
    known_hit = {}
    for v in res.violations:
        if v.get("signature") in known:
            known_hit.setdefault(v["signature"], v)
    for sig, v in known_hit.items():
        print("KNOWN-FINDING: property=%s %s [%s]" % (pid, known[sig]["what"], sig))
    status = 0
    replay_path = None
    if new_viol:
        v = new_viol[0]
        replay_path = core.write_replay(pid, seed, dict(property=pid, kind="failing-input", violation=v,
                                                        n_violations=len(new_viol), proof_problems=proof_problems,
                                                        mismatches=res.mismatches[:5]))
        print("VIOLATION property=%s replay=%s" % (pid, replay_path))
        print("  what: %s" % str(v.get("what"))[:600])
        status = 1
    elif proof_problems or res.mismatches:
        replay_path = core.write_replay(pid, seed, dict(
            property=pid, kind="no-failing-input-found",
            broken_theorems_or_build=proof_problems,
            broken_correspondence=res.mismatches[:10],
            note="the property is no longer shown to hold: the proof obligations or the model/code "
                 "correspondence named here do not check against the current /repo; the directed search "
                 "found no input on which the implementation violates the property"))
        print("VIOLATION property=%s replay=%s no-failing-input-found" % (pid, replay_path))
        for p in proof_problems[:3]:
            print("  proof: %s" % p[:800])
        for m in res.mismatches[:3]:
            print("  correspondence: %s" % json.dumps(m, default=str)[:800])
        status = 1
    if infra_error and status == 0:
        print("INFRASTRUCTURE ERROR (no verdict):\n" + infra_error)
        status = 2

    # 6. evidence
    nthm = len(audit["theorems"])
    discharged = sum(1 for n in audit["theorems"]
                     if set(audit["axioms"].get("%s.%s" % (pid, n), ["?"])) <= core.ALLOWED_AXIOMS) if ok_prf else 0
    cov = dict(
        obligations=max(nthm, 1), discharged=discharged,
        checker_cmd="cd /verif/lean && lake build LitedramVerif.Props.%s && lake env lean <#print axioms of each theorem>" % pid
                    + (" && lake env leanchecker LitedramVerif.Props.%s" % pid if tier == "thorough" else ""),
        trusted_base=core.TRUSTED_BASE + getattr(harness, "TRUSTED", []),
        theorems=audit["theorems"], axioms=audit["axioms"],
        evaluations=res.evaluations, distinct_nontrivial=len(res.distinct),
        rule=getattr(harness, "RULE", ""),
        samples=res.samples[:8] if res.samples else ["(none)"],
        traces_validated_against_impl=res.evaluations,
        correspondence_mismatches=len(res.mismatches),
        known_findings_reproduced=sorted(known_hit),
        proof_problems=proof_problems,
    )
    cov.update(res.coverage)
    if not args.replay:
        core.write_evidence(pid, tier, seed, cov, res.assumptions + getattr(harness, "ASSUMPTIONS", []),
                            time.time() - t0, len(new_viol))
    print("%s tier=%s seed=%d theorems=%d/%d evaluations=%d mismatches=%d violations=%d known=%d wall=%.1fs -> exit %d"
          % (pid, tier, seed, discharged, nthm, res.evaluations, len(res.mismatches), len(new_viol),
             len(known_hit), time.time() - t0, status))
    return status


if __name__ == "__main__":
    sys.exit(main())
