#!/bin/bash
# usage: tools_seed_import.sh <Cxx> <name> "<result of running my check(s) against it>"
# copies a confirmed seeded change from /tmp/seed/<Cxx> into /verif/seeded/<name>/
P=$1; NAME=$2; RES="$3"
D=/verif/seeded/$NAME
mkdir -p $D
cp /tmp/seed/keep/$P/_seed/patch.diff $D/patch.diff
cp /tmp/seed/keep/$P/_seed/demo.py $D/demo.py
python3 - $P $NAME "$RES" <<'PY'
import json, sys
p, name, res = sys.argv[1:4]
meta = json.load(open('/tmp/seed/keep/%s/_seed/meta.json' % p))
conf = json.load(open('/tmp/seed/keep/%s/%s.confirm.json' % (p, p)))
out = dict(property=p.rstrip('b'), breaks=meta.get("summary"), files=meta.get("files"), needs=meta.get("needs"),
           confirmed_by_me=dict(demo_exit_on_original=conf["demo_rc_original"], demo_exit_with_change=conf["demo_rc_changed"],
                                suite_passed_with_change=conf["suite_passed"], baseline_tests_missing=conf["baseline_missing"],
                                how="tools_seed_confirm.sh in the sub-agent's scratch worktree: demo on stashed/unstashed tree, full pinned suite with the change applied, pass-set compared with BASELINE.json stable_pass"),
           check_result=res, author="independent sub-agent given only the property text and a scratch worktree")
json.dump(out, open('/verif/seeded/%s/meta.json' % name, 'w'), indent=1)
PY
ls $D
