#!/bin/bash
# usage: tools_seed_regress.sh [name-prefix ...]   Re-runs the quick check of every seeded change (or those whose directory name
# starts with one of the prefixes) against a scratch worktree of /repo with the change applied (LITEDRAM_REPO), and prints
# one line per change: name, exit code, VIOLATION line.  Scratch worktrees are removed; evidence/ and Generated/ are restored.
cd /verif
mkdir -p /tmp/seedchk
for d in seeded/*/; do
  n=$(basename $d)
  if [ $# -gt 0 ]; then ok=0; for p in "$@"; do case $n in $p*) ok=1;; esac; done; [ $ok = 1 ] || continue; fi
  P=$(python3 -c "import json;print(json.load(open('$d/meta.json'))['property'])")
  W=/tmp/seedchk/$n
  git -C /repo worktree add --detach $W HEAD > /dev/null 2>&1
  if ! git -C $W apply /verif/$d/patch.diff 2>/dev/null; then echo "$n APPLY-FAILED"; git -C /repo worktree remove --force $W; continue; fi
  LITEDRAM_REPO=$W timeout 1800 /venv/bin/python check.py $P --tier quick > /tmp/seedchk/$n.log 2>&1
  rc=$?
  echo "$n $P exit=$rc $(grep -m1 VIOLATION /tmp/seedchk/$n.log | cut -c1-80) $(grep -m1 'what:' /tmp/seedchk/$n.log | cut -c1-160)"
  git -C /repo worktree remove --force $W
done
git checkout -- evidence lean/LitedramVerif/Generated 2>/dev/null
