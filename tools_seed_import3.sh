#!/bin/bash
# usage: tools_seed_import3.sh <tag> <Cxx> <name> "<result of running my check(s) against it>"
# copies a confirmed round-3 seeded change from its scratch worktree /tmp/seed/<tag> into /verif/seeded/<name>/
T=$1; P=$2; NAME=$3; RES="$4"
D=/verif/seeded/$NAME
mkdir -p $D
cp /tmp/seed/$T/_seed/patch.diff $D/patch.diff
cp /tmp/seed/$T/_seed/demo.py $D/demo.py
for f in /tmp/seed/$T/_seed/*.py; do b=$(basename $f); [ "$b" != demo.py ] && cp $f $D/$b; done
python3 - $T $P $NAME "$RES" <<'PY'
import json, sys
t, p, name, res = sys.argv[1:5]
meta = json.load(open('/tmp/seed/%s/_seed/meta.json' % t))
conf = json.load(open('/tmp/seed/keep/%s.confirm.json' % t))
out = dict(property=p, breaks=meta.get("summary"), files=meta.get("files"), needs=meta.get("needs"),
           confirmed_by_me=dict(demo_exit_on_original=conf["demo_rc_original"], demo_exit_with_change=conf["demo_rc_changed"],
                                suite_passed_with_change=conf["suite_passed"], baseline_tests_missing=conf["baseline_missing"],
                                how="tools_seed_confirm.sh in the sub-agent's scratch worktree (PYTHONPATH = that worktree): demo with the change, demo with the change reverted, full pinned suite with the change applied, pass-set compared with BASELINE.json stable_pass"),
           check_result=res, author="independent sub-agent (rounds 3-10) given only the property text with its mechanism list, a preferred area, and a scratch worktree")
json.dump(out, open('/verif/seeded/%s/meta.json' % name, 'w'), indent=1)
PY
ls $D
