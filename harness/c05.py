"""C05: see harness/coremem.py (whole-core co-simulation + Lean port-level monitors)."""
from harness import coremem

RULE = ("random whole-core configurations (memtype/rate pairs the PHYs offer, 2..8 banks, 1..8 native ports, bank byte alignment, buffer "
        "depths, auto-precharge, refresh with postponing, ZQCS) x per-port structured traffic (hot addresses shared between ports, sequential "
        "walks, random; read/write mixes; byte-enable patchwork; saturation and idle phases); a case = one controller cycle with all port "
        "handshakes, read data and DFI phases compared with the model and fed to the monitors; distinct by (seed, configuration index)")
TRUSTED = ["single rank (the bundled PHY model has one); the PHY is the repo's SDRAMPHYModel (tied to an independent DRAM by C19)",
           "masters keep the contract of the property: command held until accepted, write data offered with the command, read data always accepted"]
ASSUMPTIONS = ["C05: anti-starvation timeouts enabled (read_time, write_time >= 1); read_time = 0 disables the mechanism by configuration"]


def run(tier, seed):
    return coremem.run("C05", tier, seed)


def replay(data, tier, seed):
    return coremem.run("C05", tier, seed)
