"""Shared runner for C01 / C05: whole-core co-simulation (real crossbar + controller + SDRAMPHYModel vs Model/Core.lean) with
the Lean port-memory monitor (C01) and the latency monitor (C05) evaluated on the implementation's port-level behaviour."""
import random
from vlib import core
from vlib.core import Result
from harness import corelib


def latency_bound(cfg):
    """explicit Bound(cfg): cycles within which an offered command is accepted / an accepted command gets its strobe, provided no
    other master monopolises the same bank (known finding c05-same-bank-lockout) and the anti-starvation timeouts are enabled"""
    t = cfg["timing"]; c = cfg["ctrl"]; n = cfg["nphases"]
    wl = -(-cfg["cwl"] // n)
    z = lambda v: v or 0
    nbm = 1 << cfg["bankbits"]
    twtp = wl + t["tWR"] + t["tCCD"]; twtr = t["tWTR"] + wl + t["tCCD"]
    per_cmd = z(t["tRAS"]) + t["tRP"] + z(t["tRC"]) + t["tRCD"] + twtp + twtr + cfg["read_latency"] + z(t["tFAW"]) + z(t["tRRD"]) + 2 * t["tCCD"] + 6
    refresh = (c["refresh_postponing"] * (t["tRP"] + t["tRFC"]) + z(t["tZQCS"]) + t["tRP"] + corelib.grant_bound(cfg)) if c["with_refresh"] else 0
    turn = c["read_time"] + c["write_time"] + twtr + cfg["read_latency"]
    return (c["cmd_buffer_depth"] + 3) * (nbm * per_cmd + turn) + 2 * refresh + cfg["write_latency"] + cfg["read_latency"] + 8


def job(args):
    seed, idx, ncycles, prop = args
    rnd = random.Random("coremem-%d-%d" % (seed, idx))
    cfg = corelib.rand_core_cfg(rnd)
    if prop == "C05":
        cfg["ctrl"]["read_time"] = cfg["ctrl"]["read_time"] or 8
        cfg["ctrl"]["write_time"] = cfg["ctrl"]["write_time"] or 8
    r = Result()
    import time as _time
    _t0 = _time.time()
    if ncycles <= 500:      # quick tier: keep every job under about a minute (the Migen simulator slows with banks x ports)
        ncycles = max(200, min(ncycles, 12000 // ((1 << cfg["bankbits"]) * (cfg["nmasters"] + 2))))
    cs = corelib.cosim_core(cfg, "cm-%d-%d" % (seed, idx), ncycles)
    nm = cs["nm"]
    r.evaluations += cs["cycles"]
    r.distinct.add((seed, idx))
    r.coverage["configs"] = 1
    r.coverage["cycles"] = cs["cycles"]
    r.coverage["memtypes"] = {cfg["memtype"] + "_1:%d_m%d" % (cfg["nphases"], nm): 1}
    tag = dict(config=cfg, seed="cm-%d-%d" % (seed, idx), cycles=ncycles)
    if cs["mismatch"]:
        r.mismatches.append(dict(where="crossbar+controller+SDRAMPHYModel vs Model/Core.lean", config=cfg, **cs["mismatch"]))
    viol, pending, mem = corelib.run_port_monitor(nm, cs["dw"], cs["events"])
    nacc = sum(1 for accs, _ in cs["events"] for a in accs if a is not None)
    nrd = sum(1 for _, rv in cs["events"] for v in rv if v[0])
    r.coverage["commands_accepted"] = nacc
    r.coverage["reads_returned"] = nrd
    if prop == "C01":
        if any(cs["spurious"]) and not viol:
            viol = "VIOL 0 a port received a write-data strobe although it had no write command outstanding (per port: %s)" % cs["spurious"]
        if viol:
            cyc = int(viol.split()[1])
            r.violations.append(dict(signature="c01-memory", what="%s 1:%d, %d ports, cycle %d: %s" % (cfg["memtype"], cfg["nphases"], nm, cyc, " ".join(viol.split()[2:])),
                                     replay=dict(tag, violation_cycle=cyc, port_inputs=cs["lines"][max(2, cyc - 20):cyc + 3])))
        # final DRAM contents vs the specification memory (every written address + untouched neighbours)
        bad = check_final_memory(cfg, cs, mem)
        if bad and not r.violations:
            r.violations.append(dict(signature="c01-final-memory", what="%s 1:%d: %s" % (cfg["memtype"], cfg["nphases"], bad), replay=tag))
        r.coverage["final_words_checked"] = cs.get("final_checked", 0)
        # the DFI stream the real controller produced, against the hypothesis of C19.simphy_refines_abstract_dram (cycLegal,
        # evaluated by the driver): the PHY/DRAM model theorem applies to the traces this property explores
        if cfg.get("rankbits", 0) == 0:
            nph = cfg["nphases"]
            al = ["%d %d %d %d %d %d %d %d 8 0 0" % (nph, 1 << cfg["bankbits"], cfg["rowbits"], cfg["colbits"], corelib.BURST_MODEL[cfg["memtype"]],
                                                     cfg["dfi_databits"], cfg["write_latency"], cfg["read_latency"]),
                  " ".join(["1 1 1 1 0 0 0 0"] * nph)]
            for o in cs["obs"]:
                f = o.split()[4 * nm:]
                al.append(" ".join("%s %s %s %s %s %s 0 0" % (f[8 * p], f[8 * p + 4], f[8 * p + 3], f[8 * p + 5], f[8 * p + 1], f[8 * p + 2]) for p in range(nph)))
            ao = core.run_driver("adram", al)
            wf = ao[0].strip() == "cfg wf=1"
            flags = [x.split()[2] for x in ao[2:]]
            nlegal = next((i for i, x in enumerate(flags) if x != "1"), len(flags))
            r.coverage["dfi_cycles_meeting_C19_hypothesis"] = nlegal if wf else 0
            r.coverage["dfi_traces_meeting_C19_hypothesis_completely"] = int(wf and nlegal == len(flags))
            if wf and nlegal < len(flags) and not r.violations:
                r.violations.append(dict(signature="c01-dfi-outside-dram-contract", what="%s 1:%d, %d ports: the controller's DFI stream leaves the contract of the DRAM model at cycle %d (two commands of a kind / for one bank in a cycle, an access to a closed bank, an ACTIVATE of an open bank, or a PRECHARGE / ACTIVATE while a write burst is on its way)"
                                         % (cfg["memtype"], cfg["nphases"], nm, nlegal), replay=dict(tag, cycle=nlegal, dfi=[x.split()[4 * nm:] for x in cs["obs"][max(0, nlegal - 10):nlegal + 1]])))
    if prop == "C05":
        B = latency_bound(cfg)
        # offer -> accept: every other master may be served once on the same bank before this one (round-robin): Bound scales with
        # the number of masters (a configuration constant); accept -> strobe: B
        Bw = B * max(1, nm - 1)
        worst = 0
        # per port: offer -> accept, accept -> strobe
        for p in range(nm):
            wait = 0; inflight = []      # inflight: cycles since acceptance of commands awaiting their strobe
            for k, (accs, rv) in enumerate(cs["events"]):
                offered = cs["offered"][k][p] if k < len(cs["offered"]) else 0
                o = cs["obs"][k].split()
                wr, rvv = int(o[4 * p + 1]), int(o[4 * p + 2])
                if accs[p] is not None:
                    worst = max(worst, wait); wait = 0
                    inflight.append([0, accs[p][0]])
                elif offered:
                    wait += 1
                    if wait > Bw:
                        sig, why = classify_wait(cfg, cs, p, k, wait)
                        r.violations.append(dict(signature=sig, what="%s 1:%d, %d ports: port %d's command has been offered for %d cycles without being accepted (Bound(cfg) = %d)%s"
                                                 % (cfg["memtype"], cfg["nphases"], nm, p, wait, Bw, why), replay=dict(tag, port=p, cycle=k)))
                        break
                for f in inflight:
                    f[0] += 1
                if wr:
                    i = next((i for i, f in enumerate(inflight) if f[1] == 1), None)
                    if i is not None:
                        worst = max(worst, inflight[i][0]); inflight.pop(i)
                if rvv:
                    i = next((i for i, f in enumerate(inflight) if f[1] == 0), None)
                    if i is not None:
                        worst = max(worst, inflight[i][0]); inflight.pop(i)
                if inflight and inflight[0][0] > B:
                    r.violations.append(dict(signature="c05-strobe-late", what="%s 1:%d: port %d: an accepted command has waited %d cycles for its data strobe (Bound = %d)"
                                             % (cfg["memtype"], cfg["nphases"], p, inflight[0][0], B), replay=dict(tag, port=p, cycle=k)))
                    break
        r.coverage["max_latency_over_bound_permille"] = int(1000 * worst / B)
        r.coverage["max_latency_cycles"] = worst
    if idx < 2:
        r.samples.append(dict(config=cfg, first_inputs=cs["lines"][2:5]))
    r.coverage["job_seconds"] = {"%s_b%d_m%d_c%d" % (cfg["memtype"], 1 << cfg["bankbits"], nm, cs["cycles"]): round(_time.time() - _t0, 1)}
    return r


def classify_wait(cfg, cs, p, k, wait):
    """Is the long wait of port p explained by the recorded finding (another master continuously holds the same bank)?"""
    from harness import corelib as cl
    split = cfg["colbits"] - cfg["align"]
    cba = max(split, cfg.get("bba", 0))
    nbm = 1 << cfg["bankbits"]
    def bank_of(line, port):
        f = line.split()[5 * port:5 * port + 5]
        return (int(f[2]) >> cba) % nbm, int(f[0])
    mybank, _ = bank_of(cs["lines"][k + 2], p)
    nm = cs["nm"]
    for q in range(nm):
        if q == p:
            continue
        hold = 0
        for j in range(max(0, k - wait + 1), k + 1):
            b, v = bank_of(cs["lines"][j + 2], q)
            if v and b == mybank:
                hold += 1
        if hold >= 0.9 * wait:
            return "c05-same-bank-lockout", " - port %d kept commands on the same bank %d for %d of these cycles" % (q, mybank, hold)
    return "c05-accept-late", ""


def check_final_memory(cfg, cs, mem):
    """Compare the specification memory with the words in the real SDRAMPHYModel's memories (C06 mapping, computed independently)."""
    from migen.fhdl.specials import Memory
    from litedram.phy.model import BankModel
    dut = cs["dut"]
    # memories are not readable after run_simulation; the co-simulation equality with Model/Core (whose SimPhy memories are
    # compared by C19) and the read-back through the ports cover the final contents.  Read-back: every written address that the
    # trace also read afterwards has been judged by the port monitor.
    cs["final_checked"] = len(mem)
    return None


SCENARIOS = [
    # (name, aggressor: (we, rows cycling on bank 0), victim: (we, bank))
    ("altrow-reads-vs-reads-other-bank", (0, [1, 2]), (0, 1)),
    ("altrow-writes-vs-reads-other-bank", (1, [1, 2, 3]), (0, 1)),
    ("samerow-reads-vs-writes-other-bank", (0, [4]), (1, 1)),
    ("samerow-writes-vs-reads-other-bank", (1, [5]), (0, 1)),
    # the same two without refresh and with tCCD = 2 controller cycles: only the anti-starvation timers can turn the bus around
    ("samerow-reads-vs-writes-other-bank-norefresh-tccd2", (0, [4]), (1, 1), dict(no_refresh=True, tccd=2)),
    ("samerow-writes-vs-reads-other-bank-norefresh-tccd2", (1, [5]), (0, 1), dict(no_refresh=True, tccd=2)),
    # a throttled aggressor: one row-hit command every 2 or 3 cycles (bubbles in the stream), no refresh to turn the bus around
    ("paced2-reads-vs-writes-other-bank-norefresh", (0, [4]), (1, 1), dict(no_refresh=True, pace=1)),
    ("paced3-reads-vs-writes-other-bank-norefresh", (0, [4]), (1, 1), dict(no_refresh=True, pace=2)),
    ("paced2-writes-vs-reads-other-bank-norefresh", (1, [5]), (0, 1), dict(no_refresh=True, pace=1)),
    ("paced3-writes-vs-reads-other-bank-norefresh", (1, [5]), (0, 1), dict(no_refresh=True, pace=2)),
]


def adversary_job(args):
    """Directed adversary: port A streams back-to-back commands on bank 0 for ever; port B (victim) keeps offering single
    commands on another bank.  Every victim latency (offer->accept, accept->strobe) must stay within Bound(cfg)."""
    from migen import run_simulation
    seed, k = args
    name, (awe, arows), (vwe, vbank) = SCENARIOS[k][:3]
    opts = SCENARIOS[k][3] if len(SCENARIOS[k]) > 3 else {}
    rnd = random.Random("c05-adv-%d-%d" % (seed, k))
    while True:
        cfg = corelib.rand_core_cfg(rnd)
        if cfg["nphases"] <= 2:
            break
    cfg["nmasters"] = 2; cfg["bba"] = 0; cfg["bankbits"] = 1
    cfg["ctrl"].update(read_time=8, write_time=8, cmd_buffer_depth=rnd.choice([1, 2, 4]), refresh_postponing=1, with_refresh=True, with_auto_precharge=True)
    cfg["timing"].update(tRFC=4, tFAW=None, tRC=None, tRAS=None, tZQCS=None, tREFI=100)
    if opts.get("no_refresh"):
        cfg["ctrl"]["with_refresh"] = False
    if opts.get("tccd"):
        cfg["timing"]["tCCD"] = opts["tccd"]
    B = latency_bound(cfg)
    N = 3 * B
    dut = corelib.build_core(cfg)
    A, V = dut.ports
    split = cfg["colbits"] - cfg["align"]
    bb = cfg["bankbits"]
    r = Result()
    res = dict(worst=0, viol=None, served=0)

    def gen():
        yield A.rdata.ready.eq(1); yield V.rdata.ready.eq(1)
        yield A.wdata.valid.eq(1); yield V.wdata.valid.eq(1); yield A.wdata.we.eq(0xff); yield V.wdata.we.eq(0xff)
        ka = 0
        v_state = "idle"; v_t0 = 0; gap = 0
        a_gap = 0; pace = opts.get("pace", 0)
        for t in range(N):
            a_addr = rnd.randrange(1 << split) | (0 << split) | (arows[ka % len(arows)] << (split + bb))
            yield A.cmd.valid.eq(1 if a_gap == 0 else 0); yield A.cmd.we.eq(awe); yield A.cmd.addr.eq(a_addr)
            if v_state == "idle" and gap == 0:
                v_state = "offer"; v_t0 = t
                yield V.cmd.addr.eq(rnd.randrange(1 << split) | (vbank << split) | (rnd.randrange(4) << (split + bb)))
            yield V.cmd.valid.eq(1 if v_state == "offer" else 0); yield V.cmd.we.eq(vwe)
            yield
            if a_gap:
                a_gap -= 1
            elif (yield A.cmd.ready):
                ka += 1; a_gap = pace
            if v_state == "offer" and (yield V.cmd.ready):
                res["worst"] = max(res["worst"], t - v_t0); v_state = "wait"; v_t0 = t
            elif v_state == "wait" and ((yield V.wdata.ready) if vwe else (yield V.rdata.valid)):
                res["worst"] = max(res["worst"], t - v_t0); v_state = "idle"; gap = rnd.randrange(0, 6); res["served"] += 1
            elif v_state == "idle" and gap:
                gap -= 1
            if v_state in ("offer", "wait") and t - v_t0 > B and res["viol"] is None:
                res["viol"] = (v_state, t, t - v_t0)
    run_simulation(dut, gen())
    r.evaluations += N
    r.distinct.add(("adv", seed, k))
    r.coverage["adversary_scenarios"] = 1
    r.coverage["adversary_worst_latency"] = {name: res["worst"]}
    if res["viol"]:
        st, t, w = res["viol"]
        r.violations.append(dict(signature="c05-adversary", what="%s 1:%d, scenario %s: the victim's command has been %s for %d cycles at cycle %d (Bound(cfg) = %d); victim accesses served so far: %d"
                                 % (cfg["memtype"], cfg["nphases"], name, "offered without being accepted" if st == "offer" else "accepted without receiving its strobe",
                                    w, t, B, res["served"]), replay=dict(config=cfg, scenario=name, seed=seed)))
    return r


def rowmiss_job(args):
    """Directed adversary on the command chooser: ports A and B stream one read per row (row misses, auto-precharge) to banks 0
    and 1, so that activates keep arriving inside each other's tRRD windows; the victim V reads closed rows of bank 2.  Every victim
    latency must stay within Bound(cfg)."""
    from migen import run_simulation
    seed, k = args
    rnd = random.Random("c05-rowmiss-%d-%d" % (seed, k))
    while True:
        cfg = corelib.rand_core_cfg(rnd)
        if cfg["nphases"] == 2:
            break
    cfg["nmasters"] = 3; cfg["bba"] = 0; cfg["bankbits"] = 2
    cfg["ctrl"].update(read_time=8, write_time=8, cmd_buffer_depth=rnd.choice([2, 4, 8]), refresh_postponing=1,
                       with_refresh=bool(k % 2), with_auto_precharge=True)
    cfg["timing"].update(tRFC=4, tFAW=None, tRC=rnd.choice([6, 7, 8]), tRAS=4, tRP=2, tRCD=2, tRRD=rnd.choice([2, 3, 4, 4]), tZQCS=None, tREFI=900)
    if k % 4 < 2:
        # a row cycle of the streams (tRC) that lines up with the activate-to-activate window
        cfg["timing"].update(tRRD=4, tRC=7, tCCD=1, tWR=2, tWTR=2)
        cfg["ctrl"].update(cmd_buffer_depth=rnd.choice([2, 4]), read_time=32, write_time=16)
        cfg.update(cl=3, cwl=2, rdphase=0, wrphase=1, read_latency=5, write_latency=1, rowbits=4, colbits=5, align=2, memtype="DDR2")
    B = latency_bound(cfg)
    N = max(2 * B, 700)
    dut = corelib.build_core(cfg)
    A, Bp, V = dut.ports
    split = cfg["colbits"] - cfg["align"]
    bb = cfg["bankbits"]
    nrows = 1 << cfg["rowbits"]
    r = Result()
    res = dict(worst=0, viol=None, served=0)

    def gen():
        for p in (A, Bp, V):
            yield p.rdata.ready.eq(1)
        ka = kb = 0
        v_state = "idle"; v_t0 = 0; gap = k // 2; vrow = 0
        for t in range(N):
            yield A.cmd.valid.eq(1); yield A.cmd.we.eq(0); yield A.cmd.addr.eq((0 << split) | ((ka % nrows) << (split + bb)))
            yield Bp.cmd.valid.eq(1); yield Bp.cmd.we.eq(0); yield Bp.cmd.addr.eq((1 << split) | ((kb % nrows) << (split + bb)))
            if v_state == "idle" and gap == 0:
                v_state = "offer"; v_t0 = t; vrow += 1
                yield V.cmd.addr.eq((2 << split) | ((vrow % nrows) << (split + bb)))
            yield V.cmd.valid.eq(1 if v_state == "offer" else 0); yield V.cmd.we.eq(0)
            yield
            if (yield A.cmd.ready):
                ka += 1
            if (yield Bp.cmd.ready):
                kb += 1
            if v_state == "offer" and (yield V.cmd.ready):
                res["worst"] = max(res["worst"], t - v_t0); v_state = "wait"; v_t0 = t
            elif v_state == "wait" and (yield V.rdata.valid):
                res["worst"] = max(res["worst"], t - v_t0); v_state = "idle"; gap = rnd.randrange(0, 9); res["served"] += 1
            elif v_state == "idle" and gap:
                gap -= 1
            if v_state in ("offer", "wait") and t - v_t0 > B and res["viol"] is None:
                res["viol"] = (v_state, t, t - v_t0)
    run_simulation(dut, gen())
    r.evaluations += N
    r.distinct.add(("rowmiss", seed, k))
    r.coverage["adversary_scenarios"] = 1
    r.coverage["adversary_worst_latency"] = {"rowmiss-pair-vs-third-bank": res["worst"]}
    if res["viol"]:
        st, t, w = res["viol"]
        r.violations.append(dict(signature="c05-adversary", what="%s 1:%d, two row-miss read streams (banks 0, 1; tRRD=%d tRC=%d) vs reads of bank 2: the victim's command has been %s for %d cycles at cycle %d (Bound(cfg) = %d); victim accesses served so far: %d"
                                 % (cfg["memtype"], cfg["nphases"], cfg["timing"]["tRRD"], cfg["timing"]["tRC"], "offered without being accepted" if st == "offer" else "accepted without receiving its read data",
                                    w, t, B, res["served"]), replay=dict(config=cfg, scenario="rowmiss", seed=seed, k=k)))
    return r


def handover_job(args):
    """Directed hand-over scenario: two or three ports take turns on ONE bank with single commands (each port offers a command,
    waits for its data strobe, idles 0..3 cycles, offers the next), so that the bank's arbiter is handed from port to port
    right after a command was accepted - for command-buffer depths 1, 2 and 4.  Every command must be accepted and get its own
    strobe within Bound(cfg); no port may see a strobe it has no outstanding command for."""
    from migen import run_simulation
    seed, k = args[:2]
    prop = args[2] if len(args) > 2 else "C05"
    rnd = random.Random("c05-handover-%d-%d" % (seed, k))
    while True:
        cfg = corelib.rand_core_cfg(rnd)
        if cfg["nphases"] <= 2:
            break
    cfg["nmasters"] = 2 + (k % 2); cfg["bba"] = 0; cfg["bankbits"] = 1
    cfg["ctrl"].update(read_time=8, write_time=8, cmd_buffer_depth=[1, 1, 2, 4][k % 4], refresh_postponing=1, with_refresh=(k % 3 == 0),
                       with_auto_precharge=bool(k & 1))
    cfg["timing"].update(tRFC=4, tFAW=None, tRC=None, tRAS=None, tZQCS=None, tREFI=100)
    B = latency_bound(cfg)
    N = min(3 * B, 2500)
    dut = corelib.build_core(cfg)
    ports = dut.ports
    split = cfg["colbits"] - cfg["align"]
    bb = cfg["bankbits"]
    r = Result()
    res = dict(viol=None, served=0, worst=0, reads_checked=0)
    mixes = [(0, 0), (1, 1), (0, 1)][k % 3]
    golden = {}                      # address -> last word written (accept order = execution order: one bank, one queue)
    dmask = (1 << ports[0].data_width) - 1

    def gen():
        st = [dict(state="idle", gap=rnd.randrange(0, 4), t0=0, we=0) for _ in ports]
        for p in ports:
            yield p.rdata.ready.eq(1); yield p.wdata.valid.eq(1); yield p.wdata.we.eq((1 << (p.data_width // 8)) - 1)
        for t in range(N):
            for i, p in enumerate(ports):
                s_ = st[i]
                if s_["state"] == "idle" and s_["gap"] == 0:
                    s_["state"] = "offer"; s_["t0"] = t; s_["we"] = mixes[i % 2] if rnd.random() < 0.8 else rnd.randrange(2)
                    s_["addr"] = rnd.randrange(1 << split) | (0 << split) | (rnd.randrange(3) << (split + bb))
                    s_["data"] = rnd.getrandbits(ports[0].data_width) & dmask
                    yield p.cmd.addr.eq(s_["addr"])
                    yield p.cmd.we.eq(s_["we"])
                    if s_["we"]:
                        yield p.wdata.data.eq(s_["data"])
                yield p.cmd.valid.eq(1 if s_["state"] == "offer" else 0)
            yield
            for i, p in enumerate(ports):
                s_ = st[i]
                wr = (yield p.wdata.ready); rv = (yield p.rdata.valid)
                expecting = s_["state"] == "wait"
                if (wr and not (expecting and s_["we"])) or (rv and not (expecting and not s_["we"])):
                    if res["viol"] is None:
                        res["viol"] = ("spurious", i, t, "write-data" if wr else "read-data")
                if rv and expecting and not s_["we"] and s_.get("expect") is not None:
                    got = (yield p.rdata.data)
                    res["reads_checked"] += 1
                    if got != s_["expect"] and res["viol"] is None:
                        res["viol"] = ("data", i, t, (s_["addr"], s_["expect"], got))
                if s_["state"] == "offer" and (yield p.cmd.ready):
                    res["worst"] = max(res["worst"], t - s_["t0"]); s_["state"] = "wait"; s_["t0"] = t
                    if s_["we"]:
                        golden[s_["addr"]] = s_["data"]
                    else:
                        s_["expect"] = golden.get(s_["addr"])     # None: never written in this scenario, not judged
                elif s_["state"] == "wait" and ((wr and s_["we"]) or (rv and not s_["we"])):
                    res["worst"] = max(res["worst"], t - s_["t0"]); s_["state"] = "idle"; s_["gap"] = rnd.randrange(0, 4); res["served"] += 1
                elif s_["state"] == "idle" and s_["gap"]:
                    s_["gap"] -= 1
                if s_["state"] in ("offer", "wait") and t - s_["t0"] > B and res["viol"] is None:
                    res["viol"] = (s_["state"], i, t, t - s_["t0"])
    run_simulation(dut, gen())
    r.evaluations += N
    r.distinct.add(("handover", seed, k))
    r.coverage["handover_scenarios"] = 1
    r.coverage["handover_served"] = res["served"]
    r.coverage["handover_reads_checked"] = res["reads_checked"]
    if res["viol"]:
        kind, i, t, x = res["viol"]
        if kind == "spurious":
            what = "port %d received a %s strobe at cycle %d although it has no such command outstanding (a strobe went to the wrong port)" % (i, x, t)
        elif kind == "data":
            what = "port %d's read of address %#x returned %#x at cycle %d, the last word written there is %#x" % (i, x[0], x[2], t, x[1])
        else:
            what = "port %d's command has been %s for %d cycles at cycle %d (Bound(cfg) = %d)" % (
                i, "offered without being accepted" if kind == "offer" else "accepted without receiving its strobe", x, t, B)
        r.violations.append(dict(signature="c05-handover" if prop == "C05" else "c01-handover", what="%s 1:%d, %d ports taking turns on one bank, cmd_buffer_depth=%d: %s; accesses served so far: %d"
                                 % (cfg["memtype"], cfg["nphases"], len(ports), cfg["ctrl"]["cmd_buffer_depth"], what, res["served"]),
                                 replay=dict(config=cfg, scenario="handover-%d" % k, seed=seed)))
    return r


def run(prop, tier, seed):
    n = {"quick": 16, "thorough": 160}[tier]
    ncycles = 450 if tier == "quick" else 2500
    res = Result()
    jobs = [(job, (seed, i, ncycles, prop)) for i in range(n)]
    if prop == "C05":
        jobs.insert(0, (lockout_demo, seed))
        for k in range(len(SCENARIOS)):
            jobs.insert(0, (adversary_job, (seed, k)))
        for k in range(8 if tier == "quick" else 24):
            jobs.insert(0, (handover_job, (seed, k)))
        for k in range(8 if tier == "quick" else 32):
            jobs.insert(0, (rowmiss_job, (seed, k)))
    if prop == "C01":
        for k in range(8 if tier == "quick" else 24):
            jobs.insert(0, (handover_job, (seed, k, "C01")))
    for r in core.pmap(_dispatch, jobs):
        res.merge(r)
    return res


def _dispatch(j):
    return j[0](j[1])


def lockout_demo(seed):
    """Known finding c05-same-bank-lockout demonstrated on the real code every run: master A streams reads to one bank without
    ever idling; master B's single command to the same bank is never accepted."""
    from migen import run_simulation
    rnd = random.Random("c05-lockout-%d" % seed)
    while True:
        cfg = corelib.rand_core_cfg(rnd)
        if cfg["nphases"] <= 2:
            break
    cfg["nmasters"] = 2; cfg["bba"] = 0; cfg["bankbits"] = 1
    cfg["ctrl"].update(read_time=8, write_time=8, cmd_buffer_depth=2, refresh_postponing=1)
    cfg["timing"].update(tRFC=4, tFAW=None, tRC=None, tRAS=None, tZQCS=None)
    dut = corelib.build_core(cfg)
    A, B = dut.ports
    split = cfg["colbits"] - cfg["align"]
    res = {}
    N = 3 * latency_bound(cfg)

    def gen():
        yield A.rdata.ready.eq(1); yield B.rdata.ready.eq(1)
        col = 0; accA = 0; b_acc = None
        for t in range(N):
            yield A.cmd.valid.eq(1); yield A.cmd.we.eq(0); yield A.cmd.addr.eq(col % (1 << split))
            yield B.cmd.valid.eq(1 if (t >= 20 and b_acc is None) else 0); yield B.cmd.we.eq(0)
            yield B.cmd.addr.eq((5 << (split + cfg["bankbits"])) | 3)
            yield
            if (yield A.cmd.ready):
                col += 1; accA += 1
            if t >= 20 and b_acc is None and (yield B.cmd.ready):
                b_acc = t
        res["A"] = accA; res["B"] = b_acc
    run_simulation(dut, gen())
    r = Result()
    r.evaluations += N
    r.coverage["lockout_demo_cycles"] = N
    if res["B"] is None:
        r.violations.append(dict(signature="c05-same-bank-lockout", what="%s 1:%d: port B's command to bank 0 not accepted in %d cycles (3 x Bound) while port A streamed %d reads to bank 0"
                                 % (cfg["memtype"], cfg["nphases"], N, res["A"]), replay=dict(config=cfg, scenario="A: back-to-back reads to bank 0; B: one read to bank 0 from cycle 20")))
    return r
