"""C18.
A  real DFIInjector (CSR shims) vs Model/Injector.lean: random values on the controller-side, external and PHY-side DFI, random CSR
   writes (control, phase-injector command/address/data, command_issue strobes), mode switches at random cycles; every master/slave
   signal compared every cycle; transparency / isolation judged directly on the implementation.
B  real DFIRateConverter (two phase-aligned clocks) vs Model/RateConv.lean for ratios 2 and 4, 1/2/4 PHY phases, all write/read delays;
   the specification monitor Spec/RateSpec (command latency / phase order, write and read data windows) is evaluated on the
   implementation's two interfaces."""
import random, itertools
from vlib import core, shims
from vlib.core import Result

RULE = ("injector: nranks 1..2 x clam-shell x 1..4 phases, random DFI values and CSR activity, mode switches; converter: ratio {2,4} x PHY "
        "phases {1,2,4} x write_delay x read_delay, fresh random commands/data every slow cycle and random PHY read data every fast cycle; "
        "a case = one clock cycle with all signals of both interfaces; distinct by (config, cycle); all non-trivial")
TRUSTED = ["LiteX CSR elaboration shims (vlib/shims.py) to construct DFIInjector", "vendor serialisers are out of scope (behavioural Serializer/Deserializer of the repo are modelled)"]
ASSUMPTIONS = ["clk and clkdiv are phase aligned (as the converter's documentation requires)"]

M2S = ["address", "bank", "cas_n", "cs_n", "ras_n", "we_n", "cke", "odt", "reset_n", "act_n", "wrdata", "wrdata_en", "wrdata_mask", "rddata_en"]


def job_injector(args):
    nranks, clam, nph, tier, seed = args
    shims.install()
    from migen import run_simulation
    from litedram.dfii import DFIInjector
    rnd = random.Random("c18i-%d-%d-%d-%d" % (seed, nranks, clam, nph))
    r = Result()
    abits, bbits, dbits = 13, 3, 16
    dut = DFIInjector(abits, bbits, nranks, dbits, nphases=nph, is_clam_shell=bool(clam))
    shims.finalize_csrs(dut)
    for p in range(nph):
        shims.finalize_csrs(getattr(dut, "pi%d" % p))
    mr = nranks * (2 if clam else 1)
    widths = dict(address=abits, bank=bbits, cas_n=1, cs_n=nranks, ras_n=1, we_n=1, cke=nranks, odt=nranks, reset_n=1, act_n=1,
                  wrdata=dbits, wrdata_en=1, wrdata_mask=dbits // 8, rddata_en=1)
    ncyc = 300 if tier == "quick" else 2500
    lines = ["%d %d %d" % (nranks, clam, nph)]
    obs = []
    ctrl = dict(sel=1, cke=0, odt=0, reset_n=0, ext=0)

    def gen():
        for t in range(ncyc):
            o = []
            for p in range(nph):
                mp = dut.master.phases[p]
                for n in M2S:
                    o.append((yield getattr(mp, n)))
                sp = dut.slave.phases[p]; ep = dut.ext_dfi.phases[p]
                o += [(yield sp.rddata), (yield sp.rddata_valid), (yield ep.rddata), (yield ep.rddata_valid)]
                o.append((yield getattr(dut, "pi%d" % p)._rddata.status))
            obs.append(" ".join(map(str, o)))
            if rnd.random() < 0.08:
                ctrl["sel"] ^= 1
            if rnd.random() < 0.05:
                ctrl["ext"] ^= 1
            if rnd.random() < 0.2:
                ctrl.update(cke=rnd.randrange(2), odt=rnd.randrange(2), reset_n=rnd.randrange(2))
            yield dut._control.storage.eq(ctrl["sel"] | (ctrl["cke"] << 1) | (ctrl["odt"] << 2) | (ctrl["reset_n"] << 3))
            yield dut.ext_dfi_sel.eq(ctrl["ext"])
            row = [ctrl["sel"], ctrl["cke"], ctrl["odt"], ctrl["reset_n"], ctrl["ext"]]
            for p in range(nph):
                pi = getattr(dut, "pi%d" % p)
                cf = pi._command.fields
                v = [rnd.randrange(2) for _ in range(6)]
                top, bot = (rnd.randrange(2), rnd.randrange(2)) if clam else (0, 0)
                issue = int(rnd.random() < 0.4)
                a, b, w = rnd.getrandbits(abits), rnd.getrandbits(bbits), rnd.getrandbits(dbits)
                yield pi._command.storage.eq(sum(x << k for k, x in enumerate(v)) | (top << 6) | (bot << 7))
                yield pi._command_issue.re.eq(issue)
                yield pi._address.storage.eq(a); yield pi._baddress.storage.eq(b); yield pi._wrdata.storage.eq(w)
                row += v + [top, bot, issue, a, b, w]
                for iface in (dut.slave, dut.ext_dfi):
                    ph = iface.phases[p]
                    for n in M2S:
                        x = rnd.getrandbits(widths[n])
                        yield getattr(ph, n).eq(x); row.append(x)
                rd, rv = rnd.getrandbits(dbits), rnd.randrange(2)
                yield dut.master.phases[p].rddata.eq(rd); yield dut.master.phases[p].rddata_valid.eq(rv)
                row += [rd, rv]
            lines.append(" ".join(map(str, row)))
            yield
    run_simulation(dut, gen())
    # lead line = reset values of every input (sel=1 hardware mode, DFI idle levels)
    idle = [0, 0, 1, (1 << nranks) - 1, 1, 1, 0, 0, 0, 1, 0, 0, 0, 0]
    lead = [1, 0, 0, 0, 0] + ([0] * 12 + idle + idle + [0, 0]) * nph
    mo = core.run_driver("injector", [lines[0], " ".join(map(str, lead))] + lines[1:])[1:]
    per = 14 + 5
    for i in range(min(len(mo), len(obs))):
        r.evaluations += 1
        r.distinct.add((nranks, clam, nph, i))
        if mo[i] != obs[i]:
            a, b = obs[i].split(), mo[i].split()
            k = next(j for j in range(len(a)) if a[j] != b[j])
            r.mismatches.append(dict(where="DFIInjector vs Model/Injector.lean", config=dict(nranks=nranks, clam_shell=clam, nphases=nph), cycle=i,
                                     signal="phase %d %s" % (k // per, (M2S + ["slave.rddata", "slave.rddata_valid", "ext.rddata", "ext.rddata_valid", "pi.rddata"])[k % per]),
                                     impl=a[k], model=b[k], input=lines[i][:200]))
            break
    # transparency / isolation judged on the implementation alone (whatever the model says): inputs of iteration i-1 produced obs[i]
    for i in range(1, len(obs)):
        inp = list(map(int, lines[i].split()))
        sel, ext = inp[0], inp[4]
        o = list(map(int, obs[i].split()))
        r.evaluations += 1
        for p in range(nph):
            base = 5 + p * (12 + 14 + 14 + 2)
            slave = inp[base + 12: base + 26]; rd = inp[base + 40: base + 42]
            m = o[p * per: p * per + 14]; srd = o[p * per + 14: p * per + 16]
            want = list(slave)
            if clam:
                want[3] = slave[3] | (slave[3] << nranks)
            if sel and not ext:
                if m != want or srd != rd:
                    r.violations.append(dict(signature="c18-hw-not-transparent", what="injector (nranks=%d clam=%d): hardware mode, phase %d: PHY side sees %s for controller %s; read data back %s for %s"
                                             % (nranks, clam, p, m, want, srd, rd), replay=dict(cycle=i, line=lines[i][:300])))
                    return r
            elif not sel:
                # software mode: the controller's (fresh random) command, address and data must not appear at the PHY, nor the PHY's
                # read data at the controller
                if m == want or (rd[1] and srd == rd):
                    r.violations.append(dict(signature="c18-sw-not-isolated", what="injector (nranks=%d clam=%d): software mode, phase %d: the controller's DFI %s reaches the PHY / read data %s reaches the controller"
                                             % (nranks, clam, p, want, srd), replay=dict(cycle=i, line=lines[i][:300])))
                    return r
    r.coverage["injector_runs"] = 1
    return r


def job_rate(args):
    ratio, nph, wd, rd_, tier, seed = args
    from migen import Module, run_simulation
    from litedram.phy.dfi import Interface, DFIRateConverter
    rnd = random.Random("c18r-%d-%d-%d-%d-%d" % (seed, ratio, nph, wd, rd_))
    r = Result()
    dbits = 8 * ratio * rnd.choice([1, 2])
    phy_dfi = Interface(13, 3, 1, dbits, nphases=nph)

    class Dut(Module):
        def __init__(s):
            s.submodules.conv = DFIRateConverter(phy_dfi, clkdiv="sys", clk="sys%dx" % ratio, ratio=ratio, write_delay=wd, read_delay=rd_)
            s.dfi = s.conv.dfi; s.phy = phy_dfi
    dut = Dut()
    ns = ratio * nph
    names = ["address", "bank", "cas_n", "cs_n", "ras_n", "we_n", "cke", "odt", "reset_n", "act_n", "wrdata_en", "rddata_en"]
    widths = [13, 3, 1, 1, 1, 1, 1, 1, 1, 1, 1, 1]
    nfast = 160 if tier == "quick" else 1200
    ins, obs = [], []
    state = dict(cur=None)

    def gen():
        for k in range(nfast):
            o = []
            for p in dut.phy.phases:
                for n in names:
                    o.append((yield getattr(p, n)))
                o.append((yield p.wrdata)); o.append((yield p.wrdata_mask))
            for p in dut.dfi.phases:
                o.append((yield p.rddata)); o.append((yield p.rddata_valid))
            obs.append(o)
            if k % ratio == 0 or state["cur"] is None:
                idle = rnd.random() < 0.2
                state["cur"] = [[rnd.getrandbits(w) for w in widths] + [rnd.getrandbits(dbits // ratio), rnd.getrandbits(dbits // ratio // 8)] for _ in range(ns)]
                for p, v in zip(dut.dfi.phases, state["cur"]):
                    for n, x in zip(names, v[:12]):
                        yield getattr(p, n).eq(x)
                    yield p.wrdata.eq(v[12]); yield p.wrdata_mask.eq(v[13])
            rd = [(rnd.getrandbits(dbits), rnd.getrandbits(1)) for _ in range(nph)]
            for p, (d, v) in zip(dut.phy.phases, rd):
                yield p.rddata.eq(d); yield p.rddata_valid.eq(v)
            ins.append([x for v in state["cur"] for x in v] + [x for q in rd for x in q])
            yield
    run_simulation(dut, {"sys%dx" % ratio: [gen()]}, clocks={"sys": (4 * ratio, 2 * ratio - 1), "sys%dx" % ratio: (4, 1)})
    cfgl = "%d %d %d %d %d" % (ratio, nph, wd, rd_, dbits)
    lead = [x for _ in range(ns) for x in [0, 0, 1, 1, 1, 1, 0, 0, 0, 1, 0, 0, 0, 0]] + [0, 0] * nph
    body = [lead] + ins                                   # body[e] = what fast edge e samples (DESIGN §3.2: writes land after the edge)
    L = [cfgl] + [("1 " if e % ratio == 0 else "0 ") + " ".join(map(str, b)) for e, b in enumerate(body)]
    mo = core.run_driver("rateconv", L)[1:]
    for i in range(min(len(mo), len(obs))):
        r.evaluations += 1
        r.distinct.add((ratio, nph, wd, rd_, i))
        ims = " ".join(map(str, obs[i]))
        if mo[i] != ims:
            r.mismatches.append(dict(where="DFIRateConverter vs Model/RateConv.lean", config=dict(ratio=ratio, phy_phases=nph, write_delay=wd, read_delay=rd_, databits=dbits),
                                     fast_cycle=i, impl=ims[:300], model=mo[i][:300]))
            break
    # specification monitor on the implementation: line e = (sampled at edge e | visible before edge e)
    ml = [cfgl] + [" ".join(map(str, body[e] + obs[e])) for e in range(min(len(body), len(obs)))] + ["999999"]
    verdict = core.run_driver("ratemon", ml)[-1]
    if verdict != "ok":
        r.violations.append(dict(signature="c18-rate", what="rate converter ratio=%d PHY phases=%d write_delay=%d read_delay=%d databits=%d: %s"
                                 % (ratio, nph, wd, rd_, dbits, verdict), replay=dict(ratio=ratio, nph=nph, wd=wd, rd=rd_, dbits=dbits, seed=seed)))
    r.coverage["converter_runs"] = 1
    if wd == 1 and rd_ == 0 and nph == 2:
        r.samples.append(dict(part="converter", ratio=ratio, phy_phases=nph, first_edge_sample=body[1][:20]))
    return r


def _dispatch(j):
    return j[0](j[1])


def run(tier, seed):
    jobs = []
    for nranks, clam, nph in itertools.product((1, 2), (0, 1), (1, 2, 4)):
        jobs.append((job_injector, (nranks, clam, nph, tier, seed)))
    for ratio in (2, 4):
        for nph in (1, 2, 4):
            for wd in range(ratio):
                for rd_ in range(ratio):
                    if tier == "quick" and (wd + rd_ + nph) % 2 == 1 and ratio == 4:
                        continue
                    jobs.append((job_rate, (ratio, nph, wd, rd_, tier, seed)))
    res = Result()
    for r in core.pmap(_dispatch, jobs):
        res.merge(r)
    return res


def replay(data, tier, seed):
    return run(tier, seed)
