"""C15 correspondence and monitors.
A  pure helpers of litex.soc.cores.ecc (compute_m_n, positions, covers) vs the model, k = 1..K
B  real ECCEncoder/ECCDecoder (Migen comb simulation) vs model: clean / all single / double flips / garbage words
C  real LiteDRAMNativePortECCW / ECCR lane logic vs model laneWrite/laneRead
D  real LiteDRAMNativePortECC (CSR shims) cycle-by-cycle counters vs model EccPort.step, plus
   transaction-level SECDED monitor (write, corrupt stored word, read back).
The SECDED contract is evaluated directly on the implementation's outputs in B, C and D."""
import random, itertools
from vlib import core, shims
from vlib.core import Result

RULE = ("per lane width k: random data words x {clean, every single stored-bit flip, double flips (all for k<=16 or thorough, "
        "else a random subset), random garbage stored words}; lane logic and full port: random data/byte-enables/flip sets; "
        "a case = (k, data, flip set); non-trivial = at least one flip or a partial byte enable; distinct by tuple")
TRUSTED = ["LiteX CSR elaboration shims (vlib/shims.py) to construct LiteDRAMNativePortECC on this LiteX/Python",
           "litex.soc.cores.ecc (ECCEncoder/ECCDecoder) is modelled at the semantic level (positions/cover sets), validated exhaustively on its helper functions for k<=128"]
ASSUMPTIONS = ["the reader always accepts returned data (port_from.rdata.ready = 1): a stalled word would be counted once per stalled cycle"]


def viol(r, sig, what, replay):
    if len(r.violations) < 5:
        r.violations.append(dict(signature=sig, what=what, replay=replay))


def mism(r, where, **kw):
    if len(r.mismatches) < 5:
        r.mismatches.append(dict(where=where, **kw))


# ---------------------------------------------------------------------------------------------- A
def part_a(tier):
    from litex.soc.cores.ecc import compute_m_n, compute_syndrome_positions, compute_data_positions, compute_cover_positions
    r = Result()
    ks = list(range(1, 73 if tier == "quick" else 129))
    out = core.run_driver("c15pos", [str(k) for k in ks])
    for k, mo in zip(ks, out):
        m, n = compute_m_n(k)
        sp = compute_syndrome_positions(n)
        covers = "|".join(" ".join(map(str, sorted(compute_cover_positions(n, 2 ** i)))) for i in range(len(sp)))
        im = "%d %d;%s;%s;%s" % (m, n, " ".join(map(str, compute_data_positions(n))), " ".join(map(str, sp)), covers)
        r.evaluations += 1
        r.distinct.add(("pos", k))
        if im != mo:
            mism(r, "ecc helper functions", input=k, impl=im[:300], model=mo[:300])
        if len(compute_data_positions(n)) < k or len(sp) > m:
            viol(r, "c15-room", "compute_m_n(%d) leaves no room for the data bits" % k, dict(k=k))
    r.coverage["helper_ks"] = len(ks)
    return r


# ---------------------------------------------------------------------------------------------- B
def job_b(args):
    k, tier, seed = args
    from migen import Module, run_simulation
    from litex.soc.cores.ecc import ECCEncoder, ECCDecoder, compute_m_n
    rnd = random.Random("c15b-%d-%d" % (seed, k))
    r = Result()
    m, n = compute_m_n(k)
    nb = n + 1

    class Dut(Module):
        def __init__(self):
            self.submodules.enc = ECCEncoder(k)
            self.submodules.dec = ECCDecoder(k)
    dut = Dut()
    big = k > 40
    ndata = (1 if big else 2) if tier == "quick" else 6
    datas = [rnd.getrandbits(k) for _ in range(ndata)] + ([] if (big and tier == "quick") else [0, (1 << k) - 1])
    cases = []   # (data, flips tuple, enable)
    for d in datas:
        cases.append((d, (), 1))
        for p in range(nb):
            cases.append((d, (p,), 1))
        pairs = list(itertools.combinations(range(nb), 2))
        if not (k <= 16 or tier == "thorough"):
            pairs = rnd.sample(pairs, min(len(pairs), 60 if big else 250))
        for pq in pairs:
            cases.append((d, pq, 1))
        cases.append((d, (rnd.randrange(nb),), 0))
    garbage = [rnd.getrandbits(nb) for _ in range((15 if big else 60) if tier == "quick" else 600)]
    enc_out, dec_out = {}, []

    def gen():
        for d in datas:
            yield dut.enc.i.eq(d)
            yield
            enc_out[d] = (yield dut.enc.o)
        for (d, fl, en) in cases:
            w = enc_out[d]
            for p in fl:
                w ^= 1 << p
            yield dut.dec.i.eq(w); yield dut.dec.enable.eq(en)
            yield
            dec_out.append((w, (yield dut.dec.o), (yield dut.dec.sec), (yield dut.dec.ded)))
        for w in garbage:
            en = 1
            yield dut.dec.i.eq(w); yield dut.dec.enable.eq(en)
            yield
            dec_out.append((w, (yield dut.dec.o), (yield dut.dec.sec), (yield dut.dec.ded)))
    run_simulation(dut, gen())
    mo_enc = core.run_driver("c15enc", ["%d %d" % (k, d) for d in datas])
    for d, mo in zip(datas, mo_enc):
        r.evaluations += 1
        if str(enc_out[d]) != mo:
            mism(r, "ECCEncoder", k=k, input=d, impl=enc_out[d], model=mo)
    allcases = cases + [(None, None, 1)] * len(garbage)
    mo_dec = core.run_driver("c15dec", ["%d %d %d" % (k, c[2], w[0]) for c, w in zip(allcases, dec_out)])
    for (d, fl, en), (w, o, sec, ded), mo in zip(allcases, dec_out, mo_dec):
        r.evaluations += 1
        if "%d %d %d" % (o, sec, ded) != mo:
            mism(r, "ECCDecoder", k=k, input=dict(word=w, enable=en, data=d, flips=fl), impl="%d %d %d" % (o, sec, ded), model=mo)
        if d is None or not en:
            continue
        if fl:
            r.distinct.add((k, d, fl))
        rp = dict(k=k, data=d, flips=list(fl), stored=w, out=o, sec=sec, ded=ded)
        if len(fl) == 0 and (o != d or sec or ded):
            viol(r, "c15-clean", "k=%d: clean word %#x decodes to %#x sec=%d ded=%d" % (k, d, o, sec, ded), rp)
        if len(fl) == 1 and (o != d or ded or sec != (1 if fl[0] != 0 else 0)):
            viol(r, "c15-single", "k=%d: single flip of stored bit %d of data %#x gives data %#x sec=%d ded=%d" % (k, fl[0], d, o, sec, ded), rp)
        if len(fl) == 2 and (not ded or sec):
            viol(r, "c15-double", "k=%d: double flip %s of data %#x gives sec=%d ded=%d" % (k, fl, d, sec, ded), rp)
    r.coverage["decoder_cases"] = {"k%d" % k: len(allcases)}
    r.samples.append(dict(k=k, data=datas[0], flips=[3, n], part="B"))
    return r


# ---------------------------------------------------------------------------------------------- C
LANE_CFGS = [(64, 104, 8), (32, 56, 4), (128, 176, 8), (256, 312, 8), (512, 576, 8), (16, 28, 2), (64, 112, 8)]


def job_c(args):
    (wf, wt, lanes), tier, seed = args
    from migen import Module, run_simulation
    from litedram.frontend.ecc import LiteDRAMNativePortECCW, LiteDRAMNativePortECCR
    from litex.soc.cores.ecc import compute_m_n
    rnd = random.Random("c15c-%d-%d-%d" % (seed, wf, wt))
    r = Result()
    kf, kt = wf // lanes, wt // lanes
    m, n = compute_m_n(kf)

    class Dut(Module):
        def __init__(self):
            self.submodules.w = LiteDRAMNativePortECCW(wf, wt, lanes)
            self.submodules.r = LiteDRAMNativePortECCR(wf, wt, lanes)
    dut = Dut()
    N = (80 if wf <= 128 else 10) if tier == "quick" else (600 if wf <= 128 else 80)
    web = wf // 8
    full = (1 << web) - 1
    lane_we_bits = kf // 8
    wcases, rcases, wout, rout = [], [], [], []
    for i in range(N):
        mode = rnd.randrange(5)
        we = [full, 0, rnd.getrandbits(web), full & ~(1 << rnd.randrange(web)), 1 << rnd.randrange(web)][mode]
        wcases.append((rnd.randrange(4) != 0, rnd.getrandbits(wf), we))
    def gen():
        for (v, d, we) in wcases:
            yield dut.w.sink.valid.eq(int(v)); yield dut.w.sink.data.eq(d); yield dut.w.sink.we.eq(we)
            yield
            sd = (yield dut.w.source.data); swe = (yield dut.w.source.we); e = (yield dut.w.we_error)
            wout.append((sd, swe, e))
            # read side: feed the encoded word with per-lane flips
            stored = sd
            fl = []
            for lane in range(lanes):
                nf = rnd.choice([0, 0, 1, 1, 2, 3])
                for p in rnd.sample(range(n + 1), nf):
                    stored ^= 1 << (lane * kt + p); fl.append((lane, p))
            en = rnd.randrange(8) != 0; rv = rnd.randrange(5) != 0
            rcases.append((en, rv, stored, d, fl))
            yield dut.r.enable.eq(int(en)); yield dut.r.sink.valid.eq(int(rv)); yield dut.r.sink.data.eq(stored)
            yield
            rout.append(((yield dut.r.source.data), (yield dut.r.sec), (yield dut.r.ded)))
    run_simulation(dut, gen())
    mo_w = core.run_driver("c15lw", ["%d %d %d %d %d %d" % (lanes, kf, kt, v, d, we) for (v, d, we) in wcases])
    mo_r = core.run_driver("c15lr", ["%d %d %d %d %d %d" % (lanes, kf, kt, en, rv, st) for (en, rv, st, d, fl) in rcases])
    for (v, d, we), (sd, swe, e), mo in zip(wcases, wout, mo_w):
        r.evaluations += 1
        if we != full:
            r.distinct.add(("w", wf, d & 0xffff, we))
        if "%d %d %d" % (sd, swe, e) != mo:
            mism(r, "LiteDRAMNativePortECCW", cfg=(wf, wt, lanes), input=dict(valid=v, data=d, we=we), impl="%d %d %d" % (sd, swe, e), model=mo)
        lanes_we = [(we >> (l * lane_we_bits)) & ((1 << lane_we_bits) - 1) for l in range(lanes)]
        partial = any(x != (1 << lane_we_bits) - 1 for x in lanes_we)
        rp = dict(cfg=[wf, wt, lanes], valid=int(v), we=we, we_error=e)
        if v and e != int(partial):
            if partial:
                viol(r, "c15-we-missed", "cfg %s: write with byte enables %#x (not all bytes of every ECC word) is not reported as granularity error" % ((wf, wt, lanes), we), rp)
            else:
                viol(r, "c15-we-full", "cfg %s: full write (we=%#x) reported as granularity error" % ((wf, wt, lanes), we), rp)
    for (en, rv, st, d, fl), (od, sec, ded), mo in zip(rcases, rout, mo_r):
        r.evaluations += 1
        if fl:
            r.distinct.add(("r", wf, d & 0xffff, tuple(fl)))
        if "%d %d %d" % (od, sec, ded) != mo:
            mism(r, "LiteDRAMNativePortECCR", cfg=(wf, wt, lanes), input=dict(enable=en, valid=rv, stored=st), impl="%d %d %d" % (od, sec, ded), model=mo)
        if en and rv:
            for lane in range(lanes):
                ps = [p for (l, p) in fl if l == lane]
                ld = (d >> (lane * kf)) & ((1 << kf) - 1); lo = (od >> (lane * kf)) & ((1 << kf) - 1)
                s, e = (sec >> lane) & 1, (ded >> lane) & 1
                rp = dict(cfg=[wf, wt, lanes], lane=lane, flips=ps, data=ld, out=lo, sec=s, ded=e)
                if len(ps) <= 1 and (lo != ld or e or s != (1 if ps and ps[0] != 0 else 0)):
                    viol(r, "c15-lane-single", "cfg %s lane %d: flips %s -> data %#x (expected %#x) sec=%d ded=%d" % ((wf, wt, lanes), lane, ps, lo, ld, s, e), rp)
                if len(ps) == 2 and (not e or s):
                    viol(r, "c15-lane-double", "cfg %s lane %d: double flip %s -> sec=%d ded=%d" % ((wf, wt, lanes), lane, ps, s, e), rp)
    r.coverage["lane_cfgs"] = 1
    r.samples.append(dict(cfg=[wf, wt, lanes], we=wcases[1][2], flips=rcases[1][4][:4], part="C"))
    return r


# ---------------------------------------------------------------------------------------------- D
def job_d(args):
    (wf, wt, lanes), tier, seed = args
    shims.install()
    from migen import run_simulation
    from litedram.common import LiteDRAMNativePort
    from litedram.frontend.ecc import LiteDRAMNativePortECC
    from litex.soc.cores.ecc import compute_m_n
    rnd = random.Random("c15d-%d-%d-%d" % (seed, wf, wt))
    r = Result()
    kf, kt = wf // lanes, wt // lanes
    m, n = compute_m_n(kf)
    pf = LiteDRAMNativePort("both", 16, wf); pt = LiteDRAMNativePort("both", 16, wt)
    dut = LiteDRAMNativePortECC(pf, pt, burst_cycles=lanes, with_error_injection=True, with_we_error_detection=True)
    shims.finalize_csrs(dut)
    ncyc = (500 if wf <= 64 else 150) if tier == "quick" else 4000
    full = (1 << (wf // 8)) - 1
    mem = {}
    shadow = {}
    last_write = {}
    fullw = {}
    lines = ["%d %d %d" % (lanes, kf, kt), "0 1 0 0 0 0"]   # cfg + leading idle line (cycle alignment, DESIGN §3.2)
    obs = []
    trans = []   # (addr, data, flips per lane, enable) for reads issued -> expected
    stable = {}
    state = dict(en=1)
    # property-level oracle for the error counters (independent of the Lean model): words returned with a single
    # (non-parity) flip in some lane / with a double flip in some lane since the last clear, while decoding is enabled
    # Judged in the first half of the run, where only full writes (or writes without any byte) are issued: a partial
    # write is outside the contract (ECC words of a lane share bytes with their neighbours) and can store invalid words.
    cnt = dict(sec=0, ded=0, last_resp=-10, events=0)
    half = ncyc // 2

    def gen():
        yield pt.cmd.ready.eq(1); yield pt.wdata.ready.eq(1); yield pf.rdata.ready.eq(1)
        prev = None
        pending_w = []      # addresses of accepted write cmds awaiting data (port_to side)
        rq = []             # read responses scheduled: (cycle, addr, flips)
        expect = []         # reads in flight on the from side: expected data + flips
        stored_last = {}
        for cyc in range(ncyc):
            # ---- observe (state after the edge that consumed the inputs written last iteration)
            if prev is not None:
                o = ((yield dut.sec_errors.status), (yield dut.ded_errors.status), (yield dut.we_errors.status),
                     (yield dut.sec_detected), (yield dut.ded_detected))
                obs.append("%d %d %d %d %d" % o)
            # port_to side behaviour (stub memory): sample what the DUT presented during this cycle
            if (yield pt.cmd.valid):
                a = (yield pt.cmd.addr)
                if (yield pt.cmd.we):
                    pending_w.append(a)
                else:
                    fl = []
                    for lane in range(lanes):
                        for p in rnd.sample(range(n + 1), rnd.choice([0, 0, 0, 1, 1, 2])):
                            fl.append((lane, p))
                    rq.append((cyc + rnd.randint(1, 4), a, fl, shadow.get(a, 0), cyc))
            if (yield pt.wdata.valid) and pending_w:
                a = pending_w.pop(0)
                we_t = (yield pt.wdata.we); d_t = (yield pt.wdata.data)
                old = mem.get(a, 0)
                for b in range(wt // 8):
                    if (we_t >> b) & 1:
                        old = (old & ~(0xff << (8 * b))) | (d_t & (0xff << (8 * b)))
                mem[a] = old
            if (yield pf.rdata.valid) and expect:
                a, want, fl, en = expect.pop(0)
                got = (yield pf.rdata.data)
                trans.append((a, want, fl, en, got))
            # ---- drive next inputs
            # clear / enable only change while no read is in flight, so that the oracle's counts are unambiguous
            calm = (not rq) and (not expect) and cyc - cnt["last_resp"] > 4 and cyc < ncyc - 12 and not (half - 14 <= cyc < half)
            clear = int(calm and rnd.randrange(40) == 0)
            if calm and rnd.randrange(30) == 0:
                state["en"] ^= 1
            if clear and cyc < half:
                cnt["sec"] = 0; cnt["ded"] = 0
            en = state["en"]
            rv, rd = 0, 0
            if rq and rq[0][0] <= cyc:
                _, a, fl, want0, c_seen = rq.pop(0)
                rd = mem.get(a, 0)
                for (lane, p) in fl:
                    rd ^= 1 << (lane * kt + p)
                rv = 1
                cnt["last_resp"] = cyc
                if en and cyc < half:
                    perl = {}
                    for (lane, p) in fl:
                        perl.setdefault(lane, []).append(p)
                    if any(len(v) == 1 and v[0] != 0 for v in perl.values()):
                        cnt["sec"] += 1; cnt["events"] += 1
                    if any(len(v) == 2 for v in perl.values()):
                        cnt["ded"] += 1; cnt["events"] += 1
                quiet = last_write.get(a, -10) < c_seen - 3 and fullw.get(a, False)
                expect.append((a, want0 if quiet else None, fl, en))
            op = rnd.randrange(4) if (cyc < ncyc - 12 and not (half - 14 <= cyc < half)) else 3     # drain what is in flight
            if state.get("burst", 0) > 0:                        # runs of back-to-back reads (responses on consecutive cycles)
                op = 1; state["burst"] -= 1
            elif cyc < ncyc - 24 and not (half - 24 <= cyc < half) and rnd.randrange(25) == 0:
                state["burst"] = rnd.randrange(3, 9)
            wv, wwe, wd, cv, cwe, ca = 0, 0, 0, 0, 0, 0
            if op == 0:
                ca = rnd.randrange(24); cv = 1; cwe = 1; wv = 1
                wwe = rnd.choice([full, full, full, rnd.getrandbits(wf // 8), 0]) if cyc >= half else rnd.choice([full, full, full, 0])
                wd = rnd.getrandbits(wf)
                # ECC granularity: a lane with any byte enabled is stored as a whole ECC word
                sh = shadow.get(ca, 0)
                lb = kf // 8
                for lane in range(lanes):
                    if (wwe >> (lane * lb)) & ((1 << lb) - 1):
                        msk = ((1 << kf) - 1) << (lane * kf)
                        sh = (sh & ~msk) | (wd & msk)
                shadow[ca] = sh
                last_write[ca] = cyc
                # partial writes are outside the contract (stored bits of neighbouring lanes share bytes;
                # that is what we_error reports): only fully written words are judged
                if wwe == full:
                    fullw[ca] = True
                elif wwe != 0:
                    fullw[ca] = False
            elif op == 1:
                ca = rnd.randrange(24); cv = 1; cwe = 0
            yield dut.clear.re.eq(clear); yield dut.clear.r.eq(1)
            yield dut.enable.storage.eq(en)
            yield pt.rdata.valid.eq(rv); yield pt.rdata.data.eq(rd)
            yield pf.cmd.valid.eq(cv); yield pf.cmd.we.eq(cwe); yield pf.cmd.addr.eq(ca)
            yield pf.wdata.valid.eq(wv); yield pf.wdata.we.eq(wwe); yield pf.wdata.data.eq(wd)
            lines.append("%d %d %d %d %d %d" % (clear, en, rv, rd, wv, wwe))
            prev = True
            yield
    run_simulation(dut, gen())
    # registered outputs: obs[j] (read in iteration j+1) is the state after the edge that consumed the
    # inputs written in iteration j-1, i.e. the model's post-step state of line j+1 (cfg=0, idle=1, in_0=2 ...)
    mo = core.run_driver("c15port", lines)[1:]
    nn = min(len(mo), len(obs))
    for i in range(nn):
        r.evaluations += 1
        if mo[i] != obs[i]:
            mism(r, "LiteDRAMNativePortECC counters", cfg=(wf, wt, lanes), cycle=i, input=lines[i + 1], impl=obs[i], model=mo[i])
            break
    # transaction-level SECDED monitor through the whole port (writes in flight at read time may race
    # with the shadow copy: only addresses whose shadow did not change since are judged)
    for (a, want, fl, en, got) in trans:
        perlane = {}
        for (lane, p) in fl:
            perlane.setdefault(lane, []).append(p)
        judged = en and all(len(v) <= 1 for v in perlane.values()) and want is not None
        if judged:
            r.coverage["port_reads_judged"] = r.coverage.get("port_reads_judged", 0) + 1
        if judged and got != want:
            stable.setdefault(a, 0)
            viol(r, "c15-port-data", "cfg %s: read of address %d with flips %s returned %#x, expected %#x" % ((wf, wt, lanes), a, fl, got, want),
                 dict(cfg=[wf, wt, lanes], addr=a, flips=fl, got=got, want=want))
    # counters against the oracle, after everything has drained
    if len(obs) > half:
        fs, fd, _, sdet, ddet = [int(x) for x in obs[half - 2].split()]
        r.coverage["counter_events_judged"] = cnt["events"]
        if (fs, fd) != (cnt["sec"], cnt["ded"]) or sdet != int(cnt["sec"] > 0) or ddet != int(cnt["ded"] > 0):
            viol(r, "c15-counters", "cfg %s: since the last clear %d words with a corrected single flip and %d with a double flip were read "
                 "(decoding enabled); the port reports sec_errors=%d ded_errors=%d sec_detected=%d ded_detected=%d"
                 % ((wf, wt, lanes), cnt["sec"], cnt["ded"], fs, fd, sdet, ddet),
                 dict(cfg=[wf, wt, lanes], expected=dict(sec=cnt["sec"], ded=cnt["ded"]), reported=dict(sec=fs, ded=fd, sec_detected=sdet, ded_detected=ddet),
                      inputs_until_cycle=half, inputs_tail=lines[max(0, half - 60):half]))
    r.coverage["port_cycles"] = nn
    r.coverage["port_reads"] = len(trans)
    r.samples.append(dict(cfg=[wf, wt, lanes], cycle_input=lines[5], counters=obs[3] if len(obs) > 3 else None, part="D"))
    return r


def run(tier, seed):
    res = Result()
    res.merge(part_a(tier))
    ks = [8, 16, 32, 64] + ([3, 11] if tier == "quick" else [1, 2, 3, 4, 5, 7, 11, 12, 24, 26, 27, 57, 58, 72])
    jobs = [(job_b, (k, tier, seed)) for k in ks]
    jobs += [(job_c, (c, tier, seed)) for c in LANE_CFGS]
    jobs += [(job_d, (c, tier, seed)) for c in LANE_CFGS[:4 if tier == "quick" else 7]]
    for r in core.pmap(_dispatch, jobs):
        res.merge(r)
    return res


def _dispatch(j):
    return j[0](j[1])


def replay(data, tier, seed):
    return run(tier, seed)
