"""C08: LiteDRAMNativePortCDC (frontend/adapter.py: three stream.ClockDomainCrossing = migen AsyncFIFO) vs
Model/AsyncFifo.lean, in Migen's two-clock simulation with random period pairs and phases, edge by edge; and the stream
specification (Spec/FifoSpec.lean) per channel on the real module: every command, write word and read word is delivered
exactly once and in order.  Plus the composition `LiteDRAMCrossbar.get_port(clock_domain, data_width)` builds (CDC + width converter
+ real crossbar) over a behavioural controller, judged at the user port against byte-level memory semantics (`getport_job`)."""
import random
from vlib import core
from vlib.core import Result

RULE = ("clock period pairs from {2..30} (equal, integer and non-integer ratios, coprime = drifting) x phases, FIFO depths cmd {4,8}, "
        "wdata/rdata {4,8,16}; traffic: valid held until ready on all three channels with random gaps, random and bursty "
        "back-pressure on the other side; a case = one clock edge of either domain with that domain's outputs compared; "
        "non-trivial = a handshake at that edge; distinct by (run, instant).  get_port scenario: user widths {8..128} on 32/64-bit controllers "
        "(equal, up 2-8x, down 2-8x), same clock pairs, random sub-word writes with byte enables, pauses, cmd.last, interleaved reads, "
        "ordered fills followed by immediate overwrites, one-cycle flush pulses; a case = one read word judged against the bytes most "
        "recently written (or one memory snapshot compared with the sys-domain port)")
TRUSTED = ["Migen's simulator treats MultiReg as two plain registers: metastability and sampling of a changing multi-bit bus are outside the model (that is what the gray code is for)",
           "AsyncResetSynchronizer / with_common_rst is not used by LiteDRAMNativePortCDC and not modelled"]
ASSUMPTIONS = ["stream masters hold valid and payload until ready",
               "get_port scenario: at most 16 controller words of read data outstanding = the CDC's requested rdata_depth (the crossbar cannot be back-pressured on read data); in a quarter of the runs the user takes no read data while a further read may still be issued; a write's data is offered with its command; same-type commands inside one wide word ascend unless separated by cmd.last "
               "(up-converter's documented limitation; in half of the runs only where the converter really merges, the master then holds its "
               "address lines while idle); controller stub: serial, waits for the master's wdata.valid"]


GP_MAX_OUTSTANDING = 16      # controller words of read data a get_port master keeps in flight: the CDC's requested rdata_depth
                             # (what LiteDRAMDMAReader's default fifo_depth reserves)


def mism(r, where, **kw):
    if len(r.mismatches) < 4:
        r.mismatches.append(dict(where=where, **kw))


def rand_cfg(rnd, idx):
    pu, ps = rnd.choice([(4, 4), (4, 8), (8, 4), (6, 10), (10, 6), (2, 14), (14, 2), (6, 8), (8, 6), (10, 14), (4, 30), (30, 4), (12, 12)])
    return dict(pu=pu, phu=rnd.randrange(pu), ps=ps, phs=rnd.randrange(ps), kcmd=rnd.choice([2, 2, 3]), kw=rnd.choice([2, 3, 4]), kr=rnd.choice([2, 3, 4]),
                aw=rnd.choice([6, 12, 24]), dw=rnd.choice([8, 16, 32]), pattern=idx % 4)


def schedule(c, nsteps):
    from migen.sim.core import TimeManager
    tm = TimeManager({"sys": (c["ps"], c["phs"]), "usr": (c["pu"], c["phu"])})
    out = []
    while len(out) < nsteps:
        dt, rising, falling = tm.tick()
        if rising:
            out.append((("usr" in rising), ("sys" in rising)))
    return out


def simulate(c, rnd, nedges):
    from migen import run_simulation
    from litedram.common import LiteDRAMNativePort
    from litedram.frontend.adapter import LiteDRAMNativePortCDC
    pf = LiteDRAMNativePort("both", c["aw"], c["dw"], clock_domain="usr")
    pt = LiteDRAMNativePort("both", c["aw"], c["dw"], clock_domain="sys")
    dut = LiteDRAMNativePortCDC(pf, pt, cmd_depth=1 << c["kcmd"], wdata_depth=1 << c["kw"], rdata_depth=1 << c["kr"])
    nb = c["dw"] // 8
    U = dict(ins=[], obs=[]); S = dict(ins=[], obs=[])
    pat = c["pattern"]

    def gen_u():
        cv = wv = 0; cm = w = 0
        p_c, p_w, p_r = 0.6, 0.6, 0.7
        for j in range(nedges):
            o = ((yield pf.cmd.ready), (yield pf.wdata.ready), (yield pf.rdata.valid), (yield pf.rdata.data))
            U["obs"].append("%d %d %d %d" % (o[0], o[1], o[2], o[3] if o[2] else 0))
            if U["ins"]:
                p = U["ins"][-1]
                if p[0] and o[0]:
                    cv = 0
                if p[2] and o[1]:
                    wv = 0
            if j % 40 == 0:
                p_c = rnd.choice([0.1, 0.6, 1.0]); p_w = rnd.choice([0.1, 0.6, 1.0])
                p_r = rnd.choice([0.05, 0.5, 1.0]) if pat in (1, 3) else rnd.choice([0.7, 1.0])
            if not cv and rnd.random() < p_c:
                cv = 1; cm = (rnd.getrandbits(c["aw"]) << 2) | (rnd.getrandbits(1) << 1) | rnd.getrandbits(1)
            if not wv and rnd.random() < p_w:
                wv = 1; w = (rnd.getrandbits(c["dw"]) << nb) | rnd.getrandbits(nb)
            rr = int(rnd.random() < p_r)
            U["ins"].append((cv, cm if cv else 0, wv, w if wv else 0, rr))
            yield pf.cmd.valid.eq(cv); yield pf.cmd.addr.eq(cm >> 2); yield pf.cmd.we.eq((cm >> 1) & 1); yield pf.cmd.last.eq(cm & 1)
            yield pf.wdata.valid.eq(wv); yield pf.wdata.data.eq(w >> nb); yield pf.wdata.we.eq(w & ((1 << nb) - 1))
            yield pf.rdata.ready.eq(rr)
            yield

    def gen_s():
        rv = 0; rd = 0
        p_cr, p_wr, p_rv = 0.7, 0.7, 0.6
        for j in range(nedges):
            cvv = (yield pt.cmd.valid); wvv = (yield pt.wdata.valid)
            o = (cvv, ((yield pt.cmd.addr) << 2) | ((yield pt.cmd.we) << 1) | (yield pt.cmd.last), wvv, ((yield pt.wdata.data) << nb) | (yield pt.wdata.we), (yield pt.rdata.ready))
            S["obs"].append("%d %d %d %d %d" % (o[0], o[1] if o[0] else 0, o[2], o[3] if o[2] else 0, o[4]))
            if S["ins"]:
                p = S["ins"][-1]
                if p[2] and o[4]:
                    rv = 0
            if j % 40 == 0:
                p_cr = rnd.choice([0.05, 0.5, 1.0]) if pat in (2, 3) else rnd.choice([0.7, 1.0])
                p_wr = rnd.choice([0.05, 0.5, 1.0]) if pat in (2, 3) else rnd.choice([0.7, 1.0])
                p_rv = rnd.choice([0.1, 0.6, 1.0])
            if not rv and rnd.random() < p_rv:
                rv = 1; rd = rnd.getrandbits(c["dw"])
            S["ins"].append((int(rnd.random() < p_cr), int(rnd.random() < p_wr), rv, rd if rv else 0))
            yield pt.cmd.ready.eq(S["ins"][-1][0]); yield pt.wdata.ready.eq(S["ins"][-1][1])
            yield pt.rdata.valid.eq(rv); yield pt.rdata.data.eq(rd)
            yield
    run_simulation(dut, {"usr": [gen_u()], "sys": [gen_s()]}, clocks={"sys": (c["ps"], c["phs"]), "usr": (c["pu"], c["phu"])})
    return U, S


def job(args):
    seed, idx, tier = args
    rnd = random.Random("c08-%d-%d" % (seed, idx))
    c = rand_cfg(rnd, idx)
    nedges = 500 if tier == "quick" else 3000
    r = Result()
    U, S = simulate(c, rnd, nedges)
    sched = schedule(c, 4 * nedges)
    lines = ["%d %d %d" % (c["kcmd"], c["kw"], c["kr"])]
    nu = ns = 0
    steps = []
    for (u, y) in sched:
        if (u and nu + 1 >= len(U["obs"])) or (y and ns + 1 >= len(S["obs"])):
            break
        iu = (0, 0, 0, 0, 0) if nu == 0 else U["ins"][nu - 1]
        iy = (0, 0, 0, 0) if ns == 0 else S["ins"][ns - 1]
        lines.append("%d %d %d %d %d %d %d %d %d %d" % ((1 if u else 0) + (2 if y else 0), iu[0], iu[1], iu[2], iu[3], iu[4], iy[0], iy[1], iy[2], iy[3]))
        steps.append((u, y, nu, ns))
        nu += int(u); ns += int(y)
    mo = core.run_driver("cdc", lines)[1:]
    r.coverage["runs"] = 1
    r.coverage["clock_pairs"] = {"usr%d_sys%d" % (c["pu"], c["ps"]): 1}
    r.coverage["coincident_edges"] = sum(1 for s in steps if s[0] and s[1])
    mon_cmd, mon_w, mon_r = [], [], []
    stats = dict(cmd=0, w=0, r=0)
    ok = True
    for g, (u, y, ju, js) in enumerate(steps):
        f = mo[g].split()
        r.evaluations += int(u) + int(y)
        # (a generator segment j runs after its domain's edge j-1: obs[j+1] is the state after edge j)
        if ok and u and " ".join(f[0:4]) != U["obs"][ju + 1]:
            mism(r, "LiteDRAMNativePortCDC (user domain) vs Model/AsyncFifo.lean", config=c, instant=g, edge=ju, impl=U["obs"][ju + 1], model=" ".join(f[0:4]), line=lines[g + 1])
            ok = False
        if ok and y and " ".join(f[4:9]) != S["obs"][js + 1]:
            mism(r, "LiteDRAMNativePortCDC (controller domain) vs Model/AsyncFifo.lean", config=c, instant=g, edge=js, impl=S["obs"][js + 1], model=" ".join(f[4:9]), line=lines[g + 1])
            ok = False
        # handshakes at this instant (inputs consumed at the edge, ready/valid as seen before it)
        ev = dict(cmd_in=None, cmd_out=None, w_in=None, w_out=None, r_in=None, r_out=None)
        if u and ju >= 1:
            pi = U["ins"][ju - 1]; po = U["obs"][ju].split()
            if pi[0] and po[0] == "1":
                ev["cmd_in"] = pi[1]
            if pi[2] and po[1] == "1":
                ev["w_in"] = pi[3]
            if pi[4] and po[2] == "1":
                ev["r_out"] = int(po[3])
        if y and js >= 1:
            pi = S["ins"][js - 1]; po = S["obs"][js].split()
            if pi[0] and po[0] == "1":
                ev["cmd_out"] = int(po[1])
            if pi[1] and po[2] == "1":
                ev["w_out"] = int(po[3])
            if pi[2] and po[4] == "1":
                ev["r_in"] = pi[3]
        for name, mon, a, b in (("cmd", mon_cmd, "cmd_in", "cmd_out"), ("w", mon_w, "w_in", "w_out"), ("r", mon_r, "r_in", "r_out")):
            mon.append("%d %d %d %d 0 0 0 0" % (int(ev[a] is not None), ev[a] or 0, int(ev[b] is not None), ev[b] or 0))
            stats[name] += int(ev[b] is not None)
        if any(v is not None for v in ev.values()):
            r.distinct.add((idx, g))
    r.coverage["words_delivered"] = {"cmd": stats["cmd"], "wdata": stats["w"], "rdata": stats["r"]}
    for name, mon in (("commands", mon_cmd), ("write data", mon_w), ("read data", mon_r)):
        out = core.run_driver("fifomon", ["1000"] + mon + ["999999"])
        v = next((x for x in out if x.startswith("VIOL")), None)
        r.evaluations += 1
        if v:
            r.violations.append(dict(signature="c08-cdc", what="CDC port usr period %d/phase %d, sys period %d/phase %d, %s channel: instant %s: %s"
                                     % (c["pu"], c["phu"], c["ps"], c["phs"], name, v.split()[1], " ".join(v.split()[2:])), replay=dict(config=c, seed=seed, idx=idx)))
            break
    if idx < 2:
        r.samples.append(dict(config=c, first_lines=lines[1:5], first_user_obs=U["obs"][:3], first_sys_obs=S["obs"][:3]))
    return r


def getport_sim(c, rnd, ncycles, cd="usr"):
    """real LiteDRAMCrossbar.get_port(clock_domain="usr", data_width=udw) over a serial behavioural controller"""
    from migen import Module, run_simulation
    from litedram.common import LiteDRAMInterface, GeomSettings
    from litedram.core.crossbar import LiteDRAMCrossbar

    class S: pass
    st = S(); st.geom = GeomSettings(c["bankbits"], 4, 5)
    st.phy = S(); st.phy.nranks = 1; st.phy.dfi_databits = c["dfi"]; st.phy.nphases = 2
    st.phy.read_latency = c["rl"]; st.phy.write_latency = c["wl"]
    st.cmd_buffer_depth = 8; st.address_mapping = "ROW_BANK_COL"

    class Dut(Module):
        def __init__(self):
            self.interface = LiteDRAMInterface(2, st)
            self.submodules.xbar = LiteDRAMCrossbar(self.interface)
            self.port = self.xbar.get_port(mode="both", data_width=c["udw"], clock_domain=cd)
    dut = Dut()
    itf = dut.interface
    ndw = itf.data_width
    nbanks = itf.nbanks
    banks = [getattr(itf, "bank%d" % n) for n in range(nbanks)]
    master = dut.xbar.masters[0]
    port = dut.port
    udw = c["udw"]; ub = udw // 8
    ops = c["ops"]          # list of (kind, addr, data, we, last, gap)
    log = dict(rd=[], ncmd=0, nw=0, native=[], done=False, mem={}, quiet=0, snap=None)
    nreads = sum(1 for o in ops if o[0] == "r")

    def user():
        # synchronous process: reads = this period, writes = next period.  A write's data is offered together with its command;
        # the next command is offered once both have been taken.
        k = 0; cv = 0; wv = 0; gap = ops[0][5] if ops else 0
        rready = 0
        idle = 0
        hold = 0
        nrd_issued = 0
        stall = 0
        for cyc in range(ncycles * max(1, -(-c['ps'] // c['pu']))):
            if cv and (yield port.cmd.ready):
                cv = 0; log["ncmd"] += 1
            if wv and (yield port.wdata.ready):
                wv = 0; log["nw"] += 1
            if rready and (yield port.rdata.valid):
                log["rd"].append((yield port.rdata.data))
            if k < len(ops) and not cv and not wv and log["ncmd"] == k and not (k == c["nmain"] and hold is not None):
                if gap > 0:
                    gap -= 1
                elif ops[k][0] == "r" and (nrd_issued - len(log["rd"]) + 1) * max(1, udw // ndw) > GP_MAX_OUTSTANDING:
                    pass        # the crossbar cannot be back-pressured on read data: a master keeps its outstanding reads within
                                # what it can absorb (here: the CDC's 16-word read FIFO), as the DMA reader does with its reservations
                else:
                    o = ops[k]; cv = 1; wv = int(o[0] == "w")
                    nrd_issued += int(o[0] == "r")
                    yield port.cmd.addr.eq(o[1]); yield port.cmd.we.eq(int(o[0] == "w")); yield port.cmd.last.eq(o[4])
                    if wv:
                        yield port.wdata.data.eq(o[2]); yield port.wdata.we.eq(o[3])
            if log["ncmd"] == k + 1 and not cv and not wv:
                k += 1
                gap = ops[k][5] if k < len(ops) else 0
            yield port.cmd.valid.eq(cv)
            if not cv and c["stale"]:
                yield port.cmd.addr.eq(rnd.getrandbits(len(port.cmd.addr))); yield port.cmd.we.eq(rnd.getrandbits(1))
            yield port.wdata.valid.eq(wv)
            log["maxout"] = max(log.get("maxout", 0), (nrd_issued - len(log["rd"])) * max(1, udw // ndw))
            rready = int(rnd.random() < c["p_r"])
            if c.get("storm") and k < len(ops) and ops[k][0] == "r" and stall < 24 and \
                    (nrd_issued - len(log["rd"]) + (0 if cv else 1)) * max(1, udw // ndw) <= GP_MAX_OUTSTANDING:
                # slow consumer: no read data is taken while a further read can still be issued within the outstanding-words limit
                # (given up after 24 cycles without a command being accepted: a converter may need its data taken first)
                rready = 0
                stall = stall + 1 if cv else 0
            else:
                stall = 0 if not cv else stall
            yield port.rdata.ready.eq(rready)
            # after the main part: (optional one-cycle flush pulse,) wait until the controller side has been quiet, take a
            # snapshot of the memory, then go on with the read-back
            fl = 0
            if k == c["nmain"] and not cv and not wv and hold is not None:
                hold += 1
                if c["pulse"] and hold == 3:
                    fl = 1
                if not c["pulse"]:
                    fl = 1
                if hold > 20 and log["quiet"] > 150:
                    log["snap"] = dict(log["mem"]); hold = None
            yield port.flush.eq(fl if k < len(ops) else 1)
            if k >= len(ops):
                idle += 1
                if (len(log["rd"]) >= nreads and idle > 60) or idle > 3000 * max(1, -(-c["ps"] // c["pu"])):
                    break
            yield
        log["done"] = (k >= len(ops))

    def ctrl():
        mem = log["mem"]
        rq = {}          # cycle -> data to drive on interface.rdata
        cyc = 0
        state = "idle"; n = 0; addr = 0; we = 0; wait = 0; wcap = -1
        quiet = 0
        while quiet < 3000:
            quiet += 1
            log["quiet"] = quiet
            # read data due in this cycle's writes (visible next period)
            if wcap == cyc:
                d = (yield itf.wdata); m = (yield itf.wdata_we)
                old = mem.get((n, addr), 0)
                for b in range(ndw // 8):
                    if (m >> b) & 1:
                        old = (old & ~(0xff << (8 * b))) | (d & (0xff << (8 * b)))
                mem[(n, addr)] = old
                log["native"].append(("w", n, addr, m))
                wcap = -1; state = "idle"
            if state == "idle":
                cand = []
                for i in range(nbanks):
                    if (yield banks[i].valid):
                        cand.append(i)
                if cand:
                    quiet = 0
                    n = rnd.choice(cand); addr = (yield banks[n].addr); we = (yield banks[n].we)
                    yield banks[n].ready.eq(1); state = "acc"
            elif state == "acc":
                yield banks[n].ready.eq(0)
                wait = rnd.choice([0, 1, 2, 5]); state = "data"
            elif state == "data":
                if wait > 0:
                    wait -= 1
                elif we:
                    if (yield master.wdata.valid):
                        yield banks[n].wdata_ready.eq(1); state = "wpulse"
                else:
                    yield banks[n].rdata_valid.eq(1); state = "rpulse"
            elif state == "wpulse":
                yield banks[n].wdata_ready.eq(0)
                wcap = cyc + c["wl"] + 1          # master.wdata.ready is high in period (pulse period) + wl
                state = "wwait"
                if c["wl"] == 0:
                    pass
            elif state == "rpulse":
                yield banks[n].rdata_valid.eq(0)
                rq[cyc + c["rl"]] = mem.get((n, addr), 0)
                log["native"].append(("r", n, addr, 0))
                state = "idle"
            if cyc in rq:
                yield itf.rdata.eq(rq.pop(cyc))
            cyc += 1
            yield
            if log["done"] and quiet > 200:
                break
    if cd == "sys":
        run_simulation(dut, {"sys": [user(), ctrl()]}, clocks={"sys": (c["ps"], c["phs"])})
    else:
        run_simulation(dut, {"usr": [user()], "sys": [ctrl()]}, clocks={"sys": (c["ps"], c["phs"]), "usr": (c["pu"], c["phu"])})
    return log

def gp_ops(rnd, udw, ndw, aw, n, conservative=True, pulse=False, storm=False):
    """main part + read-back of every touched address; returns (ops, nmain)"""
    ub = udw // 8
    ratio = max(1, ndw // udw)
    words = [rnd.getrandbits(aw - 3) << 3 for _ in range(3)]    # a few native neighbourhoods
    ops = []
    touched = set()
    full = (1 << ub) - 1
    while len(ops) < n:
        base = rnd.choice(words)
        gap = rnd.choice([0, 0, 0, 0, 1, 2, 6, 12])
        m = rnd.random()
        if m < 0.25 and ratio > 1 and not conservative:
            # fill one wide word in order (pauses anywhere), then overwrite its first chunks straight away
            wbase = (base // ratio) * ratio
            for ch in range(ratio):
                ops.append(("w", wbase + ch, rnd.getrandbits(udw), full, 0, rnd.choice([0, 0, 0, 3, 9]))); touched.add(wbase + ch)
            for ch in range(rnd.randrange(1, ratio)):
                ops.append(("w", wbase + ch, rnd.getrandbits(udw), full, 0, 0)); touched.add(wbase + ch)
            continue
        a = (base + rnd.randrange(2 * ratio)) % (1 << aw)
        if rnd.random() < 0.5 and ops:
            a = (ops[-1][1] + 1) % (1 << aw)       # ascending runs
        if rnd.random() < 0.7:
            we = rnd.choice([full, full, rnd.getrandbits(ub)])
            ops.append(("w", a, rnd.getrandbits(udw), we, int(rnd.random() < 0.2), gap)); touched.add(a)
        else:
            ops.append(("r", a, 0, 0, int(rnd.random() < 0.2), gap)); touched.add(a)
    if storm:
        # a run of back-to-back reads (the user lets them pile up to the CDC's read depth before it takes data, see getport_sim)
        a0 = rnd.choice(words)
        for j in range(48):
            a = (a0 + j) % (1 << aw)
            ops.append(("r", a, 0, 0, 0, 0)); touched.add(a)
    if pulse:
        # end the main part with an open group of writes: a complete word, then its first chunks again, no cmd.last
        wbase = (rnd.choice(words) // ratio) * ratio
        ops[-1] = ops[-1][:4] + (1,) + ops[-1][5:]
        for ch in range(ratio):
            ops.append(("w", wbase + ch, rnd.getrandbits(udw), full, 0, 0)); touched.add(wbase + ch)
        for ch in range(max(1, ratio // 2)):
            ops.append(("w", wbase + ch, rnd.getrandbits(udw), full, 0, 0))
    else:
        ops[-1] = ops[-1][:4] + (1,) + ops[-1][5:]
    # the up-converter's documented limitation: same-type commands inside one wide word must ascend unless separated by cmd.last.
    # conservative: every non-ascending pair is separated.  Otherwise (the master holds its address lines while idle, so
    # the converter's grouping is determined by the command sequence alone): only where the converter would really merge
    # out of order (a group that is complete commits by itself).
    if conservative:
        for j in range(len(ops) - 1):
            p, q = ops[j], ops[j + 1]
            if p[0] == q[0] and p[1] // ratio == q[1] // ratio and q[1] % ratio <= p[1] % ratio:
                ops[j] = p[:4] + (1,) + p[5:]
    else:
        grp = None      # (kind, word, set of chunks) of the open group
        for j in range(len(ops)):
            q = ops[j]
            w, ch = q[1] // ratio, q[1] % ratio
            if grp and grp[0] == q[0] and grp[1] == w:
                if ch > max(grp[2]):
                    grp[2].add(ch)
                else:
                    ops[j - 1] = ops[j - 1][:4] + (1,) + ops[j - 1][5:]
                    grp = [q[0], w, {ch}]
            else:
                grp = [q[0], w, {ch}]
            if ops[j][4] or len(grp[2]) == ratio:
                grp = None
    nmain = len(ops)
    for a in sorted(touched):
        ops.append(("r", a, 0, 0, 0, 0))
    return ops, nmain

def gp_golden(ops, udw):
    ub = udw // 8
    mem = {}; out = []
    for o in ops:
        if o[0] == "w":
            old = mem.get(o[1], 0)
            for b in range(ub):
                if (o[3] >> b) & 1:
                    old = (old & ~(0xff << (8 * b))) | (o[2] & (0xff << (8 * b)))
            mem[o[1]] = old
        else:
            out.append(mem.get(o[1], 0))
    return out


def getport_job(args):
    """the glue in `LiteDRAMCrossbar.get_port(clock_domain=..., data_width=...)`: the real crossbar with the CDC and the width
    converter it inserts, over a serial behavioural controller; judged at the user port (read data = the bytes most recently
    written, in command order) and, for the flush-pulse variant, against the same traffic on a port in the sys domain"""
    seed, idx, tier = args
    from migen import log2_int
    rnd = random.Random("c08gp-%d-%d" % (seed, idx))
    dfi = rnd.choice([16, 32]); ndw = dfi * 2
    udw = rnd.choice([8, 16, 32, 64, 128]) if idx % 3 else rnd.choice([x for x in (8, 16, 32) if x < ndw])
    pu, ps = rnd.choice([(4, 4), (4, 8), (8, 4), (6, 10), (10, 6), (2, 14), (14, 2), (6, 8), (4, 30), (30, 4)])
    c = dict(bankbits=1, dfi=dfi, rl=rnd.choice([1, 2, 4]), wl=rnd.choice([1, 2]), udw=udw, pu=pu, phu=rnd.randrange(pu), ps=ps, phs=rnd.randrange(ps),
             p_r=rnd.choice([0.3, 0.8, 1.0]), stale=idx % 2 == 0, pulse=(idx % 4 == 1 and udw < ndw), storm=(idx % 4 == 2))
    aw = 1 + 4 + 5 - 2 + (log2_int(ndw // udw) if udw < ndw else -log2_int(udw // ndw))
    c["ops"], c["nmain"] = gp_ops(rnd, udw, ndw, aw, 40 if tier == "quick" else 120, c["stale"], c["pulse"], c["storm"])
    st = rnd.getstate()
    log = getport_sim(c, rnd, 20000 if tier == "quick" else 60000)
    exp = gp_golden(c["ops"], udw)
    r = Result()
    r.evaluations += len(exp) + 1
    for i in range(len(log["rd"])):
        r.distinct.add(("gp", idx, i))
    shape = "equal" if udw == ndw else ("up%d" % (ndw // udw) if udw < ndw else "down%d" % (udw // ndw))
    r.coverage["getport_runs"] = {shape: 1}
    r.coverage["getport_native_commands"] = len(log["native"])
    r.coverage["getport_user_reads"] = len(log["rd"])
    r.coverage["getport_outstanding_words_reached"] = {str(min(16, log.get("maxout", 0)) // 4 * 4): 1}
    what = None
    if not log["done"]:
        what = "the port did not take all %d commands (hang)" % len(c["ops"])
    elif log["rd"] != exp:
        k = next((i for i, (a, b) in enumerate(zip(log["rd"], exp)) if a != b), min(len(log["rd"]), len(exp)))
        what = ("read %d returned %s, the bytes most recently written are %s" % (k, hex(log["rd"][k]), hex(exp[k])) if k < min(len(log["rd"]), len(exp))
                else "%d read words returned for %d read commands" % (len(log["rd"]), len(exp)))
    elif c["pulse"]:
        rnd.setstate(st)
        ref = getport_sim(c, rnd, 20000 if tier == "quick" else 60000, cd="sys")
        r.evaluations += 1
        r.coverage["getport_flush_pulse_runs"] = 1
        if ref["rd"] == exp and ref["snap"] is not None and ref["snap"] != log["snap"]:
            what = "after a one-cycle flush and a quiet period the memory differs from the same traffic on a sys-domain port (a write was not delivered)"
    if what:
        r.violations.append(dict(signature="c08-getport", what="get_port(clock_domain='usr', data_width=%d) on a %d-bit controller, usr period %d/phase %d, sys period %d/phase %d: %s"
                                 % (udw, ndw, pu, c["phu"], ps, c["phs"], what), replay=dict(seed=seed, idx=idx, kind="getport", config={k: v for k, v in c.items() if k != "ops"}, ops=c["ops"][:c["nmain"]])))
    return r


def _dispatch(j):
    return getport_job(j[1]) if j[0] == "gp" else job(j[1])


def run(tier, seed):
    n = 96 if tier == "quick" else 400
    ngp = 64 if tier == "quick" else 300
    res = Result()
    for r in core.pmap(_dispatch, [("cdc", (seed, i, tier)) for i in range(n)] + [("gp", (seed, i, tier)) for i in range(ngp)]):
        res.merge(r)
    return res


def replay(data, tier, seed):
    return run(tier, seed)
