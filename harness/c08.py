"""C08: LiteDRAMNativePortCDC (frontend/adapter.py: three stream.ClockDomainCrossing = migen AsyncFIFO) vs
Model/AsyncFifo.lean, in Migen's two-clock simulation with random period pairs and phases, edge by edge; and the stream
specification (Spec/FifoSpec.lean) per channel on the real module: every command, write word and read word is delivered
exactly once and in order."""
import random
from vlib import core
from vlib.core import Result

RULE = ("clock period pairs from {2..30} (equal, integer and non-integer ratios, coprime = drifting) x phases, FIFO depths cmd {4,8}, "
        "wdata/rdata {4,8,16}; traffic: valid held until ready on all three channels with random gaps, random and bursty "
        "back-pressure on the other side; a case = one clock edge of either domain with that domain's outputs compared; "
        "non-trivial = a handshake at that edge; distinct by (run, instant)")
TRUSTED = ["Migen's simulator treats MultiReg as two plain registers: metastability and sampling of a changing multi-bit bus are outside the model (that is what the gray code is for)",
           "AsyncResetSynchronizer / with_common_rst is not used by LiteDRAMNativePortCDC and not modelled"]
ASSUMPTIONS = ["stream masters hold valid and payload until ready"]


def mism(r, where, **kw):
    if len(r.mismatches) < 4:
        r.mismatches.append(dict(where=where, **kw))


def rand_cfg(rnd, idx):
    pu, ps = rnd.choice([(4, 4), (4, 8), (8, 4), (6, 10), (10, 6), (2, 14), (14, 2), (6, 8), (8, 6), (10, 14), (4, 30), (30, 4), (12, 12)])
    return dict(pu=pu, phu=rnd.randrange(pu), ps=ps, phs=rnd.randrange(ps), kcmd=rnd.choice([2, 2, 3]), kw=rnd.choice([2, 3, 4]), kr=rnd.choice([2, 3, 4]),
                aw=rnd.choice([6, 12, 24]), dw=rnd.choice([8, 16, 32]), pattern=idx % 4)


def schedule(c, nsteps):
    from migen.sim.core import TimeManager
    tm = TimeManager({"sys": (c["ps"], c["phs"]), "usr": (c["pu"], c["phu"])})
    out = []
    while len(out) < nsteps:
        dt, rising, falling = tm.tick()
        if rising:
            out.append((("usr" in rising), ("sys" in rising)))
    return out


def simulate(c, rnd, nedges):
    from migen import run_simulation
    from litedram.common import LiteDRAMNativePort
    from litedram.frontend.adapter import LiteDRAMNativePortCDC
    pf = LiteDRAMNativePort("both", c["aw"], c["dw"], clock_domain="usr")
    pt = LiteDRAMNativePort("both", c["aw"], c["dw"], clock_domain="sys")
    dut = LiteDRAMNativePortCDC(pf, pt, cmd_depth=1 << c["kcmd"], wdata_depth=1 << c["kw"], rdata_depth=1 << c["kr"])
    nb = c["dw"] // 8
    U = dict(ins=[], obs=[]); S = dict(ins=[], obs=[])
    pat = c["pattern"]

    def gen_u():
        cv = wv = 0; cm = w = 0
        p_c, p_w, p_r = 0.6, 0.6, 0.7
        for j in range(nedges):
            o = ((yield pf.cmd.ready), (yield pf.wdata.ready), (yield pf.rdata.valid), (yield pf.rdata.data))
            U["obs"].append("%d %d %d %d" % (o[0], o[1], o[2], o[3] if o[2] else 0))
            if U["ins"]:
                p = U["ins"][-1]
                if p[0] and o[0]:
                    cv = 0
                if p[2] and o[1]:
                    wv = 0
            if j % 40 == 0:
                p_c = rnd.choice([0.1, 0.6, 1.0]); p_w = rnd.choice([0.1, 0.6, 1.0])
                p_r = rnd.choice([0.05, 0.5, 1.0]) if pat in (1, 3) else rnd.choice([0.7, 1.0])
            if not cv and rnd.random() < p_c:
                cv = 1; cm = (rnd.getrandbits(c["aw"]) << 2) | (rnd.getrandbits(1) << 1) | rnd.getrandbits(1)
            if not wv and rnd.random() < p_w:
                wv = 1; w = (rnd.getrandbits(c["dw"]) << nb) | rnd.getrandbits(nb)
            rr = int(rnd.random() < p_r)
            U["ins"].append((cv, cm if cv else 0, wv, w if wv else 0, rr))
            yield pf.cmd.valid.eq(cv); yield pf.cmd.addr.eq(cm >> 2); yield pf.cmd.we.eq((cm >> 1) & 1); yield pf.cmd.last.eq(cm & 1)
            yield pf.wdata.valid.eq(wv); yield pf.wdata.data.eq(w >> nb); yield pf.wdata.we.eq(w & ((1 << nb) - 1))
            yield pf.rdata.ready.eq(rr)
            yield

    def gen_s():
        rv = 0; rd = 0
        p_cr, p_wr, p_rv = 0.7, 0.7, 0.6
        for j in range(nedges):
            cvv = (yield pt.cmd.valid); wvv = (yield pt.wdata.valid)
            o = (cvv, ((yield pt.cmd.addr) << 2) | ((yield pt.cmd.we) << 1) | (yield pt.cmd.last), wvv, ((yield pt.wdata.data) << nb) | (yield pt.wdata.we), (yield pt.rdata.ready))
            S["obs"].append("%d %d %d %d %d" % (o[0], o[1] if o[0] else 0, o[2], o[3] if o[2] else 0, o[4]))
            if S["ins"]:
                p = S["ins"][-1]
                if p[2] and o[4]:
                    rv = 0
            if j % 40 == 0:
                p_cr = rnd.choice([0.05, 0.5, 1.0]) if pat in (2, 3) else rnd.choice([0.7, 1.0])
                p_wr = rnd.choice([0.05, 0.5, 1.0]) if pat in (2, 3) else rnd.choice([0.7, 1.0])
                p_rv = rnd.choice([0.1, 0.6, 1.0])
            if not rv and rnd.random() < p_rv:
                rv = 1; rd = rnd.getrandbits(c["dw"])
            S["ins"].append((int(rnd.random() < p_cr), int(rnd.random() < p_wr), rv, rd if rv else 0))
            yield pt.cmd.ready.eq(S["ins"][-1][0]); yield pt.wdata.ready.eq(S["ins"][-1][1])
            yield pt.rdata.valid.eq(rv); yield pt.rdata.data.eq(rd)
            yield
    run_simulation(dut, {"usr": [gen_u()], "sys": [gen_s()]}, clocks={"sys": (c["ps"], c["phs"]), "usr": (c["pu"], c["phu"])})
    return U, S


def job(args):
    seed, idx, tier = args
    rnd = random.Random("c08-%d-%d" % (seed, idx))
    c = rand_cfg(rnd, idx)
    nedges = 500 if tier == "quick" else 3000
    r = Result()
    U, S = simulate(c, rnd, nedges)
    sched = schedule(c, 4 * nedges)
    lines = ["%d %d %d" % (c["kcmd"], c["kw"], c["kr"])]
    nu = ns = 0
    steps = []
    for (u, y) in sched:
        if (u and nu + 1 >= len(U["obs"])) or (y and ns + 1 >= len(S["obs"])):
            break
        iu = (0, 0, 0, 0, 0) if nu == 0 else U["ins"][nu - 1]
        iy = (0, 0, 0, 0) if ns == 0 else S["ins"][ns - 1]
        lines.append("%d %d %d %d %d %d %d %d %d %d" % ((1 if u else 0) + (2 if y else 0), iu[0], iu[1], iu[2], iu[3], iu[4], iy[0], iy[1], iy[2], iy[3]))
        steps.append((u, y, nu, ns))
        nu += int(u); ns += int(y)
    mo = core.run_driver("cdc", lines)[1:]
    r.coverage["runs"] = 1
    r.coverage["clock_pairs"] = {"usr%d_sys%d" % (c["pu"], c["ps"]): 1}
    r.coverage["coincident_edges"] = sum(1 for s in steps if s[0] and s[1])
    mon_cmd, mon_w, mon_r = [], [], []
    stats = dict(cmd=0, w=0, r=0)
    ok = True
    for g, (u, y, ju, js) in enumerate(steps):
        f = mo[g].split()
        r.evaluations += int(u) + int(y)
        # (a generator segment j runs after its domain's edge j-1: obs[j+1] is the state after edge j)
        if ok and u and " ".join(f[0:4]) != U["obs"][ju + 1]:
            mism(r, "LiteDRAMNativePortCDC (user domain) vs Model/AsyncFifo.lean", config=c, instant=g, edge=ju, impl=U["obs"][ju + 1], model=" ".join(f[0:4]), line=lines[g + 1])
            ok = False
        if ok and y and " ".join(f[4:9]) != S["obs"][js + 1]:
            mism(r, "LiteDRAMNativePortCDC (controller domain) vs Model/AsyncFifo.lean", config=c, instant=g, edge=js, impl=S["obs"][js + 1], model=" ".join(f[4:9]), line=lines[g + 1])
            ok = False
        # handshakes at this instant (inputs consumed at the edge, ready/valid as seen before it)
        ev = dict(cmd_in=None, cmd_out=None, w_in=None, w_out=None, r_in=None, r_out=None)
        if u and ju >= 1:
            pi = U["ins"][ju - 1]; po = U["obs"][ju].split()
            if pi[0] and po[0] == "1":
                ev["cmd_in"] = pi[1]
            if pi[2] and po[1] == "1":
                ev["w_in"] = pi[3]
            if pi[4] and po[2] == "1":
                ev["r_out"] = int(po[3])
        if y and js >= 1:
            pi = S["ins"][js - 1]; po = S["obs"][js].split()
            if pi[0] and po[0] == "1":
                ev["cmd_out"] = int(po[1])
            if pi[1] and po[2] == "1":
                ev["w_out"] = int(po[3])
            if pi[2] and po[4] == "1":
                ev["r_in"] = pi[3]
        for name, mon, a, b in (("cmd", mon_cmd, "cmd_in", "cmd_out"), ("w", mon_w, "w_in", "w_out"), ("r", mon_r, "r_in", "r_out")):
            mon.append("%d %d %d %d 0 0 0 0" % (int(ev[a] is not None), ev[a] or 0, int(ev[b] is not None), ev[b] or 0))
            stats[name] += int(ev[b] is not None)
        if any(v is not None for v in ev.values()):
            r.distinct.add((idx, g))
    r.coverage["words_delivered"] = {"cmd": stats["cmd"], "wdata": stats["w"], "rdata": stats["r"]}
    for name, mon in (("commands", mon_cmd), ("write data", mon_w), ("read data", mon_r)):
        out = core.run_driver("fifomon", ["1000"] + mon + ["999999"])
        v = next((x for x in out if x.startswith("VIOL")), None)
        r.evaluations += 1
        if v:
            r.violations.append(dict(signature="c08-cdc", what="CDC port usr period %d/phase %d, sys period %d/phase %d, %s channel: instant %s: %s"
                                     % (c["pu"], c["phu"], c["ps"], c["phs"], name, v.split()[1], " ".join(v.split()[2:])), replay=dict(config=c, seed=seed, idx=idx)))
            break
    if idx < 2:
        r.samples.append(dict(config=c, first_lines=lines[1:5], first_user_obs=U["obs"][:3], first_sys_obs=S["obs"][:3]))
    return r


def run(tier, seed):
    n = 96 if tier == "quick" else 400
    res = Result()
    for r in core.pmap(job, [(seed, i, tier) for i in range(n)]):
        res.merge(r)
    return res


def replay(data, tier, seed):
    return run(tier, seed)
