"""Shared runner for C02 / C03 / C04: co-simulates random controller configurations against the Lean model and
evaluates the Lean DRAM specification monitor (Spec/Dram.lean) on the implementation's DFI traces."""
import random, collections
from vlib import core
from vlib.core import Result
from harness import corelib

# which monitor rules belong to which property
TIMING_PREFIX = ("tRP", "tRCD", "tRAS", "tRC", "tRRD", "tFAW", "tCCD", "tWR", "tWTR", "ACT inside tRFC", "REF inside tRFC",
                 "ZQC inside tRFC", "ACT before the auto-precharge")


def is_timing_rule(msg):
    return any(msg.startswith(p) for p in TIMING_PREFIX)


def cmd_stats(cfg, obs, nbm):
    """count decoded commands in the implementation trace (coverage figures)"""
    st = collections.Counter()
    n = cfg["nphases"]
    for line in obs:
        o = line.split()[4 * nbm:]
        for i in range(n):
            cs, bank, addr, cas, ras, we = [int(x) for x in o[8 * i:8 * i + 6]]
            k = (ras, cas, we)
            name = {(1, 1, 1): None, (0, 1, 1): "ACT", (1, 0, 1): "RD", (1, 0, 0): "WR", (0, 1, 0): "PREA" if addr & 1024 else "PRE",
                    (0, 0, 1): "REF", (1, 1, 0): "ZQC", (0, 0, 0): None}[k]
            if name:
                st[name] += 1
                if name in ("RD", "WR") and addr & 1024:
                    st[name + "+AP"] += 1
    return st


def trace_job(args):
    seed, idx, ncycles, prop = args
    rnd = random.Random("core-%d-%d" % (seed, idx))
    cfg = corelib.rand_cfg(rnd)
    if prop == "C04":
        cfg["ctrl"]["with_refresh"] = True
    r = Result()
    cs = corelib.cosim_controller(cfg, "tr-%d-%d" % (seed, idx), ncycles)
    r.evaluations += cs["cycles"]
    r.distinct.add((seed, idx))
    r.coverage["configs"] = 1
    r.coverage["cycles"] = cs["cycles"]
    r.coverage["configs_meeting_theorem_hypotheses_WF2"] = int(cs["wf2"])
    r.coverage["memtypes"] = {cfg["memtype"] + "_1:%d" % cfg["nphases"]: 1}
    if cs["mismatch"]:
        r.mismatches.append(dict(where="LiteDRAMController vs Model/Controller.lean", config=cfg, **cs["mismatch"]))
    stats = cmd_stats(cfg, cs["obs"], cs["nbm"])
    r.coverage["dfi_commands"] = dict(stats)
    viol, refs = corelib.run_dram_monitor(cfg, cs["lines"], cs["obs"], cs["nbm"], timing=(prop != "C02"))
    tag = dict(config=cfg, seed="tr-%d-%d" % (seed, idx), cycles=ncycles)
    if viol:
        cyc = int(viol.split()[1]); msg = " ".join(viol.split()[2:])
        mine = is_timing_rule(msg) if prop == "C03" else (not is_timing_rule(msg) if prop == "C02" else False)
        if prop == "C04" and msg.startswith("REF with a bank"):
            mine = True
        if mine:
            lo = max(0, cyc - 12)
            sig = {"C02": "c02-", "C03": "c03-", "C04": "c04-"}[prop] + msg.split(":")[0].replace(" ", "-")[:40]
            if prop == "C03" and msg.startswith("tRAS: ACT -> PREA"):
                sig = "c03-refresh-tras"
            r.violations.append(dict(signature=sig, what="%s 1:%d, cycle %d: %s" % (cfg["memtype"], cfg["nphases"], cyc, msg),
                                     replay=dict(tag, violation_cycle=cyc, rule=msg, dfi_window=[x.split()[4 * cs["nbm"]:] for x in cs["obs"][lo:cyc + 1]])))
    if prop == "C03":
        # the monitor of the composed-controller theorem (controller cycles, the controller's own settings)
        tv = corelib.run_timing_monitor(cfg, cs["obs"], cs["nbm"])
        meets = bool(cs["wf2"] and corelib.wf3(cfg))
        r.coverage["configs_meeting_theorem_hypotheses_WF3"] = int(meets)
        if tv and not r.violations:
            cyc = int(tv.split()[1])
            what = "%s 1:%d, cycle %d: %s" % (cfg["memtype"], cfg["nphases"], cyc, " ".join(tv.split()[2:]))
            if not meets:
                what += " [this configuration does not meet WF3 (twtr <= tRP + tRFC): outside the theorem, still a violation of the property]"
            r.violations.append(dict(signature="c03-timingmon", what=what, replay=dict(tag, violation_cycle=cyc, dfi_window=[x.split()[4 * cs["nbm"]:] for x in cs["obs"][max(0, cyc - 12):cyc + 1]])))
    if prop == "C04" and cfg["ctrl"]["with_refresh"]:
        t = cfg["timing"]; c = cfg["ctrl"]
        post = c["refresh_postponing"]
        D = corelib.grant_bound(cfg)
        seqlen = post * (t["tRP"] + t["tRFC"]) + 4
        worst = 0
        for k, cyc in enumerate(refs, start=1):
            deadline = (k + post) * t["tREFI"] + D + seqlen
            worst = max(worst, cyc - (k + post) * t["tREFI"])
            if cyc > deadline:
                r.violations.append(dict(signature="c04-late-refresh", what="%s 1:%d: refresh #%d issued at cycle %d, deadline (k+postponing)*tREFI + D = %d"
                                         % (cfg["memtype"], cfg["nphases"], k, cyc, deadline), replay=dict(tag, refs=refs)))
                break
        total = cs["cycles"]
        owed = (total - D - seqlen) // t["tREFI"] - post
        if len(refs) < owed:
            r.violations.append(dict(signature="c04-starved", what="%s 1:%d: only %d refreshes in %d cycles (tREFI=%d, postponing=%d): at least %d are due"
                                     % (cfg["memtype"], cfg["nphases"], len(refs), total, t["tREFI"], post, owed), replay=dict(tag, refs=refs)))
        # the refresh handshake itself, on the implementation: the longest wait of the refresher for the bus against the
        # proved bound of C04.refresh_grant_bound (psiMax, evaluated by the driver) and against the tight constant D
        run = longest = 0
        for k, wv in enumerate(cs["rfwait"]):
            run = run + 1 if wv else 0
            if run > longest:
                longest = run; at = k
        r.evaluations += 1
        bucket = lambda v, edges: next(("<=%d" % e for e in edges if v <= e), ">%d" % edges[-1])
        r.coverage["grant_latency_longest_wait_cycles"] = {bucket(longest, [4, 8, 16, 32, 64, 128]): 1}
        r.coverage["grant_latency_percent_of_proved_bound_psiMax"] = {bucket(100 * longest // max(1, cs["psimax"]), [5, 10, 25, 50, 100]): 1}
        r.coverage["grant_latency_percent_of_tight_bound_D"] = {bucket(100 * longest // max(1, D), [10, 25, 50, 75, 100]): 1}
        if longest > min(D, cs["psimax"]) and not r.violations:
            r.violations.append(dict(signature="c04-grant-latency", what="%s 1:%d: the refresher waited %d cycles for the bus (up to cycle %d); bound D = %d, proved bound psiMax = %d"
                                     % (cfg["memtype"], cfg["nphases"], longest, at, D, cs["psimax"]), replay=dict(tag, wait_run_end=at)))
        # the statement of C04.refresh_rate on the implementation's REF commands (pins = acceptance + 1; two cycles of slack
        # on either side for the alignment of cycle 0): P*floor(t/(P*tREFI)) - P <= #REF(t) <= P*floor(t/(P*tREFI))
        meets = bool(cs["wf2"] and cs["budget"])
        r.coverage["configs_meeting_theorem_hypotheses_Budget"] = int(meets)
        PT = post * t["tREFI"]
        acc = [cyc - 1 for cyc in refs]
        for tt in sorted(set([a for a in acc] + [a + 1 for a in acc] + [total])):
            nref = sum(1 for a in acc if a < tt)
            r.evaluations += 1
            if (post * (max(0, tt - 2) // PT) - post > nref or nref > post * ((tt + 2) // PT)) and not r.violations:
                what = "%s 1:%d: %d AUTO REFRESH commands in the first %d cycles (tREFI=%d, postponing=%d): outside [P*floor(t/(P*tREFI)) - P, P*floor(t/(P*tREFI))]" % (
                    cfg["memtype"], cfg["nphases"], nref, tt, t["tREFI"], post)
                if not meets:
                    what += " [this configuration does not meet Budget (one episode fits between two requests): outside C04.refresh_rate, still a violation of the property]"
                r.violations.append(dict(signature="c04-rate", what=what, replay=dict(tag, refs=refs)))
        r.coverage["max_refresh_lateness_cycles"] = worst
        r.coverage["refreshes"] = len(refs)
        if t["tZQCS"] is not None:
            nz = stats.get("ZQC", 0)
            due = (total - D - seqlen) // (c["zq_period"] + post * t["tREFI"] + D + seqlen + t["tZQCS"])
            r.coverage["zqcs_commands"] = nz
            if nz < due:
                r.violations.append(dict(signature="c04-zqcs-missing", what="%s 1:%d: %d ZQCS commands in %d cycles with a calibration period of %d cycles: at least %d are due"
                                         % (cfg["memtype"], cfg["nphases"], nz, total, c["zq_period"], due), replay=dict(tag, zq_period=c["zq_period"])))
    if idx < 2:
        r.samples.append(dict(config=cfg, first_inputs=cs["lines"][2:5], commands=dict(stats)))
    return r


def run(prop, tier, seed):
    n = {"quick": 24, "thorough": 320}[tier]
    ncycles = {"C02": 600, "C03": 700, "C04": 1500}[prop] if tier == "quick" else 3000
    jobs = [(seed, i, ncycles, prop) for i in range(n)]
    res = Result()
    for r in core.pmap(trace_job, jobs):
        res.merge(r)
    return res
