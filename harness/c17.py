"""C17 correspondence and monitors.
A  real get_sdram_phy_init_sequence for SDR..DDR4/LPDDR4 x latency pairs (default table + every key of the
   formatter tables) x nphases x tWTR values x electrical options: the MODE_REGISTER writes vs the Lean model
   (incl. KeyError as an error class); the implementation's registers are JEDEC-decoded by the Lean spec
   (Spec/JedecMR) and compared with the settings handed in (BL/CL/CWL).
B  write recovery against the datasheet: module library x clock grid -> timing_settings -> real init sequence ->
   decoded WR vs ceil(tWR/tCK) and vs the controller's wait.
C  the C and the Python header are parsed back to (address, bank, command, delay) tuples and compared, for plain,
   RDIMM and clam-shell settings; on clam-shell boards every bottom write is un-mirrored (JEDEC pin mirroring) and compared with
   the top write before it."""
import random, re, itertools
from fractions import Fraction as F
from decimal import Decimal
from vlib import core
from vlib.core import Result

RULE = ("memtype x (CL,CWL) from the default table and every formatter key x nphases x tWTR cycles x electrical options "
        "(part A); every DDR2/DDR3/DDR4 module class x speedgrade x rate x clock grid (part B); header pairs for plain/RDIMM/"
        "clam-shell (part C); a case = one configuration; distinct by tuple; all are non-trivial")
TRUSTED = ["RPC and LPDDR5 init sequences are not modelled (LPDDR5's MR values depend on lpddr5/basephy.FREQUENCY_RANGES): "
           "only their C/Python header equivalence is checked",
           "non-MR steps of the sequences (CKE, precharge, refresh, ZQ, delays) are covered by the header equivalence only"]
ASSUMPTIONS = ["tCK = 1/(nphases * sys_clk_freq); default CL/CWL chosen by get_default_cl_cwl as the PHYs do"]

MEM = {"SDR": 0, "DDR": 1, "LPDDR": 2, "DDR2": 3, "DDR3": 4, "DDR4": 5, "LPDDR4": 6}
CMD_MR = "DFII_COMMAND_RAS|DFII_COMMAND_CAS|DFII_COMMAND_WE|DFII_COMMAND_CS"
D3_RTT_NOM = ["disabled", "60ohm", "120ohm", "40ohm", "20ohm", "30ohm"]
D3_RTT_WR = ["disabled", "60ohm", "120ohm"]
D3_RON = ["40ohm", "34ohm"]
D4_RTT_NOM = ["disabled", "60ohm", "120ohm", "40ohm", "240ohm", "48ohm", "80ohm", "34ohm"]
D4_RTT_WR = ["disabled", "120ohm", "240ohm", "high-z", "80ohm"]
D4_RON = ["34ohm", "48ohm"]
ODT = ["disable", "RZQ/1", "RZQ/2", "RZQ/3", "RZQ/4", "RZQ/5", "RZQ/6"]


def viol(r, sig, what, replay):
    if len([v for v in r.violations if v["signature"] == sig]) < 3:
        r.violations.append(dict(signature=sig, what=what, replay=replay))


def mism(r, where, **kw):
    if len(r.mismatches) < 5:
        r.mismatches.append(dict(where=where, **kw))


class TS:
    pass


def phy(memtype, cl, cwl, nphases, **kw):
    from litedram.common import PhySettings
    ps = PhySettings(phytype="verif", memtype=memtype, databits=16, dfi_databits=32, nphases=nphases, rdphase=0, wrphase=0,
                     cl=cl, read_latency=4, write_latency=1, cwl=cwl, **kw)
    return ps


def timing(tWTR, tWR=3, frm="1x"):
    t = TS(); t.tWTR = tWTR; t.tWR = tWR; t.fine_refresh_mode = frm
    return t


def mr_writes(seq):
    return " ".join("%d:%d" % (ba, a) for (_, a, ba, cmd, _) in seq if cmd == CMD_MR)


def cases_a(tier, rnd):
    """(memtype, cl, cwl, nphases, tWTR, elec dict)"""
    from litedram.common import get_default_cl_cwl
    out = []
    for cl in range(1, 8):
        for nph, mt in ((1, "SDR"), (2, "SDR"), (4, "SDR"), (2, "DDR"), (2, "LPDDR"), (2, "DDR2"), (4, "DDR2")):
            out.append((mt, cl, None if mt == "SDR" else max(cl - 1, 1), nph, 2, {}))
    d3cl = [5, 6, 7, 8, 9, 10, 11, 12, 13, 14]
    for cl in d3cl + [4, 15]:
        for cwl in [5, 6, 7, 8, 9, 10, 11, 12]:
            for nph in (2, 4):
                for tw in ([2] if tier == "quick" else [1, 2, 3, 4]):
                    out.append(("DDR3", cl, cwl, nph, tw, {}))
    for tw in range(1, 9):
        for nph in (2, 4):
            out.append(("DDR3", 6, 5, nph, tw, {}))
            out.append(("DDR4", 11, 9, nph, tw, {}))
    for rn, rw, ro, td in itertools.product(D3_RTT_NOM, D3_RTT_WR, D3_RON, (0, 1)):
        out.append(("DDR3", 7, 6, 4, 2, dict(rtt_nom=rn, rtt_wr=rw, ron=ro, tdqs=td)))
    d4cl = [9, 10, 11, 12, 13, 14, 15, 16, 17, 18, 19, 20, 21, 22, 23, 24, 25, 26, 27, 28, 29, 30, 31, 32]
    for cl in d4cl + [8, 33]:
        for cwl in [9, 10, 11, 12, 14, 16, 18, 20] + [13]:
            out.append(("DDR4", cl, cwl, 4, 3, {}))
    for rn, rw, ro in itertools.product(D4_RTT_NOM, D4_RTT_WR, D4_RON):
        for frm in ("1x", "2x", "4x"):
            out.append(("DDR4", 11, 9, 4, 3, dict(rtt_nom=rn, rtt_wr=rw, ron=ro, frm=frm)))
    for (rl, wl) in [(6, 4), (10, 6), (14, 8), (20, 10), (24, 12), (28, 14), (32, 16), (36, 18), (6, 6), (12, 6)]:
        for dq, ca, pd in itertools.product(ODT[:4], ODT[1:4], ODT[1:3]):
            out.append(("LPDDR4", rl, wl, 8, 2, dict(dq_odt=dq, ca_odt=ca, pull_down_drive_strength=pd,
                                                       vref_ca=rnd.choice([22.0, 30.4, 42.0]), vref_dq=rnd.choice([22.4, 30.4]),
                                                       vref_ca_range=1, vref_dq_range=1)))
    return out


def part_a(tier, seed):
    from litedram.init import get_sdram_phy_init_sequence
    rnd = random.Random("c17a-%d" % seed)
    r = Result()
    cs = cases_a(tier, rnd)
    lines, impls, metas = [], [], []
    VR1 = None
    for (mt, cl, cwl, nph, tw, el) in cs:
        ps = phy(mt, cl, cwl, nph)
        el2 = dict(el)
        frm = el2.pop("frm", "1x")
        for k, v in el2.items():
            setattr(ps, k, v)
        try:
            seq, mr = get_sdram_phy_init_sequence(ps, timing(tw, frm=frm))
            im = mr_writes(seq)
        except (KeyError, AssertionError):
            seq, im = None, "keyerror"
        codes = [0] * 12
        if mt == "DDR3":
            codes[0:4] = [D3_RON.index(el.get("ron", "34ohm")), D3_RTT_NOM.index(el.get("rtt_nom", "60ohm")),
                          D3_RTT_WR.index(el.get("rtt_wr", "60ohm")), el.get("tdqs", 0)]
        if mt == "DDR4":
            codes[0:5] = [D4_RON.index(el.get("ron", "34ohm")), D4_RTT_NOM.index(el.get("rtt_nom", "40ohm")),
                          D4_RTT_WR.index(el.get("rtt_wr", "120ohm")), el.get("tdqs", 0), ["1x", "2x", "4x"].index(frm)]
        if mt == "LPDDR4":
            def vref(rng, pct):
                base = 10.0 if rng == 0 else 22.0
                return int(round((pct - base) / 0.4))
            codes[5:12] = [ODT.index(el.get("pull_down_drive_strength", "RZQ/2")), ODT.index(el.get("dq_odt", "RZQ/2")),
                           ODT.index(el.get("ca_odt", "RZQ/2")), vref(el.get("vref_ca_range", 1), el.get("vref_ca", 30.4)),
                           el.get("vref_ca_range", 1), vref(el.get("vref_dq_range", 1), el.get("vref_dq", 30.4)), el.get("vref_dq_range", 1)]
        lines.append("%d %d %d %d %d %s" % (MEM[mt], cl, cwl or 0, nph, tw, " ".join(map(str, codes))))
        impls.append(im); metas.append((mt, cl, cwl, nph, tw, el, seq))
    mo = core.run_driver("c17mr", lines)
    dec_lines, dec_meta = [], []
    for (mt, cl, cwl, nph, tw, el, seq), im, m in zip(metas, impls, mo):
        r.evaluations += 1
        r.distinct.add((mt, cl, cwl, nph, tw, tuple(sorted(el.items()))))
        if im != m:
            mism(r, "init sequence mode registers", input=dict(memtype=mt, cl=cl, cwl=cwl, nphases=nph, tWTR=tw, options=el), impl=im, model=m)
        if im != "keyerror":
            regs = {}
            for (_, a, ba, cmd, _) in seq:
                if cmd == CMD_MR:
                    regs[ba] = a          # last write wins (the final programming)
            dec_lines.append("%d %d %d %d" % (MEM[mt], regs.get(0, 0), regs.get(1, 0), regs.get(2, 0)))
            dec_meta.append((mt, cl, cwl, nph, tw, el, regs))
    dec = core.run_driver("c17dec", dec_lines)
    for (mt, cl, cwl, nph, tw, el, regs), d in zip(dec_meta, dec):
        bl, dcl, dcwl, dwr = d.split()
        want_bl = {"SDR": nph, "DDR": 4, "LPDDR": 4, "DDR2": 4, "DDR3": 8, "DDR4": 8, "LPDDR4": 16}[mt]
        rp = dict(memtype=mt, cl=cl, cwl=cwl, nphases=nph, options=el, registers=regs, decoded=d)
        if bl != str(want_bl) or dcl != str(cl) or (dcwl != "-" and dcwl != str(cwl)):
            viol(r, "c17-mr-decode", "%s CL=%s CWL=%s nphases=%d: programmed registers %s decode (JEDEC) to BL=%s CL=%s CWL=%s, the PHY/controller use BL=%d CL=%s CWL=%s"
                 % (mt, cl, cwl, nph, regs, bl, dcl, dcwl, want_bl, cl, cwl), rp)
    # electrical fields of DDR3/DDR4 MR1/MR2 decoded (JEDEC field positions, Spec/JedecMR) against the settings handed in;
    # the code -> value tables D3_*/D4_* above are the JEDEC ones (79-3F table "MR1 definition", 79-4 "MR1/MR2")
    el_lines, el_meta = [], []
    for (mt, cl, cwl, nph, tw, el, regs) in dec_meta:
        if mt in ("DDR3", "DDR4"):
            el_lines.append("%d %d %d" % (MEM[mt], regs.get(1, 0), regs.get(2, 0)))
            el_meta.append((mt, cl, cwl, nph, tw, el, regs))
    for (mt, cl, cwl, nph, tw, el, regs), d in zip(el_meta, core.run_driver("c17elec", el_lines)):
        ron, rn, td, rw, special = map(int, d.split())
        T = (D3_RON, D3_RTT_NOM, D3_RTT_WR) if mt == "DDR3" else (D4_RON, D4_RTT_NOM, D4_RTT_WR)
        dflt = dict(ron="34ohm", rtt_nom="60ohm", rtt_wr="60ohm") if mt == "DDR3" else dict(ron="34ohm", rtt_nom="40ohm", rtt_wr="120ohm")
        name = lambda tab, c: tab[c] if c < len(tab) else "reserved(%d)" % c
        got = dict(ron=name(T[0], ron), rtt_nom=name(T[1], rn), rtt_wr=name(T[2], rw), tdqs=td)
        want = dict(ron=el.get("ron", dflt["ron"]), rtt_nom=el.get("rtt_nom", dflt["rtt_nom"]),
                    rtt_wr=el.get("rtt_wr", dflt["rtt_wr"]), tdqs=el.get("tdqs", 0))
        r.coverage["partA_electrical_decoded"] = r.coverage.get("partA_electrical_decoded", 0) + 1
        if got != want or special != 0:
            bits = [nm for k, nm in ((0, "write-levelling enable (A7)"), (1, "Qoff (A12)"), (2, "DLL disable (A0)")) if special >> k & 1]
            if special >> 3:
                bits.append("additive latency (A4:A3) = %d" % (special >> 3))
            viol(r, "c17-mr-electrical", "%s MR1=%#x MR2=%#x programmed for %s decode (JEDEC) to %s%s"
                 % (mt, regs.get(1, 0), regs.get(2, 0), want, got, (" and set " + ", ".join(bits)) if bits else ""),
                 dict(memtype=mt, cl=cl, cwl=cwl, nphases=nph, options=el, registers=regs, decoded=got, special_bits=special))
    r.coverage["partA_configs"] = len(cs)
    r.coverage["partA_keyerror_agreed"] = sum(1 for a, b in zip(impls, mo) if a == b == "keyerror")
    r.samples.append(dict(part="A", memtype="DDR3", line=lines[60], impl=impls[60]))
    return r


def job_b(args):
    idx, tier, seed = args
    from translators.modlib import library_classes
    from litedram.common import get_default_cl_cwl
    from litedram.init import get_sdram_phy_init_sequence
    cls = library_classes()[idx]
    r = Result()
    if cls.memtype not in ("DDR2", "DDR3", "DDR4"):
        return r
    rnd = random.Random("c17b-%d-%s" % (seed, cls.__name__))
    fgrid = [50e6, 62.5e6, 75e6, 80e6, 100e6, 125e6, 133.333e6, 150e6, 166.666e6, 175e6, 200e6, 225e6, 250e6, 300e6]
    pending = []
    if tier == "thorough":
        fgrid += [rnd.randrange(50, 301) * 1e6 for _ in range(40)]
    for sg in getattr(cls, "speedgrade_timings", {"default": None}):
        for nph in ((2, 4) if cls.memtype != "DDR2" else (2,)):
            for f in fgrid:
                f = int(f)
                tck = 1.0 / (nph * f)
                try:
                    cl, cwl = get_default_cl_cwl(cls.memtype, 2 * tck / 2)
                except ValueError:
                    continue
                m = cls(f, "1:%d" % nph, speedgrade=None if sg == "default" else sg)
                ts = m.timing_settings
                ps = phy(cls.memtype, cl, cwl, nph)
                twr_ns = F(Decimal(repr(m.get("tWR").ns)))
                need = -(-twr_ns * nph * f // 10 ** 9)          # ceil(tWR / tCK)
                need = max(need, -(-F(m.get("tWR").ck) // 1))
                wait = ts.tWR * nph
                formula = max(ts.tWTR * nph, 5 if cls.memtype == "DDR3" else 10)
                tag = dict(module=cls.__name__, speedgrade=sg, clk_freq=f, nphases=nph, tWTR_cycles=ts.tWTR, tWR_cycles=ts.tWR,
                           tWR_ns=float(twr_ns), need_clocks=int(need), controller_wait_clocks=wait)
                r.evaluations += 1
                r.distinct.add((cls.__name__, sg, nph, f))
                try:
                    seq, _ = get_sdram_phy_init_sequence(ps, ts)
                except KeyError as e:
                    if cls.memtype in ("DDR3", "DDR4") and str(e).strip("'") == str(formula):
                        viol(r, "c17-wr-from-twtr", "%s: init sequence raises KeyError(%s): WR derived from tWTR*nphases is not an encodable value" % (cls.__name__, e), tag)
                    else:
                        viol(r, "c17-init-keyerror", "%s at %d Hz 1:%d (CL=%s CWL=%s): init sequence raises KeyError(%s)" % (cls.__name__, f, nph, cl, cwl, e), tag)
                    continue
                mr0 = [a for (_, a, ba, cmd, _) in seq if cmd == CMD_MR and ba == 0][-1]
                pending.append((mr0, tag, need, wait, formula, sg, f, nph))
    # one driver call for the whole module (decoding every programmed MR0 with the Lean JEDEC decoder)
    decoded = core.run_driver("c17dec", ["%d %d 0 0" % (MEM[cls.memtype], p[0]) for p in pending]) if pending else []
    for (mr0, tag, need, wait, formula, sg, f, nph), line in zip(pending, decoded):
        d = line.split()
        wr = int(d[3]) if d[3] != "none" else None
        tag["programmed_WR"] = wr
        if wr is None or wr < need or wr > wait:
            if cls.memtype == "DDR2" and wr == 3:
                sig = "c17-ddr2-wr-const"
            elif cls.memtype in ("DDR3", "DDR4") and wr == formula:
                sig = "c17-wr-from-twtr"
            else:
                sig = "c17-wr"
            viol(r, sig, "%s sg=%s at %d Hz 1:%d: programmed write recovery %s clocks; datasheet tWR needs %d, the controller waits %d"
                 % (cls.__name__, sg, f, nph, wr, need, wait), tag)
        else:
            r.coverage["wr_ok"] = r.coverage.get("wr_ok", 0) + 1
    r.coverage["partB_modules"] = 1
    return r


def parse_c(text):
    body = text[text.index("static inline void init_sequence(void)"):]
    out = []
    cur = {}
    for line in body.splitlines():
        line = line.strip()
        m = re.match(r"sdram_dfii_pi0_address_write\((0x[0-9a-f]+|\d+)\);", line)
        if m:
            cur = dict(a=int(m.group(1), 0), delay=0)
        m = re.match(r"sdram_dfii_pi0_baddress_write\((\d+)\);", line)
        if m:
            cur["ba"] = int(m.group(1))
        m = re.match(r"(?:command_p0|sdram_dfii_control_write)\((.+)\);", line)
        if m:
            cur["cmd"] = m.group(1); out.append(cur)
        m = re.match(r"cdelay\((\d+)\);", line)
        if m and out:
            out[-1]["delay"] = int(m.group(1))
    return [(c["a"], c["ba"], c["cmd"], c["delay"]) for c in out]


def parse_py(text):
    ns = {}
    exec(re.sub(r", (dfii_[a-z_|0-9]+), ", lambda m: ", \"%s\", " % m.group(1).upper(), text), ns)
    return [(a, ba, cmd, delay) for (_, a, ba, cmd, delay) in ns["init_sequence"]]


def part_c(tier, seed):
    from litedram.init import get_sdram_phy_c_header, get_sdram_phy_py_header
    from litedram.common import GeomSettings
    r = Result()
    geom = GeomSettings(3, 14, 10)
    cfgs = []
    for mt, cl, cwl, nph in [("SDR", 2, None, 1), ("DDR", 3, 2, 2), ("LPDDR", 3, 2, 2), ("DDR2", 5, 4, 2), ("DDR3", 7, 6, 4),
                             ("DDR3", 13, 9, 4), ("DDR4", 11, 9, 4), ("DDR4", 16, 12, 4), ("LPDDR4", 14, 8, 8)]:
        cfgs.append((mt, cl, cwl, nph, False, False))
    cfgs.append(("DDR4", 11, 9, 4, True, False))
    cfgs.append(("DDR4", 11, 9, 4, False, True))
    cfgs.append(("DDR4", 11, 9, 4, True, True))
    for (mt, cl, cwl, nph, rdimm, clam) in cfgs:
        ps = phy(mt, cl, cwl, nph, is_clam_shell=clam)
        if rdimm:
            ps.set_rdimm(tck=2 / (2 * 4 * 100e6), rcd_pll_bypass=False, rcd_ca_cs_drive=0x5, rcd_odt_cke_drive=0x5, rcd_clk_drive=0x5)
        ts = timing(3)
        r.evaluations += 1
        r.distinct.add(("hdr", mt, cl, rdimm, clam))
        try:
            c = parse_c(get_sdram_phy_c_header(ps, ts, geom))
            p = parse_py(get_sdram_phy_py_header(ps, ts))
        except Exception as e:
            mism(r, "header generation", input=[mt, cl, cwl, nph, rdimm, clam], impl=repr(e), model="generates")
            continue
        if clam:
            # clam-shell boards: the bottom devices' pins are mirrored (JESD79-4 address mirroring: A3<->A4, A5<->A6, A7<->A8,
            # A11<->A13, BA0<->BA1), so the register a bottom device receives is the mirror image of what is driven: it must be
            # the register the top device was given in the step before
            def swp(v, i, j):
                bi, bj = (v >> i) & 1, (v >> j) & 1
                return (v & ~((1 << i) | (1 << j))) | (bi << j) | (bj << i)
            def mirror(a, ba):
                for i, j in ((3, 4), (5, 6), (7, 8), (11, 13)):
                    a = swp(a, i, j)
                return a, swp(ba, 0, 1)
            nb = 0
            for k in range(len(c)):
                if c[k][2].endswith("DFII_COMMAND_CS_BOTTOM"):
                    nb += 1
                    top = c[k - 1] if k else None
                    seen = mirror(c[k][0], c[k][1])
                    if top is None or not top[2].endswith("DFII_COMMAND_CS_TOP") or seen != (top[0], top[1]):
                        viol(r, "c17-clamshell-mirror", "%s rdimm=%s clam-shell: step %d drives address %#x bank %d to the bottom devices, which receive (pins mirrored) address %#x bank %d; the top devices were given %s"
                             % (mt, rdimm, k, c[k][0], c[k][1], seen[0], seen[1], None if top is None else "address %#x bank %d" % (top[0], top[1])),
                             dict(memtype=mt, rdimm=rdimm, step=k, bottom=list(c[k]), top=None if top is None else list(top)))
                        break
            r.coverage["partC_bottom_writes_checked"] = r.coverage.get("partC_bottom_writes_checked", 0) + nb
        if c != p:
            k = next((i for i, (x, y) in enumerate(zip(c, p)) if x != y), min(len(c), len(p)))
            sig = "c17-py-clamshell" if clam else "c17-c-py-differ"
            viol(r, sig, "%s rdimm=%s clam_shell=%s: C and Python headers describe different sequences (C has %d steps, Python %d; first difference at step %d: C=%s Python=%s)"
                 % (mt, rdimm, clam, len(c), len(p), k, c[k] if k < len(c) else None, p[k] if k < len(p) else None),
                 dict(memtype=mt, rdimm=rdimm, clam_shell=clam, c=c[:k + 2], py=p[:k + 2]))
    r.coverage["partC_header_pairs"] = len(cfgs)
    return r


def _dispatch(j):
    return j[0](j[1])


def run(tier, seed):
    from translators.modlib import library_classes
    res = Result()
    res.merge(part_a(tier, seed))
    res.merge(part_c(tier, seed))
    jobs = [(job_b, (i, tier, seed)) for i in range(len(library_classes()))]
    for r in core.pmap(_dispatch, jobs):
        res.merge(r)
    # keep one violation per known signature first so that unknown ones are never hidden
    return res


def replay(data, tier, seed):
    return run(tier, seed)
