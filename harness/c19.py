"""C19: the bundled SDRAMPHYModel vs (i) its Lean transcription Model/SimPhy (correspondence) and (ii) the independent
reference DRAM Spec/DramData (property), on random *legal* DFI traces produced by a generator that walks a reference
bank state (legality by construction), with init images and both address mappings; final memories compared."""
import random
from vlib import core
from vlib.core import Result

RULE = ("memtypes SDR/DDR/LPDDR/DDR2/DDR3/DDR4 with their phase counts, tiny and wide-column geometries (colbits 5..11), write "
        "latency 0..3, read latency 1..6, both we_granularity settings, random init images under both address mappings; traces of "
        "ACT/RD/WR(+auto-precharge)/PRE/PREA with masks, back-to-back bursts, same-location write-then-read; a case = one controller "
        "cycle; non-trivial = carries a command; distinct by (config, cycle)")
TRUSTED = ["legal-trace generator (Python): ACT only on a precharged bank, RD/WR on the open row, no precharge/activate of a bank "
           "and no read of a location while a write to it is still in the write pipeline, at most one ACT/PRE/RD/WR per controller cycle"]
ASSUMPTIONS = ["single rank; read latency >= 1", "rddata_valid is compared on phase 0 only: the model drives no other phase's valid (recorded as an observation, not judged)"]

BURST = {"SDR": 1, "DDR": 2, "LPDDR": 2, "DDR2": 2, "DDR3": 2, "DDR4": 2}
NPH = {"SDR": [1], "DDR": [2], "LPDDR": [2], "DDR2": [2], "DDR3": [4], "DDR4": [4]}


def rand_cfg(rnd, idx):
    mt = rnd.choice(list(BURST))
    nph = rnd.choice(NPH[mt]) if rnd.random() < 0.8 else rnd.choice([1, 2, 4])
    # wide columns: colbits=12 gives 12 address lines (A11 exists) with a small row count, so the arrays stay small
    colbits = 12 if idx % 8 == 7 else rnd.choice([5, 6, 7])
    rowbits = rnd.choice([3, 4, 5])     # small arrays (Migen lowers memories to signal arrays); address lines forced to >= 11 below
    return dict(memtype=mt, nphases=nph, bankbits=1 if colbits > 10 else rnd.choice([1, 2, 3]), rowbits=rowbits, colbits=colbits, burst=BURST[mt],
                phase_bits=rnd.choice([8, 16, 32]) * BURST[mt], wl=rnd.choice([0, 0, 1, 2, 3]), rl=rnd.choice([1, 2, 4, 6]),
                we_gran=rnd.choice([8, 8, 0]), mapping=rnd.choice(["ROW_BANK_COL", "BANK_ROW_COL"]),
                ninit=rnd.choice([0, 0, 64, 333]))


def gen_trace(rnd, cfg, ncyc):
    """legal trace: list of cycles, each a list of per-phase dicts"""
    nph = cfg["nphases"]; nb = 1 << cfg["bankbits"]
    B = cfg["burst"] * nph
    open_row = [None] * nb
    busy_until = [0] * nb           # bank may not be precharged/activated/auto-precharged before this cycle (write pipeline)
    wr_land = {}                    # (bank,row,burst) -> cycle after which it may be read
    rows = [rnd.randrange(1 << cfg["rowbits"]) for _ in range(4)] + [0, (1 << cfg["rowbits"]) - 1]
    dbits = cfg["phase_bits"]
    idle = dict(cs_n=0, ras_n=1, cas_n=1, we_n=1, bank=0, address=0, wrdata=0, mask=0)
    tr = []
    density = 0.6
    for t in range(ncyc):
        if t % 40 == 0:
            density = rnd.choice([0.15, 0.6, 1.0])
        cyc = [dict(idle, wrdata=rnd.getrandbits(dbits), mask=rnd.getrandbits(dbits // 8) if rnd.random() < 0.4 else 0) for _ in range(nph)]
        used = set()
        kinds = ["act", "pre", "cas"]
        rnd.shuffle(kinds)
        cas_done = False
        banks_used = set()          # at most one command per bank per controller cycle (ACT->CAS, PRE->ACT need >= 1 cycle anyway)
        for kind in kinds:
            if rnd.random() > density:
                continue
            free = [p for p in range(nph) if p not in used]
            if not free:
                break
            p = rnd.choice(free)
            if kind == "act":
                cands = [b for b in range(nb) if open_row[b] is None and busy_until[b] <= t and b not in banks_used]
                if not cands:
                    continue
                b = rnd.choice(cands); r = rnd.choice(rows)
                cyc[p].update(ras_n=0, cas_n=1, we_n=1, bank=b, address=r)
                open_row[b] = r; used.add(p); banks_used.add(b)
            elif kind == "pre":
                if rnd.random() < 0.15:
                    if all(busy_until[b] <= t for b in range(nb)) and not banks_used:
                        cyc[p].update(ras_n=0, cas_n=1, we_n=0, bank=rnd.randrange(nb), address=1 << 10)
                        open_row = [None] * nb; used.add(p); banks_used |= set(range(nb))
                    continue
                cands = [b for b in range(nb) if open_row[b] is not None and busy_until[b] <= t and b not in banks_used]
                if not cands or rnd.random() < 0.6:
                    continue
                b = rnd.choice(cands)
                cyc[p].update(ras_n=0, cas_n=1, we_n=0, bank=b, address=rnd.getrandbits(10))
                open_row[b] = None; used.add(p); banks_used.add(b)
            elif kind == "cas" and not cas_done:
                cands = [b for b in range(nb) if open_row[b] is not None and b not in banks_used and (busy_until[b] <= t or True)]
                if not cands:
                    continue
                b = rnd.choice(cands)
                col = rnd.randrange(min(1 << cfg["colbits"], 2048))    # column bit 11 would need A12
                if rnd.random() < 0.5:
                    col = rnd.randrange(4) * B            # revisit a few locations
                if cfg["colbits"] > 10 and rnd.random() < 0.5:
                    col |= 1 << 10                          # exercise the column bit that lives on A11
                is_wr = rnd.random() < 0.5
                ap = rnd.random() < 0.2
                if ap and busy_until[b] > t and not is_wr:
                    ap = False              # no auto-precharge while an earlier write to the bank is still in the pipeline
                addr = (col & 0x3ff) | ((col >> 10) << 11) | ((1 << 10) if ap else 0)
                loc = (b, open_row[b], col // B)
                if is_wr:
                    cyc[p].update(ras_n=1, cas_n=0, we_n=0, bank=b, address=addr)
                    busy_until[b] = max(busy_until[b], t + cfg["wl"] + 1)
                    wr_land[loc] = t + cfg["wl"] + 1
                else:
                    if wr_land.get(loc, 0) > t:
                        continue
                    cyc[p].update(ras_n=1, cas_n=0, we_n=1, bank=b, address=addr)
                if ap:
                    open_row[b] = None
                used.add(p); cas_done = True; banks_used.add(b)
        tr.append(cyc)
    return tr


def job(args):
    idx, tier, seed = args
    from migen import run_simulation
    from litedram.common import PhySettings, GeomSettings
    from litedram.phy.model import SDRAMPHYModel
    rnd = random.Random("c19-%d-%d" % (seed, idx))
    cfg = rand_cfg(rnd, idx)
    r = Result()
    nph = cfg["nphases"]; nb = 1 << cfg["bankbits"]
    ps = PhySettings(phytype="SDRAMPHYModel", memtype=cfg["memtype"], databits=cfg["phase_bits"] // cfg["burst"], dfi_databits=cfg["phase_bits"],
                     nphases=nph, rdphase=0, wrphase=0, cl=2, read_latency=cfg["rl"], write_latency=cfg["wl"])

    class M: pass
    mod = M(); mod.memtype = cfg["memtype"]; mod.geom_settings = GeomSettings(cfg["bankbits"], cfg["rowbits"], cfg["colbits"])
    mod.geom_settings.addressbits = max(11, cfg["colbits"])      # the model indexes address[10]; colbits=12 needs A11
    init = [rnd.getrandbits(32) for _ in range(cfg["ninit"])]
    dut = SDRAMPHYModel(mod, settings=ps, we_granularity=cfg["we_gran"], init=list(init), address_mapping=cfg["mapping"])
    ncyc = 300 if tier == "quick" else 1500
    tr = gen_trace(rnd, cfg, ncyc)
    obs = []
    final = {}

    def g():
        for t in range(ncyc + cfg["rl"] + 3):
            if t > 0:
                d = 0
                for i, ph in enumerate(dut.dfi.phases):
                    d |= (yield ph.rddata) << (i * cfg["phase_bits"])
                obs.append("%d %d" % ((yield dut.dfi.phases[0].rddata_valid), d))
            cyc = tr[t] if t < ncyc else [dict(cs_n=0, ras_n=1, cas_n=1, we_n=1, bank=0, address=0, wrdata=0, mask=0)] * nph
            for ph, v in zip(dut.dfi.phases, cyc):
                yield ph.cs_n.eq(v["cs_n"]); yield ph.ras_n.eq(v["ras_n"]); yield ph.cas_n.eq(v["cas_n"]); yield ph.we_n.eq(v["we_n"])
                yield ph.bank.eq(v["bank"]); yield ph.address.eq(v["address"]); yield ph.wrdata.eq(v["wrdata"]); yield ph.wrdata_mask.eq(v["mask"])
            yield
        # dump the implementation's memories (all words of small memories, else a sample + every word written)
        for g in dump_idx:
            final[g] = (yield bank_mems[g // per][g % per])
    from migen.fhdl.specials import Memory
    from litedram.phy.model import BankModel
    bank_mems = []
    for _, sub in dut._submodules:
        if isinstance(sub, BankModel):
            bank_mems += [sp for sp in sub._fragment.specials if isinstance(sp, Memory)]
    B = cfg["burst"] * nph
    wpr = (1 << cfg["colbits"]) // B
    per = (1 << cfg["rowbits"]) * wpr
    # words to compare at the end: every location a write (or its A10-aliased twin) can have touched, the init image's
    # extent under either mapping, and a random sample
    dump_idx = set(rnd.randrange(nb * per) for _ in range(1500))
    open_r = {}
    for cyc in tr:
        for v in cyc:
            if v["ras_n"] == 0 and v["cas_n"] == 1 and v["we_n"] == 1:
                open_r[v["bank"]] = v["address"] % (1 << cfg["rowbits"])
            if v["ras_n"] == 1 and v["cas_n"] == 0 and v["we_n"] == 0 and v["bank"] in open_r:
                a = v["address"]
                for col in ((a & 0x3ff) | ((a >> 11) << 10), a % (1 << cfg["colbits"])):
                    col %= (1 << cfg["colbits"])
                    dump_idx.add(v["bank"] * per + open_r[v["bank"]] * wpr + col // B)
    dw = cfg["phase_bits"] * nph
    nwords = (len(init) * 32 + dw - 1) // dw
    for k in range(0, min(nwords + 4, nb * per), max(1, nwords // 200)):
        dump_idx.add(k); dump_idx.add((k % wpr) + (k // wpr % nb) * per + (k // wpr // nb) * wpr if True else k)
    dump_idx = sorted(x for x in dump_idx if x < nb * per)
    run_simulation(dut, g())
    idle_line = " ".join(["0 1 1 1 0 0 0 0"] * nph)
    lines = ["%d %d %d %d %d %d %d %d %d %d %d %s" % (nph, nb, cfg["rowbits"], cfg["colbits"], cfg["burst"], cfg["phase_bits"], cfg["wl"], cfg["rl"],
                                                    cfg["we_gran"], 0 if cfg["mapping"] == "ROW_BANK_COL" else 1, len(init), " ".join(map(str, init))), idle_line]
    full = tr + [[dict(cs_n=0, ras_n=1, cas_n=1, we_n=1, bank=0, address=0, wrdata=0, mask=0)] * nph] * (cfg["rl"] + 3)
    for cyc in full:
        lines.append(" ".join("%d %d %d %d %d %d %d %d" % (v["cs_n"], v["ras_n"], v["cas_n"], v["we_n"], v["bank"], v["address"], v["wrdata"], v["mask"]) for v in cyc))
    dl = " ".join(map(str, dump_idx))
    import os
    if os.environ.get("C19_DUMP"):
        open(os.environ["C19_DUMP"], "w").write("\n".join(lines + ["999999 " + dl, "999998 " + dl]) + "\n")
    mo = core.run_driver("phy", lines + ["999999 " + dl, "999998 " + dl])
    simmem = mo[-2].split()[1:]; refmem = mo[-1].split()[1:]
    mo = mo[2:-2]
    ncmd = 0
    n_obs = min(len(mo), len(obs))
    # (1) correspondence: implementation vs transcription, cycle by cycle
    for i in range(n_obs):
        sv, sd, rv, rd, rerr = mo[i].split()[:5]
        r.evaluations += 1
        if i < ncyc and any(v["ras_n"] == 0 or v["cas_n"] == 0 for v in tr[i]):
            r.distinct.add((idx, i)); ncmd += 1
        if obs[i] != "%s %s" % (sv, sd):
            if len(r.mismatches) < 3:
                r.mismatches.append(dict(where="SDRAMPHYModel vs Model/SimPhy.lean", config=cfg, cycle=i, impl=obs[i], model="%s %s" % (sv, sd), inputs=lines[max(2, i - 6):i + 3]))
            break
    # (2) property: implementation vs the independent reference DRAM (always evaluated)
    for i in range(n_obs):
        sv, sd, rv, rd, rerr = mo[i].split()[:5]
        if rerr == "1":
            r.mismatches.append(dict(where="trace generator produced an illegal trace (harness defect)", config=cfg, cycle=i, impl=mo[i].split()[5:], model=lines[i + 2])); break
        iv, idat = obs[i].split()
        if iv != rv or (rv == "1" and idat != rd):
            sig = "c19-read-data"
            r.violations.append(dict(signature=sig, what="%s 1:%d colbits=%d WL=%d RL=%d: at cycle %d the model returns valid=%s data=%s, the reference DRAM valid=%s data=%s"
                                     % (cfg["memtype"], nph, cfg["colbits"], cfg["wl"], cfg["rl"], i, iv, idat, rv, rd),
                                     replay=dict(config=cfg, cycle=i, trace=lines[max(2, i - 12):i + 3])))
            break
    # (3) the abstract multi-bank DRAM of C19.simphy_refines_abstract_dram, evaluated on the implementation: while the
    # trace meets the theorem's legality hypothesis (evaluated by the driver, cycLegal), the real model's read strobe and
    # data must be the abstract DRAM's
    ao = core.run_driver("adram", lines)
    wf = ao[0].strip() == "cfg wf=1"
    ao = ao[2:]
    nlegal = 0
    for i in range(min(n_obs, len(ao))):
        av, ad, alegal = ao[i].split()[:3]
        if not wf or alegal != "1":
            break
        nlegal += 1
        iv, idat = obs[i].split()
        r.evaluations += 1
        if (iv != av or (av == "1" and idat != ad)) and not r.violations:
            r.violations.append(dict(signature="c19-abstract-dram", what="%s 1:%d colbits=%d WL=%d RL=%d: at cycle %d the model returns valid=%s data=%s, the abstract DRAM of the theorem valid=%s data=%s (trace legal up to here)"
                                     % (cfg["memtype"], nph, cfg["colbits"], cfg["wl"], cfg["rl"], i, iv, idat, av, ad),
                                     replay=dict(config=cfg, cycle=i, trace=lines[max(2, i - 12):i + 3])))
            break
    r.coverage["traces_meeting_theorem_hypotheses_completely"] = int(wf and nlegal >= min(n_obs, len(ao)))
    r.coverage["cycles_judged_against_abstract_dram"] = nlegal
    # final memory contents: implementation (Migen memories) vs transcription
    for k, gidx in enumerate(dump_idx):
        if str(final[gidx]) != simmem[k] and len(r.mismatches) < 3:
            r.mismatches.append(dict(where="final memory: SDRAMPHYModel vs Model/SimPhy.lean", config=cfg, bank=gidx // per, word=gidx % per, impl=final[gidx], model=simmem[k]))
    for k, gidx in enumerate(dump_idx):
        if str(final[gidx]) != refmem[k] and not r.violations:
            r.violations.append(dict(signature="c19-final-memory", what="%s colbits=%d mapping=%s init=%d words: final memory word %d of bank %d is %s, the reference DRAM holds %s"
                                     % (cfg["memtype"], cfg["colbits"], cfg["mapping"], cfg["ninit"], gidx % per, gidx // per, final[gidx], refmem[k]),
                                     replay=dict(config=cfg, bank=gidx // per, word=gidx % per)))
    r.coverage["final_words_compared"] = len(final)
    r.coverage["configs"] = 1
    r.coverage["command_cycles"] = ncmd
    r.coverage["memtypes"] = {cfg["memtype"] + "_1:%d" % nph: 1}
    r.coverage["wide_column_configs"] = 1 if cfg["colbits"] > 10 else 0
    if idx < 2:
        r.samples.append(dict(config=cfg, cycles=lines[3:6]))
    return r


def run(tier, seed):
    n = 32 if tier == "quick" else 320
    res = Result()
    for r in core.pmap(job, [(i, tier, seed) for i in range(n)]):
        res.merge(r)
    return res


def replay(data, tier, seed):
    return run(tier, seed)
