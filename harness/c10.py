"""C10: LiteDRAMWishbone2Native (equal / wider / narrower Wishbone bus) and LiteDRAMNative2Wishbone (frontend/wishbone.py) vs
Model/Wishbone.lean cycle by cycle, and the port-memory specification (Spec/PortMemory.lean) evaluated at the Wishbone side of
the real module: every access that is not aborted is acknowledged exactly once, reads carry the bytes most recently written,
writes update exactly the selected bytes; aborted cycles leave later accesses intact.  Native side = crossbar-like stub."""
import random
from vlib import core
from vlib.core import Result

RULE = ("Wishbone widths {8,16,32,64} on native ports of equal, smaller (2x,4x down) and larger (2x..8x up, burst up-converter) "
        "width, base addresses; classic cycles and incrementing bursts (CTI=2 ... 7) of reads and writes with byte selects, idle "
        "cycles with and without CYC, aborts (CYC/STB dropped before ACK) at random cycles on reads and on writes to a scratch "
        "region; native side with random acceptance, pulse latencies and long stalls; Native2Wishbone with random slave latencies; "
        "a case = one simulated cycle with all boundary signals compared (equal/up/N2W) or one acknowledged access judged by the "
        "specification; non-trivial = an acknowledge or port handshake happens; distinct by (run, cycle)")
TRUSTED = ["native-side stub written from core/crossbar.py, not the real controller (two kinds: write data requested after the command as the crossbar does, and a buffered port - FIFO / CDC in front of the controller - that takes write data whenever it has room and pairs it with the commands in order)",
           "for a wider Wishbone bus the down-converter is covered cycle-exactly by C07; here the composition is judged by the specification only"]
ASSUMPTIONS = ["wider Wishbone bus (down-conversion): the native port requests write data once per accepted command (the contract the bridge states in its source); equal / narrower bus: also a buffered native port that takes write data whenever it has room", "Wishbone master holds CYC/STB/ADR/WE/SEL/DAT_W until ACK unless it aborts; an aborted write may or may not take effect (only issued to a scratch region that is never read back)",
               "BTE = linear; ERR/RTY unused"]


def mism(r, where, **kw):
    if len(r.mismatches) < 4:
        r.mismatches.append(dict(where=where, **kw))


def rand_cfg(rnd, idx):
    shape = ["equal", "up", "down", "equal", "up", "up"][idx % 6]
    if shape == "equal":
        wb_dw = rnd.choice([8, 16, 32, 64]); ratio = 1; port_dw = wb_dw
    elif shape == "down":
        wb_dw = rnd.choice([16, 32, 64]); ratio = rnd.choice([2, 4] if wb_dw > 16 else [2]); port_dw = wb_dw // ratio
    else:
        wb_dw = rnd.choice([8, 16, 32]); ratio = rnd.choice([2, 4, 8]); port_dw = wb_dw * ratio
    log = ratio.bit_length() - 1
    port_aw = rnd.randint(5, 7)
    wb_aw = port_aw if shape == "equal" else (port_aw - log if shape == "down" else port_aw + log)
    adr_bits = wb_aw + rnd.randint(0, 3)
    base_words = rnd.choice([0, 0, rnd.randrange(0, 1 << adr_bits)])
    return dict(shape=shape, wb_dw=wb_dw, port_dw=port_dw, ratio=ratio, log=log, port_aw=port_aw, wb_aw=wb_aw, adr_bits=adr_bits,
                base_words=base_words, aborts=int(idx % 2 == 0),
                # a buffered native port only where the bridge gates its write data by its FSM (equal / narrower bus); with a wider
                # bus the bridge offers the data together with the command (the down-converter needs it no later) and states that
                # "the controller asks for it only once": a port that takes data independently of commands is outside that contract
                buffered=0 if shape == "down" else [0, 0, 1, 0, 2, 4][(idx // 6) % 6])


def gen_ops(c, rnd, n):
    """groups of accesses sharing one CYC; each access: we, addr (relative), sel, data, cti"""
    nb = c["wb_dw"] // 8
    amax = (1 << c["wb_aw"]) * 3 // 4            # top quarter = scratch region for aborted writes
    groups = []
    for _ in range(n):
        we = rnd.randint(0, 1)
        burst = rnd.random() < 0.5
        ln = rnd.randint(2, min(9, max(2, amax - 1))) if burst else 1
        a = rnd.randrange(0, max(1, amax - ln))
        if groups and rnd.random() < 0.5:
            a = max(0, min(groups[-1][-1]["addr"] + rnd.randint(-3, 3), amax - ln))
        g = []
        mixed = burst and rnd.random() < 0.4      # read-modify-write style: reads and writes under one CYC, nearby addresses
        for j in range(ln):
            sel = (1 << nb) - 1 if rnd.random() < 0.6 else rnd.getrandbits(nb)
            cti = (2 if j < ln - 1 else 7) if burst else rnd.choice([0, 0, 7])
            if mixed:
                g.append(dict(we=rnd.randint(0, 1), addr=max(0, min(amax - 1, a + rnd.randint(0, 3))), sel=sel, data=rnd.getrandbits(c["wb_dw"]),
                              cti=rnd.choice([2, 2, 0, 7]), abort=None))
            else:
                g.append(dict(we=we, addr=a + j, sel=sel, data=rnd.getrandbits(c["wb_dw"]), cti=cti, abort=None))
        if mixed:
            we = 0                                 # (mixed groups are not aborted as writes: their addresses are read back)
        if c["aborts"] and not mixed and rnd.random() < 0.25:
            # abort the last access of the group after a few cycles; aborted writes go to the scratch region
            k = rnd.randrange(ln)
            g = g[:k + 1]
            g[k] = dict(g[k], abort=rnd.randint(0, 6))
            if we:
                room = (1 << c["wb_aw"]) - amax
                g = g[-room:]                     # the whole group must fit into the scratch region
                g[-1]["abort"] = g[-1]["abort"] if g[-1]["abort"] is not None else rnd.randint(0, 6)
                start = amax + rnd.randrange(0, room - len(g) + 1)
                for j, o in enumerate(g):
                    o["addr"] = start + j
        groups.append(g)
    return groups


def simulate(c, groups, rnd):
    from migen import run_simulation
    from litex.soc.interconnect import wishbone
    from litedram.common import LiteDRAMNativePort
    from litedram.frontend.wishbone import LiteDRAMWishbone2Native
    nb = c["wb_dw"] // 8
    wb = wishbone.Interface(data_width=c["wb_dw"], adr_width=c["adr_bits"], addressing="word")
    port = LiteDRAMNativePort("both", c["port_aw"], c["port_dw"])
    dut = LiteDRAMWishbone2Native(wb, port, base_address=c["base_words"] * nb)
    amask = (1 << c["adr_bits"]) - 1
    ratio = c["ratio"]
    if c["shape"] == "up":
        lines = ["%d %d %d %d %d %d" % (c["port_aw"], c["adr_bits"], c["base_words"], ratio, c["log"], c["wb_dw"])]
    else:
        lines = ["%d %d %d" % (c["wb_aw"], c["base_words"], int(c["shape"] == "down"))]
    lines.append("0 0 0 0 0 0 0 0 0 0 0")
    obs, mon = [], []
    st = dict(stub_mem={}, lost=[], stuck=None, acks=0, aborts=0, double_ack=None, max_outstanding=0, scratch=set())
    init_rnd = random.Random(rnd.random())
    for a in range(1 << c["port_aw"]):
        st["stub_mem"][a] = init_rnd.getrandbits(c["port_dw"])

    def view_word(a):
        if c["shape"] == "equal":
            return st["stub_mem"][a]
        if c["shape"] == "up":
            return (st["stub_mem"][a // ratio] >> ((a % ratio) * c["wb_dw"])) & ((1 << c["wb_dw"]) - 1)
        return sum(st["stub_mem"][a * ratio + j] << (j * c["port_dw"]) for j in range(ratio))
    for a in range(1 << c["wb_aw"]):
        mon.append("1 1 %d %d %d 0 0" % (a, view_word(a), (1 << nb) - 1))
    st["init_events"] = len(mon)
    flat = sum(len(g) for g in groups)
    budget = 80 * flat * (ratio if c["shape"] == "down" else 1) + 2000

    def gen():
        gi = 0; ai = 0; gap = 2; active = False; waited = 0; cyc_hold = False
        queue = []; last_event = 0
        buf = c.get("buffered", 0)          # native port behind a FIFO / CDC: write data is taken whenever there is room,
        cmdq = []; dataq = []                # independently of the command channel, and paired with the commands in order
        p_cmd, lat = 0.8, 3
        prev = None; pending_w = None; pending_r = False
        tail = 0
        cooldown = 0
        for t in range(budget):
            if prev is not None:
                o_ack = (yield wb.ack); o_dr = (yield wb.dat_r)
                o_cv = (yield port.cmd.valid); o_cw = (yield port.cmd.we); o_ca = (yield port.cmd.addr); o_cl = (yield port.cmd.last); o_fl = (yield port.flush)
                o_wv = (yield port.wdata.valid); o_wd = (yield port.wdata.data); o_ww = (yield port.wdata.we); o_rr = (yield port.rdata.ready)
                obs.append("%d %d %d %d %d %d %d %d %d %d %d" % (o_ack, o_dr if o_ack else 0, o_cv, o_cw if o_cv else 0, o_ca if o_cv else 0, o_cl if o_cv else 0, o_fl,
                                                                  o_wv, o_wd if o_wv else 0, o_ww if o_wv else 0, o_rr))
                ev = "0 0 0 0 0 0 0"
                if o_ack:
                    if not (prev["cyc"] and prev["stb"]):
                        st["double_ack"] = "ACK at cycle %d without an access in progress" % t
                    else:
                        op = groups[gi][ai]
                        st["acks"] += 1
                        if op["we"]:
                            ev = "1 1 %d %d %d 0 0" % (op["addr"], op["data"], op["sel"])
                        else:
                            ev = "1 0 %d 0 0 1 %d" % (op["addr"], o_dr)
                        active = False; waited = 0
                        ai += 1
                        if ai == len(groups[gi]):
                            gi += 1; ai = 0; cyc_hold = False; gap = rnd.choice([0, 1, 2, rnd.randint(0, 12)])
                        else:
                            cyc_hold = True; gap = rnd.choice([0, 0, 0, 1, 3])
                elif active:
                    waited += 1
                    op = groups[gi][ai]
                    if op["abort"] is not None and waited > op["abort"]:
                        st["aborts"] += 1
                        if op["we"]:
                            st["scratch"].add(op["addr"])
                        active = False; waited = 0; cyc_hold = False
                        gi += 1; ai = 0; gap = rnd.randint(1, 4); cooldown = rnd.choice([0, 0, 30])
                mon.append(ev)
                if buf:
                    if o_cv and prev["tcr"]:
                        cmdq.append([o_cw, o_ca, t + 1 + rnd.randint(0, lat)])
                        st["max_outstanding"] = max(st["max_outstanding"], len(cmdq))
                    if o_wv and prev["twr"]:
                        dataq.append((o_wd, o_ww))
                elif o_cv and prev["tcr"]:
                    e = max(t + 1, last_event + 1) + rnd.randint(0, lat)
                    if rnd.random() < 0.05:
                        e += rnd.randint(10, 40)
                    last_event = e
                    queue.append([e, o_cw, o_ca])
                    st["max_outstanding"] = max(st["max_outstanding"], len(queue))
                if pending_w is not None:
                    if not o_wv:
                        st["lost"].append("write data for native word %d not valid when wdata.ready pulsed (cycle %d)" % (pending_w, t))
                    else:
                        old = st["stub_mem"].get(pending_w, 0); new = 0
                        for b in range(c["port_dw"] // 8):
                            src = o_wd if (o_ww >> b) & 1 else old
                            new |= ((src >> (8 * b)) & 0xff) << (8 * b)
                        st["stub_mem"][pending_w] = new
                    pending_w = None
                if pending_r:
                    if not o_rr:
                        st["lost"].append("rdata.valid pulsed while rdata.ready was low (cycle %d)" % t)
                    pending_r = False
            if gi >= len(groups):
                busy = prev is not None and (o_cv or (o_wv and not buf) or queue or cmdq or pending_w is not None or pending_r)
                tail = 0 if busy else tail + 1
                if tail > 100:
                    break
            if t % 60 == 0:
                p_cmd = rnd.choice([0.2, 0.7, 1.0]); lat = rnd.choice([0, 3, 9])
            cyc = stb = we = 0; adr = sel = dat = cti = 0
            if gi < len(groups):
                op = groups[gi][ai]
                if not active:
                    if gap > 0:
                        gap -= 1
                    else:
                        active = True
                if active:
                    cyc = stb = 1; we = op["we"]; adr = (op["addr"] + c["base_words"]) & amask; sel = op["sel"]; dat = op["data"] if op["we"] else rnd.getrandbits(c["wb_dw"]); cti = op["cti"]
                elif cyc_hold:
                    cyc = 1                      # CYC stays high between the beats of a burst, STB low
            if not stb and rnd.random() < 0.5:
                we, adr, sel, dat, cti = rnd.randint(0, 1), rnd.randrange(amask + 1), rnd.getrandbits(nb), rnd.getrandbits(c["wb_dw"]), rnd.choice([0, 2, 7])
            tcr = int(rnd.random() < p_cmd) if t >= c.get("tcr_hold", 0) else 0
            twr = trv = trd = 0
            if buf:
                twr = int(len(dataq) < buf and rnd.random() < 0.8)
                if cmdq and cmdq[0][2] <= t:
                    if cmdq[0][0]:
                        if dataq:
                            d, m = dataq.pop(0); qa = cmdq.pop(0)[1]
                            old = st["stub_mem"].get(qa, 0); new = 0
                            for b in range(c["port_dw"] // 8):
                                src = d if (m >> b) & 1 else old
                                new |= ((src >> (8 * b)) & 0xff) << (8 * b)
                            st["stub_mem"][qa] = new
                    else:
                        qa = cmdq.pop(0)[1]
                        trv = 1; trd = st["stub_mem"].get(qa, 0); pending_r = True
            elif queue and queue[0][0] <= t:
                _, qwe, qa = queue.pop(0)
                if qwe:
                    twr = 1; pending_w = qa
                else:
                    trv = 1; trd = st["stub_mem"].get(qa, 0); pending_r = True
            prev = dict(cyc=cyc, stb=stb, tcr=tcr, twr=twr)
            yield wb.cyc.eq(cyc); yield wb.stb.eq(stb); yield wb.we.eq(we); yield wb.adr.eq(adr); yield wb.sel.eq(sel); yield wb.dat_w.eq(dat); yield wb.cti.eq(cti)
            yield port.cmd.ready.eq(tcr); yield port.wdata.ready.eq(twr); yield port.rdata.valid.eq(trv); yield port.rdata.data.eq(trd)
            lines.append("%d %d %d %d %d %d %d %d %d %d %d" % (cyc, stb, we, adr, sel, dat, cti, tcr, twr, trv, trd))
            yield
        else:
            st["stuck"] = "after %d cycles: group %d of %d, %d acknowledges, %d aborts, %d native commands outstanding" % (budget, gi, len(groups), st["acks"], st["aborts"], len(queue) + len(cmdq))
        if buf and dataq and not st["stuck"]:
            st["lost"].append("%d write-data beats were handed to the native port without a write command to go with them" % len(dataq))
    run_simulation(dut, gen())
    st["view"] = {a: view_word(a) for a in range(1 << c["wb_aw"])}
    return lines, obs, mon, st


def job(args):
    seed, idx, tier = args
    rnd = random.Random("c10-%d-%d" % (seed, idx))
    c = rand_cfg(rnd, idx)
    groups = gen_ops(c, rnd, rnd.randint(10, 25) if tier == "quick" else rnd.randint(30, 100))
    r = Result()
    lines, obs, mon, st = simulate(c, groups, rnd)
    tag = dict(config=c, seed=seed, idx=idx, groups=groups[:20])
    r.coverage["runs"] = 1
    r.coverage["shapes"] = {"%s_%dto%d" % (c["shape"], c["wb_dw"], c["port_dw"]): 1}
    r.coverage["acknowledged_accesses"] = st["acks"]
    r.coverage["aborted_accesses"] = st["aborts"]
    if c["shape"] != "down":
        mo = core.run_driver("wbup" if c["shape"] == "up" else "wbw2n", lines)[2:]
        for i in range(min(len(mo), len(obs))):
            r.evaluations += 1
            f = obs[i].split()
            if f[0] == "1" or f[2] == "1" or f[7] == "1":
                r.distinct.add((idx, i))
            if mo[i] != obs[i]:
                mism(r, "LiteDRAMWishbone2Native (%s) vs Model/Wishbone.lean" % c["shape"], config=c, cycle=i, impl=obs[i], model=mo[i], inputs=lines[max(2, i - 3):i + 3])
                break
    else:
        r.evaluations += st["acks"]
        for i, l in enumerate(mon[st["init_events"]:]):
            if l.startswith("1"):
                r.distinct.add((idx, i))
    out = core.run_driver("portmon", ["1 %d" % (c["wb_dw"] // 8)] + mon + ["999999"])
    viol = next((x for x in out if x.startswith("VIOL")), None)
    what = None
    if viol:
        what = "Wishbone side, cycle %d: %s" % (int(viol.split()[1]) - st["init_events"], " ".join(viol.split()[2:]))
    elif st["double_ack"]:
        what = st["double_ack"]
    elif st["stuck"]:
        what = "no progress: " + st["stuck"]
    elif st["lost"] and not st["aborts"]:
        what = st["lost"][0]
    else:
        dump = out[-1].split(" mem ")
        words = [int(x) for x in dump[1].split()] if len(dump) > 1 else []
        spec_mem = {words[i]: words[i + 1] for i in range(0, len(words), 2)}
        for a in sorted(spec_mem):
            if a in st["scratch"]:
                continue
            if st["view"].get(a) != spec_mem[a] and what is None:
                what = "Wishbone word %d: native memory holds 0x%x, the acknowledged writes give 0x%x" % (a, st["view"].get(a, 0), spec_mem[a])
    r.evaluations += 1
    if what:
        sig = "c10-" + ("abort" if st["aborts"] else "wishbone")
        r.violations.append(dict(signature=sig,
                                 what="Wishbone %d-bit on %d-bit native port (%s), %d aborted cycles: %s" % (c["wb_dw"], c["port_dw"], c["shape"], st["aborts"], what), replay=tag))
    if idx < 2:
        r.samples.append(dict(config=c, first_group=groups[0][:3], first_cycles=obs[:3]))
    return r


def n2w_job(args):
    """LiteDRAMNative2Wishbone: random native commands, Wishbone slave memory with random latencies"""
    seed, idx, tier = args
    from migen import run_simulation
    from litex.soc.interconnect import wishbone
    from litedram.common import LiteDRAMNativePort
    from litedram.frontend.wishbone import LiteDRAMNative2Wishbone
    rnd = random.Random("c10n-%d-%d" % (seed, idx))
    dw = rnd.choice([8, 16, 32, 64]); nb = dw // 8
    byte_addr = rnd.randint(0, 1)
    aw = 6
    base = rnd.choice([0, 0x100 * nb, 0x40000000])
    wb = wishbone.Interface(data_width=dw, adr_width=32 if byte_addr else 30, addressing="byte" if byte_addr else "word")
    port = LiteDRAMNativePort("both", aw, dw)
    dut = LiteDRAMNative2Wishbone(port, wb, base_address=base)
    r = Result()
    lines = ["%d %d %d %d %d" % (dw, base, byte_addr, nb, len(wb.adr)), "0 0 0 0 0 0 0 0"]
    obs = []
    mem = {}; ref = {}
    st = dict(problems=[], ops=0)
    n = 60 if tier == "quick" else 300

    pipelined = idx % 2 == 1      # every other run: the master offers its next command while the current access is still pending
                                  # (what the crossbar / DMA masters do); the bridge must not let it disturb the access in flight

    def gen():
        k = 0; cv = 0; cur = None; nxt = None; wv = 0; phase = "idle"; ackdelay = 0; prev = None
        for t in range(60 * n):
            if prev is not None:
                o = ((yield port.cmd.ready), (yield port.wdata.ready), (yield port.rdata.valid), (yield port.rdata.data), (yield wb.cyc), (yield wb.stb), (yield wb.we),
                     (yield wb.adr), (yield wb.sel), (yield wb.dat_w))
                obs.append("%d %d %d %d %d %d %d %d %d %d" % (o[0], o[1], o[2], o[3] if o[2] else 0, o[4], o[5], o[6], o[7] if o[4] else 0, o[8] if o[4] else 0, o[9] if o[4] else 0))
                if prev["ack"]:
                    # the slave acknowledged: check what was on the bus
                    exp_adr = (cur["addr"] * nb + base if byte_addr else cur["addr"] + base // nb) & 0xffffffff & ((1 << len(wb.adr)) - 1)
                    if o[7] != exp_adr:
                        st["problems"].append("Wishbone address 0x%x for native address %d (expected 0x%x)%s" % (
                            o[7], cur["addr"], exp_adr, " - the next command (address %d) was already offered" % nxt["addr"] if nxt else ""))
                    if cur["we"]:
                        if not o[6] or o[9] != cur["data"] or o[8] != cur["sel"]:
                            st["problems"].append("Wishbone write carries we=%d data=0x%x sel=0x%x for native write data=0x%x we=0x%x" % (o[6], o[9], o[8], cur["data"], cur["sel"]))
                        if not o[1]:
                            st["problems"].append("wdata.ready not given with the acknowledge")
                    else:
                        if not o[2] or o[3] != prev["datr"]:
                            st["problems"].append("read data 0x%x (valid=%d) returned for slave data 0x%x" % (o[3], o[2], prev["datr"]))
                    st["ops"] += 1
                    phase = "idle"; wv = 0; k += 1
                    if k >= n:
                        break
                if prev["cv"] and o[0]:
                    if phase != "idle":
                        st["problems"].append("a command was accepted while the previous access is still pending")
                    cur = nxt; nxt = None; cv = 0; phase = "data"; ackdelay = rnd.randint(0, 6)
            if nxt is None and (phase == "idle" or pipelined) and rnd.random() < 0.6:
                nxt = dict(we=rnd.randint(0, 1), addr=rnd.randrange(1 << aw), data=rnd.getrandbits(dw), sel=rnd.getrandbits(nb))
                cv = 1
            if phase == "data" and cur["we"] and not wv and rnd.random() < 0.6:
                wv = 1
            ack = 0; datr = 0
            if phase == "data" and (wv or not cur["we"]):
                # combinational view of the slave: STB is high now (write: once wdata is valid; read: always)
                if ackdelay > 0:
                    ackdelay -= 1
                else:
                    ack = 1; datr = rnd.getrandbits(dw)
            prev = dict(cv=cv, ack=ack, datr=datr)
            c_ = nxt if cv else None
            yield port.cmd.valid.eq(cv); yield port.cmd.we.eq(c_["we"] if c_ else 0); yield port.cmd.addr.eq(c_["addr"] if c_ else 0)
            yield port.wdata.valid.eq(wv); yield port.wdata.data.eq(cur["data"] if (cur and wv) else 0); yield port.wdata.we.eq(cur["sel"] if (cur and wv) else 0)
            yield wb.ack.eq(ack); yield wb.dat_r.eq(datr)
            lines.append("%d %d %d %d %d %d %d %d" % (cv, c_["we"] if c_ else 0, c_["addr"] if c_ else 0, wv, cur["data"] if (cur and wv) else 0, cur["sel"] if (cur and wv) else 0, ack, datr))
            yield
    run_simulation(dut, gen())
    mo = core.run_driver("wbn2w", lines)[2:]
    for i in range(min(len(mo), len(obs))):
        r.evaluations += 1
        if obs[i].split()[4] == "1" or obs[i].split()[0] == "1":
            r.distinct.add(("n2w", idx, i))
        if mo[i] != obs[i]:
            mism(r, "LiteDRAMNative2Wishbone vs Model/Wishbone.lean", config=dict(dw=dw, base=base, byte_addressing=byte_addr), cycle=i, impl=obs[i], model=mo[i], inputs=lines[max(2, i - 3):i + 3])
            break
    r.coverage["n2w_runs"] = 1
    r.coverage["n2w_accesses"] = st["ops"]
    if st["problems"]:
        r.violations.append(dict(signature="c10-n2w", what="Native2Wishbone %d-bit, base 0x%x, %s addressing: %s" % (dw, base, "byte" if byte_addr else "word", st["problems"][0]),
                                 replay=dict(seed=seed, idx=idx)))
    return r


def _dispatch(j):
    return j[0](j[1])


def run(tier, seed):
    n = 108 if tier == "quick" else 650
    jobs = [(job, (seed, i, tier)) for i in range(n)] + [(n2w_job, (seed, i, tier)) for i in range(12 if tier == "quick" else 100)]
    res = Result()
    for r in core.pmap(_dispatch, jobs):
        res.merge(r)
    return res


def replay(data, tier, seed):
    return run(tier, seed)
