"""C20 correspondence and monitors.
A  real LPDDR4 / LPDDR5 DFIPhaseAdapter (comb simulation) vs the Lean adapter model, and the JEDEC decode of the
   *implementation's* pins vs the DFI-level expectation (Lean spec) - all command types x cs_n x masked x
   walking-one / random address and bank values (x wck_sync_done for LPDDR5)
B  real CommandsPipeline over 8 real LPDDR4 adapters: random/dense command placement (all spacings), basic and
   extended overlap check, vs the composed Lean model (adapters + pipeline), and the stream monitor
   (Spec/Lpddr4Stream) run on the implementation's pins."""
import random
from vlib import core
from vlib.core import Result

RULE = ("adapters: every DFI command code x cs_n x masked (x wck_sync_done) with walking-one, all-ones, zero and random "
        "address/bank values; pipeline: 8-phase traces with commands at every phase and all spacings 0..2*nphases between two "
        "commands plus random dense traffic, plus deselected phases (cs_n = 1) with non-idle command/address lines next to real commands, basic and extended overlap check; a case = one DFI phase value (adapter) or one "
        "cycle of 8 phases (pipeline); non-trivial = carries a command; distinct by value")
TRUSTED = ["the LPDDR5 single-phase command path inside LPDDR5PHY (PipeValid buffering of the second half) is not co-simulated; "
           "only its adapter is (modelled, not verified: lpddr5/basephy.py command path)",
           "vendor serialisers behind LPDDR4Output/LPDDR5Output are out of scope"]
ASSUMPTIONS = ["DFI address/bank widths as the PHYs declare them (LPDDR4 17/6 bits, LPDDR5 18/7 bits)"]

CMDS = list(range(8))


def mism(r, where, **kw):
    if len(r.mismatches) < 5:
        r.mismatches.append(dict(where=where, **kw))


def viol(r, sig, what, replay):
    if len(r.violations) < 5:
        r.violations.append(dict(signature=sig, what=what, replay=replay))


def values(rnd, width, n):
    vs = {0, (1 << width) - 1}
    for b in range(width):
        vs.add(1 << b)
    while len(vs) < n:
        vs.add(rnd.getrandbits(width))
    return sorted(vs)


def job_adapter(args):
    gen, masked, tier, seed = args
    from migen import run_simulation
    from litedram.phy.dfi import Interface
    rnd = random.Random("c20a-%d-%d-%d" % (seed, gen, masked))
    r = Result()
    if gen == 4:
        from litedram.phy.lpddr4.commands import DFIPhaseAdapter
        aw, bw, cab = 17, 6, 6
    else:
        from litedram.phy.lpddr5.commands import DFIPhaseAdapter
        aw, bw, cab = 18, 7, 7
    dfi = Interface(aw, bw, 1, 16, nphases=1)
    dut = DFIPhaseAdapter(dfi.p0, masked_write=bool(masked))
    navals = 40 if tier == "quick" else 200
    cases = []
    for c in CMDS:
        for a in values(rnd, aw, navals):
            for b in ([0, 1, 2, 3] + rnd.sample(values(rnd, bw, 12), 4)):
                cs = int(rnd.random() < 0.05)
                wd = rnd.randrange(2)
                cases.append((cs, 1 - ((c >> 2) & 1), 1 - ((c >> 1) & 1), 1 - (c & 1), a, b, wd))
    outs = []

    def g():
        p = dfi.p0
        for (cs, cas, ras, we, a, b, wd) in cases:
            yield p.cs_n.eq(cs); yield p.cas_n.eq(cas); yield p.ras_n.eq(ras); yield p.we_n.eq(we)
            yield p.address.eq(a); yield p.bank.eq(b)
            if gen == 5:
                yield dut.wck_sync_done.eq(wd)
            yield
            o = [(yield dut.valid), (yield dut.cs), (yield dut.ca[0]), (yield dut.ca[1]), (yield dut.ca[2]), (yield dut.ca[3])]
            if gen == 5:
                o.append((yield dut.wck_sync))
            outs.append(o)
    run_simulation(dut, g())
    if gen == 4:
        lines = ["%d %d %d %d %d %d %d" % ((masked,) + c[:6]) for c in cases]
        mo = core.run_driver("c20a4", lines)
        sp = core.run_driver("c20exp4", ["%s %d %d %d %d %d %d" % (l, o[1], o[2], o[3], o[4], o[5], o[0]) for l, o in zip(lines, outs)])
    else:
        lines = ["%d %d %d %d %d %d %d %d" % ((masked, c[6]) + c[:6]) for c in cases]
        mo = core.run_driver("c20a5", lines)
        sp = core.run_driver("c20exp5", ["%s %d %d %d %d %d %d" % (l, o[1], o[2], o[3], o[4], o[5], o[0]) for l, o in zip(lines, outs)])
    for c, o, m, s in zip(cases, outs, mo, sp):
        r.evaluations += 1
        if not c[0]:
            r.distinct.add((gen, masked) + c)
        ims = " ".join(map(str, o))
        if ims != m:
            mism(r, "LPDDR%d DFIPhaseAdapter" % gen, input=dict(masked=masked, cs_n=c[0], cas_n=c[1], ras_n=c[2], we_n=c[3], address=c[4], bank=c[5], wck_sync_done=c[6]), impl=ims, model=m)
        if s != "1":
            viol(r, "c20-adapter%d" % gen, "LPDDR%d adapter (masked=%d): DFI cas_n=%d ras_n=%d we_n=%d address=%#x bank=%d -> pins cs=%#x ca=%s do not decode (JEDEC) to the requested operation: %s"
                 % (gen, masked, c[1], c[2], c[3], c[4], c[5], o[1], o[2:6], s[2:300]),
                 dict(gen=gen, masked=masked, dfi=list(c), pins=o))
    r.coverage["adapter_cases"] = {"lpddr%d_masked%d" % (gen, masked): len(cases)}
    r.samples.append(dict(part="adapter", gen=gen, masked=masked, dfi=list(cases[len(cases) // 3]), pins=outs[len(cases) // 3]))
    return r


def make_trace(rnd, mode, ncyc, n=8):
    """per cycle, per phase: (cs_n, cas_n, ras_n, we_n, address, bank)"""
    idle = (0, 1, 1, 1, 0, 0)
    tr = [[idle] * n for _ in range(ncyc)]
    def cmd():
        c = rnd.choice([2, 4, 5, 3, 6, 7, 1, 1])
        bank = rnd.choice([0, 1]) if c == 1 else rnd.getrandbits(6)
        return (0, 1 - ((c >> 2) & 1), 1 - ((c >> 1) & 1), 1 - (c & 1), rnd.getrandbits(17), bank)
    if mode[0] == "chain":         # the recorded finding: A sent, B overlaps A, C (and D) within 3 phases of its predecessor
        _, p = mode
        t = 2
        while t + 4 < ncyc:
            g0 = t * n + p
            for g in (g0, g0 + 2, g0 + 5, g0 + 7, g0 + 9):
                c = list(tr[g // n]); c[g % n] = cmd(); tr[g // n] = c
            t += 5
    elif mode[0] == "pair":        # two commands `gap` phases apart, first at phase p
        _, p, gap = mode
        t = 2
        while t + 4 < ncyc:
            g0 = t * n + p
            for g in (g0, g0 + gap):
                c = list(tr[g // n]); c[g % n] = cmd(); tr[g // n] = c
            t += 4
    elif mode[0] == "ghost":       # as "rand", plus deselected phases (cs_n = 1) whose command/address lines are not idle
        dens = mode[1]
        for t in range(ncyc):
            tr[t] = [cmd() if rnd.random() < dens else (((1,) + cmd()[1:]) if rnd.random() < 0.5 else idle) for _ in range(n)]
    elif mode[0] == "ghostpair":   # a deselected non-idle phase at phase p, a real command `gap` phases later
        _, p, gap = mode
        t = 2
        while t + 4 < ncyc:
            g0 = t * n + p
            c = list(tr[g0 // n]); c[g0 % n] = (1,) + cmd()[1:]; tr[g0 // n] = c
            g1 = g0 + gap
            c = list(tr[g1 // n]); c[g1 % n] = cmd(); tr[g1 // n] = c
            t += 4
    else:                          # random density
        dens = mode[1]
        for t in range(ncyc):
            tr[t] = [cmd() if rnd.random() < dens else idle for _ in range(n)]
    return tr


def job_pipe(args):
    ext, masked, modes, tier, seed = args
    from migen import Module, run_simulation
    from litedram.phy.dfi import Interface
    from litedram.phy.lpddr4.commands import DFIPhaseAdapter
    from litedram.phy.utils import CommandsPipeline
    rnd = random.Random("c20p-%d-%d-%d-%s" % (seed, ext, masked, modes[0]))
    r = Result()
    n = 8

    class Dut(Module):
        def __init__(self):
            self.dfi = Interface(17, 6, 1, 32, nphases=n)
            adapters = [DFIPhaseAdapter(ph, masked_write=bool(masked)) for ph in self.dfi.phases]
            self.submodules += adapters
            self.submodules.commands = CommandsPipeline(adapters, cs_ser_width=n, ca_ser_width=n, ca_nbits=6,
                                                        cmd_nphases_span=4, extended_overlaps_check=bool(ext))
    for mode in modes:
        dut = Dut()
        ncyc = 40 if mode[0] in ("pair", "chain", "ghostpair") else (60 if tier == "quick" else 400)
        tr = make_trace(rnd, mode, ncyc, n)
        obs = []

        def g():
            for t in range(ncyc + 2):
                if t >= 1:
                    o = [(yield dut.commands.cs)]
                    for b in range(6):
                        o.append((yield dut.commands.ca[b]))
                    obs.append(o)
                cyc = tr[t] if t < ncyc else [(0, 1, 1, 1, 0, 0)] * n
                for ph, v in zip(dut.dfi.phases, cyc):
                    yield ph.cs_n.eq(v[0]); yield ph.cas_n.eq(v[1]); yield ph.ras_n.eq(v[2]); yield ph.we_n.eq(v[3])
                    yield ph.address.eq(v[4]); yield ph.bank.eq(v[5])
                yield
        run_simulation(dut, g())
        full = tr + [[(0, 1, 1, 1, 0, 0)] * n] * 2
        dl = [" ".join("%d %d %d %d %d %d" % v for v in cyc) for cyc in full]
        # model: leading idle line; registered outputs -> obs[j] is the model's post-step state of line j+1
        idle_line = " ".join(["0 1 1 1 0 0"] * n)
        mo = core.run_driver("c20path4", ["%d %d %d 6 4 %d %d" % (n, n, n, ext, masked), idle_line] + dl)[1:]
        for t in range(min(len(obs), len(mo))):
            r.evaluations += 1
            if any(v[1:4] != (1, 1, 1) for v in full[t]):
                r.distinct.add((ext, masked, mode, t, tuple(full[t])))
            ims = " ".join(map(str, obs[t]))
            if ims != mo[t]:
                mism(r, "CommandsPipeline(LPDDR4)", cfg=dict(extended=ext, masked=masked, mode=mode), cycle=t,
                     input=dl[max(0, t - 2):t + 1], impl=ims, model=mo[t])
                break
        # spec monitor on the implementation's pins: obs[t+1] = pins after the DFI of cycle t was registered... obs index
        # obs[j] was read in iteration j+1 = state after the edge that consumed cycle j-1's DFI. So the pins that carry
        # cycle t's commands are obs[t+1].
        sl = ["%d %d %d" % (n, ext, masked)]
        for t in range(ncyc):
            if t + 1 < len(obs):
                sl.append(dl[t] + " " + " ".join(map(str, obs[t + 1])))
        sl.append("999999")
        verdict = core.run_driver("c20stream4", sl)[-1]
        r.coverage["stream_traces"] = r.coverage.get("stream_traces", 0) + 1
        if verdict != "ok":
            chain = verdict.endswith("chain")
            g = int(verdict.split()[1])
            lo = max(0, g // n - 2)
            v = dict(signature="c20-chain-suppression" if chain else "c20-stream",
                     what="LPDDR4 command path (extended=%d masked=%d, %s): %s at global phase %d (cycle %d phase %d); reason 1 = a command that does not overlap a command in flight is missing/garbled at its slot, 2 = CS driven where no command is due"
                          % (ext, masked, mode, verdict, g, g // n, g % n),
                     replay=dict(extended=ext, masked=masked, mode=mode, first_cycle=lo, dfi=dl[lo:lo + 4], pins=obs[lo + 1:lo + 5], verdict=verdict))
            if chain:
                r.violations.append(v) if not any(x["signature"] == v["signature"] for x in r.violations) else None
            else:
                r.violations.insert(0, v)
    r.samples.append(dict(part="pipeline", extended=ext, mode=list(modes[0]), first_cycles=dl[2:4]))
    return r


def _dispatch(j):
    return j[0](j[1])


def run(tier, seed):
    jobs = []
    for gen in (4, 5):
        for masked in (0, 1):
            jobs.append((job_adapter, (gen, masked, tier, seed)))
    pair_modes = [("pair", p, gap) for p in range(8) for gap in range(1, 17)]
    rnd = random.Random("c20-%d" % seed)
    for ext in (0, 1):
        for masked in (0, 1):
            chunk = pair_modes if tier == "thorough" else rnd.sample(pair_modes, 24)
            for i in range(0, len(chunk), 8):
                jobs.append((job_pipe, (ext, masked, chunk[i:i + 8], tier, seed)))
            jobs.append((job_pipe, (ext, masked, [("rand", 0.05), ("rand", 0.2), ("rand", 0.6)], tier, seed)))
            # deselected phases (cs_n = 1) with non-idle command/address lines next to real commands: DFI allows them
            jobs.append((job_pipe, (ext, masked, [("ghost", 0.05), ("ghost", 0.2)] + [("ghostpair", p, gap) for p in (0, 3, 6, 7) for gap in (1, 2, 3, 4)][(masked * 8):(masked * 8 + 8)], tier, seed)))
        # known finding demonstrated on every run (directed chains, both overlap-check flavours)
        jobs.append((job_pipe, (ext, 1, [("chain", 7), ("chain", 3)], tier, seed)))
    res = Result()
    for r in core.pmap(_dispatch, jobs):
        res.merge(r)
    return res


def replay(data, tier, seed):
    return run(tier, seed)
