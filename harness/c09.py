"""C09: LiteDRAMAXI2Native (frontend/axi.py) vs Model/Axi.lean cycle by cycle, with two specifications evaluated on the real
module: Spec/AxiSpec.lean (one B per write burst, in order, with its ID, after its data reached the native port; read bursts
return len+1 beats with ID and LAST, in order) and Spec/PortMemory.lean (write beats update exactly the strobed bytes of the
addressed words, read beats carry the bytes last written).  Native side = crossbar-like stub."""
import random
from vlib import core
from vlib.core import Result

RULE = ("data widths {16,32,64,128}, id widths 1..4, buffer depths {2,4,16}, base addresses, with/without read-modify-write; legal AXI4 "
        "traffic: FIXED/INCR/WRAP bursts, lengths 1..16 (WRAP 2/4/8/16), full and narrow sizes, unaligned INCR starts, random "
        "strobes inside the active lanes, random IDs, write data leading or trailing its address, stalls on all five channels "
        "(incl. long B/R back-pressure); native side with random acceptance, pulse latencies and long stalls; a case = one "
        "simulated cycle with all boundary signals compared (non-RMW) plus the specification verdicts; non-trivial = some "
        "channel or port handshake in the cycle; distinct by (run, cycle)")
TRUSTED = ["native-side stub written from core/crossbar.py, not the real controller",
           "the master avoids read/write hazards (no read of a word with an unanswered write, no write to a word with a read in flight), so the specification is sequential"]
ASSUMPTIONS = ["native side: the wdata.ready strobe of a write comes at least one cycle after its command was accepted (as in the crossbar); in the very same cycle the burst's ID is not yet queued when its response is formed",
               "AXI master: valid held until ready, W beats in AW order, addresses >= base_address and inside the memory, WRAP bursts aligned with 2/4/8/16 beats, strobes only in the active byte lanes",
               "read-modify-write mode: the cycle-exact model covers the regular datapath; RMW runs are judged by the specifications only"]


def mism(r, where, **kw):
    if len(r.mismatches) < 4:
        r.mismatches.append(dict(where=where, **kw))


def rand_cfg(rnd, idx):
    dw = rnd.choice([16, 32, 32, 64, 128])
    nb = dw // 8
    ashift = nb.bit_length() - 1
    paw = rnd.randint(4, 6)
    base = rnd.choice([0, 0, 1 << (paw + ashift), 1 << (paw + ashift + 1), 1 << (paw + ashift - 2), 1 << (ashift + 1)])
    return dict(dw=dw, nb=nb, ashift=ashift, paw=paw, base=base, aw=paw + ashift + 3, idw=rnd.randint(1, 4),
                wdepth=rnd.choice([2, 4, 16]), rdepth=rnd.choice([2, 4, 16]), rmw=int(idx % 5 == 4), bstall=int(idx % 3 == 0))


def beat_addresses(addr, burst, ln, size):
    """AXI4 A3.4.1 (written from the specification, independent of AXIBurst2Beat)"""
    nbytes = 1 << size
    aligned = (addr // nbytes) * nbytes
    out = []
    if burst == 0:
        return [addr] * (ln + 1)
    if burst == 1:
        return [addr] + [aligned + k * nbytes for k in range(1, ln + 1)]
    container = nbytes * (ln + 1)
    lo = (addr // container) * container
    a = addr
    for k in range(ln + 1):
        out.append(a)
        a += nbytes
        if a >= lo + container:
            a = lo
    return out


def gen_txns(c, rnd, n):
    nb, ashift = c["nb"], c["ashift"]
    mem_bytes = (1 << c["paw"]) * nb
    txns = []
    for _ in range(n):
        we = rnd.randint(0, 1)
        burst = rnd.choice([0, 1, 1, 1, 2])
        size = ashift if rnd.random() < 0.7 else rnd.randint(0, ashift)
        nbytes = 1 << size
        if burst == 2:
            # the wrap container is aligned in ABSOLUTE addresses and must lie inside [base, base + memory)
            ln = rnd.choice([1, 3, 7, 15])
            while (ln + 1) * nbytes > mem_bytes:
                ln //= 2
            container = (ln + 1) * nbytes
            lo_min = -(-c["base"] // container)                    # first container at or above base
            lo_max = (c["base"] + mem_bytes) // container - 1
            if lo_max < lo_min:
                burst = 1; ln = 0; addr = rnd.randrange(0, mem_bytes // nbytes) * nbytes
            else:
                lo = rnd.randint(lo_min, lo_max) * container
                addr = lo + rnd.randrange(0, ln + 1) * nbytes - c["base"]
        elif burst == 0:
            ln = rnd.randint(0, 5)
            addr = rnd.randrange(0, mem_bytes)
        else:
            ln = rnd.choice([0, 0, 1, 2, 3, rnd.randint(0, 15)])
            addr = rnd.randrange(0, mem_bytes) if rnd.random() < 0.3 else rnd.randrange(0, mem_bytes // nbytes) * nbytes
            if addr + (ln + 1) * nbytes > mem_bytes:
                addr = max(0, mem_bytes - (ln + 1) * nbytes) // nbytes * nbytes
        if txns and rnd.random() < 0.4 and burst != 2:
            addr = max(0, min(txns[-1]["addr"] // nbytes * nbytes, mem_bytes - (ln + 1) * nbytes))
        addrs = [a - c["base"] for a in beat_addresses(addr + c["base"], burst, ln, size)]
        beats = []
        for a in addrs:
            lane_lo = a % nb
            lane_hi = (a // nbytes) * nbytes % nb + nbytes          # end of the size-aligned container inside the word
            active = sum(1 << b for b in range(lane_lo, lane_hi))
            strb = active if rnd.random() < 0.55 else (rnd.getrandbits(nb) & active)
            beats.append(dict(word=a // nb, data=rnd.getrandbits(c["dw"]), strb=strb))
        txns.append(dict(we=we, id=rnd.getrandbits(c["idw"]), addr=addr, burst=burst, len=ln, size=size, beats=beats,
                         words=set(b["word"] for b in beats)))
    return txns


def simulate(c, txns, rnd):
    from migen import run_simulation
    from litedram.common import LiteDRAMNativePort
    from litedram.frontend.axi import LiteDRAMAXIPort, LiteDRAMAXI2Native
    axi = LiteDRAMAXIPort(data_width=c["dw"], address_width=c["aw"], id_width=c["idw"])
    port = LiteDRAMNativePort("both", c["paw"], c["dw"])
    dut = LiteDRAMAXI2Native(axi, port, w_buffer_depth=c["wdepth"], r_buffer_depth=c["rdepth"], base_address=c["base"], with_read_modify_write=bool(c["rmw"]))
    lines = ["%d %d %d %d %d %d %d %d" % (c["aw"], c["paw"], c["ashift"], c["base"], c["wdepth"], c["rdepth"], c["rmw"], c["nb"]), " ".join(["0"] * 22)]
    obs, mon, amon = [], [], []
    st = dict(stub_mem={}, lost=[], stuck=None, b=0, rbeats=0, wbeats=0, max_outstanding=0)
    init_rnd = random.Random(rnd.random())
    for a in range(1 << c["paw"]):
        st["stub_mem"][a] = init_rnd.getrandbits(c["dw"])
        mon.append("1 1 %d %d %d 0 0" % (a, st["stub_mem"][a], (1 << c["nb"]) - 1))
    st["init_events"] = len(mon)
    writes = [t for t in txns if t["we"]]
    reads = [t for t in txns if not t["we"]]
    nbeats = sum(len(t["beats"]) for t in txns)
    budget = 60 * nbeats + 3000

    def gen():
        # master state
        order = list(txns)             # program order decides when a transaction may start
        started = 0                    # transactions allowed to start (hazard-free)
        awq, wq, arq = [], [], []      # started, address not yet accepted / data beats not yet accepted
        await_b, await_r = [], []      # [txn], [txn, beats_left]
        dirty, reading = {}, {}        # word -> count
        cur_aw = cur_w = cur_ar = None
        wbeat = 0
        p_aw, p_w, p_ar, p_b, p_r = 0.7, 0.7, 0.7, 0.7, 0.7
        queue = []; last_event = 0
        p_cmd, lat = 0.8, 3
        prev = None; pending_w = None; pending_r = False
        tail = 0
        w_lead = 0
        for t in range(budget):
            if prev is not None:
                o = dict(awr=(yield axi.aw.ready), wr=(yield axi.w.ready), bv=(yield axi.b.valid), bid=(yield axi.b.id), arr=(yield axi.ar.ready),
                         rv=(yield axi.r.valid), rd=(yield axi.r.data), rid=(yield axi.r.id), rl=(yield axi.r.last),
                         cv=(yield port.cmd.valid), cw=(yield port.cmd.we), ca=(yield port.cmd.addr), cl=(yield port.cmd.last),
                         wv=(yield port.wdata.valid), wd=(yield port.wdata.data), ww=(yield port.wdata.we), rr=(yield port.rdata.ready))
                obs.append("%d %d %d %d %d %d %d %d %d %d %d %d %d %d %d %d %d" % (
                    o["awr"], o["wr"], o["bv"], o["bid"] if o["bv"] else 0, o["arr"], o["rv"], o["rd"] if o["rv"] else 0, o["rid"] if o["rv"] else 0,
                    int(o["rv"] and o["rl"]), o["cv"], o["cw"] if o["cv"] else 0, o["ca"] if o["cv"] else 0, o["cl"] if o["cv"] else 0,
                    o["wv"], o["wd"] if o["wv"] else 0, o["ww"] if o["wv"] else 0, o["rr"]))
                mlines = []
                a_ev = [0, 0, 0, 0, 0, 0, 0, 0, 0, 0, 0, 0]
                if prev["awv"] and o["awr"]:
                    a_ev[0:3] = [1, cur_aw["id"], len(cur_aw["beats"])]
                    await_b.append(cur_aw); awq.pop(0); cur_aw = None
                if prev["wv"] and o["wr"]:
                    wbeat += 1
                    if wbeat == len(cur_w["beats"]):
                        wq.pop(0); cur_w = None; wbeat = 0
                if o["bv"] and prev["br"]:
                    a_ev[3:5] = [1, o["bid"]]
                    st["b"] += 1
                    if await_b:
                        tx = await_b.pop(0)
                        for bt in tx["beats"]:
                            mlines.append("1 1 %d %d %d 0 0" % (bt["word"], bt["data"], bt["strb"]))
                        for w in tx["words"]:
                            dirty[w] -= 1
                if prev["arv"] and o["arr"]:
                    a_ev[5:8] = [1, cur_ar["id"], len(cur_ar["beats"])]
                    for bt in cur_ar["beats"]:
                        mlines.append("1 0 %d 0 0 0 0" % bt["word"])
                    await_r.append([cur_ar, len(cur_ar["beats"])]); arq.pop(0); cur_ar = None
                if o["rv"] and prev["rr"]:
                    a_ev[8:11] = [1, o["rid"], o["rl"]]
                    st["rbeats"] += 1
                    mlines.append("0 0 0 0 0 1 %d" % o["rd"])
                    if await_r:
                        await_r[0][1] -= 1
                        if await_r[0][1] == 0:
                            tx = await_r.pop(0)[0]
                            for w in tx["words"]:
                                reading[w] -= 1
                if o["wv"] and prev["twr"]:
                    a_ev[11] = 1; st["wbeats"] += 1
                mon.extend(mlines)
                amon.append(" ".join(str(x) for x in a_ev))
                # native side
                if o["cv"] and prev["tcr"]:
                    e = max(t + 1, last_event + 1) + rnd.randint(0, lat)
                    if rnd.random() < 0.05:
                        e += rnd.randint(10, 40)
                    last_event = e
                    queue.append([e, o["cw"], o["ca"]])
                    st["max_outstanding"] = max(st["max_outstanding"], len(queue))
                if pending_w is not None:
                    if not o["wv"]:
                        st["lost"].append("write data for native word %d not valid when wdata.ready pulsed (cycle %d)" % (pending_w, t))
                    else:
                        old = st["stub_mem"].get(pending_w, 0); new = 0
                        for b in range(c["nb"]):
                            src = o["wd"] if (o["ww"] >> b) & 1 else old
                            new |= ((src >> (8 * b)) & 0xff) << (8 * b)
                        st["stub_mem"][pending_w] = new
                    pending_w = None
                if pending_r:
                    if not o["rr"]:
                        st["lost"].append("rdata.valid pulsed while rdata.ready was low (cycle %d)" % t)
                    pending_r = False
            # ---- start transactions in program order when hazard-free
            while started < len(order):
                tx = order[started]
                if tx["we"]:
                    if any(reading.get(w, 0) for w in tx["words"]) or len(awq) > 3:
                        break
                    for w in tx["words"]:
                        dirty[w] = dirty.get(w, 0) + 1
                    awq.append(tx); wq.append(tx)
                else:
                    if any(dirty.get(w, 0) for w in tx["words"]) or len(arq) > 3:
                        break
                    for w in tx["words"]:
                        reading[w] = reading.get(w, 0) + 1
                    arq.append(tx)
                started += 1
            if started >= len(order) and not (awq or wq or arq or await_b or await_r or queue):
                tail += 1
                if tail > 40:
                    break
            if t % 60 == 0:
                p_cmd = rnd.choice([0.2, 0.7, 1.0]); lat = rnd.choice([0, 3, 9])
                p_aw, p_w, p_ar = rnd.choice([0.2, 0.8, 1.0]), rnd.choice([0.2, 0.8, 1.0]), rnd.choice([0.2, 0.8, 1.0])
                p_b = rnd.choice([0.02, 0.5, 1.0]) if c["bstall"] else rnd.choice([0.5, 1.0])
                p_r = rnd.choice([0.05, 0.5, 1.0])
            # AW
            if cur_aw is None and awq and rnd.random() < p_aw:
                cur_aw = awq[0]
            # W (may lead or trail its address)
            if cur_w is None and wq and rnd.random() < p_w and not (c.get("w_after_aw") and wq[0] in awq):
                cur_w = wq[0]
            if cur_ar is None and arq and rnd.random() < p_ar:
                cur_ar = arq[0]
            awv = int(cur_aw is not None); wv = int(cur_w is not None); arv = int(cur_ar is not None)
            awf = [cur_aw["addr"] + c["base"], cur_aw["burst"], cur_aw["len"], cur_aw["size"], cur_aw["id"]] if awv else [0, 0, 0, 0, 0]
            arf = [cur_ar["addr"] + c["base"], cur_ar["burst"], cur_ar["len"], cur_ar["size"], cur_ar["id"]] if arv else [0, 0, 0, 0, 0]
            if wv:
                bt = cur_w["beats"][wbeat]
                wf = [bt["data"], bt["strb"], int(wbeat == len(cur_w["beats"]) - 1)]
            else:
                wf = [0, 0, 0]
            br = int(rnd.random() < p_b); rr = int(rnd.random() < p_r)
            tcr = int(rnd.random() < p_cmd)
            twr = trv = trd = 0
            if queue and queue[0][0] <= t:
                _, qwe, qa = queue.pop(0)
                if qwe:
                    twr = 1; pending_w = qa
                else:
                    trv = 1; trd = st["stub_mem"].get(qa, 0); pending_r = True
            prev = dict(awv=awv, wv=wv, arv=arv, br=br, rr=rr, tcr=tcr, twr=twr)
            yield axi.aw.valid.eq(awv); yield axi.aw.addr.eq(awf[0]); yield axi.aw.burst.eq(awf[1]); yield axi.aw.len.eq(awf[2]); yield axi.aw.size.eq(awf[3]); yield axi.aw.id.eq(awf[4])
            yield axi.w.valid.eq(wv); yield axi.w.data.eq(wf[0]); yield axi.w.strb.eq(wf[1]); yield axi.w.last.eq(wf[2])
            yield axi.b.ready.eq(br)
            yield axi.ar.valid.eq(arv); yield axi.ar.addr.eq(arf[0]); yield axi.ar.burst.eq(arf[1]); yield axi.ar.len.eq(arf[2]); yield axi.ar.size.eq(arf[3]); yield axi.ar.id.eq(arf[4])
            yield axi.r.ready.eq(rr)
            yield port.cmd.ready.eq(tcr); yield port.wdata.ready.eq(twr); yield port.rdata.valid.eq(trv); yield port.rdata.data.eq(trd)
            lines.append(" ".join(str(x) for x in [awv] + awf + [wv] + wf + [br, arv] + arf + [rr, tcr, twr, trv, trd]))
            yield
        else:
            st["stuck"] = "after %d cycles: %d of %d transactions started, %d B responses of %d, %d R beats of %d, awaiting B %d, awaiting R %d, native commands outstanding %d" % (
                budget, started, len(order), st["b"], len(writes), st["rbeats"], sum(len(t["beats"]) for t in reads), len(await_b), len(await_r), len(queue))
    run_simulation(dut, gen())
    return lines, obs, mon, amon, st


def job(args):
    seed, idx, tier = args
    rnd = random.Random("c09-%d-%d" % (seed, idx))
    c = rand_cfg(rnd, idx)
    txns = gen_txns(c, rnd, rnd.randint(15, 40) if tier == "quick" else rnd.randint(40, 150))
    r = Result()
    lines, obs, mon, amon, st = simulate(c, txns, rnd)
    tag = dict(config=c, seed=seed, idx=idx, txns=[dict(t, beats=t["beats"][:4], words=sorted(t["words"])[:6]) for t in txns[:25]])
    r.coverage["runs"] = 1
    r.coverage["shapes"] = {"%dbit_w%d_r%d%s" % (c["dw"], c["wdepth"], c["rdepth"], "_rmw" if c["rmw"] else ""): 1}
    r.coverage["bursts"] = {["FIXED", "INCR", "WRAP"][t["burst"]]: 1 for t in txns} if False else {}
    for t in txns:
        k = ["FIXED", "INCR", "WRAP"][t["burst"]] + ("_narrow" if t["size"] < c["ashift"] else "")
        r.coverage["bursts"][k] = r.coverage["bursts"].get(k, 0) + 1
    r.coverage["write_responses"] = st["b"]
    r.coverage["read_beats"] = st["rbeats"]
    partial = any(b["strb"] != (1 << c["nb"]) - 1 for t in txns if t["we"] for b in t["beats"])
    if True:
        mo = core.run_driver("axi", lines)[2:]
        for i in range(min(len(mo), len(obs))):
            r.evaluations += 1
            f = obs[i].split()
            if f[9] == "1" or f[5] == "1" or f[2] == "1" or f[13] == "1" or lines[i + 2].split()[0] == "1" or lines[i + 2].split()[6] == "1":
                r.distinct.add((idx, i))
            if mo[i] != obs[i]:
                mism(r, "LiteDRAMAXI2Native vs Model/Axi.lean", config=c, cycle=i, impl=obs[i], model=mo[i], inputs=lines[max(2, i - 3):i + 3])
                break
    else:
        r.evaluations += st["b"] + st["rbeats"]
        for i, l in enumerate(amon):
            if l != "0 0 0 0 0 0 0 0 0 0 0 0":
                r.distinct.add((idx, i))
    what = None
    aout = core.run_driver("aximon", amon + ["999999"])
    av = next((x for x in aout if x.startswith("VIOL")), None)
    mout = core.run_driver("portmon", ["1 %d" % c["nb"]] + mon + ["999999"])
    mv = next((x for x in mout if x.startswith("VIOL")), None)
    if av:
        what = "AXI protocol, cycle %s: %s" % (av.split()[1], " ".join(av.split()[2:]))
    elif mv:
        what = "memory semantics, event %d: %s" % (int(mv.split()[1]) - st["init_events"], " ".join(mv.split()[2:]))
    elif st["stuck"]:
        what = "no progress: " + st["stuck"]
    elif st["lost"]:
        what = st["lost"][0]
    else:
        pend = aout[-1].split()
        if pend[1] != "0" or pend[2] != "0":
            what = "at the end %s write bursts have no response and %s read bursts are incomplete" % (pend[1], pend[2])
        dump = mout[-1].split(" mem ")
        words = [int(x) for x in dump[1].split()] if len(dump) > 1 else []
        spec_mem = {words[i]: words[i + 1] for i in range(0, len(words), 2)}
        for a in sorted(spec_mem):
            if st["stub_mem"].get(a) != spec_mem[a] and what is None:
                what = "word %d: native memory holds 0x%x, the responded writes give 0x%x" % (a, st["stub_mem"].get(a, 0), spec_mem[a])
    r.evaluations += 1
    if what:
        sig = "c09-axi"
        if "no progress" in what and c["bstall"]:
            sig = "c09-b-backpressure"
        r.violations.append(dict(signature=sig, what="AXI %d-bit, buffers w%d/r%d%s, %s: %s" % (c["dw"], c["wdepth"], c["rdepth"], ", read-modify-write" if c["rmw"] else "",
                                                                                       "long B stalls" if c["bstall"] else "short stalls", what), replay=tag))
    if idx < 2:
        r.samples.append(dict(config=c, first_txns=[dict(t, beats=t["beats"][:2], words=sorted(t["words"])[:3]) for t in txns[:2]], first_cycles=obs[:3]))
    return r


def run(tier, seed):
    n = 100 if tier == "quick" else 500
    res = Result()
    for r in core.pmap(job, [(seed, i, tier) for i in range(n)]):
        res.merge(r)
    return res


def replay(data, tier, seed):
    return run(tier, seed)
