"""C14: the BIST generator and checker (frontend/bist.py) vs Model/Bist.lean cycle by cycle, and the specification of
Spec/BistSpec.lean evaluated on the implementation's port traffic and results:
  * the i-th write command carries seqAddr(i), the i-th write-data word seqData(i), exactly nWords of each;
  * every written word lies inside [base, end) (property) / inside the code's own mask window (known finding otherwise);
  * after corrupting k words of a faithful memory the checker's `errors` equals BistSpec.expectedErrors.
The memory is a Python dict with random command/data timings; read data is a pulse in command order."""
import random
from vlib import core, shims
from vlib.core import Result

RULE = ("data widths {8,16,32,64,128} x native/AXI port x core/CSR-wrapper x sequential/random data and address x random base, "
        "power-of-two range, length (within the range, and longer so that the sequence wraps) x random port timings, cascade "
        "stalls and resets mid-run; a case = one simulated cycle with all boundary signals compared, plus one end-to-end verdict "
        "per run; non-trivial = a port handshake happens in the cycle; distinct by (run, cycle)")
TRUSTED = ["LiteX CSR elaboration shims (vlib/shims.py) to construct the CSR wrappers",
           "the AsyncFIFO control/status CDC of the wrappers for ports in another clock domain is not modelled",
           "_LiteDRAMPatternGenerator/_LiteDRAMPatternChecker (memory-initialised patterns) are not modelled"]
ASSUMPTIONS = ["the memory returns read data in command order, one word per read command",
               "base/end/length/random flags are constant during a run, (end-base) is a power of two, length >= one word"]


def mism(r, where, **kw):
    if len(r.mismatches) < 4:
        r.mismatches.append(dict(where=where, **kw))


def rand_setting(rnd, idx):
    dw = rnd.choice([8, 16, 32, 32, 64, 128])
    ashift = (dw // 8).bit_length() - 1
    axi = rnd.random() < 0.3
    aw_words = rnd.randint(6, 10)                      # address bits in words
    aw = aw_words + ashift if axi else aw_words        # port.address_width (AXI: bytes)
    awidth = aw if axi else aw + ashift
    k = rnd.randint(ashift, min(awidth - 1, ashift + 6))            # range size 2**k bytes
    size = 1 << k
    nslots = (1 << awidth) // size
    base = rnd.randrange(0, max(1, nslots // 2)) * size
    if rnd.random() < 0.25:
        base = rnd.randrange(0, ((1 << awidth) - size) >> ashift) << ashift     # word aligned, not range aligned
    range_words = size >> ashift
    mode = idx % 4
    if mode == 0:
        n = rnd.randint(1, range_words)                # fits in the range
    elif mode == 1:
        n = range_words
    elif mode == 2:
        n = rnd.randint(1, min(4 * range_words + 3, (1 << aw_words) - 1, 200))      # may wrap
    else:
        n = rnd.randint(1, min(size, 120, (1 << aw_words) - 1))                       # up to the mask window
    length = (n << ashift) | rnd.randrange(0, 1 << ashift)        # low bits are ignored by length[ashift:]
    return dict(dw=dw, aw=aw, axi=int(axi), ashift=ashift, depth=16, base=base, end=base + size, length=length,
                rd=rnd.randint(0, 1), ra=rnd.randint(0, 1), wrapper=int(rnd.random() < 0.35), n=n)


def cfg_line(s):
    return "%d %d %d %d %d %d %d %d %d %d" % (s["dw"], s["aw"], s["axi"], s["ashift"], s["depth"], s["base"], s["end"], s["length"], s["rd"], s["ra"])


def make_port(s):
    from litedram.common import LiteDRAMNativePort
    from litedram.frontend.axi import LiteDRAMAXIPort
    if s["axi"]:
        return LiteDRAMAXIPort(data_width=s["dw"], address_width=s["aw"], id_width=4)
    return LiteDRAMNativePort("both", s["aw"], s["dw"])


class Ctl:
    """drives either the core's plain signals or the wrapper's CSRs"""
    def __init__(self, dut, wrapper):
        self.dut, self.wrapper = dut, wrapper
        self.core = dut.core if wrapper else dut

    def settings(self, s):
        d = self.dut
        if self.wrapper:
            yield d.base.storage.eq(s["base"]); yield d.end.storage.eq(s["end"]); yield d.length.storage.eq(s["length"])
            yield d.random.storage.eq(s["rd"] | (s["ra"] << 1))
        else:
            yield d.base.eq(s["base"]); yield d.end.eq(s["end"]); yield d.length.eq(s["length"])
            yield d.random_data.eq(s["rd"]); yield d.random_addr.eq(s["ra"])

    def strobes(self, reset, start):
        d = self.dut
        if self.wrapper:
            yield d.reset.re.eq(reset); yield d.start.re.eq(start)
        else:
            yield d.reset.eq(reset); yield d.start.eq(start)

    def status(self):
        d = self.dut
        if self.wrapper:
            return d.done.status, d.ticks.status, getattr(getattr(d, "errors", None), "status", None)
        return d.done, d.ticks, getattr(d, "errors", None)


def build(s, kind):
    from litedram.frontend import bist
    shims.install()
    port = make_port(s)
    if s["wrapper"]:
        dut = (bist.LiteDRAMBISTGenerator if kind == "gen" else bist.LiteDRAMBISTChecker)(port)
        shims.finalize_csrs(dut)
    else:
        dut = (bist._LiteDRAMBISTGenerator if kind == "gen" else bist._LiteDRAMBISTChecker)(port)
    return port, dut


def run_generator(s, rnd, tier, second_run=False):
    """returns dict(lines, obs, cmds, datas, done[, cmds2, datas2, done2]); with second_run the core is reset after the first
    run has finished and started again with the same settings"""
    from migen import run_simulation
    port, dut = build(s, "gen")
    ctl = Ctl(dut, s["wrapper"])
    cmd, wdata = (port.aw, port.w) if s["axi"] else (port.cmd, port.wdata)
    done_sig, ticks_sig, _ = ctl.status()
    lines = [cfg_line(s), "0 0 1 0 0"]
    obs = []
    runs = [dict(cmds=[], datas=[], done=None), dict(cmds=[], datas=[], done=None)]
    budget = (60 * s["n"] + 400) * (2 if second_run else 1)

    def gen():
        yield from ctl.settings(s)
        prev = None
        started = False
        p_cmd, p_w, p_casc = 0.8, 0.8, 1.0
        tail = None
        phase = 0
        for t in range(budget):
            cur = runs[phase]
            if prev is not None:
                o = ((yield done_sig), (yield ticks_sig), (yield ctl.core.run_cascade_out), (yield cmd.valid), (yield cmd.addr), (yield wdata.valid), (yield wdata.data))
                o = (o[0], o[1], o[2], o[3], o[4] if o[3] else 0, o[5], o[6] if o[5] else 0)
                obs.append("%d %d %d %d %d %d %d" % o)
                rst_, st_, ci_, cr_, wr_ = prev
                if o[3] and cr_:
                    cur["cmds"].append(o[4])
                if o[5] and wr_:
                    cur["datas"].append(o[6])
                if o[0] and cur["done"] is None and not rst_:
                    cur["done"] = t
                    tail = t + 12
            rst = 0
            if tail is not None and t >= tail:
                if second_run and phase == 0:
                    phase = 1; tail = None; started = False; rst = 1      # reset, then run again
                else:
                    break
            if t % 40 == 0:
                p_cmd = rnd.choice([0.15, 0.6, 1.0]); p_w = rnd.choice([0.1, 0.6, 1.0]); p_casc = rnd.choice([0.3, 1.0, 1.0])
            start = 0
            if not rst:
                if not started and t >= 1 and rnd.random() < 0.5:
                    start, started = 1, True
                elif started and rnd.random() < 0.01:
                    start = 1            # a start strobe outside IDLE must be ignored
            prev = (rst, start, int(rnd.random() < p_casc), int(rnd.random() < p_cmd), int(rnd.random() < p_w))
            yield from ctl.strobes(prev[0], prev[1])
            yield ctl.core.run_cascade_in.eq(prev[2]); yield cmd.ready.eq(prev[3]); yield wdata.ready.eq(prev[4])
            lines.append("%d %d %d %d %d" % prev)
            yield
    run_simulation(dut, gen())
    return dict(lines=lines, obs=obs, cmds=runs[0]["cmds"], datas=runs[0]["datas"], done=runs[0]["done"],
                cmds2=runs[1]["cmds"], datas2=runs[1]["datas"], done2=runs[1]["done"])


def run_reset_generator(s, rnd):
    """a run that is reset in the middle and restarted: correspondence only"""
    from migen import run_simulation
    port, dut = build(s, "gen")
    ctl = Ctl(dut, s["wrapper"])
    cmd, wdata = (port.aw, port.w) if s["axi"] else (port.cmd, port.wdata)
    done_sig, ticks_sig, _ = ctl.status()
    lines = [cfg_line(s), "0 0 1 0 0"]
    obs = []

    def gen():
        yield from ctl.settings(s)
        prev = None
        for t in range(500):
            if prev is not None:
                o = ((yield done_sig), (yield ticks_sig), (yield ctl.core.run_cascade_out), (yield cmd.valid), (yield cmd.addr), (yield wdata.valid), (yield wdata.data))
                o = (o[0], o[1], o[2], o[3], o[4] if o[3] else 0, o[5], o[6] if o[5] else 0)
                obs.append("%d %d %d %d %d %d %d" % o)
            prev = (int(rnd.random() < 0.02), int(rnd.random() < 0.08), int(rnd.random() < 0.8), int(rnd.random() < 0.7), int(rnd.random() < 0.6))
            yield from ctl.strobes(prev[0], prev[1])
            yield ctl.core.run_cascade_in.eq(prev[2]); yield cmd.ready.eq(prev[3]); yield wdata.ready.eq(prev[4])
            lines.append("%d %d %d %d %d" % prev)
            yield
    run_simulation(dut, gen())
    return dict(lines=lines, obs=obs)


def run_checker(s, rnd, mem, with_noise, second_run=False):
    """mem: dict port-address -> word. returns dict(lines, obs, errors, done, reads, noise[, errors2, done2])"""
    from migen import run_simulation
    port, dut = build(s, "chk")
    ctl = Ctl(dut, s["wrapper"])
    cmd, rdata = (port.ar, port.r) if s["axi"] else (port.cmd, port.rdata)
    done_sig, ticks_sig, err_sig = ctl.status()
    lines = [cfg_line(s), "0 0 1 0 0 0"]
    obs = []
    info = dict(noise=0)
    runs = [dict(done=None, errors=None, reads=[]), dict(done=None, errors=None, reads=[])]
    budget = (80 * s["n"] + 500) * (2 if second_run else 1)

    def gen():
        yield from ctl.settings(s)
        prev = None
        started = False
        inflight = []
        p_cmd, p_casc, p_rd = 0.8, 1.0, 0.8
        tail = None
        phase = 0
        for t in range(budget):
            cur = runs[phase]
            if prev is not None:
                o = ((yield done_sig), (yield err_sig), (yield ticks_sig), (yield ctl.core.run_cascade_out), (yield cmd.valid), (yield cmd.addr), (yield rdata.ready))
                o = (o[0], o[1], o[2], o[3], o[4], o[5] if o[4] else 0, o[6])
                obs.append("%d %d %d %d %d %d %d" % o)
                rst_, st_, ci_, cr_, rv_, rd_ = prev
                if o[4] and cr_:
                    cur["reads"].append(o[5])
                    inflight.append([t + rnd.randint(1, 10), mem.get(o[5], 0)])
                if o[0] and cur["done"] is None and not rst_:
                    cur["done"] = t; cur["errors"] = o[1]
                    tail = t + 10
            rst = 0
            if tail is not None and t >= tail and not inflight:
                if second_run and phase == 0:
                    phase = 1; tail = None; started = False; rst = 1
                else:
                    break
            if t % 40 == 0:
                p_cmd = rnd.choice([0.15, 0.6, 1.0]); p_casc = rnd.choice([0.3, 1.0, 1.0]); p_rd = rnd.choice([0.2, 0.8, 1.0])
            start = 0
            if not rst:
                if not started and t >= 1 and rnd.random() < 0.5:
                    start, started = 1, True
                elif started and with_noise and rnd.random() < 0.01:
                    start = 1; info["noise"] += 1
            rv, rd = 0, 0
            if inflight and inflight[0][0] <= t and rnd.random() < p_rd:
                rv, rd = 1, inflight.pop(0)[1]
            prev = (rst, start, int(rnd.random() < p_casc), int(rnd.random() < p_cmd), rv, rd)
            yield from ctl.strobes(prev[0], prev[1])
            yield ctl.core.run_cascade_in.eq(prev[2]); yield cmd.ready.eq(prev[3]); yield rdata.valid.eq(rv); yield rdata.data.eq(rd)
            lines.append("%d %d %d %d %d %d" % prev)
            yield
    run_simulation(dut, gen())
    return dict(lines=lines, obs=obs, errors=runs[0]["errors"], done=runs[0]["done"], reads=runs[0]["reads"], noise=info["noise"],
                errors2=runs[1]["errors"], done2=runs[1]["done"], reads2=runs[1]["reads"])


def compare(r, where, s, model, lines, obs, idle, key):
    mo = core.run_driver(model, lines)[2:]
    for i in range(min(len(mo), len(obs))):
        r.evaluations += 1
        f = obs[i].split()
        if any(f[j] != "0" for j in idle):
            r.distinct.add((key, i))
        if mo[i] != obs[i]:
            mism(r, where, config=s, cycle=i, impl=obs[i], model=mo[i], inputs=lines[max(2, i - 4):i + 3])
            return False
    return True


def job(args):
    seed, idx, tier = args
    rnd = random.Random("c14-%d-%d" % (seed, idx))
    s = rand_setting(rnd, idx)
    r = Result()
    tag = dict(setting=s, seed=seed, idx=idx)
    r.coverage["runs"] = 1
    r.coverage["by_width"] = {"%dbit_%s%s" % (s["dw"], "axi" if s["axi"] else "native", "_csr" if s["wrapper"] else ""): 1}
    r.coverage["modes"] = {"data_%s_addr_%s" % ("rand" if s["rd"] else "seq", "rand" if s["ra"] else "seq"): 1}
    # ---- generator
    two_runs = idx % 2 == 1          # the core is reset after its run and started again: the second run must be the same run
    g = run_generator(s, rnd, tier, second_run=two_runs)
    compare(r, "_LiteDRAMBISTGenerator vs Model/Bist.lean", s, "bistgen", g["lines"], g["obs"], (3, 5), ("g", idx))
    n = s["n"]
    spec_lines = [cfg_line(s)] + ["4 %d" % i for i in range(n)] + ["5"]
    sp = core.run_driver("bistspec", spec_lines)
    seq = [[int(x) for x in l.split()] for l in sp[1:1 + n]]
    if int(sp[1 + n]) != n:
        mism(r, "harness/setting: nWords", config=s, model=sp[1 + n], expected=n)
    if g["done"] is None:
        r.violations.append(dict(signature="c14-gen-not-done", what="generator never reports done (n=%d words, %d cycles)" % (n, len(g["obs"])), replay=tag))
    exp_addr = [q[0] for q in seq]; exp_data = [q[1] for q in seq]
    if g["cmds"] != exp_addr or g["datas"] != exp_data:
        k = next((i for i in range(max(len(exp_addr), len(g["cmds"]))) if i >= len(g["cmds"]) or i >= n or g["cmds"][i] != exp_addr[i]), None)
        kd = next((i for i in range(max(len(exp_data), len(g["datas"]))) if i >= len(g["datas"]) or i >= n or g["datas"][i] != exp_data[i]), None)
        r.violations.append(dict(signature="c14-gen-sequence", what="%d-bit %s: generator wrote %d commands / %d data words for a %d-word run; first differing command position %s, data position %s"
                                 % (s["dw"], "AXI" if s["axi"] else "native", len(g["cmds"]), len(g["datas"]), n, k, kd),
                                 replay=dict(tag, written_addr=g["cmds"][:40], expected_addr=exp_addr[:40], written_data=g["datas"][:40], expected_data=exp_data[:40])))
    if two_runs:
        r.coverage["second_runs_after_reset"] = 1
        if g["done2"] is None:
            r.violations.append(dict(signature="c14-gen-not-done", what="generator never reports done in its second run after a reset (n=%d words)" % n, replay=tag))
        elif g["cmds2"] != exp_addr or g["datas2"] != exp_data:
            k2 = next((i for i in range(n) if i >= len(g["datas2"]) or i >= len(g["cmds2"]) or g["datas2"][i] != exp_data[i] or g["cmds2"][i] != exp_addr[i]), None)
            r.violations.append(dict(signature="c14-gen-sequence", what="%d-bit %s, %s data, %s addresses: after a reset the generator's second run differs from the sequence at position %s (wrote %d commands / %d data words for a %d-word run)"
                                     % (s["dw"], "AXI" if s["axi"] else "native", "random" if s["rd"] else "sequential", "random" if s["ra"] else "sequential", k2, len(g["cmds2"]), len(g["datas2"]), n),
                                     replay=dict(tag, second_run_addr=g["cmds2"][:40], second_run_data=g["datas2"][:40], expected_addr=exp_addr[:40], expected_data=exp_data[:40])))
    # range
    outside = [(i, a) for i, a in enumerate(g["cmds"]) if i < n and not seq[i][2]]
    r.coverage["writes_checked_for_range"] = len(g["cmds"])
    if outside:
        i, a = outside[0]
        bytes_lo = a if s["axi"] else a << s["ashift"]
        window_ok = all(seq[j][3] for j, _ in outside)
        fits = (n << s["ashift"]) <= s["end"] - s["base"]
        if window_ok and s["ashift"] > 0 and (s["ra"] or not fits):
            sig = "c14-byte-mask-on-word-address"
        else:
            sig = "c14-out-of-range"
        r.violations.append(dict(signature=sig, what="%d-bit %s, %s addresses, base=0x%x end=0x%x length=0x%x: position %d is written at byte 0x%x, outside [base, end) (%d of %d writes outside)"
                                 % (s["dw"], "AXI" if s["axi"] else "native", "random" if s["ra"] else "sequential", s["base"], s["end"], s["length"], i, bytes_lo, len(outside), n),
                                 replay=dict(tag, position=i, port_address=a, byte_address=bytes_lo)))
        r.coverage["runs_with_writes_outside_range"] = 1
    # ---- memory, corruption, checker
    mem = {}
    for a, d in zip(g["cmds"], g["datas"]):
        mem[a] = d
    mon = [cfg_line(s)] + ["1 %d %d" % (a, d) for a, d in zip(g["cmds"], g["datas"])]
    addrs = sorted(mem)
    kcor = rnd.choice([0, 0, 1, 2, rnd.randint(0, max(1, len(addrs)))]) if addrs else 0
    cor = rnd.sample(addrs, min(kcor, len(addrs)))
    for a in cor:
        v = mem[a] ^ (1 << rnd.randrange(s["dw"])) if rnd.random() < 0.7 else rnd.getrandbits(s["dw"])
        mem[a] = v
        mon.append("1 %d %d" % (a, v))
    mon.append("3 %d" % n)
    expected_errors = int(core.run_driver("bistspec", mon)[-1])
    c = run_checker(s, rnd, mem, with_noise=(idx % 2 == 0), second_run=two_runs)
    compare(r, "_LiteDRAMBISTChecker vs Model/Bist.lean", s, "bistchk", c["lines"], c["obs"], (4, ), ("c", idx))
    r.coverage["corrupted_words"] = len(cor)
    if c["done"] is None:
        r.violations.append(dict(signature="c14-chk-not-done", what="checker never reports done (n=%d words)" % n, replay=tag))
    else:
        r.evaluations += 1
        if c["errors"] != expected_errors:
            r.violations.append(dict(signature="c14-error-count", what="%d-bit %s, %s addresses, n=%d, %d corrupted words: checker reports %d errors, %d sequence positions hold a different word"
                                     % (s["dw"], "AXI" if s["axi"] else "native", "random" if s["ra"] else "sequential", n, len(cor), c["errors"], expected_errors),
                                     replay=dict(tag, corrupted=cor, reads=c["reads"][:40], expected_reads=exp_addr[:40])))
        # (a start strobe after the command FSM is finished restarts it - its empty DONE state falls into IDLE's case -
        #  so only the first n reads are judged when such strobes were given)
        if (c["reads"][:n] if c["noise"] else c["reads"]) != exp_addr:
            r.violations.append(dict(signature="c14-chk-address-sequence", what="checker read addresses differ from the generator's sequence (n=%d)" % n,
                                     replay=dict(tag, reads=c["reads"][:40], expected=exp_addr[:40])))
        if two_runs and not c["noise"]:
            if c["done2"] is None:
                r.violations.append(dict(signature="c14-chk-not-done", what="checker never reports done in its second run after a reset (n=%d words)" % n, replay=tag))
            elif c["errors2"] != expected_errors or c["reads2"] != exp_addr:
                r.violations.append(dict(signature="c14-error-count", what="%d-bit %s, %s data, n=%d, %d corrupted words: after a reset the second check of the same memory reports %d errors (first check %d), %d positions differ"
                                         % (s["dw"], "AXI" if s["axi"] else "native", "random" if s["rd"] else "sequential", n, len(cor), c["errors2"], c["errors"], expected_errors),
                                         replay=dict(tag, corrupted=cor, second_reads=c["reads2"][:40], expected_reads=exp_addr[:40])))
        # corollaries on this run
        if len(set(exp_addr)) == n and not cor and expected_errors != 0:
            r.violations.append(dict(signature="c14-faithful-nonzero", what="faithful memory, no repeated address, yet %d errors expected" % expected_errors, replay=tag))
        r.coverage["runs_with_errors_reported"] = int(c["errors"] > 0)
        r.coverage["runs_with_repeated_addresses"] = int(len(set(exp_addr)) < n)
    # ---- resets mid-run (correspondence only)
    if idx % 3 == 0:
        g2 = run_reset_generator(s, rnd)
        compare(r, "_LiteDRAMBISTGenerator (resets) vs Model/Bist.lean", s, "bistgen", g2["lines"], g2["obs"], (3, 5), ("gr", idx))
    if idx < 2:
        r.samples.append(dict(setting=s, first_writes=list(zip(g["cmds"], g["datas"]))[:4], corrupted=cor[:4], errors_reported=c["errors"], errors_expected=expected_errors))
    return r


def pattern_job(args):
    """_LiteDRAMPatternGenerator / _LiteDRAMPatternChecker (address/data pairs from an initialised memory) vs Model/Bist.lean,
    and their specification: the generator writes exactly the pairs, in order; the checker reports the number of pairs whose
    address holds another word"""
    seed, idx, tier = args
    from migen import run_simulation
    from litedram.frontend import bist
    rnd = random.Random("c14p-%d-%d" % (seed, idx))
    s = rand_setting(rnd, idx)
    s["wrapper"] = 0
    r = Result()
    aw_words = s["aw"] - s["ashift"] if s["axi"] else s["aw"]
    npairs = rnd.randint(2, 14)
    init = [(rnd.randrange(1 << aw_words), rnd.getrandbits(s["dw"])) for _ in range(npairs)]
    if rnd.random() < 0.3 and npairs > 2:
        init[-1] = (init[0][0], init[-1][1])                     # a repeated address
    cfg = "%d %d %d %d %d " % (s["dw"], s["aw"], s["axi"], s["ashift"], 16) + " ".join("%d %d" % p for p in init)
    tag = dict(setting=s, init=init, seed=seed, idx=idx)
    r.coverage["pattern_runs"] = 1

    def drive(kind, mem):
        port = make_port(s)
        dut = (bist._LiteDRAMPatternGenerator if kind == "gen" else bist._LiteDRAMPatternChecker)(port, init=init)
        if kind == "gen":
            cmd, dat = (port.aw, port.w) if s["axi"] else (port.cmd, port.wdata)
        else:
            cmd, dat = (port.ar, port.r) if s["axi"] else (port.cmd, port.rdata)
        lines = [cfg, "0 0 1 0 0" if kind == "gen" else "0 0 1 0 0 0"]
        obs = []
        res = dict(cmds=[], datas=[], done=None, errors=None)

        def gen():
            prev = None; started = False; inflight = []; tail = None
            for t in range(80 * npairs + 400):
                if prev is not None:
                    if kind == "gen":
                        o = ((yield dut.done), (yield dut.ticks), (yield dut.run_cascade_out), (yield cmd.valid), (yield cmd.addr), (yield dat.valid), (yield dat.data))
                        o = (o[0], o[1], o[2], o[3], o[4] if o[3] else 0, o[5], o[6] if o[5] else 0)
                        if o[3] and prev[3]:
                            res["cmds"].append(o[4])
                        if o[5] and prev[4]:
                            res["datas"].append(o[6])
                    else:
                        o = ((yield dut.done), (yield dut.errors), (yield dut.ticks), (yield dut.run_cascade_out), (yield cmd.valid), (yield cmd.addr), (yield dat.ready))
                        o = (o[0], o[1], o[2], o[3], o[4], o[5] if o[4] else 0, o[6])
                        if o[4] and prev[3]:
                            res["cmds"].append(o[5])
                            inflight.append([t + rnd.randint(1, 8), mem.get(o[5], 0)])
                    obs.append(" ".join(str(x) for x in o))
                    if o[0] and res["done"] is None:
                        res["done"] = t; res["errors"] = o[1] if kind == "chk" else None; tail = t + 10
                # `done` only says that every pair has been handed to the DMA writer: its FIFO may still hold words, so the run goes on
                # until they have left on the port (or the cycle budget is used up)
                if tail is not None and t >= tail and not inflight and (kind != "gen" or (len(res["cmds"]) >= npairs and len(res["datas"]) >= npairs)):
                    break
                start = 0
                if not started and t >= 1 and rnd.random() < 0.5:
                    start, started = 1, True
                ci = int(rnd.random() < rnd.choice([0.4, 1.0]))
                cr = int(rnd.random() < 0.7)
                if kind == "gen":
                    prev = (0, start, ci, cr, int(rnd.random() < 0.6))
                    yield dut.reset.eq(0); yield dut.start.eq(start); yield dut.run_cascade_in.eq(ci); yield cmd.ready.eq(cr); yield dat.ready.eq(prev[4])
                else:
                    rv, rd = 0, 0
                    if inflight and inflight[0][0] <= t and rnd.random() < 0.8:
                        rv, rd = 1, inflight.pop(0)[1]
                    prev = (0, start, ci, cr, rv, rd)
                    yield dut.reset.eq(0); yield dut.start.eq(start); yield dut.run_cascade_in.eq(ci); yield cmd.ready.eq(cr); yield dat.valid.eq(rv); yield dat.data.eq(rd)
                lines.append(" ".join(str(x) for x in prev))
                yield
        run_simulation(dut, gen())
        return lines, obs, res
    lines, obs, g = drive("gen", None)
    compare(r, "_LiteDRAMPatternGenerator vs Model/Bist.lean", s, "bistpgen", lines, obs, (3, 5), ("pg", idx))
    shift = s["ashift"] if s["axi"] else 0
    exp_addr = [(a << shift) for a, _ in init]; exp_data = [d for _, d in init]
    if g["done"] is None or g["cmds"] != exp_addr or g["datas"] != exp_data:
        r.violations.append(dict(signature="c14-pattern-gen", what="pattern generator (%d pairs, %d-bit %s): wrote addresses %s / %d data words, done=%s; the pattern is %s"
                                 % (npairs, s["dw"], "AXI" if s["axi"] else "native", g["cmds"][:8], len(g["datas"]), g["done"] is not None, exp_addr[:8]), replay=tag))
    mem = {}
    for a, d in zip(exp_addr, exp_data):
        mem[a] = d
    cor = rnd.sample(sorted(mem), min(len(mem), rnd.choice([0, 1, 2])))
    for a in cor:
        mem[a] ^= 1 << rnd.randrange(s["dw"])
    want = sum(1 for a, d in zip(exp_addr, exp_data) if mem.get(a, 0) != d)
    lines, obs, c = drive("chk", mem)
    compare(r, "_LiteDRAMPatternChecker vs Model/Bist.lean", s, "bistpchk", lines, obs, (4, ), ("pc", idx))
    r.evaluations += 1
    if c["done"] is None or c["errors"] != want or c["cmds"] != exp_addr:
        r.violations.append(dict(signature="c14-pattern-chk", what="pattern checker (%d pairs, %d corrupted words): reports %s errors (done=%s), %d pairs differ; read addresses %s"
                                 % (npairs, len(cor), c["errors"], c["done"] is not None, want, c["cmds"][:8]), replay=dict(tag, corrupted=cor)))
    return r


def cdc_job(args):
    """The CSR wrapper on a port in another clock domain (control / status words through AsyncFIFOs): the real
    LiteDRAMBISTGenerator in Migen's two-clock simulation, driven the way the BIOS drives it (reset, program base / end / length /
    random, start, poll done), twice with different windows; the words it writes are judged against the specification sequence."""
    from migen import run_simulation
    from litedram.common import LiteDRAMNativePort
    from litedram.frontend import bist
    seed, idx, tier = args
    rnd = random.Random("c14cdc-%d-%d" % (seed, idx))
    shims.install()
    settings = []
    dw = rnd.choice([8, 16, 32, 64])
    while len(settings) < 2:
        s = rand_setting(rnd, 4 * rnd.randrange(4) + (idx % 2))      # modes 0 / 1: the run fits its window
        if s["axi"] or s["dw"] != dw:
            continue
        if settings and (s["aw"] != settings[0]["aw"]):
            continue
        s["n"] = min(s["n"], 40); s["length"] = s["n"] << s["ashift"]
        s["ra"] = 1 if len(settings) == idx % 2 else s["ra"]
        settings.append(s)
    s0 = settings[0]
    port = LiteDRAMNativePort("both", s0["aw"], s0["dw"], clock_domain="port")
    dut = bist.LiteDRAMBISTGenerator(port)
    shims.finalize_csrs(dut)
    ps, pp = rnd.choice([(4, 4), (4, 6), (4, 10), (6, 8), (2, 14), (10, 10), (10, 4), (14, 2), (8, 6)])
    clocks = {"sys": (ps, rnd.randrange(ps)), "port": (pp, rnd.randrange(pp))}
    st = dict(phase=0, runs=[dict(cmds=[], datas=[]), dict(cmds=[], datas=[])], done=[None, None], stop=False)

    def sysgen():
        for k, s in enumerate(settings):
            yield dut.reset.re.eq(1); yield
            yield dut.reset.re.eq(0)
            for _ in range(rnd.randint(2, 6)):
                yield
            yield dut.base.storage.eq(s["base"]); yield dut.end.storage.eq(s["end"]); yield dut.length.storage.eq(s["length"])
            yield dut.random.storage.eq(s["rd"] | (s["ra"] << 1))
            for _ in range(rnd.randint(1, 5)):
                yield
            st["phase"] = k
            yield dut.start.re.eq(1); yield
            yield dut.start.re.eq(0)
            # the done flag of the previous run may still be up until the status words of this run arrive
            for _ in range(12 * max(1, pp // ps) + 12):
                yield
            for t in range((80 * s["n"] + 400) * max(1, pp // ps)):
                if (yield dut.done.status):
                    st["done"][k] = t
                    break
                yield
            for _ in range(20 * max(1, pp // ps)):
                yield
        st["stop"] = True

    def portgen():
        p_c = p_w = 1.0
        t = 0
        pc = pw = 0
        while not st["stop"]:
            cur = st["runs"][st["phase"]]
            if pc and (yield port.cmd.valid):
                cur["cmds"].append((yield port.cmd.addr))
            if pw and (yield port.wdata.valid):
                cur["datas"].append((yield port.wdata.data))
            if t % 40 == 0:
                p_c = rnd.choice([0.3, 0.8, 1.0, 1.0]); p_w = rnd.choice([0.3, 0.8, 1.0, 1.0])
            pc = int(rnd.random() < p_c); pw = int(rnd.random() < p_w)
            yield port.cmd.ready.eq(pc); yield port.wdata.ready.eq(pw)
            t += 1
            yield
    run_simulation(dut, {"sys": [sysgen()], "port": [portgen()]}, clocks=clocks)
    r = Result()
    r.coverage["cdc_wrapper_runs"] = 1
    for k, s in enumerate(settings):
        n = s["n"]
        sp = core.run_driver("bistspec", [cfg_line(s)] + ["4 %d" % i for i in range(n)] + ["5"])
        seq = [[int(x) for x in l.split()] for l in sp[1:1 + n]]
        exp_addr = [q[0] for q in seq]; exp_data = [q[1] for q in seq]
        got = st["runs"][k]
        r.evaluations += n + 1
        r.distinct.add(("cdc", idx, k))
        what = None
        if st["done"][k] is None:
            what = "done never reported"
        elif got["cmds"] != exp_addr or got["datas"] != exp_data:
            j = next((i for i in range(max(n, len(got["cmds"]))) if i >= len(got["cmds"]) or i >= n or got["cmds"][i] != exp_addr[i]), None)
            jd = next((i for i in range(max(n, len(got["datas"]))) if i >= len(got["datas"]) or i >= n or got["datas"][i] != exp_data[i]), None)
            what = "wrote %d commands / %d data words for a %d-word run; first differing command position %s (0x%x for 0x%x), data position %s" % (
                len(got["cmds"]), len(got["datas"]), n, j, got["cmds"][j] if j is not None and j < len(got["cmds"]) else 0,
                exp_addr[j] if j is not None and j < n else 0, jd)
        if what and not r.violations:
            r.violations.append(dict(signature="c14-cdc-wrapper", what="LiteDRAMBISTGenerator on a %d-bit port in another clock domain (sys period %d, port period %d), run %d (base 0x%x end 0x%x, random addr %d): %s"
                                     % (s["dw"], ps, pp, k + 1, s["base"], s["end"], s["ra"], what), replay=dict(settings=settings, clocks=clocks, seed=seed, idx=idx)))
    return r


def witness_job(_):
    """the Lean counterexample of Props/C14 (`addr_out_of_range_witness`: 32-bit native port, base=4, end=8, 6 words) replayed on the real generator"""
    rnd = random.Random("c14-witness")
    s = dict(dw=32, aw=8, axi=0, ashift=2, depth=16, base=4, end=8, length=24, rd=0, ra=0, wrapper=0, n=6)
    r = Result()
    g = run_generator(s, rnd, "quick")
    r.coverage["witness_replayed"] = 1
    out = [a for a in g["cmds"] if not (s["base"] <= a * 4 and a * 4 + 4 <= s["end"])]
    if out:
        r.violations.append(dict(signature="c14-byte-mask-on-word-address", what="32-bit native, sequential addresses, base=0x4 end=0x8 length=0x18: words written at %s, outside [base, end)"
                                 % [hex(a * 4) for a in out], replay=dict(setting=s, written=g["cmds"])))
    return r


def _dispatch(j):
    return j[0](j[1])


def run(tier, seed):
    n = 96 if tier == "quick" else 600
    jobs = [(job, (seed, i, tier)) for i in range(n)] + [(witness_job, None)] + [(pattern_job, (seed, i, tier)) for i in range(24 if tier == "quick" else 200)] + \
           [(cdc_job, (seed, i, tier)) for i in range(16 if tier == "quick" else 120)]
    res = Result()
    for r in core.pmap(_dispatch, jobs):
        res.merge(r)
    return res


def replay(data, tier, seed):
    return run(tier, seed)
