"""C16 correspondence: every SDRAMModule class x speedgrade x rate x fine-refresh mode x a dense frequency grid;
impl = SDRAMModule(...).timing_settings (float arithmetic) vs the exact Lean model fed with the *raw*
library entries (so `get`, `Timing.__add__`, the None handling and the conversions are all on the model
side too).  The property is also evaluated directly on the implementation's numbers with exact rationals.
SPD images: the SPD decode is re-done independently here (JEDEC formula mtb*MTB + ftb*FTB) and compared with
the timings the SPD classes hand to SDRAMModule; the cycle check is then the same as for the library."""
import os, random, glob
from fractions import Fraction as F
from decimal import Decimal
from vlib import core
from vlib.core import Result

RULE = ("every module class of litedram/modules.py x every speedgrade x rates {1:1,1:2,1:4 (+1:8 LPDDR4)} x DDR4 fine refresh "
        "modes x integer-Hz controller frequencies (round values, awkward values, values around exact-integer quotients); "
        "a case = (module, speedgrade, rate, mode, f) with its 12 TimingSettings fields; non-trivial = every case; distinct by tuple")
TRUSTED = ["datasheet numbers are taken from the class attributes (raw tuples/scalars) and read as exact decimals (repr of the float)",
           "controller frequencies are sampled as integers in Hz"]
ASSUMPTIONS = ["float slack rule: impl may exceed the exact value by one cycle for a minimum (or fall short by one for tREFI) only when "
               "the exact quotient is within 1e-9 of an integer (safe side); any deviation on the unsafe side is a violation"]

FIELDS = ["tRP", "tRCD", "tWR", "tREFI", "tRFC", "tWTR", "tFAW", "tCCD", "tRRD", "tRC", "tRAS", "tZQCS"]
RAWS = ["tRP", "tRCD", "tWR", "tREFI", "tRFC", "tWTR", "tFAW", "tCCD", "tRRD", "tRAS", "tZQCS"]


def exact(x):
    return F(Decimal(repr(x))) if isinstance(x, float) else F(x)


def enc_raw(v):
    """raw library value -> 7 numbers (kind ckNone cknum ckden nsNone nsnum nsden)"""
    if v is None:
        return [0, 1, 0, 1, 1, 0, 1]
    if isinstance(v, tuple):
        ck, ns = v
        out = [2]
        for x in (ck, ns):
            if x is None:
                out += [1, 0, 1]
            else:
                q = exact(x); out += [0, q.numerator, q.denominator]
        return out
    q = exact(v)
    return [1, 1, 0, 1, 0, q.numerator, q.denominator]


def spec_timing(v):
    """independent reading of a library entry: (ck, ns) as exact rationals, or None"""
    if v is None:
        return None
    if isinstance(v, tuple):
        return (exact(v[0] or 0), exact(v[1] or 0))
    return (F(0), exact(v))


def freqs(tier, rnd, quant_ps=None):
    base = [25e6, 33333333, 40e6, 48e6, 50e6, 62.5e6, 66666667, 71.5e6, 75e6, 80e6, 83333333, 100e6, 111e6, 125e6, 133333333,
            142857143, 150e6, 166666667, 175e6, 200e6, 225e6, 250e6, 266666667, 300e6, 333333333, 400e6]
    n = 60 if tier == "quick" else 700
    fs = set(int(f) for f in base)
    while len(fs) < n:
        m = rnd.randrange(3)
        if m == 0:
            fs.add(rnd.randrange(25_000_000, 400_000_001))
        elif m == 1:
            fs.add(rnd.randrange(50, 801) * 500_000)
        else:
            fs.add(rnd.randrange(25_000, 400_001) * 1000)
    return sorted(fs)


def cases_for(cls):
    sgs = list(getattr(cls, "speedgrade_timings", {"default": None}).keys())
    rates = {"SDR": ["1:1"], "DDR": ["1:1", "1:2"], "LPDDR": ["1:1", "1:2"], "DDR2": ["1:2", "1:4"], "DDR3": ["1:2", "1:4"],
             "DDR4": ["1:2", "1:4"], "LPDDR4": ["1:4", "1:8"], "RPC": ["1:4"]}.get(cls.memtype, ["1:4"])
    rates = sorted(set(rates + ["1:1", "1:2", "1:4"]))
    modes = ["1x", "2x", "4x"] if cls.memtype == "DDR4" else [None]
    for sg in sgs:
        for rate in rates:
            for mode in modes:
                yield sg, rate, mode


def check_module(r, mk, cls, label, sg, rate, mode, fs):
    """mk(f) builds the module at frequency f. Returns list of driver lines + bookkeeping."""
    n = int(rate.split(":")[1])
    lines, impls, metas = [], [], []
    for f in fs:
        try:
            m = mk(f)
        except Exception as e:
            if len(r.mismatches) < 5:
                r.mismatches.append(dict(where="SDRAMModule construction", input=[label, sg, rate, mode, f], impl=repr(e), model="constructs"))
            continue
        raws = {}
        for name in RAWS:
            v = m.get_timing(name)
            if isinstance(v, dict):
                v = v[mode]
            raws[name] = v
        line = [f, n]
        for name in RAWS:
            line += enc_raw(raws[name])
        lines.append(" ".join(map(str, line)))
        ts = m.timing_settings
        impls.append([getattr(ts, k) for k in FIELDS])
        metas.append((f, raws))
    return lines, impls, metas, n


def judge(r, label, sg, rate, mode, n, lines, impls, metas, model_out):
    for line, impl, (f, raws), mo in zip(lines, impls, metas, model_out):
        r.evaluations += 1
        r.distinct.add((label, sg, rate, mode, f))
        mo = mo.split()
        T = F(10 ** 9, f)                       # controller period, ns
        for k, iv, mv in zip(FIELDS, impl, mo):
            # ---------------- property on the implementation's number (exact rationals) ---------------
            if k == "tRC":
                a, b = spec_timing(raws["tRP"]), spec_timing(raws["tRAS"])
                sp = None if (a is None or b is None) else (a[0] + b[0], a[1] + b[1])
            else:
                sp = spec_timing(raws[k])
            tag = dict(module=label, speedgrade=sg, rate=rate, fine_refresh=mode, clk_freq=f, field=k, impl=iv,
                       datasheet=None if sp is None else [str(sp[0]), str(sp[1])])
            if sp is None:
                if iv is not None and len(r.violations) < 5:
                    r.violations.append(dict(signature="c16-none", what="%s: field %s has no datasheet entry but is %r" % (label, k, iv), replay=tag))
            elif iv is None:
                if len(r.violations) < 5:
                    r.violations.append(dict(signature="c16-missing", what="%s: field %s dropped" % (label, k), replay=tag))
            elif k == "tREFI":
                if iv * T > sp[1]:
                    if len(r.violations) < 5:
                        r.violations.append(dict(signature="c16-trefi-long", what="%s sg=%s %s at %d Hz: tREFI=%d cycles = %s ns exceeds the datasheet refresh interval %s ns"
                                                 % (label, sg, rate, f, iv, float(iv * T), float(sp[1])), replay=tag))
                r.coverage["trefi_checked"] = r.coverage.get("trefi_checked", 0) + 1
            else:
                worst = (iv * n - (n - 1)) * (T / n)      # ns spanned on the least favourable phases
                if worst < sp[1] or iv * n < sp[0]:
                    if len(r.violations) < 5:
                        r.violations.append(dict(signature="c16-min-short", what="%s sg=%s %s at %d Hz: %s=%d cycles spans %s ns / %d ck on the worst phases; datasheet needs %s ns / %s ck"
                                                 % (label, sg, rate, f, k, iv, float(worst), iv * n, float(sp[1]), float(sp[0])), replay=tag))
            # ---------------- correspondence with the exact model ------------------------------------
            ivs = "none" if iv is None else str(iv)
            if ivs != mv:
                slack_ok = False
                if iv is not None and mv != "none" and sp is not None:
                    q = sp[1] / T + (0 if k == "tREFI" else F(n - 1, n))
                    near = abs(q - round(q)) < F(1, 10 ** 9)
                    if k == "tREFI":
                        slack_ok = near and iv == int(mv) - 1
                    else:
                        slack_ok = near and iv == int(mv) + 1
                if slack_ok:
                    r.coverage["float_slack_safe_side"] = r.coverage.get("float_slack_safe_side", 0) + 1
                elif len(r.mismatches) < 5:
                    r.mismatches.append(dict(where="timing_settings." + k, input=tag, impl=ivs, model=mv))


def job(args):
    idx, tier, seed = args
    from translators.modlib import library_classes
    cls = library_classes()[idx]
    rnd = random.Random("c16-%d-%s" % (seed, cls.__name__))
    r = Result()
    fs_all = freqs(tier, rnd)
    for sg, rate, mode in cases_for(cls):
        sub = fs_all if tier == "thorough" else rnd.sample(fs_all, 20) + fs_all[:0]
        def mk(f, sg=sg, rate=rate, mode=mode):
            return cls(f, rate, speedgrade=None if sg == "default" else sg, fine_refresh_mode=mode)
        lines, impls, metas, n = check_module(r, mk, cls, cls.__name__, sg, rate, mode, sub)
        out = core.run_driver("c16", lines) if lines else []
        judge(r, cls.__name__, sg, rate, mode, n, lines, impls, metas, out)
    r.coverage["module_classes"] = 1
    r.samples.append(dict(module=cls.__name__, case=list(next(cases_for(cls))), clk_freq=fs_all[3]))
    return r


# ------------------------------------------------------------------------------------------------ SPD
def twos(v, n):
    return v - (1 << n) if v & (1 << (n - 1)) else v


def spd_reference(b):
    """JEDEC SPD decode, written independently of modules.py: returns dict name -> exact ns (Fraction)."""
    if b[2] == 0x0b:    # DDR3 (JESD21-C Annex K)
        ftb = F(b[9] >> 4, b[9] & 0xf) / 1000
        mtb = F(b[10], b[11])
        t = lambda m, f=0: m * mtb + twos(f, 8) * ftb
        return dict(tWR=t(b[17]), tRCD=t(b[18], b[36]), tRRD=t(b[19]), tRP=t(b[20], b[37]),
                    tRAS=t(((b[21] & 0xf) << 8) | b[22]), tRFC=t((b[25] << 8) | b[24]), tWTR=t(b[26]),
                    tFAW=t(((b[28] & 0xf) << 8) | b[29]), tCK=t(b[12], b[34]))
    if b[2] == 0x0c:    # DDR4 (Annex L): MTB 125 ps, FTB 1 ps
        mtb, ftb = F(125, 1000), F(1, 1000)
        t = lambda m, f=0: m * mtb + twos(f, 8) * ftb
        return dict(tRCD=t(b[25], b[122]), tRP=t(b[26], b[121]), tRAS=t(((b[27] & 0xf) << 8) | b[28]),
                    tRFC1=t((b[31] << 8) | b[30]), tRFC2=t((b[33] << 8) | b[32]), tRFC4=t((b[35] << 8) | b[34]),
                    tFAW=t(((b[36] & 0xf) << 8) | b[37]), tRRD=t(b[39], b[118]), tCCD=t(b[40], b[117]),
                    tWR=t(((b[41] & 0xf) << 8) | b[42]), tWTR=t(((b[43] >> 4) << 8) | b[45]), tCK=t(b[18], b[125]))
    return None


def job_spd(args):
    path, tier, seed = args
    from litedram.modules import SDRAMModule, parse_spd_hexdump
    r = Result()
    rnd = random.Random("c16spd-%d-%s" % (seed, os.path.basename(path)))
    import csv
    data = [0] * 512
    try:
        with open(path) as fh:
            for row in csv.DictReader(fh):
                address = row["Byte Number"]
                if len(address.split("-")) == 1:
                    data[int(address)] = int(row["Byte Value"], 16)
    except Exception as e:
        r.mismatches.append(dict(where="spd file parse", input=path, impl=repr(e), model="parsable"))
        return r
    base = list(data)
    nvar = 6 if tier == "quick" else 40
    for var in range(nvar + 1):
        data = spd_variant(base, rnd) if var else list(base)
        spd_one(r, path, data, "SPD:" + os.path.basename(path) + ("" if not var else " (timing bytes varied, variant %d)" % var), tier, rnd, var)
    r.coverage["spd_images"] = 1
    r.coverage["spd_variants"] = nvar
    return r


def spd_variant(base, rnd):
    """the same SPD image with its timing bytes redrawn (legal encodings: reserved bits stay 0, upper nibbles are exercised)"""
    b = list(base)
    if b[2] == 0x0b:      # DDR3
        for i in (17, 18, 19, 20, 26, 27):
            b[i] = rnd.randrange(20, 160)
        b[22] = rnd.randrange(256); b[23] = rnd.randrange(256); b[21] = (rnd.randrange(0, 3) << 4) | rnd.randrange(0, 3)   # tRAS / tRC upper nibbles
        b[24] = rnd.randrange(256); b[25] = rnd.randrange(1, 5)                                                              # tRFC
        b[29] = rnd.randrange(256); b[28] = rnd.randrange(0, 3)                                                              # tFAW: upper nibble in bits 3..0
        for i in (35, 36, 37, 38):   # byte 34 is the fine offset of tCKmin (selects the speed grade): kept
            b[i] = rnd.choice([0, 0, rnd.randrange(256)])
    elif b[2] == 0x0c:    # DDR4
        for i in (24, 25, 26, 38, 39, 40):
            b[i] = rnd.randrange(30, 160)
        b[28] = rnd.randrange(256); b[29] = rnd.randrange(256); b[27] = (rnd.randrange(0, 3) << 4) | rnd.randrange(0, 3)
        for lo, hi in ((30, 31), (32, 33), (34, 35)):
            b[lo] = rnd.randrange(256); b[hi] = rnd.randrange(1, 12)
        b[37] = rnd.randrange(256); b[36] = rnd.randrange(0, 3)
        b[42] = rnd.randrange(256); b[41] = rnd.randrange(0, 2)
        b[44] = rnd.randrange(256); b[45] = rnd.randrange(256); b[43] = (rnd.randrange(0, 2) << 4) | rnd.randrange(0, 2)
        for i in (117, 118, 119, 120, 121, 122, 123):
            b[i] = rnd.choice([0, 0, rnd.randrange(256)])
    return b


def spd_one(r, path, data, label, tier, rnd, var):
    from litedram.modules import SDRAMModule
    ref = spd_reference(data)
    fs = rnd.sample(freqs(tier, rnd), (12 if tier == "quick" else 100) if not var else 3)
    modes = ["1x", "2x", "4x"] if data[2] == 0x0c else [None]
    for mode in modes:
        def mk(f, mode=mode):
            return SDRAMModule.from_spd_data(data, f, fine_refresh_mode=mode)
        m0 = mk(100_000_000)
        rate = m0.rate
        # decoded timings vs the independent JEDEC decode (tolerance: float noise only)
        def ns_of(v):
            return None if v is None else (v[1] if isinstance(v, tuple) else v)
        pairs = [("tRP", "tRP"), ("tRCD", "tRCD"), ("tWR", "tWR"), ("tRAS", "tRAS"), ("tFAW", "tFAW"), ("tWTR", "tWTR"), ("tRRD", "tRRD")]
        pairs.append(("tRFC", "tRFC" if data[2] == 0x0b else {"1x": "tRFC1", "2x": "tRFC2", "4x": "tRFC4"}[mode]))
        for name, rk in pairs:
            v = m0.get_timing(name)
            if isinstance(v, dict):
                v = v[mode]
            got = ns_of(v)
            r.evaluations += 1
            if got is None or abs(exact(got) - ref[rk]) > F(1, 10 ** 6):
                if len(r.violations) < 5:
                    r.violations.append(dict(signature="c16-spd-decode", what="%s: %s decoded as %r ns, SPD bytes say %s ns" % (label, name, got, float(ref[rk])),
                                             replay=dict(file=path, field=name, got=got, want=str(ref[rk]), variant=var,
                                                         spd_bytes_0_63=data[:64], spd_bytes_117_125=data[117:126])))
        lines, impls, metas, n = check_module(r, mk, None, label, m0.speedgrade, rate, mode, fs)
        out = core.run_driver("c16", lines) if lines else []
        judge(r, label, m0.speedgrade, rate, mode, n, lines, impls, metas, out)


def _dispatch(j):
    return j[0](j[1])


def run(tier, seed):
    from translators.modlib import library_classes
    ncls = len(library_classes())
    jobs = [(job, (i, tier, seed)) for i in range(ncls)]
    for p in sorted(glob.glob(os.path.join(core.REPO, "test", "spd_data", "*.csv"))):
        jobs.append((job_spd, (p, tier, seed)))
    res = Result()
    for r in core.pmap(_dispatch, jobs):
        res.merge(r)
    return res


def replay(data, tier, seed):
    return run(tier, seed)
