"""C11: LiteDRAMAvalonMM2Native (frontend/avalon.py) vs Model/Avalon.lean cycle by cycle (port of the Avalon width), and - for
every width ratio - the port-memory specification (Spec/PortMemory.lean) evaluated on the Avalon side of the real module:
each accepted write beat updates its word under its byte enables, each read (burst of n) returns exactly n beats with the
words of consecutive addresses.  Native side = crossbar-like stub (commands queued, data strobes as unconditional pulses
in command order), its memory is compared with the specification's at the end."""
import random
from vlib import core
from vlib.core import Result

RULE = ("Avalon widths {8,16,32,64} on native ports of equal, half/quarter (down-conversion) and double/quadruple (up-conversion) "
        "width, base addresses, max_burst_length {4,16}; legal master traffic: single reads/writes, read bursts and write bursts of "
        "1..max beats with byte enables, idle gaps between the beats of a write burst, don't-care address/burstcount after the first "
        "beat; native side with random acceptance, pulse latencies and long stalls; a case = one simulated cycle (all boundary "
        "signals compared for equal width) or one Avalon beat judged by the specification; non-trivial = a beat or port handshake "
        "happens; distinct by (run, cycle)")
TRUSTED = ["native-side stub written from core/crossbar.py, not the real controller",
           "for unequal widths the converter is covered cycle-exactly by C07; here the composition is judged by the specification only"]
ASSUMPTIONS = ["Avalon master holds address/read/write/writedata/byteenable/burstcount while waitrequest is high, burstcount >= 1; write bursts <= max_burst_length (the FIFO the bridge buffers them in), read bursts up to 255 beats; bursts do not wrap the address space",
               "rdata.last / wdata.last on the native side are 0"]


def mism(r, where, **kw):
    if len(r.mismatches) < 4:
        r.mismatches.append(dict(where=where, **kw))


def rand_cfg(rnd, idx):
    shape = ["equal", "equal", "down", "up", "equal", "up", "down"][idx % 7]
    av_dw = rnd.choice([8, 16, 32, 64]) if shape == "equal" else (rnd.choice([16, 32, 64]) if shape == "down" else rnd.choice([8, 16, 32]))
    ratio = 1 if shape == "equal" else rnd.choice([2, 4] if not (shape == "down" and av_dw == 16) else [2])
    port_dw = av_dw if shape == "equal" else (av_dw // ratio if shape == "down" else av_dw * ratio)
    log = ratio.bit_length() - 1
    port_aw = rnd.randint(5, 7)
    av_aw = port_aw if shape == "equal" else (port_aw - log if shape == "down" else port_aw + log)
    base_words = rnd.choice([0, 0, rnd.randrange(0, 1 << av_aw)])
    return dict(shape=shape, av_dw=av_dw, port_dw=port_dw, ratio=ratio, port_aw=port_aw, av_aw=av_aw, base_words=base_words,
                max_burst=rnd.choice([4, 16]), gaps=int(idx % 2 == 0), inc=rnd.choice([1, 1, 1, 2]))


def gen_ops(c, rnd, n):
    nb = c["av_dw"] // 8
    amax = 1 << c["av_aw"]
    ops = []
    for _ in range(n):
        kind = rnd.choice(["sr", "sw", "sw", "br", "bw", "bw"])
        inc = c.get("inc", 1)
        beats = 1 if kind in ("sr", "sw") else rnd.randint(2, max(2, min(c["max_burst"], (amax - 1) // inc + 1)))
        if kind == "br" and rnd.random() < 0.3:
            # max_burst_length only sizes the write-burst FIFOs: a read burst may be as long as burstcount allows
            beats = rnd.randint(2, max(2, min(255, (amax - 1) // inc + 1)))
        a = rnd.randrange(0, amax - (beats - 1) * inc)
        if rnd.random() < 0.5 and ops:
            a = min(max(0, ops[-1]["addr"] + rnd.randint(-2, 3)), amax - 1 - (beats - 1) * inc)
        data = [rnd.getrandbits(c["av_dw"]) for _ in range(beats)]
        be = [(1 << nb) - 1 if rnd.random() < 0.6 else rnd.getrandbits(nb) for _ in range(beats)]
        ops.append(dict(we=int(kind in ("sw", "bw")), addr=a, beats=beats, data=data, be=be))
    return ops


def simulate(c, ops, rnd):
    from migen import run_simulation, Module
    from litex.soc.interconnect import avalon
    from litedram.common import LiteDRAMNativePort
    from litedram.frontend.avalon import LiteDRAMAvalonMM2Native
    nb = c["av_dw"] // 8
    avl = avalon.AvalonMMInterface(data_width=c["av_dw"], adr_width=c["av_aw"])
    port = LiteDRAMNativePort("both", c["port_aw"], c["port_dw"])
    dut = LiteDRAMAvalonMM2Native(avl, port, max_burst_length=c["max_burst"], base_address=c["base_words"] * nb, burst_increment=c.get("inc", 1))
    assert len(avl.address) == c["av_aw"], (len(avl.address), c)
    amask = (1 << c["av_aw"]) - 1
    lines = ["%d %d %d %d" % (c["av_aw"], c["max_burst"], c["base_words"], c.get("inc", 1)), "0 0 0 0 0 0 0 0 0 0"]
    obs, mon = [], []
    st = dict(stub_mem={}, lost=[], stuck=None, beats=0, rbeats=0, max_outstanding=0, gaps=0)
    init_rnd = random.Random(rnd.random())
    for a in range(1 << c["port_aw"]):
        st["stub_mem"][a] = init_rnd.getrandbits(c["port_dw"])
    ratio = c["ratio"]

    def view_word(a):           # Avalon word a (relative to base) through the byte-addressed view of the stub memory
        if c["shape"] == "equal":
            return st["stub_mem"][a]
        if c["shape"] == "up":
            return (st["stub_mem"][a // ratio] >> ((a % ratio) * c["av_dw"])) & ((1 << c["av_dw"]) - 1)
        return sum(st["stub_mem"][a * ratio + j] << (j * c["port_dw"]) for j in range(ratio))
    for a in range(1 << c["av_aw"]):
        mon.append("1 1 %d %d %d 0 0" % (a, view_word(a), (1 << nb) - 1))
    st["init_events"] = len(mon)
    budget = 60 * sum(o["beats"] for o in ops) * (ratio if c["shape"] == "down" else 1) + 1500

    def gen():
        k = 0; beat = 0; gap = 2; presenting = False
        queue = []; last_event = 0
        p_cmd, lat = 0.8, 3
        prev = None; pending_w = None; pending_r = False
        reads_expected = 0
        junk = (0, 0)
        tail = 0
        for t in range(budget):
            if prev is not None:
                o_wait = (yield avl.waitrequest); o_rdv = (yield avl.readdatavalid); o_rd = (yield avl.readdata)
                o_cv = (yield port.cmd.valid); o_cw = (yield port.cmd.we); o_ca = (yield port.cmd.addr); o_cl = (yield port.cmd.last)
                o_wv = (yield port.wdata.valid); o_wd = (yield port.wdata.data); o_ww = (yield port.wdata.we); o_rr = (yield port.rdata.ready)
                obs.append("%d %d %d %d %d %d %d %d %d %d %d" % (o_wait, o_rdv, o_rd if o_rdv else 0, o_cv, o_cw if o_cv else 0, o_ca if o_cv else 0, o_cl if o_cv else 0,
                                                                  o_wv, o_wd if o_wv else 0, o_ww if o_wv else 0, o_rr))
                evs = []
                if (prev["rd"] or prev["wr"]) and not o_wait:
                    op = ops[k]
                    st["beats"] += 1
                    if op["we"]:
                        evs.append("1 1 %d %d %d" % (op["addr"] + beat * c.get("inc", 1), op["data"][beat], op["be"][beat]))
                        beat += 1
                        if beat == op["beats"]:
                            k += 1; beat = 0; gap = rnd.choice([0, 0, 1, 3, rnd.randint(0, 10)])
                        elif c["gaps"] and rnd.random() < 0.35:
                            gap = rnd.choice([1, 2, rnd.randint(3, 25)]); st["gaps"] += 1
                    else:
                        for j in range(op["beats"]):
                            evs.append("1 0 %d 0 0" % (op["addr"] + j * c.get("inc", 1)))
                        reads_expected += op["beats"]
                        k += 1; beat = 0; gap = rnd.choice([0, 0, 1, 3, rnd.randint(0, 10)])
                    presenting = False
                if not evs:
                    evs = ["0 0 0 0 0"]
                for j, e in enumerate(evs):
                    mon.append(e + (" %d %d" % (o_rdv, o_rd if o_rdv else 0) if j == len(evs) - 1 else " 0 0"))
                if o_rdv:
                    st["rbeats"] += 1
                # native side
                if o_cv and prev["tcr"]:
                    e = max(t + 1, last_event + 1) + rnd.randint(0, lat)
                    if rnd.random() < 0.05:
                        e += rnd.randint(10, 40)
                    last_event = e
                    queue.append([e, o_cw, o_ca])
                    st["max_outstanding"] = max(st["max_outstanding"], len(queue))
                if pending_w is not None:
                    if not o_wv:
                        st["lost"].append("write data for native word %d not valid when wdata.ready pulsed (cycle %d)" % (pending_w, t))
                    else:
                        old = st["stub_mem"].get(pending_w, 0); new = 0
                        for b in range(c["port_dw"] // 8):
                            src = o_wd if (o_ww >> b) & 1 else old
                            new |= ((src >> (8 * b)) & 0xff) << (8 * b)
                        st["stub_mem"][pending_w] = new
                    pending_w = None
                if pending_r:
                    if not o_rr:
                        st["lost"].append("rdata.valid pulsed while rdata.ready was low (cycle %d)" % t)
                    pending_r = False
            if k >= len(ops):
                # finished only when the front-end and the native side have been silent for a while (slow command acceptance
                # can keep queued beats trickling out long after the last Avalon beat was accepted)
                busy = prev is not None and (o_cv or o_wv or queue or pending_w is not None or pending_r)
                tail = 0 if busy else tail + 1
                if st["rbeats"] >= reads_expected and tail > 80:
                    break
            if t % 60 == 0:
                p_cmd = rnd.choice([0.2, 0.7, 1.0]); lat = rnd.choice([0, 3, 9])
            rd = wr = 0; a = bc = be = wd = 0
            if k < len(ops):
                op = ops[k]
                if not presenting and gap > 0:
                    gap -= 1
                else:
                    presenting = True
                    if op["we"]:
                        wr = 1; be = op["be"][beat]; wd = op["data"][beat]
                    else:
                        rd = 1
                    if beat == 0:
                        a = (op["addr"] + c["base_words"]) & amask; bc = op["beats"]
                        junk = (a, bc)
                    else:
                        # address / burstcount are don't-care after the first beat of a burst
                        if rnd.random() < 0.3:
                            junk = (rnd.randrange(amask + 1), rnd.randint(0, c["max_burst"]))
                        a, bc = junk
            if not (rd or wr) and rnd.random() < 0.5:
                a, bc, be, wd = rnd.randrange(amask + 1), rnd.randint(0, c["max_burst"]), rnd.getrandbits(nb), rnd.getrandbits(c["av_dw"])
            tcr = int(rnd.random() < p_cmd)
            twr = trv = trd = 0
            if queue and queue[0][0] <= t:
                _, qwe, qa = queue.pop(0)
                if qwe:
                    twr = 1; pending_w = qa
                else:
                    trv = 1; trd = st["stub_mem"].get(qa, 0); pending_r = True
            prev = dict(rd=rd, wr=wr, tcr=tcr)
            yield avl.read.eq(rd); yield avl.write.eq(wr); yield avl.address.eq(a); yield avl.burstcount.eq(bc)
            yield avl.byteenable.eq(be); yield avl.writedata.eq(wd)
            yield port.cmd.ready.eq(tcr); yield port.wdata.ready.eq(twr); yield port.rdata.valid.eq(trv); yield port.rdata.data.eq(trd)
            lines.append("%d %d %d %d %d %d %d %d %d %d" % (rd, wr, a, bc, be, wd, tcr, twr, trv, trd))
            yield
        else:
            st["stuck"] = "after %d cycles: %d of %d operations done, %d of %d read beats returned, %d native commands outstanding" % (
                budget, k, len(ops), st["rbeats"], reads_expected, len(queue))
        st["reads_expected"] = reads_expected
        st["view_word"] = None
    run_simulation(dut, gen())
    st["view"] = {a: view_word(a) for a in range(1 << c["av_aw"])}
    return lines, obs, mon, st


def job(args):
    seed, idx, tier = args
    rnd = random.Random("c11-%d-%d" % (seed, idx))
    c = rand_cfg(rnd, idx)
    ops = gen_ops(c, rnd, rnd.randint(12, 30) if tier == "quick" else rnd.randint(30, 120))
    r = Result()
    lines, obs, mon, st = simulate(c, ops, rnd)
    tag = dict(config=c, seed=seed, idx=idx, ops=[dict(o, data=o["data"][:4], be=o["be"][:4]) for o in ops[:30]])
    r.coverage["runs"] = 1
    r.coverage["shapes"] = {"%s_%dto%d" % (c["shape"], c["av_dw"], c["port_dw"]): 1}
    r.coverage["avalon_beats"] = st["beats"]
    r.coverage["idle_gaps_inside_write_bursts"] = st["gaps"]
    r.coverage["burst_ops"] = sum(1 for o in ops if o["beats"] > 1)
    if c["shape"] == "equal":
        mo = core.run_driver("avalon", lines)[2:]
        for i in range(min(len(mo), len(obs))):
            r.evaluations += 1
            f = obs[i].split()
            if f[0] == "0" or f[1] == "1" or f[3] == "1":
                r.distinct.add((idx, i))
            if mo[i] != obs[i]:
                mism(r, "LiteDRAMAvalonMM2Native vs Model/Avalon.lean", config=c, cycle=i, impl=obs[i], model=mo[i], inputs=lines[max(2, i - 3):i + 3])
                break
    else:
        r.evaluations += st["beats"]
        for i, l in enumerate(mon[st["init_events"]:]):
            if l.startswith("1"):
                r.distinct.add((idx, i))
    nbytes = c["av_dw"] // 8
    out = core.run_driver("portmon", ["1 %d" % nbytes] + mon + ["999999"])
    viol = next((x for x in out if x.startswith("VIOL")), None)
    what = None
    if viol:
        what = "Avalon side, event %d: %s" % (int(viol.split()[1]) - st["init_events"], " ".join(viol.split()[2:]))
    elif st["lost"]:
        what = st["lost"][0]
    elif st["stuck"]:
        what = "no progress: " + st["stuck"]
    else:
        dump = out[-1].split(" mem ")
        if any(int(x) for x in dump[0].split()[1:]):
            what = "%s read beats never returned" % dump[0].split()[1:]
        words = [int(x) for x in dump[1].split()] if len(dump) > 1 else []
        spec_mem = {words[i]: words[i + 1] for i in range(0, len(words), 2)}
        for a in sorted(spec_mem):
            if st["view"].get(a) != spec_mem[a] and what is None:
                what = "Avalon word %d: native memory holds 0x%x, the accepted writes give 0x%x" % (a, st["view"].get(a, 0), spec_mem[a])
    r.evaluations += 1
    if what:
        r.violations.append(dict(signature="c11-" + ("gap" if st["gaps"] else "avalon"),
                                 what="Avalon %d-bit on %d-bit native port (%s), max burst %d, %s idle gaps in write bursts: %s"
                                 % (c["av_dw"], c["port_dw"], c["shape"], c["max_burst"], "with" if st["gaps"] else "no", what), replay=tag))
    if idx < 2:
        r.samples.append(dict(config=c, first_ops=[dict(o, data=o["data"][:2], be=o["be"][:2]) for o in ops[:3]], first_cycles=obs[:3]))
    return r


def run(tier, seed):
    n = 112 if tier == "quick" else 700
    res = Result()
    for r in core.pmap(job, [(seed, i, tier) for i in range(n)]):
        res.merge(r)
    return res


def replay(data, tier, seed):
    return run(tier, seed)
