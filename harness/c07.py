"""C07: LiteDRAMNativePortDownConverter / UpConverter (frontend/adapter.py) vs Model/Adapter.lean cycle by cycle, with the
port-memory specification (Spec/PortMemory.lean) evaluated on the user side of the real converter and the controller-side
memory compared with the specification's memory through the byte-addressed view.

Controller side = a stub that behaves like the real crossbar port: commands accepted at random, then (in command order) a
one-cycle wdata.ready pulse per write / rdata.valid pulse per read, at least two cycles after acceptance, NOT waiting for
the converter's valid/ready - a beat that is not there when the pulse comes is lost, as in the real controller."""
import random
from vlib import core
from vlib.core import Result

RULE = ("up ratios {2,4,8,16,32} and down ratios {2,4,8} x modes both/write/read x reverse x narrow widths {8,16,32}; command "
        "streams: ascending, descending, repeated, random, mixed read/write, with cmd.last / flush hints, random gaps, write data "
        "offered with or before the command; controller side with random acceptance, pulse latencies 2..12 and long stalls with "
        "several commands outstanding; a case = one simulated cycle with all boundary signals of both ports compared; "
        "non-trivial = some handshake in the cycle; distinct by (run, cycle)")
TRUSTED = ["the identity (equal width) path is a plain connect and not modelled",
           "controller-side stub written from core/crossbar.py (in-order pulses, no back-pressure on data), not the real crossbar"]
ASSUMPTIONS = ["master: holds each command until accepted, offers a write's data no later than its command and holds it, always accepts read data",
               "controller side: rdata.last / wdata.last are 0; pulses come in command order, at least two cycles after acceptance"]


def mism(r, where, **kw):
    if len(r.mismatches) < 4:
        r.mismatches.append(dict(where=where, **kw))


def split(word, n, width):
    return [(word >> (i * width)) & ((1 << width) - 1) for i in range(n)]


def join(chunks, width):
    return sum(c << (i * width) for i, c in enumerate(chunks))


def rand_cfg(rnd, idx):
    kind = "up" if idx % 3 != 2 else "down"
    ratio = rnd.choice([2, 2, 4, 4, 8, 16, 32]) if kind == "up" else rnd.choice([2, 4, 8])
    mode = rnd.choice(["both", "both", "both", "write", "read"])
    narrow = rnd.choice([8, 8, 16, 32])
    log = ratio.bit_length() - 1
    aw_to = rnd.randint(2, 4) if kind == "up" else log + rnd.randint(1, 3)
    return dict(kind=kind, ratio=ratio, log=log, mode=mode, reverse=int(rnd.random() < 0.15), narrow=narrow,
                aw_to=aw_to, aw_from=aw_to + log if kind == "up" else aw_to - log)


def cfg_line(c):
    return "%d %d %d %d %d %d" % (c["ratio"], c["reverse"], int(c["mode"] != "read"), int(c["mode"] != "write"), c["aw_to"], c["log"])


def gen_ops(c, rnd, style, n):
    """list of dict(we, addr, data, mask, last); `clean` = no non-ascending pair that the up-converter could merge"""
    dw = c["narrow"] * (c["ratio"] if c["kind"] == "down" else 1)
    nb = dw // 8
    amax = 1 << c["aw_from"]
    ops = []
    a = rnd.randrange(amax)
    we = 0 if c["mode"] == "read" else (1 if c["mode"] == "write" else rnd.randint(0, 1))
    for k in range(n):
        if c["mode"] == "both" and rnd.random() < (0.5 if style == "mixed" else 0.12):
            we ^= 1
        if style == "ascending":
            a = (a + 1) % amax if rnd.random() < 0.9 else rnd.randrange(amax)
        elif style == "descending":
            a = (a - 1) % amax if rnd.random() < 0.9 else rnd.randrange(amax)
        elif style == "repeated":
            a = a if rnd.random() < 0.5 else (a + rnd.choice([1, 1, -1])) % amax
        else:
            a = rnd.randrange(amax) if rnd.random() < 0.5 else (a + rnd.choice([1, 1, 2, -1])) % amax
        mask = (1 << nb) - 1 if rnd.random() < 0.6 else rnd.getrandbits(nb)
        ops.append(dict(we=we, addr=a, data=rnd.getrandbits(dw), mask=mask if we else 0, last=int(rnd.random() < 0.12)))
    ops[-1]["last"] = 1
    if style in ("ascending", "clean-random") and c["kind"] == "up":
        # separate every pair the up-converter could merge out of order with cmd.last on the earlier command
        r = c["ratio"]
        for p, q in zip(ops, ops[1:]):
            if p["we"] == q["we"] and p["addr"] // r == q["addr"] // r and q["addr"] % r <= p["addr"] % r:
                p["last"] = 1
    return ops


def mergeable_disorder(c, ops, upto):
    """is there, among the first `upto` accepted commands, a consecutive same-type pair inside one wide word whose chunk index
    does not ascend and which is not separated by cmd.last?  (the up-converter's documented limitation)"""
    r = c["ratio"]
    for p, q in zip(ops[:upto], ops[1:upto]):
        if p["we"] == q["we"] and p["addr"] // r == q["addr"] // r and q["addr"] % r <= p["addr"] % r and not p["last"]:
            return True
    return False


def simulate(c, ops, rnd, budget=None):
    from migen import run_simulation
    from litedram.common import LiteDRAMNativePort
    from litedram.frontend.adapter import LiteDRAMNativePortConverter
    from migen import Module
    up = c["kind"] == "up"
    ratio, nw = c["ratio"], c["narrow"]
    dw_from = nw if up else nw * ratio
    dw_to = nw * ratio if up else nw
    nbn = nw // 8
    pf = LiteDRAMNativePort(c["mode"], c["aw_from"], dw_from)
    pt = LiteDRAMNativePort(c["mode"], c["aw_to"], dw_to)
    dut = LiteDRAMNativePortConverter(pf, pt, reverse=bool(c["reverse"]))
    hasW, hasR = c["mode"] != "read", c["mode"] != "write"
    lead = ("0 0 0 0 0 0 0 0 1 0 0 0" + " 0" * ratio) if up else ("0 0 0 0 1 0 0 0 0" + " 0 0" * ratio)
    lines = [cfg_line(c), lead]
    obs, mon = [], []
    st = dict(accepted=0, stub_mem={}, lost=[], stuck=None, reads_returned=0, events=0, max_outstanding=0, first_viol_ops=None)
    budget = budget or ((40 + (30 * ratio if not up else 0)) * len(ops) + 800)
    # initial memory contents: random on the controller side, told to the specification as initial writes through the view
    init_rnd = random.Random(rnd.random())
    for a in range(1 << c["aw_to"]):
        st["stub_mem"][a] = init_rnd.getrandbits(dw_to)
    for a in range(1 << c["aw_from"]):
        if up:
            j = a % ratio
            v = split(st["stub_mem"][a // ratio], ratio, nw)[(ratio - 1 - j) if c["reverse"] else j]
        else:
            v = join([st["stub_mem"][a * ratio + ((ratio - 1 - j) if c["reverse"] else j)] for j in range(ratio)], nw)
        mon.append("1 1 %d %d %d 0 0" % (a, v, (1 << (dw_from // 8)) - 1))
    st["init_events"] = len(mon)

    def gen():
        k = 0                       # next op to offer
        gap = rnd.randint(0, 3)
        cmd_on = False
        cmd_delay = 0
        wq = []                     # write data not yet taken: [data, mask]
        pushed = False              # data of op k already put on the wdata channel
        queue = []                  # controller side: [event_time, we, addr]
        last_event = 0
        p_cmd, lat_lo, lat_hi = 0.8, 1, 4
        prev = None
        pending_w = None            # write event whose data is sampled now
        pending_r = False
        flush_tail = 0
        quiet = 0
        reads_expected = 0
        idle_bus = (0, 0, 0)
        for t in range(budget):
            if prev is not None:
                o_cmdReady = (yield pf.cmd.ready); o_tcv = (yield pt.cmd.valid); o_tcw = (yield pt.cmd.we); o_tca = (yield pt.cmd.addr)
                o_wReady = (yield pf.wdata.ready) if hasW else 0
                o_twv = (yield pt.wdata.valid) if hasW else 0
                o_twd = (yield pt.wdata.data) if hasW else 0
                o_twe = (yield pt.wdata.we) if hasW else 0
                o_rv = (yield pf.rdata.valid) if hasR else 0
                o_rd = (yield pf.rdata.data) if hasR else 0
                o_trr = (yield pt.rdata.ready) if hasR else 0
                if up:
                    ch = []
                    for j, (d, w) in enumerate(zip(split(o_twd, ratio, nw), split(o_twe, ratio, nbn))):
                        ch += [d if o_twv else 0, w if o_twv else 0]
                    obs.append(" ".join(str(x) for x in [o_cmdReady, o_tcv, o_tcw if o_tcv else 0, o_tca if o_tcv else 0, o_wReady, o_twv, o_rv, o_rd if o_rv else 0, o_trr] + ch))
                else:
                    rr = split(o_rd, ratio, nw) if o_rv else [0] * ratio
                    obs.append(" ".join(str(x) for x in [o_cmdReady, o_tcv, o_tcw if o_tcv else 0, o_tca if o_tcv else 0, o_wReady, o_twv, o_twd if o_twv else 0, o_twe if o_twv else 0, o_rv, o_trr] + rr))
                # user side handshakes
                acc = int(prev["cv"] and o_cmdReady)
                op = ops[k] if k < len(ops) else None
                if acc:
                    mon.append("1 %d %d %d %d %d %d" % (op["we"], op["addr"], op["data"], op["mask"], o_rv, o_rd if o_rv else 0))
                    if not op["we"]:
                        reads_expected += 1
                    k += 1; st["accepted"] = k
                    cmd_on = False; pushed = False
                    gap = rnd.choice([0, 0, 0, 1, 2, rnd.randint(0, 12)])
                else:
                    mon.append("0 0 0 0 0 %d %d" % (o_rv, o_rd if o_rv else 0))
                if o_rv:
                    st["reads_returned"] += 1
                if prev["wv"] and o_wReady:
                    wq.pop(0)
                # controller side
                if o_tcv and prev["tcr"]:
                    e = max(t + 1, last_event + 1) + rnd.randint(lat_lo - 1, lat_hi)
                    if rnd.random() < 0.06:
                        e += rnd.randint(10, 40)          # refresh / activate stall: several commands pile up
                    last_event = e
                    queue.append([e, o_tcw, o_tca])
                    st["max_outstanding"] = max(st["max_outstanding"], len(queue))
                if pending_w is not None:
                    if not o_twv:
                        st["lost"].append("write data for controller word %d not valid when wdata.ready pulsed (cycle %d)" % (pending_w, t))
                    else:
                        old = st["stub_mem"].get(pending_w, 0)
                        new = 0
                        for b in range(dw_to // 8):
                            src = o_twd if (o_twe >> b) & 1 else old
                            new |= ((src >> (8 * b)) & 0xff) << (8 * b)
                        st["stub_mem"][pending_w] = new
                    pending_w = None
                if pending_r:
                    if not o_trr:
                        st["lost"].append("converter not ready when rdata.valid pulsed (cycle %d)" % t)
                    pending_r = False
            # ---- choose this cycle's inputs
            if t % 50 == 0:
                p_cmd = rnd.choice([0.2, 0.7, 1.0]); lat_lo, lat_hi = rnd.choice([(1, 1), (1, 4), (2, 10)])
            flush = int(rnd.random() < 0.03)
            if k >= len(ops):
                flush_tail += 1
                flush = int(flush_tail % 7 < 3)
                busy = prev is not None and (o_tcv or o_twv or queue or pending_w is not None or pending_r)
                quiet = 0 if busy else quiet + 1
                if st["reads_returned"] >= reads_expected and not wq and flush_tail > 60 and quiet > 40:
                    break
            cv = cw = ca = cl = 0
            if k < len(ops):
                op = ops[k]
                if not cmd_on:
                    if gap > 0:
                        gap -= 1
                    elif op["we"]:
                        if not pushed and not wq:
                            wq.append([op["data"], op["mask"]]); pushed = True
                            cmd_delay = rnd.choice([0, 0, 0, 1, 3])
                        if pushed:
                            if cmd_delay > 0:
                                cmd_delay -= 1
                            else:
                                cmd_on = True
                    else:
                        cmd_on = True
                if cmd_on:
                    cv, cw, ca, cl = 1, op["we"], op["addr"], op["last"]
            if not cv:
                if rnd.random() < 0.3:
                    idle_bus = (rnd.randint(0, 1) if c["mode"] == "both" else int(c["mode"] == "write"), rnd.randrange(1 << c["aw_from"]), rnd.randint(0, 1))
                cw, ca, cl = idle_bus if rnd.random() < 0.7 else (0, 0, 0)
            wv, wd, wm = (1, wq[0][0], wq[0][1]) if (wq and hasW) else (0, 0, 0)
            tcr = int(rnd.random() < p_cmd)
            twr = trv = 0; trd = 0
            if queue and queue[0][0] <= t:
                _, qwe, qa = queue.pop(0)
                st["events"] += 1
                if qwe:
                    twr = 1; pending_w = qa
                else:
                    trv = 1; trd = st["stub_mem"].get(qa, 0); pending_r = True
            prev = dict(cv=cv, wv=wv, tcr=tcr)
            yield pf.cmd.valid.eq(cv); yield pf.cmd.we.eq(cw); yield pf.cmd.addr.eq(ca); yield pf.cmd.last.eq(cl); yield pf.flush.eq(flush)
            if hasW:
                yield pf.wdata.valid.eq(wv); yield pf.wdata.data.eq(wd); yield pf.wdata.we.eq(wm); yield pt.wdata.ready.eq(twr)
            if hasR:
                yield pf.rdata.ready.eq(1); yield pt.rdata.valid.eq(trv); yield pt.rdata.data.eq(trd)
            yield pt.cmd.ready.eq(tcr)
            if up:
                lines.append(" ".join(str(x) for x in [cv, cw, ca, cl, flush, wv, wd, wm, 1 if hasR else 0, tcr, twr, trv] + split(trd, ratio, nw)))
            else:
                chunks = []
                for d, w in zip(split(wd, ratio, nw), split(wm, ratio, nbn)):
                    chunks += [d, w]
                lines.append(" ".join(str(x) for x in [cv, cw, ca, wv, 1 if hasR else 0, tcr, twr, trv, trd] + chunks))
            yield
        else:
            st["stuck"] = "after %d cycles: %d of %d commands accepted, %d of %d reads returned, %d controller events outstanding, %d write words not taken" % (
                budget, k, len(ops), st["reads_returned"], reads_expected, len(queue), len(wq))
        st["reads_expected"] = reads_expected
    run_simulation(dut, gen())
    return lines, obs, mon, st


def job(args):
    seed, idx, tier = args
    rnd = random.Random("c07-%d-%d" % (seed, idx))
    c = rand_cfg(rnd, idx)
    style = ["ascending", "clean-random", "descending", "repeated", "random", "mixed"][(idx // 3) % 6]
    if c["kind"] == "down" and style == "clean-random":
        style = "random"
    n = rnd.randint(20, 70) if tier == "quick" else rnd.randint(40, 200)
    ops = gen_ops(c, rnd, style, n)
    r = Result()
    tag = dict(config=c, style=style, seed=seed, idx=idx, ops=ops[:60])
    lines, obs, mon, st = simulate(c, ops, rnd)
    r.coverage["runs"] = 1
    r.coverage["by_kind"] = {"%s_1:%d_%s%s" % (c["kind"], c["ratio"], c["mode"], "_rev" if c["reverse"] else ""): 1}
    r.coverage["styles"] = {style: 1}
    r.coverage["commands_accepted"] = st["accepted"]
    r.coverage["runs_with_3_or_more_commands_outstanding_at_controller"] = int(st["max_outstanding"] >= 3)
    mo = core.run_driver("adup" if c["kind"] == "up" else "addown", lines)[2:]
    idle = None
    for i in range(min(len(mo), len(obs))):
        r.evaluations += 1
        f = obs[i].split()
        if f[1] != "0" or f[5] != "0" or (f[6] != "0" if c["kind"] == "up" else f[8] != "0") or (lines[i + 2].split()[0] == "1" and f[0] == "1"):
            r.distinct.add((idx, i))
        if mo[i] != obs[i]:
            mism(r, "LiteDRAMNativePort%sConverter vs Model/Adapter.lean" % ("Up" if c["kind"] == "up" else "Down"), config=c, style=style, cycle=i,
                 impl=obs[i], model=mo[i], inputs=lines[max(2, i - 3):i + 3])
            break
    # ---- specification: user side memory semantics
    nbytes = (c["narrow"] * (c["ratio"] if c["kind"] == "down" else 1)) // 8
    out = core.run_driver("portmon", ["1 %d" % nbytes] + mon + ["999999"])
    viol = next((x for x in out if x.startswith("VIOL")), None)
    problems = []
    if viol:
        cyc = int(viol.split()[1])
        upto = sum(1 for m in mon[st["init_events"]:cyc + 1] if m.startswith("1 "))
        cyc -= st["init_events"]
        problems.append((upto, "user port, cycle %d: %s" % (cyc, " ".join(viol.split()[2:]))))
    for l in st["lost"][:1]:
        problems.append((st["accepted"], l))
    if st["stuck"]:
        problems.append((st["accepted"], "no progress: " + st["stuck"]))
    if not viol and not st["stuck"]:
        # ---- the controller-side memory is the same memory, through the byte-addressed view
        dump = out[-1].split(" mem ")
        pend = dump[0].split()[1:]
        if any(int(x) for x in pend):
            problems.append((st["accepted"], "%s reads never returned" % pend))
        words = [int(x) for x in dump[1].split()] if len(dump) > 1 else []
        spec_mem = {words[i]: words[i + 1] for i in range(0, len(words), 2)}
        ratio, nw = c["ratio"], c["narrow"]
        view = {}
        if c["kind"] == "up":
            for a, v in spec_mem.items():
                view.setdefault(a // ratio, [0] * ratio)
                j = a % ratio
                view[a // ratio][(ratio - 1 - j) if c["reverse"] else j] = v
            view = {a: join(ch, nw) for a, ch in view.items()}
        else:
            for a, v in spec_mem.items():
                ch = split(v, ratio, nw)
                for j in range(ratio):
                    view[a * ratio + j] = ch[(ratio - 1 - j) if c["reverse"] else j]
        for a in sorted(set(view) | set(st["stub_mem"])):
            if view.get(a, 0) != st["stub_mem"].get(a, 0):
                problems.append((st["accepted"], "controller-side word %d holds 0x%x, the bytes written through the user port give 0x%x" % (a, st["stub_mem"].get(a, 0), view.get(a, 0))))
                break
    r.evaluations += 1
    for upto, what in problems[:1]:
        known = c["kind"] == "up" and mergeable_disorder(c, ops, upto + 1)
        sig = "c07-up-non-ascending" if known else "c07-" + c["kind"]
        r.violations.append(dict(signature=sig, what="%s-converter 1:%d %s, %s stream: %s" % (c["kind"], c["ratio"], c["mode"], style, what), replay=tag))
    if idx < 3:
        r.samples.append(dict(config=c, style=style, first_ops=ops[:3], first_cycles=obs[:3]))
    return r


def replay_lines(c, in_lines):
    """drive the real up-converter with literal input lines (the Lean witnesses); returns the observed output lines"""
    from migen import run_simulation
    from litedram.common import LiteDRAMNativePort
    from litedram.frontend.adapter import LiteDRAMNativePortConverter
    ratio, nw = c["ratio"], c["narrow"]
    pf = LiteDRAMNativePort(c["mode"], c["aw_from"], nw)
    pt = LiteDRAMNativePort(c["mode"], c["aw_to"], nw * ratio)
    dut = LiteDRAMNativePortConverter(pf, pt)
    obs = []

    def gen():
        first = True
        for l in in_lines + [in_lines[-1]]:
            if not first:
                twv = (yield pt.wdata.valid); tcv = (yield pt.cmd.valid); rv = (yield pf.rdata.valid)
                ch = []
                for d, w in zip(split((yield pt.wdata.data), ratio, nw), split((yield pt.wdata.we), ratio, nw // 8)):
                    ch += [d if twv else 0, w if twv else 0]
                obs.append(" ".join(str(x) for x in [(yield pf.cmd.ready), tcv, (yield pt.cmd.we) if tcv else 0, (yield pt.cmd.addr) if tcv else 0,
                                                     (yield pf.wdata.ready), twv, rv, (yield pf.rdata.data) if rv else 0, (yield pt.rdata.ready)] + ch))
            first = False
            v = [int(x) for x in l.split()]
            yield pf.cmd.valid.eq(v[0]); yield pf.cmd.we.eq(v[1]); yield pf.cmd.addr.eq(v[2]); yield pf.cmd.last.eq(v[3]); yield pf.flush.eq(v[4])
            yield pf.wdata.valid.eq(v[5]); yield pf.wdata.data.eq(v[6]); yield pf.wdata.we.eq(v[7]); yield pf.rdata.ready.eq(v[8])
            yield pt.cmd.ready.eq(v[9]); yield pt.wdata.ready.eq(v[10]); yield pt.rdata.valid.eq(v[11]); yield pt.rdata.data.eq(join(v[12:], nw))
            yield
    run_simulation(dut, gen())
    return obs


def directed_job(_):
    """the Lean witnesses of the known finding (Spec/AdapterWitness.lean, theorems up_descending_misplaced /
    up_repeated_misaligned), printed by the driver and replayed on the real up-converter on every run"""
    r = Result()
    c = dict(kind="up", ratio=2, log=1, mode="both", reverse=0, narrow=8, aw_to=3, aw_from=4)
    wl = core.run_driver("adwitness", ["0", "1"])
    for name, raw, bad in (("descending", wl[0], "170 1 187 1"), ("repeated", wl[1], "34 1 0 0")):
        ins = raw.split(";")
        lines = [cfg_line(c), "0 0 0 0 0 0 0 0 1 0 0 0 0 0"] + ins
        obs = replay_lines(c, ins)
        mo = core.run_driver("adup", lines)[2:]
        r.coverage["witness_" + name + "_replayed"] = 1
        for i in range(min(len(mo), len(obs))):
            r.evaluations += 1
            if mo[i] != obs[i]:
                mism(r, "Lean witness %s: LiteDRAMNativePortUpConverter vs Model/Adapter.lean" % name, cycle=i, impl=obs[i], model=mo[i])
                break
        if any(o.split()[5] == "1" and " ".join(o.split()[9:]) == bad for o in obs):
            r.violations.append(dict(signature="c07-up-non-ascending",
                                     what="up-converter 1:2, %s addresses inside one wide word: the real converter hands the controller the word [%s] (chunk data/enable pairs), as the Lean witness predicts" % (name, bad),
                                     replay=dict(config=c, inputs=ins, outputs=obs)))
    return r


def _dispatch(j):
    return j[0](j[1])


def run(tier, seed):
    n = 144 if tier == "quick" else 600
    jobs = [(job, (seed, i, tier)) for i in range(n)] + [(directed_job, None)]
    res = Result()
    for r in core.pmap(_dispatch, jobs):
        res.merge(r)
    return res


def replay(data, tier, seed):
    return run(tier, seed)
