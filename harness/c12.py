"""C12: LiteDRAMDMAReader / LiteDRAMDMAWriter (native and AXI-shaped ports) vs Model/Dma.lean, with the specification
monitors of Spec/DmaSpec evaluated on the implementation's boundary behaviour.  The memory side behaves like the real
crossbar: read data is presented as a one-cycle pulse that does not wait for `rdata.ready`."""
import random
from vlib import core
from vlib.core import Result

RULE = ("FIFO depths {1,2,3,4,16} x buffered/unbuffered x native/AXI port; address/data streams with random validity, consumer stalls "
        "(incl. long stalls with many reads in flight), memory latencies 1..12, enable toggling; a case = one cycle with all boundary "
        "signals compared; non-trivial = a handshake happens; distinct by (config, cycle)")
TRUSTED = ["the optional CSR front-end (add_csr) is not modelled", "AXI flavour: same logic with renamed channels; id/resp/user fields ignored"]
ASSUMPTIONS = ["the memory returns read data in command order, one word per read command, never more than requested"]


def mism(r, where, **kw):
    if len(r.mismatches) < 4:
        r.mismatches.append(dict(where=where, **kw))


def job_reader(args):
    depth, buffered, axi, idx, tier, seed = args
    from migen import run_simulation
    from litedram.common import LiteDRAMNativePort
    from litedram.frontend.axi import LiteDRAMAXIPort
    from litedram.frontend.dma import LiteDRAMDMAReader
    rnd = random.Random("c12r-%d-%d-%d-%d-%d" % (seed, depth, buffered, axi, idx))
    r = Result()
    port = LiteDRAMAXIPort(data_width=32, address_width=16, id_width=4) if axi else LiteDRAMNativePort("both", 16, 32)
    dut = LiteDRAMDMAReader(port, fifo_depth=depth, fifo_buffered=bool(buffered))
    cmd, rdata = (port.ar, port.r) if axi else (port.cmd, port.rdata)
    ncyc = 500 if tier == "quick" else 3000
    toggles = (depth == 3)      # the enable/flush path is exercised (correspondence only: flushing discards words by design)
    lines = ["%d %d" % (depth, buffered), "1 0 0 0 0 0 0 0"]
    obs, mon = [], []
    memf = lambda a: (a * 2654435761 + 12345) & 0xffffffff

    def gen():
        inflight = []        # (due_cycle, data)
        p_sink, p_src, p_cmd = 0.7, 0.7, 0.8
        enable = 1
        sv, sa, sl = 0, 0, 0
        prev = None
        for t in range(ncyc):
            if prev is not None:
                o = ((yield dut.sink.ready), (yield cmd.valid), (yield cmd.addr), (yield cmd.last), (yield rdata.ready),
                     (yield dut.source.valid), (yield dut.source.data), (yield dut.source.last))
                o = (o[0], o[1], o[2] if o[1] else 0, o[3] if o[1] else 0, o[4], o[5], o[6] if o[5] else 0, o[7] if o[5] else 0)
                obs.append("%d %d %d %d %d %d %d %d" % o)
                en_, sv_, sa_, sl_, cr_, rv_, rd_, sr_ = prev
                acc = o[1] and cr_
                if acc:
                    inflight.append([t + rnd.randint(1, 12), memf(o[2])])
                mon.append("0 %d %d %d %d %d %d %d %d" % (acc, memf(o[2]) if acc else 0, o[3] if acc else 0, rv_, o[4], int(o[5] and sr_), o[6], o[7]))
                if sv_ and o[0]:
                    sv = 0
            if t % 60 == 0:
                p_sink = rnd.choice([0.1, 0.7, 1.0]); p_src = rnd.choice([0.0, 0.05, 0.5, 1.0]); p_cmd = rnd.choice([0.3, 1.0])
            if toggles and rnd.random() < 0.004:
                enable ^= 1
            if enable == 0 and rnd.random() < 0.2:
                enable = 1
            if not sv and rnd.random() < p_sink:
                sv, sa, sl = 1, rnd.getrandbits(16), int(rnd.random() < 0.1)
            cr = int(rnd.random() < p_cmd)
            # memory side: in-order pulse, not waiting for ready
            rv, rd = 0, 0
            if inflight and inflight[0][0] <= t and rnd.random() < 0.8:
                rv, rd = 1, inflight.pop(0)[1]
            sr = int(rnd.random() < p_src)
            yield dut.enable.eq(enable)
            yield dut.sink.valid.eq(sv); yield dut.sink.address.eq(sa); yield dut.sink.last.eq(sl)
            yield cmd.ready.eq(cr); yield rdata.valid.eq(rv); yield rdata.data.eq(rd); yield dut.source.ready.eq(sr)
            prev = (enable, sv, sa, sl, cr, rv, rd, sr)
            lines.append("%d %d %d %d %d %d %d %d" % prev)
            yield
    run_simulation(dut, gen())
    mo = core.run_driver("dmar", lines)[2:]
    for i in range(min(len(mo), len(obs))):
        r.evaluations += 1
        if obs[i] != "0 0 0 0 1 0 0 0":
            r.distinct.add((depth, buffered, axi, idx, i))
        if mo[i] != obs[i]:
            mism(r, "LiteDRAMDMAReader vs Model/Dma.lean", config=dict(depth=depth, buffered=buffered, axi=axi), cycle=i, impl=obs[i], model=mo[i], inputs=lines[max(2, i - 4):i + 3])
            break
    out = core.run_driver("dmamon", mon + ["999999"])
    v = next((x for x in out if x.startswith("VIOL")), None)
    if v and not toggles:
        # flushing with enable=0 legitimately discards words: only enable=1 runs are judged by the exact-stream monitor
        r.violations.append(dict(signature="c12-reader", what="DMA reader depth=%d buffered=%d %s: %s" % (depth, buffered, "AXI" if axi else "native", v),
                                 replay=dict(depth=depth, buffered=buffered, axi=axi, seed=seed, idx=idx, inputs=lines[:40])))
    r.coverage["reader_runs"] = 1
    if idx == 0 and depth == 2:
        r.samples.append(dict(part="reader", depth=depth, buffered=buffered, inputs=lines[2:6], outputs=obs[:4]))
    return r


def job_flush(args):
    """Directed scenario for the reader's enable / flush path: stream A is read while the consumer stalls, the reader is disabled
    until everything in flight has returned and the FIFOs have drained, then it is re-enabled and stream B is read.  Stream B
    must come out exactly: one word per accepted address, in order, `last` on the matching word (nothing of stream A may
    linger - neither data nor reservations)."""
    depth, buffered, idx, tier, seed = args
    from migen import run_simulation
    from litedram.common import LiteDRAMNativePort
    from litedram.frontend.dma import LiteDRAMDMAReader
    rnd = random.Random("c12f-%d-%d-%d-%d" % (seed, depth, buffered, idx))
    r = Result()
    port = LiteDRAMNativePort("both", 16, 32)
    dut = LiteDRAMDMAReader(port, fifo_depth=depth, fifo_buffered=bool(buffered))
    cmd, rdata = port.cmd, port.rdata
    memf = lambda a: (a * 2654435761 + 12345) & 0xffffffff
    nA = rnd.randint(1, depth)          # with the consumer stalled the reader accepts at most `depth` addresses
    B = [(rnd.getrandbits(16), int(k == n - 1)) for n in [rnd.randint(2, 2 * depth + 3)] for k in range(n)]
    lines = ["%d %d" % (depth, buffered), "1 0 0 0 0 0 0 0"]
    obs = []
    got = []

    def gen():
        inflight = []
        phase = "A"; sentA = 0; sentB = 0; quiet = 0; sv = 0; sa = 0; sl = 0; prev = None; enable = 1
        for t in range(400 + 40 * depth):
            if prev is not None:
                o = ((yield dut.sink.ready), (yield cmd.valid), (yield cmd.addr), (yield cmd.last), (yield rdata.ready),
                     (yield dut.source.valid), (yield dut.source.data), (yield dut.source.last))
                o = (o[0], o[1], o[2] if o[1] else 0, o[3] if o[1] else 0, o[4], o[5], o[6] if o[5] else 0, o[7] if o[5] else 0)
                obs.append("%d %d %d %d %d %d %d %d" % o)
                en_, sv_, sa_, sl_, cr_, rv_, rd_, sr_ = prev
                if o[1] and cr_:
                    inflight.append([t + rnd.randint(1, 6), memf(o[2])])
                if sv_ and o[0]:
                    sv = 0
                    if phase == "A": sentA += 1
                    elif phase == "B": sentB += 1
                if o[5] and sr_ and en_ and phase == "B":
                    got.append((o[6], o[7]))
            if phase == "A" and sentA >= nA and not sv:
                phase = "flush"; quiet = 0
            if phase == "flush":
                quiet = quiet + 1 if not inflight else 0
                if quiet > depth + 6:
                    phase = "B"
            if phase == "B" and len(got) >= len(B):
                break
            enable = 0 if phase == "flush" else 1
            if not sv:
                if phase == "A" and sentA < nA:
                    sv, sa, sl = 1, rnd.getrandbits(16), int(rnd.random() < 0.5)
                elif phase == "B" and sentB < len(B):
                    sv, sa, sl = 1, B[sentB][0], B[sentB][1]
            cr = int(rnd.random() < 0.9)
            rv, rd = 0, 0
            if inflight and inflight[0][0] <= t:
                rv, rd = 1, inflight.pop(0)[1]
            sr = 0 if phase in ("A", "flush") else int(rnd.random() < 0.8)
            yield dut.enable.eq(enable)
            yield dut.sink.valid.eq(sv); yield dut.sink.address.eq(sa); yield dut.sink.last.eq(sl)
            yield cmd.ready.eq(cr); yield rdata.valid.eq(rv); yield rdata.data.eq(rd); yield dut.source.ready.eq(sr)
            prev = (enable, sv, sa, sl, cr, rv, rd, sr)
            lines.append("%d %d %d %d %d %d %d %d" % prev)
            yield
    run_simulation(dut, gen())
    mo = core.run_driver("dmar", lines)[2:]
    for i in range(min(len(mo), len(obs))):
        r.evaluations += 1
        if mo[i] != obs[i]:
            mism(r, "LiteDRAMDMAReader (flush scenario) vs Model/Dma.lean", config=dict(depth=depth, buffered=buffered), cycle=i, impl=obs[i], model=mo[i], inputs=lines[max(2, i - 4):i + 3])
            break
    want = [(memf(a), l) for a, l in B]
    r.distinct.add(("flush", depth, buffered, idx))
    r.coverage["flush_scenarios"] = 1
    if got != want:
        k = next((k for k in range(min(len(got), len(want))) if got[k] != want[k]), min(len(got), len(want)))
        r.violations.append(dict(signature="c12-reader-flush",
            what="DMA reader depth=%d buffered=%d: after a disable/flush with %d reads of the previous stream buffered, the next stream of %d addresses comes out "
                 "wrong at word %d: got %s, expected %s (%d words delivered)" % (depth, buffered, nA, len(B), k, got[k] if k < len(got) else None,
                                                                                   want[k] if k < len(want) else None, len(got)),
            replay=dict(depth=depth, buffered=buffered, seed=seed, idx=idx, inputs=lines[:80])))
    return r


def job_writer(args):
    depth, buffered, axi, idx, tier, seed = args
    from migen import run_simulation
    from litedram.common import LiteDRAMNativePort
    from litedram.frontend.axi import LiteDRAMAXIPort
    from litedram.frontend.dma import LiteDRAMDMAWriter
    rnd = random.Random("c12w-%d-%d-%d-%d-%d" % (seed, depth, buffered, axi, idx))
    r = Result()
    port = LiteDRAMAXIPort(data_width=32, address_width=16, id_width=4) if axi else LiteDRAMNativePort("both", 16, 32)
    dut = LiteDRAMDMAWriter(port, fifo_depth=depth, fifo_buffered=bool(buffered))
    cmd, wdata = (port.aw, port.w) if axi else (port.cmd, port.wdata)
    ncyc = 400 if tier == "quick" else 3000
    lines = ["%d %d" % (depth, buffered), "0 0 0 0 0 0"]
    obs, mon = [], []

    def gen():
        sv, sa, sd, sl = 0, 0, 0, 0
        p_sink, p_cmd, p_w = 0.7, 0.8, 0.6
        prev = None
        owed = 0
        for t in range(ncyc):
            if prev is not None:
                o = ((yield dut.sink.ready), (yield cmd.valid), (yield cmd.addr), (yield wdata.valid), (yield wdata.data))
                o = (o[0], o[1], o[2] if o[1] else 0, o[3], o[4] if o[3] else 0)
                obs.append("%d %d %d %d %d" % o)
                sv_, sa_, sd_, sl_, cr_, wr_ = prev
                sacc = int(sv_ and o[0]); cacc = int(o[1] and cr_); wacc = int(o[3] and wr_)
                mon.append("1 %d %d %d %d %d %d %d" % (sacc, sa_, sd_, cacc, o[2], wacc, o[4]))
                if sacc:
                    sv = 0
            if t % 50 == 0:
                p_sink = rnd.choice([0.2, 0.8, 1.0]); p_cmd = rnd.choice([0.2, 0.7, 1.0]); p_w = rnd.choice([0.05, 0.5, 1.0])
            if not sv and rnd.random() < p_sink:
                sv, sa, sd, sl = 1, rnd.getrandbits(16), rnd.getrandbits(32), int(rnd.random() < 0.1)
            cr = int(rnd.random() < p_cmd); wr = int(rnd.random() < p_w)
            yield dut.sink.valid.eq(sv); yield dut.sink.address.eq(sa); yield dut.sink.data.eq(sd); yield dut.sink.last.eq(sl)
            yield cmd.ready.eq(cr); yield wdata.ready.eq(wr)
            prev = (sv, sa, sd, sl, cr, wr)
            lines.append("%d %d %d %d %d %d" % prev)
            yield
    run_simulation(dut, gen())
    mo = core.run_driver("dmaw", lines)[2:]
    for i in range(min(len(mo), len(obs))):
        r.evaluations += 1
        if obs[i] != "1 0 0 0 0":
            r.distinct.add(("w", depth, buffered, axi, idx, i))
        if mo[i] != obs[i]:
            mism(r, "LiteDRAMDMAWriter vs Model/Dma.lean", config=dict(depth=depth, buffered=buffered, axi=axi), cycle=i, impl=obs[i], model=mo[i], inputs=lines[max(2, i - 4):i + 3])
            break
    out = core.run_driver("dmamon", mon + ["999999"])
    v = next((x for x in out if x.startswith("VIOL")), None)
    if v:
        r.violations.append(dict(signature="c12-writer", what="DMA writer depth=%d buffered=%d %s: %s" % (depth, buffered, "AXI" if axi else "native", v),
                                 replay=dict(depth=depth, buffered=buffered, axi=axi, seed=seed, idx=idx, inputs=lines[:40])))
    r.coverage["writer_runs"] = 1
    return r


def _dispatch(j):
    return j[0](j[1])


def run(tier, seed):
    jobs = []
    for depth in (1, 2, 3, 4, 16):
        for buffered in (0, 1):
            for axi in (0, 1):
                for idx in range(1 if tier == "quick" else 6):
                    jobs.append((job_reader, (depth, buffered, axi, idx, tier, seed)))
                    jobs.append((job_writer, (depth, buffered, axi, idx, tier, seed)))
    res = Result()
    for depth in (1, 2, 4, 8):
        for buffered in (0, 1):
            for idx in range(2 if tier == "quick" else 10):
                jobs.append((job_flush, (depth, buffered, idx, tier, seed)))
    for r in core.pmap(_dispatch, jobs):
        res.merge(r)
    return res


def replay(data, tier, seed):
    return run(tier, seed)
