"""C13: LiteDRAMFIFO (frontend/fifo.py: pre/post FIFOs and converters, DRAM FIFO on the DMA engines, bypass FSM) vs
Model/DramFifo.lean cycle by cycle, with the FIFO specification (Spec/FifoSpec.lean) evaluated on the implementation's
sink/source streams and DRAM port traffic.  DRAM side = a stub behaving like two crossbar ports on one controller:
commands of both ports take effect in the order accepted, data strobes are unconditional pulses in that order."""
import random
from vlib import core
from vlib.core import Result

RULE = ("stream widths 8..64 on ports 1x..8x wider, with and without bypass, DRAM depths {2,3,4,5,8,16} words (pointer wrap-around "
        "many times per run), pre/post FIFO depths {4,16}; producer/consumer rate patterns: saturating, slow consumer, slow producer, "
        "alternating bursts, random, trickle; port acceptance and latencies random with long stalls; a case = one simulated cycle with "
        "all boundary signals compared; non-trivial = a stream or port handshake in the cycle; distinct by (run, cycle)")
TRUSTED = ["DRAM-side stub written from core/crossbar.py (commands of both ports ordered by acceptance, unconditional data pulses), not the real controller"]
ASSUMPTIONS = ["sink.first/last are 0", "the two DRAM ports belong to one controller: a read accepted after a write to the same address returns the written word"]


def mism(r, where, **kw):
    if len(r.mismatches) < 4:
        r.mismatches.append(dict(where=where, **kw))


PATTERNS = {
    "saturating": (lambda t: 1.0, lambda t: 1.0),
    "slow-consumer": (lambda t: 1.0, lambda t: 0.15),
    "slow-producer": (lambda t: 0.2, lambda t: 1.0),
    "bursts": (lambda t: 1.0 if (t // 150) % 2 == 0 else 0.05, lambda t: 0.05 if (t // 200) % 2 == 0 else 1.0),
    "random": (lambda t: 0.5, lambda t: 0.5),
    "trickle": (lambda t: 0.1 if (t // 90) % 3 else 1.0, lambda t: 0.3),
    "blocked-consumer": (lambda t: 1.0, lambda t: 0.0 if (t // 250) % 2 == 0 else 0.9),
}


def rand_cfg(rnd, idx):
    ratio = [1, 1, 2, 4, 8, 2][idx % 6]
    with_bypass = 1 if ratio > 1 else idx % 4 != 1
    dw = rnd.choice([8, 16]) if ratio > 2 else rnd.choice([8, 16, 32])
    depth = rnd.choice([2, 3, 4, 5, 8, 16])
    pre = rnd.choice([4, 16]); post = rnd.choice([4, 16])
    base_words = rnd.randrange(0, 64)
    return dict(dw=dw, ratio=ratio, with_bypass=int(with_bypass), depth=depth, base_words=base_words,
                pre=max(pre, 2 * ratio), post=max(post, 2 * ratio), pre_arg=pre, post_arg=post, aw=8,
                mod_bits=max(ratio.bit_length() - 1, 1), pattern=list(PATTERNS)[(idx // 6) % len(PATTERNS)])


def cfg_line(c):
    return "%d %d %d %d %d %d %d %d %d" % (c["dw"], c["ratio"], c["with_bypass"], c["base_words"], c["depth"], c["pre"], c["post"], c["aw"], c["mod_bits"])


def simulate(c, n, rnd):
    from migen import run_simulation
    from litedram.common import LiteDRAMNativePort
    from litedram.frontend.fifo import LiteDRAMFIFO
    pdw = c["dw"] * c["ratio"]
    wp = LiteDRAMNativePort("write", c["aw"], pdw); rp = LiteDRAMNativePort("read", c["aw"], pdw)
    dut = LiteDRAMFIFO(c["dw"], base=c["base_words"] * pdw // 8, depth=c["depth"] * pdw // 8, write_port=wp, read_port=rp,
                       with_bypass=bool(c["with_bypass"]), pre_fifo_depth=c["pre_arg"], post_fifo_depth=c["post_arg"])
    p_in, p_out = PATTERNS[c["pattern"]]
    sent = [rnd.getrandbits(c["dw"]) for _ in range(n)]
    lines = [cfg_line(c), "0 0 0 0 0 0 0 0"]
    obs, mon = [], []
    st = dict(got=0, lost=[], modes=set(), switches=0, wraps=0)
    budget = 80 * n + 3000

    def gen():
        mem = {}
        queue = []; last_event = 0
        k = 0; sv = 0; prev = None; pw = None; pr = False
        p_cmd, lat = 0.8, 3
        last_fsm = 0
        idle = 0
        for t in range(budget):
            if prev is not None:
                o = dict(sr=(yield dut.sink.ready), sv=(yield dut.source.valid), sd=(yield dut.source.data),
                         wcv=(yield wp.cmd.valid), wca=(yield wp.cmd.addr), wdv=(yield wp.wdata.valid), wdd=(yield wp.wdata.data),
                         rcv=(yield rp.cmd.valid), rca=(yield rp.cmd.addr), rdr=(yield rp.rdata.ready),
                         level=(yield dut.dram_fifo.ctrl.level))
                fs = 0
                if c["with_bypass"]:
                    fs = (yield dut.fsm.state)
                    fs = {dut.fsm.encoding[n_]: i for i, n_ in enumerate(["BYPASS", "DRAM", "PUMP_PRECONVERTER", "DRAIN_POSTCONVERTER"])}[fs]
                st["modes"].add(fs)
                if fs != last_fsm:
                    st["switches"] += 1; last_fsm = fs
                obs.append("%d %d %d %d %d %d %d %d %d %d %d %d" % (o["sr"], o["sv"], o["sd"] if o["sv"] else 0, o["wcv"], o["wca"] if o["wcv"] else 0,
                                                                    o["wdv"], o["wdd"] if o["wdv"] else 0, o["rcv"], o["rca"] if o["rcv"] else 0, o["rdr"], o["level"], fs))
                ia = int(prev["sv"] and o["sr"]); oa = int(o["sv"] and prev["sr"])
                wa = int(o["wcv"] and prev["wcr"]); ra = int(o["rcv"] and prev["rcr"])
                mon.append("%d %d %d %d %d %d %d %d" % (ia, prev["sd"] if ia else 0, oa, o["sd"] if oa else 0, wa, o["wca"] if wa else 0, ra, o["rca"] if ra else 0))
                if ia:
                    k += 1; sv = 0
                if oa:
                    st["got"] += 1
                if wa and o["wca"] == c["base_words"]:
                    st["wraps"] += 1
                for acc, we, a in ((wa, 1, o["wca"]), (ra, 0, o["rca"])):
                    if acc:
                        e = max(t + 1, last_event + 1) + rnd.randint(0, lat)
                        if rnd.random() < 0.05:
                            e += rnd.randint(10, 40)
                        last_event = e
                        queue.append([e, we, a])
                if pw is not None:
                    if not o["wdv"]:
                        st["lost"].append("write data for DRAM word %d not valid when wdata.ready pulsed (cycle %d)" % (pw, t))
                    else:
                        mem[pw] = o["wdd"]
                    pw = None
                if pr:
                    if not o["rdr"]:
                        st["lost"].append("read data pulsed while the FIFO's reader was not ready (cycle %d)" % t)
                    pr = False
                idle = 0 if (ia or oa or wa or ra) else idle + 1
            if st["got"] >= n and not queue:
                if idle > 30:
                    break
            if t % 70 == 0:
                p_cmd = rnd.choice([0.2, 0.7, 1.0]); lat = rnd.choice([0, 3, 9])
            if not sv and k < n and rnd.random() < p_in(t):
                sv = 1
            sr = int(rnd.random() < p_out(t)) if k < n or t % 2 else 1
            twr = trv = trd = 0
            if queue and queue[0][0] <= t:
                _, we, a = queue.pop(0)
                if we:
                    twr = 1; pw = a
                else:
                    trv = 1; trd = mem.get(a, 0); pr = True
            prev = dict(sv=sv, sd=sent[k] if (k < n and sv) else 0, sr=sr, wcr=int(rnd.random() < p_cmd), rcr=int(rnd.random() < p_cmd))
            yield dut.sink.valid.eq(sv); yield dut.sink.data.eq(prev["sd"]); yield dut.source.ready.eq(sr)
            yield wp.cmd.ready.eq(prev["wcr"]); yield rp.cmd.ready.eq(prev["rcr"])
            yield wp.wdata.ready.eq(twr); yield rp.rdata.valid.eq(trv); yield rp.rdata.data.eq(trd)
            lines.append("%d %d %d %d %d %d %d %d" % (sv, prev["sd"], sr, prev["wcr"], twr, prev["rcr"], trv, trd))
            yield
    run_simulation(dut, gen())
    return lines, obs, mon, st, sent


def job(args):
    seed, idx, tier = args
    rnd = random.Random("c13-%d-%d" % (seed, idx))
    c = rand_cfg(rnd, idx)
    n = (rnd.randint(120, 300) if tier == "quick" else rnd.randint(300, 1200))
    r = Result()
    lines, obs, mon, st, sent = simulate(c, n, rnd)
    tag = dict(config=c, seed=seed, idx=idx, words=n)
    r.coverage["runs"] = 1
    r.coverage["by_shape"] = {"ratio%d_%s" % (c["ratio"], "bypass" if c["with_bypass"] else "dram-only"): 1}
    r.coverage["patterns"] = {c["pattern"]: 1}
    r.coverage["mode_switches"] = st["switches"]
    r.coverage["pointer_wraps"] = st["wraps"]
    r.coverage["words_delivered"] = st["got"]
    mo = core.run_driver("dramfifo", lines)[2:]
    for i in range(min(len(mo), len(obs))):
        r.evaluations += 1
        if mon[i] != "0 0 0 0 0 0 0 0":
            r.distinct.add((idx, i))
        if mo[i] != obs[i]:
            mism(r, "LiteDRAMFIFO vs Model/DramFifo.lean", config=c, cycle=i, impl=obs[i], model=mo[i], inputs=lines[max(2, i - 3):i + 3])
            break
    out = core.run_driver("fifomon", ["%d" % c["depth"]] + mon + ["999999"])
    viol = next((x for x in out if x.startswith("VIOL")), None)
    what = None
    vcyc = len(obs)
    if viol:
        vcyc = int(viol.split()[1])
        what = "cycle %s: %s" % (viol.split()[1], " ".join(viol.split()[2:]))
    elif st["lost"]:
        what = st["lost"][0]
    elif st["got"] < n:
        what = "only %d of %d words delivered after %d cycles (%s)" % (st["got"], n, len(obs), out[-1])
    r.evaluations += 1
    if what:
        # known finding: the partial-word flush (PUMP_PRECONVERTER state) was used before things went wrong
        pumped = any(o.split()[11] == "2" for o in obs[:vcyc + 1])
        sig = "c13-bypass-partial-word" if (c["with_bypass"] and c["ratio"] > 1 and pumped) else "c13-fifo"
        r.violations.append(dict(signature=sig, what="LiteDRAMFIFO %d-bit stream on %d-bit ports, depth %d words, %s, %s rates: %s"
                                 % (c["dw"], c["dw"] * c["ratio"], c["depth"], "bypass" if c["with_bypass"] else "no bypass", c["pattern"], what), replay=tag))
    r.coverage["max_words_held_in_dram"] = {"depth%d" % c["depth"]: int(out[-1].split()[5]) if out[-1].startswith("left") else 0}
    if idx < 2:
        r.samples.append(dict(config=c, words=n, first_cycles=obs[:3], summary=out[-1]))
    return r


def witness_job(_):
    """the Lean witness (Spec/FifoWitness.lean, theorem C13.bypass_partial_word_invents_a_word) replayed on the real FIFO"""
    from migen import run_simulation
    from litedram.common import LiteDRAMNativePort
    from litedram.frontend.fifo import LiteDRAMFIFO
    r = Result()
    ins = core.run_driver("fifowitness", ["0"])[0].split(";")
    c = dict(dw=8, ratio=2, with_bypass=1, depth=4, base_words=0, pre=4, post=4, aw=8, mod_bits=1)
    wp = LiteDRAMNativePort("write", 8, 16); rp = LiteDRAMNativePort("read", 8, 16)
    dut = LiteDRAMFIFO(8, base=0, depth=8, write_port=wp, read_port=rp, with_bypass=True, pre_fifo_depth=4, post_fifo_depth=4)
    obs, acc, dlv = [], [], []
    names = ["BYPASS", "DRAM", "PUMP_PRECONVERTER", "DRAIN_POSTCONVERTER"]

    def gen():
        prev = None
        for l in ins + [ins[-1]]:
            if prev is not None:
                sv = (yield dut.source.valid); wcv = (yield wp.cmd.valid); wdv = (yield wp.wdata.valid); rcv = (yield rp.cmd.valid)
                fs = {dut.fsm.encoding[n_]: i for i, n_ in enumerate(names)}[(yield dut.fsm.state)]
                obs.append("%d %d %d %d %d %d %d %d %d %d %d %d" % ((yield dut.sink.ready), sv, (yield dut.source.data) if sv else 0, wcv, (yield wp.cmd.addr) if wcv else 0,
                                                                    wdv, (yield wp.wdata.data) if wdv else 0, rcv, (yield rp.cmd.addr) if rcv else 0, (yield rp.rdata.ready),
                                                                    (yield dut.dram_fifo.ctrl.level), fs))
                if prev[0] and (yield dut.sink.ready):
                    acc.append(prev[1])
                if sv and prev[2]:
                    dlv.append((yield dut.source.data))
            v = [int(x) for x in l.split()]
            prev = v
            yield dut.sink.valid.eq(v[0]); yield dut.sink.data.eq(v[1]); yield dut.source.ready.eq(v[2])
            yield wp.cmd.ready.eq(v[3]); yield wp.wdata.ready.eq(v[4]); yield rp.cmd.ready.eq(v[5]); yield rp.rdata.valid.eq(v[6]); yield rp.rdata.data.eq(v[7])
            yield
    run_simulation(dut, gen())
    mo = core.run_driver("dramfifo", [cfg_line(c), "0 0 0 0 0 0 0 0"] + ins)[2:]
    r.coverage["witness_replayed"] = 1
    for i in range(min(len(mo), len(obs))):
        r.evaluations += 1
        if mo[i] != obs[i]:
            mism(r, "Lean witness: LiteDRAMFIFO vs Model/DramFifo.lean", cycle=i, impl=obs[i], model=mo[i])
            break
    if dlv != acc:
        sig = "c13-bypass-partial-word" if (acc == [1, 2, 3, 4, 5, 6, 7] and dlv == [1, 2, 3, 4, 5, 6, 7, 0]) else "c13-fifo"
        r.violations.append(dict(signature=sig, what="LiteDRAMFIFO 8-bit stream on 16-bit ports with bypass: words accepted %s, words delivered %s (Lean witness replayed on the real FIFO)" % (acc, dlv),
                                 replay=dict(inputs=ins, outputs=obs)))
    return r


def _dispatch(j):
    return j[0](j[1])


def run(tier, seed):
    n = 84 if tier == "quick" else 360
    res = Result()
    for r in core.pmap(_dispatch, [(job, (seed, i, tier)) for i in range(n)] + [(witness_job, None)]):
        res.merge(r)
    return res


def replay(data, tier, seed):
    return run(tier, seed)
