"""C04: see harness/coretrace.py (shared controller co-simulation + Lean DRAM specification monitor)."""
from harness import coretrace

RULE = ("random controller configurations (memtype SDR..DDR4, 1:1/1:2/1:4, 2..16 bank machines, 1..2 ranks, rd/wr phases, all timing "
        "settings incl. None, buffer depths, auto-precharge, refresh postponing 1..8, ZQCS) x structured per-bank traffic (phases of "
        "saturation/idle/single-bank/row-conflict/direction mixes); a case = one controller cycle of one configuration, all bank "
        "handshakes and DFI phases compared with the model and fed to the specification monitor; distinct by (seed, configuration index)")
TRUSTED = ["bank interfaces are driven directly (the crossbar is exercised by C01/C05/C06)",
           "not modelled: cmd_buffer_buffered=True, rdphase/wrphase Signals whose value changes at run time (Signals holding a constant are covered), tCCD=None"]
ASSUMPTIONS = ["geometry has >= 11 address lines (A10 exists), as every module of the library does"]


def run(tier, seed):
    return coretrace.run("C04", tier, seed)


def replay(data, tier, seed):
    return coretrace.run("C04", tier, seed)


def search(tier, seed):
    """Directed search used when a proof or the correspondence is broken: long runs (many refresh intervals), so that a refresh
    period that is longer than tREFI - however slightly - accumulates beyond the fixed service latency the property allows."""
    from vlib import core
    from vlib.core import Result
    res = Result()
    jobs = [(seed, 1000 + i, 9000 if tier == "quick" else 30000, "C04") for i in range(8)]
    for r in core.pmap(coretrace.trace_job, jobs):
        res.merge(r)
    return res
