"""C06 correspondence: the real crossbar routing + the real _AddressSlicer evaluated in a
combinational Migen simulation, against the Lean model `AddrMap.translate`; the property
(injective, onto, A10 free, consecutive walk) is also checked directly on the implementation's map."""
import random, itertools
from vlib import core
from vlib.core import Result

RULE = ("geometries drawn from bankbits 1..4 x rowbits x colbits 8..12 x align 0..4 x ranks 1..2 x "
        "bank_byte_alignment {0, 2^k}; per geometry all addresses when the port has <= 13 bits, else boundary "
        "addresses (walking ones, field boundaries +-1) plus random ones; a case = (geometry, address); "
        "non-trivial = address != 0; distinct by (geometry, address)")
TRUSTED = ["C06 harness replicates two one-line slices of _Steerer (cmd.ba[:-rankbits], cmd.ba[-rankbits:]); "
           "the whole path incl. the real steerer is re-observed on DFI by the C01/C02 whole-core runs"]
ASSUMPTIONS = ["geometries satisfy C06.WF (align <= colbits, colbits>10 -> rowbits>colbits, bank field inside the address)"]


def geoms(tier, rnd):
    gs = []
    # small, exhaustively enumerable spaces first
    for bankbits, rowbits, colbits, align, rankbits, bba in [
            (1, 2, 8, 4, 0, 0), (2, 3, 8, 3, 1, 0), (1, 1, 8, 4, 1, 0), (2, 2, 9, 4, 0, 0),
            (2, 3, 8, 4, 0, 5), (1, 4, 8, 4, 1, 7), (3, 2, 8, 2, 0, 0), (2, 12, 11, 4, 0, 0),
            (2, 13, 12, 4, 1, 0), (1, 12, 11, 3, 0, 9)]:
        gs.append((bankbits, rowbits, colbits, align, rankbits, bba))
    n = 24 if tier == "quick" else 80
    while len(gs) < n:
        colbits = rnd.randint(8, 12)
        align = rnd.randint(0, 4)
        rowbits = rnd.randint(colbits + 1, 17) if colbits > 10 else rnd.randint(1, 17)
        bankbits = rnd.randint(1, 4)
        rankbits = rnd.randint(0, 1)
        split = colbits - align
        bba = rnd.choice([0, 0, rnd.randint(1, rowbits + split)])
        gs.append((bankbits, rowbits, colbits, align, rankbits, bba))
    return gs


def addresses(g, tier, rnd):
    bankbits, rowbits, colbits, align, rankbits, bba = g
    split = colbits - align
    pb = rowbits + split + bankbits + rankbits
    if pb <= 13:
        return list(range(1 << pb)), True
    cba = max(split, bba)
    s = {0, (1 << pb) - 1}
    for b in range(pb):
        for d in (-1, 0, 1):
            s.add(((1 << b) + d) % (1 << pb))
    for edge in (cba, cba + bankbits + rankbits, split, 10 - align if colbits > 10 else split):
        for k in range(4):
            base = rnd.getrandbits(pb) >> edge << edge
            for d in (-2, -1, 0, 1):
                s.add((base + d) % (1 << pb))
    n = 300 if tier == "quick" else 1000
    while len(s) < n:
        s.add(rnd.getrandbits(pb))
    # consecutive pairs so that the walk clause is exercised
    for a in list(s)[:100]:
        s.add((a + 1) % (1 << pb))
    return sorted(s), False


def impl_map(g, addrs):
    """Evaluate the real crossbar + slicer on every address. Returns list of (rank, bank, row, col)."""
    from migen import Module, Signal, run_simulation, log2_int
    from litedram.common import LiteDRAMInterface, GeomSettings
    from litedram.core.crossbar import LiteDRAMCrossbar
    from litedram.core.bankmachine import _AddressSlicer
    bankbits, rowbits, colbits, align, rankbits, bba = g

    class S: pass
    st = S(); st.geom = GeomSettings(bankbits, rowbits, colbits)
    st.phy = S(); st.phy.nranks = 1 << rankbits; st.phy.dfi_databits = 16; st.phy.nphases = 2
    st.phy.read_latency = 2; st.phy.write_latency = 1
    st.cmd_buffer_depth = 8; st.address_mapping = "ROW_BANK_COL"
    st.bank_byte_alignment = (4 << bba) if bba else 0

    class Dut(Module):
        def __init__(self):
            self.interface = LiteDRAMInterface(align, st)
            self.submodules.xbar = LiteDRAMCrossbar(self.interface)
            self.port = self.xbar.get_port()
            slicer = _AddressSlicer(colbits, align)
            self.rows, self.cols = [], []
            for n in range(self.interface.nbanks):
                bank = getattr(self.interface, "bank%d" % n)
                row = Signal(rowbits)                     # BankMachine: row = Signal(settings.geom.rowbits)
                a = Signal(st.geom.addressbits)           # BankMachine: cmd.a is geom.addressbits wide
                self.comb += [row.eq(slicer.row(bank.addr)), a.eq(slicer.col(bank.addr))]
                self.rows.append(row); self.cols.append(a)
    dut = Dut()
    out = []
    nb = dut.interface.nbanks

    def gen():
        yield dut.port.cmd.valid.eq(1)
        for a in addrs:
            yield dut.port.cmd.addr.eq(a)
            yield
            hits = []
            for n in range(nb):
                if (yield getattr(dut.interface, "bank%d" % n).valid):
                    hits.append(n)
            if len(hits) != 1:
                out.append(("route", tuple(hits), 0, 0)); continue
            n = hits[0]
            row = (yield dut.rows[n]); col = (yield dut.cols[n])
            out.append((n >> bankbits, n & ((1 << bankbits) - 1), row, col))
    run_simulation(dut, gen())
    return out, len(dut.port.cmd.addr)


def job(args):
    g, tier, seed = args
    rnd = random.Random("c06-%d-%s" % (seed, g))
    r = Result()
    addrs, exhaustive = addresses(g, tier, rnd)
    bankbits, rowbits, colbits, align, rankbits, bba = g
    split = colbits - align
    pb = rowbits + split + bankbits + rankbits
    impl, width = impl_map(g, addrs)
    if width != pb:
        r.mismatches.append(dict(where="port address width", geometry=g, impl=width, model=pb))
    lines = ["%d %d %d %d %d %d %d" % (g + (a,)) for a in addrs]
    model = core.run_driver("c06", lines)
    seen = {}
    cba = max(split, bba)
    for a, im, mo in zip(addrs, impl, model):
        r.evaluations += 1
        if a:
            r.distinct.add((g, a))
        ims = "%s %s %s %s" % im
        if ims != mo and len(r.mismatches) < 5:
            r.mismatches.append(dict(where="translate", geometry=g, input=a, impl=ims, model=mo))
        # --- property monitors on the implementation's own map ---
        def viol(sig, what):
            if len(r.violations) < 5:
                r.violations.append(dict(signature=sig, what=what, replay=dict(geometry=g, address=a, impl=ims)))
        if im[0] == "route":
            viol("c06-route", "address %#x of geometry %s is routed to banks %s (exactly one expected)" % (a, g, im[1])); continue
        if im in seen and seen[im] != a:
            viol("c06-collision", "geometry %s: addresses %#x and %#x reach the same (rank,bank,row,col)=%s" % (g, seen[im], a, im))
        seen[im] = a
        rank, bank, row, col = im
        if (col >> 10) & 1:
            viol("c06-a10", "geometry %s: address %#x emits column address %#x with A10 set" % (g, a, col))
        if col & ((1 << align) - 1):
            viol("c06-align", "geometry %s: address %#x emits unaligned column %#x" % (g, a, col))
        if rank >= (1 << rankbits) or bank >= (1 << bankbits) or row >= (1 << rowbits) or col >= (1 << (colbits + (1 if colbits > 10 else 0))):
            viol("c06-range", "geometry %s: address %#x maps outside the device: %s" % (g, a, im))
    # consecutive walk on the implementation
    byaddr = dict(zip(addrs, impl))
    def colidx(col):
        return ((col & 0x3ff) | ((col >> 11) << 10)) >> align if colbits > 10 else col >> align
    for a in addrs:
        if a + 1 in byaddr and byaddr[a][0] != "route" and byaddr[a + 1][0] != "route":
            r.coverage["walk_pairs"] = r.coverage.get("walk_pairs", 0) + 1
            rk, bk, row, col = byaddr[a]; rk2, bk2, row2, col2 = byaddr[a + 1]
            rca = colidx(col) | (row << split); rca2 = colidx(col2) | (row2 << split)
            ba = bk | (rk << bankbits); ba2 = bk2 | (rk2 << bankbits)
            lo = rca & ((1 << cba) - 1)
            if lo + 1 < (1 << cba):
                ok = (rca2 == rca + 1 and ba2 == ba)
            elif ba + 1 < (1 << (bankbits + rankbits)):
                ok = (ba2 == ba + 1 and rca2 == (rca >> cba << cba))
            else:
                ok = (ba2 == 0 and rca2 == ((rca >> cba) + 1) << cba)
            if not ok and len(r.violations) < 5:
                r.violations.append(dict(signature="c06-walk", what="geometry %s: successor of %#x does not walk columns->banks->rows: %s -> %s" % (g, a, byaddr[a], byaddr[a + 1]),
                                         replay=dict(geometry=g, address=a)))
    if exhaustive:
        r.coverage["exhaustive_geometries"] = 1
        if len(seen) != (1 << pb) and not r.violations:
            r.violations.append(dict(signature="c06-onto", what="geometry %s: %d addresses reach only %d locations" % (g, 1 << pb, len(seen)), replay=dict(geometry=g)))
    r.coverage["geometries"] = 1
    r.coverage["colbits_gt10"] = 1 if colbits > 10 else 0
    r.samples.append(dict(geometry=dict(zip("bankbits rowbits colbits align rankbits bba".split(), g)), address=addrs[len(addrs) // 2], impl=list(impl[len(addrs) // 2])))
    return r


MEMTYPES = ["SDR", "DDR", "LPDDR", "DDR2", "DDR3", "DDR4", "LPDDR4", "LPDDR5"]
# DRAM burst length in columns, from the standards (SDR: the PHYs program BL = number of phases, see init.py / C17)
JEDEC_BURST = {"DDR": 4, "LPDDR": 4, "DDR2": 4, "DDR3": 8, "DDR4": 8, "LPDDR4": 16, "LPDDR5": 16}


def align_check():
    """`address_align` as the real LiteDRAMController derives it, for every memory type x phase count: against the model
    (Model/AddrMap.alignOf) and against the burst length of the DRAM (one port word must be exactly one burst)."""
    from litedram.common import PhySettings, GeomSettings, TimingSettings
    from litedram.core.controller import LiteDRAMController, ControllerSettings
    r = Result()
    cases = [(m, n) for m in MEMTYPES for n in (1, 2, 4, 8)]
    mo = core.run_driver("c06", ["%d %d" % (MEMTYPES.index(m), n) for m, n in cases])
    for (m, n), line in zip(cases, mo):
        ps = PhySettings(phytype="verif", memtype=m, databits=16, dfi_databits=16, nphases=n, rdphase=0, wrphase=0, cl=2, cwl=2,
                         read_latency=4, write_latency=1, nranks=1)
        gs = GeomSettings(2, 11, 8)
        ts = TimingSettings(tRP=2, tRCD=2, tWR=2, tWTR=2, tREFI=200, tRFC=8, tFAW=None, tCCD=1, tRRD=None, tRC=None, tRAS=None, tZQCS=None)
        try:
            ctl = LiteDRAMController(ps, gs, ts, clk_freq=100e6, controller_settings=ControllerSettings())
            impl = ctl.interface.address_align
        except Exception as e:
            impl = "error %r" % (e,)
        r.evaluations += 1
        r.distinct.add(("align", m, n))
        if str(impl) != line.strip():
            r.mismatches.append(dict(where="LiteDRAMController address_align vs Model/AddrMap.alignOf", memtype=m, nphases=n, impl=impl, model=line))
        burst = n if m == "SDR" else JEDEC_BURST[m]
        if isinstance(impl, int) and (1 << impl) != burst:
            r.violations.append(dict(signature="c06-align-burst",
                what="%s with %d phases: the controller uses address_align=%d, i.e. consecutive port addresses are %d columns apart, but one DRAM burst is "
                     "%d columns: %s" % (m, n, impl, 1 << impl, burst, "consecutive port addresses reach overlapping bursts (not injective)"
                                         if (1 << impl) < burst else "columns between consecutive bursts are unreachable (not onto)"),
                replay=dict(memtype=m, nphases=n, address_align=impl, burst=burst)))
    r.coverage["align_cases"] = len(cases)
    return r


def run(tier, seed):
    rnd = random.Random("c06-geoms-%d" % seed)
    jobs = [(g, tier, seed) for g in geoms(tier, rnd)]
    res = Result()
    res.merge(align_check())
    for r in core.pmap(job, jobs):
        res.merge(r)
    return res


def replay(data, tier, seed):
    if "geometry" not in data["violation"]["replay"]:
        return align_check()
    g = tuple(data["violation"]["replay"]["geometry"])
    return job((g, tier, seed))
