"""Shared machinery for the controller-core properties (C01..C05): random configurations, construction of the
real LiteDRAMController / crossbar / PHY model, structured traffic, co-simulation against the Lean controller model."""
import random, math
from vlib import core


class S:
    pass


def rand_cfg(rnd, small=True):
    """A controller configuration drawn from the ranges the properties quantify over (tiny geometry: the
    behaviour does not depend on the array size, the simulator's speed does)."""
    memtype = rnd.choice(["SDR", "DDR", "LPDDR", "DDR2", "DDR3", "DDR4"])
    nphases = {"SDR": [1], "DDR": [1, 2], "LPDDR": [1, 2], "DDR2": [2, 4], "DDR3": [2, 4], "DDR4": [2, 4]}[memtype]
    nphases = rnd.choice(nphases)
    burst = nphases if memtype == "SDR" else {"DDR": 4, "LPDDR": 4, "DDR2": 4, "DDR3": 8, "DDR4": 8}[memtype]
    align = int(math.log2(burst))
    bankbits = rnd.choice([1, 2, 3]) if small else rnd.choice([2, 3])
    rankbits = rnd.choice([0, 0, 1])
    colbits = rnd.choice([max(align + 1, 5), 6, 10, 11]) if not small else rnd.choice([max(align + 1, 5), 6])
    rowbits = rnd.choice([11, 12]) if colbits <= 10 else colbits + 1   # >= 11 address lines: A10 must exist (PREA / auto-precharge flag)
    cl = rnd.choice([2, 3, 5, 6])
    cwl = rnd.choice([2, 3, 5])
    rdphase = rnd.randrange(nphases); wrphase = rnd.randrange(nphases)
    read_latency = rnd.choice([2, 3, 5, 6]); write_latency = rnd.choice([0, 1, 2])
    t = dict(tRP=rnd.choice([1, 2, 3, 4]), tRCD=rnd.choice([1, 2, 3, 4]), tWR=rnd.choice([1, 2, 3]), tWTR=rnd.choice([1, 2, 3]),
             tREFI=rnd.choice([100, 117, 160, 250]), tRFC=rnd.choice([2, 6, 12, 20]), tFAW=rnd.choice([None, 4, 6, 9, 12]),
             tCCD=rnd.choice([1, 2, 4]), tRRD=rnd.choice([None, 1, 2, 4]), tRC=None, tRAS=rnd.choice([None, 2, 5, 9]),
             tZQCS=rnd.choice([None, None, 4, 16]))
    t["tRC"] = None if t["tRAS"] is None else t["tRAS"] + t["tRP"] + rnd.choice([0, 0, 1])
    cs = dict(cmd_buffer_depth=rnd.choice([2, 3, 4, 8]), read_time=rnd.choice([0, 4, 8, 32]), write_time=rnd.choice([0, 4, 16]),
              with_refresh=rnd.random() < 0.85, refresh_postponing=rnd.choice([1, 1, 2, 4, 8]),
              with_auto_precharge=rnd.random() < 0.6, zq_period=rnd.choice([300, 450, 700]))
    return dict(memtype=memtype, nphases=nphases, align=align, bankbits=bankbits, rankbits=rankbits, colbits=colbits, rowbits=rowbits,
                cl=cl, cwl=cwl, rdphase=rdphase, wrphase=wrphase, read_latency=read_latency, write_latency=write_latency,
                timing=t, ctrl=cs, dfi_databits=16)


def build_controller(cfg):
    from litedram.common import PhySettings, GeomSettings, TimingSettings
    from litedram.core.controller import LiteDRAMController, ControllerSettings
    ps = PhySettings(phytype="verif", memtype=cfg["memtype"], databits=cfg["dfi_databits"], dfi_databits=cfg["dfi_databits"],
                     nphases=cfg["nphases"], rdphase=cfg["rdphase"], wrphase=cfg["wrphase"], cl=cfg["cl"], cwl=cfg["cwl"],
                     read_latency=cfg["read_latency"], write_latency=cfg["write_latency"], nranks=1 << cfg["rankbits"])
    gs = GeomSettings(cfg["bankbits"], cfg["rowbits"], cfg["colbits"])
    ts = TimingSettings(**cfg["timing"])
    c = cfg["ctrl"]
    cs = ControllerSettings(cmd_buffer_depth=c["cmd_buffer_depth"], read_time=c["read_time"], write_time=c["write_time"],
                            with_refresh=c["with_refresh"], refresh_zqcs_freq=1.0, refresh_postponing=c["refresh_postponing"],
                            with_auto_precharge=c["with_auto_precharge"])
    return LiteDRAMController(ps, gs, ts, clk_freq=c["zq_period"], controller_settings=cs), ps, gs, ts


def model_cfg_line(cfg):
    t, c = cfg["timing"], cfg["ctrl"]
    wl = -(-cfg["cwl"] // cfg["nphases"])
    nbm = (1 << cfg["rankbits"]) << cfg["bankbits"]
    abits = max(cfg["rowbits"], cfg["colbits"])
    def opt(v):
        return [0, 0] if v is None else [1, v]
    xs = [nbm, cfg["bankbits"], cfg["rankbits"], cfg["nphases"], cfg["rdphase"], cfg["wrphase"],
          c["cmd_buffer_depth"]] + opt(t["tRAS"]) + opt(t["tRC"]) + [wl + t["tWR"] + t["tCCD"], t["tRCD"], t["tRP"],
          cfg["colbits"], cfg["rowbits"], cfg["align"], abits, int(c["with_auto_precharge"]),
          t["tREFI"], t["tRFC"]] + opt(t["tZQCS"]) + [c["zq_period"], c["refresh_postponing"], int(c["with_refresh"])] + \
         opt(t["tRRD"]) + opt(t["tFAW"]) + [t["tCCD"], t["tWTR"] + wl + t["tCCD"], c["read_time"], c["write_time"], cfg["read_latency"]]
    return " ".join(map(str, xs))


class Traffic:
    """Per-bank request generator with phases (saturation / idle / single bank / row conflicts / direction bursts)."""
    def __init__(self, rnd, cfg):
        self.rnd = rnd; self.cfg = cfg
        self.nbm = (1 << cfg["rankbits"]) << cfg["bankbits"]
        self.split = cfg["colbits"] - cfg["align"]
        self.aw = cfg["rowbits"] + cfg["colbits"] + cfg["rankbits"] - cfg["align"]
        self.cur = [None] * self.nbm     # request currently held on each bank (held until accepted)
        self.mode()

    def mode(self):
        r = self.rnd
        self.p_new = r.choice([0.05, 0.3, 0.8, 1.0])
        self.p_we = r.choice([0.0, 0.5, 0.5, 1.0, 0.2])
        self.nrows = r.choice([1, 2, 3, 8])
        self.banks = r.sample(range(self.nbm), r.choice([1, 2, self.nbm]))
        self.len = r.randrange(30, 120)

    def new_req(self):
        r = self.rnd
        row = r.randrange(self.nrows)
        col = r.randrange(1 << self.split)
        return (int(r.random() < self.p_we), (row << self.split) | col)

    def next(self, ready):
        """ready[i]: whether bank i accepted the request held last cycle. Returns list of (valid, we, addr)."""
        self.len -= 1
        if self.len <= 0:
            self.mode()
        out = []
        for i in range(self.nbm):
            if self.cur[i] is not None and ready[i]:
                self.cur[i] = None
            if self.cur[i] is None and i in self.banks and self.rnd.random() < self.p_new:
                self.cur[i] = self.new_req()
            out.append((1,) + self.cur[i] if self.cur[i] is not None else (0, 0, 0))
        return out


def cosim_controller(cfg, seed, ncycles):
    """Co-simulate the real LiteDRAMController (bank interfaces driven directly) against the Lean model.
    Returns dict(mismatch=None|dict, lines, obs, dfi_trace)."""
    from migen import run_simulation
    rnd = random.Random(seed)
    dut, ps, gs, ts = build_controller(cfg)
    nbm = (1 << cfg["rankbits"]) << cfg["bankbits"]
    banks = [getattr(dut.interface, "bank%d" % i) for i in range(nbm)]
    traffic = Traffic(rnd, cfg)
    lines = [model_cfg_line(cfg), " ".join(["0 0 0"] * nbm)]
    obs = []
    accepted = []

    def gen():
        ready = [0] * nbm
        held = [(0, 0, 0)] * nbm
        for t in range(ncycles):
            if t > 0:
                o = []
                ready = []
                for b in banks:
                    rd = (yield b.ready)
                    ready.append(rd)
                    o += [rd, (yield b.lock), (yield b.wdata_ready), (yield b.rdata_valid)]
                for ph in dut.dfi.phases:
                    o += [(yield ph.cs_n), (yield ph.bank), (yield ph.address), (yield ph.cas_n), (yield ph.ras_n), (yield ph.we_n),
                          (yield ph.rddata_en), (yield ph.wrdata_en)]
                obs.append(" ".join(map(str, o)))
                accepted.append([h[0] and r for h, r in zip(held, ready)])
            reqs = traffic.next([h[0] and r for h, r in zip(held, ready)])
            held = reqs
            for b, (v, we, a) in zip(banks, reqs):
                yield b.valid.eq(v); yield b.we.eq(we); yield b.addr.eq(a)
            lines.append(" ".join("%d %d %d" % r for r in reqs))
            yield
    run_simulation(dut, gen())
    mo = core.run_driver("controller", lines)[2:]
    n = min(len(mo), len(obs))
    mismatch = None
    for i in range(n):
        if mo[i] != obs[i]:
            a, b = obs[i].split(), mo[i].split()
            k = next(j for j in range(len(a)) if a[j] != b[j])
            what = ("bank%d.%s" % (k // 4, ["ready", "lock", "wdata_ready", "rdata_valid"][k % 4]) if k < 4 * nbm
                    else "dfi.p%d.%s" % ((k - 4 * nbm) // 8, ["cs_n", "bank", "address", "cas_n", "ras_n", "we_n", "rddata_en", "wrdata_en"][(k - 4 * nbm) % 8]))
            mismatch = dict(cycle=i, signal=what, impl=a[k], model=b[k], inputs=lines[max(2, i - 3) + 0:i + 3])
            break
    return dict(mismatch=mismatch, lines=lines, obs=obs[:n], cycles=n, nbm=nbm)


def mon_cfg_line(cfg):
    t = cfg["timing"]; n = cfg["nphases"]
    wl = -(-cfg["cwl"] // n)
    def clk(cycles):
        return 0 if not cycles else cycles * n - (n - 1)
    twtp = wl + t["tWR"] + t["tCCD"]
    twtr = t["tWTR"] + wl + t["tCCD"]
    xs = [n, 1 << cfg["rankbits"], 1 << cfg["bankbits"], cfg["rdphase"], cfg["wrphase"], cfg["colbits"], cfg["align"],
          clk(t["tRCD"]), clk(t["tRP"]), clk(t["tRAS"]), clk(t["tRC"]), clk(t["tRRD"]), clk(t["tFAW"]), clk(t["tCCD"]),
          clk(twtp), clk(twtr), clk(t["tRFC"]), clk(t["tZQCS"])]
    return " ".join(map(str, xs))


def grant_bound(cfg):
    """Explicit bound D(cfg), in controller cycles, on the time from the refresher's request to the first command of
    the refresh sequence: every bank machine finishes at most one precharge/activate/access in flight (tRAS, write
    recovery, tRP, tRC/tRRD/tFAW gates, tRCD), the multiplexer leaves a turnaround state (RTW / WTR), plus arbitration."""
    t = cfg["timing"]; n = cfg["nphases"]
    wl = -(-cfg["cwl"] // n)
    nbm = (1 << cfg["rankbits"]) << cfg["bankbits"]
    z = lambda v: v or 0
    twtp = wl + t["tWR"] + t["tCCD"]
    twtr = t["tWTR"] + wl + t["tCCD"]
    return (z(t["tRAS"]) + twtp + t["tRP"] + z(t["tRC"]) + z(t["tFAW"]) + z(t["tRRD"]) * nbm + t["tRCD"] + twtr +
            cfg["read_latency"] + 2 * t["tCCD"] + 2 * nbm + 16)


def run_dram_monitor(cfg, lines, obs, nbm, timing=True):
    """Evaluate the Lean DRAM specification monitor on the *implementation's* DFI trace.
    lines[k+2] are the bank inputs of cycle k, obs[k] the observations (bank handshakes + DFI) of cycle k.
    Returns (violation or None, ref_cycles)."""
    ml = [mon_cfg_line(cfg)]
    if not timing:      # structural / bank-state rules only: all minimum distances set to 0
        ml = [" ".join(ml[0].split()[:7] + ["0"] * 11)]
    nb = 1 << cfg["bankbits"]
    for k in range(len(obs)):
        o = obs[k].split()
        ins = lines[k + 2].split()
        acc = []
        for i in range(nbm):
            if ins[3 * i] == "1" and o[4 * i] == "1":      # valid & ready
                acc += [i, int(ins[3 * i + 1]), int(ins[3 * i + 2])]
        ml.append(" ".join(map(str, [len(acc) // 3] + acc)) + " " + " ".join(o[4 * nbm:]))
    ml.append("999999")
    out = core.run_driver("drammon", ml)
    viol = next((x for x in out[1:-1] if x.startswith("VIOL")), None)
    refs = [int(x) for x in out[-1].split()[1:]]
    return viol, refs
