"""Shared machinery for the controller-core properties (C01..C05): random configurations, construction of the
real LiteDRAMController / crossbar / PHY model, structured traffic, co-simulation against the Lean controller model."""
import random, math
from vlib import core


class S:
    pass


def rand_cfg(rnd, small=True):
    """A controller configuration drawn from the ranges the properties quantify over (tiny geometry: the
    behaviour does not depend on the array size, the simulator's speed does)."""
    memtype = rnd.choice(["SDR", "DDR", "LPDDR", "DDR2", "DDR3", "DDR4"])
    nphases = {"SDR": [1], "DDR": [1, 2], "LPDDR": [1, 2], "DDR2": [2, 4], "DDR3": [2, 4], "DDR4": [2, 4]}[memtype]
    nphases = rnd.choice(nphases)
    burst = nphases if memtype == "SDR" else {"DDR": 4, "LPDDR": 4, "DDR2": 4, "DDR3": 8, "DDR4": 8}[memtype]
    align = int(math.log2(burst))
    bankbits = rnd.choice([1, 2, 3]) if small else rnd.choice([2, 3])
    rankbits = rnd.choice([0, 0, 1])
    colbits = rnd.choice([max(align + 1, 5), 6, 10, 11]) if not small else rnd.choice([max(align + 1, 5), 6])
    rowbits = rnd.choice([11, 12]) if colbits <= 10 else colbits + 1   # >= 11 address lines: A10 must exist (PREA / auto-precharge flag)
    cl = rnd.choice([2, 3, 5, 6])
    cwl = rnd.choice([2, 3, 5])
    rdphase = rnd.randrange(nphases); wrphase = rnd.randrange(nphases)
    read_latency = rnd.choice([2, 3, 5, 6]); write_latency = rnd.choice([0, 1, 2])
    t = dict(tRP=rnd.choice([1, 2, 3, 4]), tRCD=rnd.choice([1, 2, 3, 4]), tWR=rnd.choice([1, 2, 3]), tWTR=rnd.choice([1, 2, 3]),
             tREFI=rnd.choice([100, 117, 160, 250]), tRFC=rnd.choice([2, 6, 12, 20]), tFAW=rnd.choice([None, 4, 6, 9, 12]),
             tCCD=rnd.choice([1, 2, 4]), tRRD=rnd.choice([None, 1, 2, 4]), tRC=None, tRAS=rnd.choice([None, 2, 5, 9]),
             tZQCS=rnd.choice([None, None, 4, 16]))
    t["tRC"] = None if t["tRAS"] is None else t["tRAS"] + t["tRP"] + rnd.choice([0, 0, 1])
    cs = dict(cmd_buffer_depth=rnd.choice([0, 1, 1, 2, 3, 4, 8]), read_time=rnd.choice([0, 4, 8, 32]), write_time=rnd.choice([0, 4, 16]),
              with_refresh=rnd.random() < 0.85, refresh_postponing=rnd.choice([1, 1, 2, 4, 8]),
              with_auto_precharge=rnd.random() < 0.6, zq_period=rnd.choice([300, 450, 700]))
    return dict(memtype=memtype, nphases=nphases, align=align, bankbits=bankbits, rankbits=rankbits, colbits=colbits, rowbits=rowbits,
                cl=cl, cwl=cwl, rdphase=rdphase, wrphase=wrphase, read_latency=read_latency, write_latency=write_latency,
                timing=t, ctrl=cs, dfi_databits=16)


def build_controller(cfg):
    from litedram.common import PhySettings, GeomSettings, TimingSettings
    from litedram.core.controller import LiteDRAMController, ControllerSettings
    ps = PhySettings(phytype="verif", memtype=cfg["memtype"], databits=cfg["dfi_databits"], dfi_databits=cfg["dfi_databits"],
                     nphases=cfg["nphases"], rdphase=cfg["rdphase"], wrphase=cfg["wrphase"], cl=cfg["cl"], cwl=cfg["cwl"],
                     read_latency=cfg["read_latency"], write_latency=cfg["write_latency"], nranks=1 << cfg["rankbits"])
    ps_ctl = ps
    if cfg.get("phase_signals", cfg["nphases"] > 1 and (cfg["cl"] + cfg["cwl"]) % 2 == 0):
        # as the PHYs with software-adjustable phases do (S7DDRPHY, USDDRPHY, LPDDR4/5: CSRStorage(log2(nphases)).storage):
        # the controller gets rdphase / wrphase as Signals holding the same values, so behaviour must be identical
        import copy
        from migen import Signal, log2_int
        ps_ctl = copy.copy(ps)
        ps_ctl.rdphase = Signal(log2_int(cfg["nphases"]), reset=cfg["rdphase"])
        ps_ctl.wrphase = Signal(log2_int(cfg["nphases"]), reset=cfg["wrphase"])
    gs = GeomSettings(cfg["bankbits"], cfg["rowbits"], cfg["colbits"])
    # small arrays, but at least 11 address lines so that A10 (precharge-all / auto-precharge flag) exists
    gs.addressbits = max(gs.addressbits, cfg.get("addressbits", 0))
    ts = TimingSettings(**cfg["timing"])
    c = cfg["ctrl"]
    cs = ControllerSettings(cmd_buffer_depth=c["cmd_buffer_depth"], read_time=c["read_time"], write_time=c["write_time"],
                            with_refresh=c["with_refresh"], refresh_zqcs_freq=1.0, refresh_postponing=c["refresh_postponing"],
                            with_auto_precharge=c["with_auto_precharge"])
    return LiteDRAMController(ps_ctl, gs, ts, clk_freq=c["zq_period"], controller_settings=cs), ps, gs, ts


def model_cfg_line(cfg):
    t, c = cfg["timing"], cfg["ctrl"]
    wl = -(-cfg["cwl"] // cfg["nphases"])
    nbm = (1 << cfg["rankbits"]) << cfg["bankbits"]
    abits = max(cfg["rowbits"], cfg["colbits"], cfg.get("addressbits", 0))
    def opt(v):
        return [0, 0] if v is None else [1, v]
    xs = [nbm, cfg["bankbits"], cfg["rankbits"], cfg["nphases"], cfg["rdphase"], cfg["wrphase"],
          c["cmd_buffer_depth"]] + opt(t["tRAS"]) + opt(t["tRC"]) + [wl + t["tWR"] + t["tCCD"], t["tRCD"], t["tRP"],
          cfg["colbits"], cfg["rowbits"], cfg["align"], abits, int(c["with_auto_precharge"]),
          t["tREFI"], t["tRFC"]] + opt(t["tZQCS"]) + [c["zq_period"], c["refresh_postponing"], int(c["with_refresh"])] + \
         opt(t["tRRD"]) + opt(t["tFAW"]) + [t["tCCD"], t["tWTR"] + wl + t["tCCD"], c["read_time"], c["write_time"], cfg["read_latency"]]
    return " ".join(map(str, xs))


class Traffic:
    """Per-bank request generator with phases (saturation / idle / single bank / row conflicts / direction bursts)."""
    def __init__(self, rnd, cfg):
        self.rnd = rnd; self.cfg = cfg
        self.nbm = (1 << cfg["rankbits"]) << cfg["bankbits"]
        self.split = cfg["colbits"] - cfg["align"]
        self.aw = cfg["rowbits"] + cfg["colbits"] + cfg["rankbits"] - cfg["align"]
        self.cur = [None] * self.nbm     # request currently held on each bank (held until accepted)
        self.mode()

    def mode(self):
        r = self.rnd
        self.p_new = r.choice([0.05, 0.3, 0.8, 1.0])
        self.p_we = r.choice([0.0, 0.5, 0.5, 1.0, 0.2])
        self.nrows = r.choice([1, 2, 3, 8])
        self.banks = r.sample(range(self.nbm), r.choice([1, 2, self.nbm]))
        self.len = r.randrange(30, 120)

    def new_req(self):
        r = self.rnd
        row = r.randrange(self.nrows)
        col = r.randrange(1 << self.split)
        return (int(r.random() < self.p_we), (row << self.split) | col)

    def next(self, ready):
        """ready[i]: whether bank i accepted the request held last cycle. Returns list of (valid, we, addr)."""
        self.len -= 1
        if self.len <= 0:
            self.mode()
        out = []
        for i in range(self.nbm):
            if self.cur[i] is not None and ready[i]:
                self.cur[i] = None
            if self.cur[i] is None and i in self.banks and self.rnd.random() < self.p_new:
                self.cur[i] = self.new_req()
            out.append((1,) + self.cur[i] if self.cur[i] is not None else (0, 0, 0))
        return out


def cosim_controller(cfg, seed, ncycles):
    """Co-simulate the real LiteDRAMController (bank interfaces driven directly) against the Lean model.
    Returns dict(mismatch=None|dict, lines, obs, dfi_trace)."""
    from migen import run_simulation
    rnd = random.Random(seed)
    dut, ps, gs, ts = build_controller(cfg)
    nbm = (1 << cfg["rankbits"]) << cfg["bankbits"]
    banks = [getattr(dut.interface, "bank%d" % i) for i in range(nbm)]
    traffic = Traffic(rnd, cfg)
    lines = [model_cfg_line(cfg), " ".join(["0 0 0"] * nbm)]
    obs = []
    accepted = []
    rfwait = []     # per cycle: the refresher requests the bus and the multiplexer has not handed it over (implementation)

    def gen():
        ready = [0] * nbm
        held = [(0, 0, 0)] * nbm
        for t in range(ncycles):
            if t > 0:
                rfwait.append(int((yield dut.refresher.cmd.valid) and not (yield dut.refresher.cmd.ready)))
                o = []
                ready = []
                for b in banks:
                    rd = (yield b.ready)
                    ready.append(rd)
                    o += [rd, (yield b.lock), (yield b.wdata_ready), (yield b.rdata_valid)]
                for ph in dut.dfi.phases:
                    o += [(yield ph.cs_n), (yield ph.bank), (yield ph.address), (yield ph.cas_n), (yield ph.ras_n), (yield ph.we_n),
                          (yield ph.rddata_en), (yield ph.wrdata_en)]
                obs.append(" ".join(map(str, o)))
                accepted.append([h[0] and r for h, r in zip(held, ready)])
            reqs = traffic.next([h[0] and r for h, r in zip(held, ready)])
            held = reqs
            for b, (v, we, a) in zip(banks, reqs):
                yield b.valid.eq(v); yield b.we.eq(we); yield b.addr.eq(a)
            lines.append(" ".join("%d %d %d" % r for r in reqs))
            yield
    run_simulation(dut, gen())
    mo_all = core.run_driver("controller", lines)
    hdr = dict(x.split("=") for x in mo_all[0].split()[1:])
    wf2 = hdr.get("wf2") == "1"     # the configuration meets the hypotheses of C02.controller_dfi_legal
    psimax = int(hdr.get("psimax", 0))   # the proved bound of C04.refresh_grant_bound for this configuration
    mo = mo_all[2:]
    n = min(len(mo), len(obs))
    mismatch = None
    for i in range(n):
        if mo[i] != obs[i]:
            a, b = obs[i].split(), mo[i].split()
            k = next(j for j in range(len(a)) if a[j] != b[j])
            what = ("bank%d.%s" % (k // 4, ["ready", "lock", "wdata_ready", "rdata_valid"][k % 4]) if k < 4 * nbm
                    else "dfi.p%d.%s" % ((k - 4 * nbm) // 8, ["cs_n", "bank", "address", "cas_n", "ras_n", "we_n", "rddata_en", "wrdata_en"][(k - 4 * nbm) % 8]))
            mismatch = dict(cycle=i, signal=what, impl=a[k], model=b[k], inputs=lines[max(2, i - 3) + 0:i + 3])
            break
    return dict(mismatch=mismatch, lines=lines, obs=obs[:n], cycles=n, nbm=nbm, wf2=wf2, psimax=psimax, rfwait=rfwait[:n],
                budget=hdr.get("budget") == "1")


def mon_cfg_line(cfg):
    t = cfg["timing"]; n = cfg["nphases"]
    wl = -(-cfg["cwl"] // n)
    def clk(cycles):
        return 0 if not cycles else cycles * n - (n - 1)
    twtp = wl + t["tWR"] + t["tCCD"]
    twtr = t["tWTR"] + wl + t["tCCD"]
    xs = [n, 1 << cfg["rankbits"], 1 << cfg["bankbits"], cfg["rdphase"], cfg["wrphase"], cfg["colbits"], cfg["align"],
          clk(t["tRCD"]), clk(t["tRP"]), clk(t["tRAS"]), clk(t["tRC"]), clk(t["tRRD"]), clk(t["tFAW"]), clk(t["tCCD"]),
          clk(twtp), clk(twtr), clk(t["tRFC"]), clk(t["tZQCS"])]
    return " ".join(map(str, xs))


def grant_bound(cfg):
    """Explicit bound D(cfg), in controller cycles, on the time from the refresher's request to the first command of
    the refresh sequence: every bank machine finishes at most one precharge/activate/access in flight (tRAS, write
    recovery, tRP, tRC/tRRD/tFAW gates, tRCD), the multiplexer leaves a turnaround state (RTW / WTR), plus arbitration."""
    t = cfg["timing"]; n = cfg["nphases"]
    wl = -(-cfg["cwl"] // n)
    nbm = (1 << cfg["rankbits"]) << cfg["bankbits"]
    z = lambda v: v or 0
    twtp = wl + t["tWR"] + t["tCCD"]
    twtr = t["tWTR"] + wl + t["tCCD"]
    return (z(t["tRAS"]) + twtp + t["tRP"] + z(t["tRC"]) + z(t["tFAW"]) + z(t["tRRD"]) * nbm + t["tRCD"] + twtr +
            cfg["read_latency"] + 2 * t["tCCD"] + 2 * nbm + 16)


def run_dram_monitor(cfg, lines, obs, nbm, timing=True):
    """Evaluate the Lean DRAM specification monitor on the *implementation's* DFI trace.
    lines[k+2] are the bank inputs of cycle k, obs[k] the observations (bank handshakes + DFI) of cycle k.
    Returns (violation or None, ref_cycles)."""
    ml = [mon_cfg_line(cfg)]
    if not timing:      # structural / bank-state rules only: all minimum distances set to 0
        ml = [" ".join(ml[0].split()[:7] + ["0"] * 11)]
    nb = 1 << cfg["bankbits"]
    for k in range(len(obs)):
        o = obs[k].split()
        ins = lines[k + 2].split()
        acc = []
        for i in range(nbm):
            if ins[3 * i] == "1" and o[4 * i] == "1":      # valid & ready
                acc += [i, int(ins[3 * i + 1]), int(ins[3 * i + 2])]
        ml.append(" ".join(map(str, [len(acc) // 3] + acc)) + " " + " ".join(o[4 * nbm:]))
    ml.append("999999")
    out = core.run_driver("drammon", ml)
    viol = next((x for x in out[1:-1] if x.startswith("VIOL")), None)
    refs = [int(x) for x in out[-1].split()[1:]]
    return viol, refs


def run_timing_monitor(cfg, obs, nbm):
    """Evaluate the controller-cycle timing monitor of C03.controller_timing_ok (Spec/TimingMon.lean) on the implementation's DFI
    trace, with the controller's own settings as requirements. Returns the violation line or None."""
    t = cfg["timing"]; n = cfg["nphases"]
    wl = -(-cfg["cwl"] // n)
    z = lambda v: v or 0
    xs = [n, 1 << cfg["rankbits"], 1 << cfg["bankbits"], t["tRCD"], t["tRP"], z(t["tRAS"]), z(t["tRC"]), z(t["tRRD"]), z(t["tFAW"]), t["tCCD"],
          wl + t["tWR"] + t["tCCD"], t["tWTR"] + wl + t["tCCD"], t["tRFC"], z(t["tZQCS"])]
    ml = [" ".join(map(str, xs))] + [" ".join(o.split()[4 * nbm:]) for o in obs]
    out = core.run_driver("timingmon", ml)
    return next((x for x in out[1:] if x.startswith("VIOL")), None)


def wf3(cfg):
    """the configuration conditions of C03.controller_timing_ok beyond WF2 (see Props/C03_Controller.lean)"""
    t = cfg["timing"]; n = cfg["nphases"]
    wl = -(-cfg["cwl"] // n)
    return t["tRP"] >= 1 and t["tWTR"] + wl + t["tCCD"] <= t["tRP"] + t["tRFC"]


# ------------------------------------------------------------------------------------------------ whole core
BURST_MODEL = {"SDR": 1, "DDR": 2, "LPDDR": 2, "DDR2": 2, "DDR3": 2, "DDR4": 2}


def rand_core_cfg(rnd):
    """whole-core configuration: single rank (the simulation PHY model has one), phase count consistent with the memtype's
    burst so that one controller word = one DRAM burst"""
    while True:
        cfg = rand_cfg(rnd)
        cfg["rankbits"] = 0
        if cfg["ctrl"]["cmd_buffer_depth"] == 0:
            cfg["ctrl"]["cmd_buffer_depth"] = 1     # depth 0 (a wire) is covered at controller level; see Model/Core.lean bankFb
        bl = {"SDR": cfg["nphases"], "DDR": 4, "LPDDR": 4, "DDR2": 4, "DDR3": 8, "DDR4": 8}[cfg["memtype"]]
        if BURST_MODEL[cfg["memtype"]] * cfg["nphases"] != bl:
            continue          # e.g. DDR3 1:2 would need two controller words per burst: not a configuration the PHYs offer
        cfg["nmasters"] = rnd.choice([1, 2, 2, 3, 4, 8])
        cfg["bba"] = rnd.choice([0, 0, 0, cfg["colbits"] - cfg["align"] + rnd.randint(0, 3)])
        cfg["dfi_databits"] = rnd.choice([16, 32])
        cfg["bankbits"] = rnd.choice([1, 2, 3])
        # Migen's simulator lowers memories to signal arrays: keep the DRAM arrays small (few rows), keep 11+ address lines
        cfg["rowbits"] = rnd.choice([3, 4, 5]); cfg["addressbits"] = max(11, cfg["colbits"] + (1 if cfg["colbits"] > 10 else 0))
        return cfg


class CoreDut:
    pass


def build_core(cfg):
    from migen import Module
    from litedram.core.crossbar import LiteDRAMCrossbar
    from litedram.phy.model import SDRAMPHYModel
    from litedram.common import GeomSettings
    ctl, ps, gs, ts = build_controller(cfg)
    if cfg.get("bba"):
        ctl.settings.bank_byte_alignment = (cfg["dfi_databits"] * cfg["nphases"] // 8) << cfg["bba"]

    class M: pass
    mod = M(); mod.memtype = cfg["memtype"]; mod.geom_settings = gs

    class Core(Module):
        def __init__(self):
            self.submodules.phy = SDRAMPHYModel(mod, settings=ps)
            self.submodules.controller = ctl
            self.comb += ctl.dfi.connect(self.phy.dfi)
            self.submodules.crossbar = LiteDRAMCrossbar(ctl.interface)
            self.ports = [self.crossbar.get_port() for _ in range(cfg["nmasters"])]
    return Core()


def core_cfg_line(cfg):
    return model_cfg_line(cfg) + " %d %d %d %d %d %d" % (cfg["nmasters"], cfg.get("bba", 0), BURST_MODEL[cfg["memtype"]],
                                                       cfg["dfi_databits"], cfg["write_latency"], cfg["read_latency"])


class Master:
    """A native-port master that keeps the contract of C01: holds each command until accepted, offers the data of a write
    with the command (FIFO of write words, head presented with valid), always accepts read data."""
    def __init__(self, rnd, aw, dw, pattern, geom=None):
        self.rnd = rnd; self.aw = aw; self.dw = dw; self.pattern = pattern
        self.geom = geom             # (split, bankbits, rowbits) when the mapping is the plain ROW_BANK_COL one (adversarial streams)
        self.cmd = None              # (we, addr, data, mask)
        self.wq = []                 # write words not yet taken: (data, we)
        self.spurious_wdata_strobes = 0
        self.mode()

    def mode(self):
        r = self.rnd
        self.p_new = r.choice([0.03, 0.2, 0.7, 1.0])
        self.p_we = r.choice([0.0, 0.3, 0.5, 1.0])
        self.len = r.randrange(40, 150)
        self.hot = [r.getrandbits(self.aw) for _ in range(r.choice([1, 2, 4, 16]))]
        self.seq = r.getrandbits(self.aw)
        # adversarial stream: back-to-back commands to one bank with the row changing every command (or the same row),
        # one direction: what starves refresh / other banks / the other direction if a fairness mechanism is broken
        self.stream = None
        if self.geom and r.random() < 0.3:
            split, bankbits, rowbits = self.geom
            self.stream = dict(bank=r.randrange(1 << bankbits), rows=r.sample(range(1 << rowbits), r.choice([1, 2, 3])), k=0)
            self.p_new = 1.0; self.p_we = r.choice([0.0, 1.0, 0.5]); self.len = r.randrange(150, 400)
        # ping-pong stream: back-to-back commands alternating between a bank whose row changes every time (always a row miss)
        # and another bank kept on one row (always a hit): the later command could be executed first, so any weakness in the
        # per-master ordering (bank lock, data strobe routing) shows as swapped read data or write data landing elsewhere
        self.ping = None
        if self.geom and self.geom[1] >= 1 and self.stream is None and r.random() < 0.3:
            split, bankbits, rowbits = self.geom
            b0 = r.randrange(1 << bankbits); b1 = (b0 + 1 + r.randrange((1 << bankbits) - 1)) % (1 << bankbits)
            self.ping = dict(miss_bank=b0, rows=r.sample(range(1 << rowbits), 2), hit_bank=b1, hit_row=r.randrange(1 << rowbits), k=0)
            self.p_new = 1.0; self.p_we = r.choice([0.0, 0.5, 0.3]); self.len = r.randrange(100, 300)

    def next(self, cmd_ready, wdata_ready):
        r = self.rnd
        ev = None
        if self.cmd is not None and cmd_ready:
            ev = self.cmd
            self.cmd = None
        if wdata_ready:
            if self.wq:
                self.wq.pop(0)
            else:
                self.spurious_wdata_strobes += 1     # a write-data strobe although this port has no write outstanding
        self.len -= 1
        if self.len <= 0:
            self.mode()
        if self.cmd is None and r.random() < self.p_new:
            we = int(r.random() < self.p_we)
            k = r.random()
            if self.stream is not None:
                split, bankbits, rowbits = self.geom
                st = self.stream; st["k"] += 1
                addr = r.randrange(1 << split) | (st["bank"] << split) | (st["rows"][st["k"] % len(st["rows"])] << (split + bankbits))
            elif self.ping is not None:
                split, bankbits, rowbits = self.geom
                pg = self.ping; pg["k"] += 1
                if pg["k"] % 2:
                    addr = r.randrange(1 << split) | (pg["miss_bank"] << split) | (pg["rows"][(pg["k"] // 2) % 2] << (split + bankbits))
                else:
                    addr = r.randrange(min(4, 1 << split)) | (pg["hit_bank"] << split) | (pg["hit_row"] << (split + bankbits))
            elif k < 0.5:
                addr = r.choice(self.hot)
            elif k < 0.8:
                self.seq = (self.seq + 1) % (1 << self.aw); addr = self.seq
            else:
                addr = r.getrandbits(self.aw)
            data, mask = 0, 0
            if we:
                nb = self.dw // 8
                mask = r.choice([(1 << nb) - 1, (1 << nb) - 1, r.getrandbits(nb), 1 << r.randrange(nb)])
                data = r.getrandbits(self.dw)
                self.wq.append((data, mask))
            self.cmd = (we, addr, data, mask)
        drive = dict(cmd_valid=int(self.cmd is not None), cmd_we=self.cmd[0] if self.cmd else 0, cmd_addr=self.cmd[1] if self.cmd else 0,
                     wdata_valid=int(bool(self.wq)), wdata=self.wq[0][0] if self.wq else 0, wdata_we=self.wq[0][1] if self.wq else 0)
        return drive, ev


def cosim_core(cfg, seed, ncycles):
    """Co-simulate the real crossbar+controller+SDRAMPHYModel against Model/Core.lean; returns port traces for the monitors."""
    from migen import run_simulation
    rnd = random.Random(seed)
    dut = build_core(cfg)
    ports = dut.ports
    nm = len(ports)
    aw = len(ports[0].cmd.addr); dw = len(ports[0].wdata.data)
    geom = (cfg["colbits"] - cfg["align"], cfg["bankbits"], cfg["rowbits"]) if not cfg.get("bba") else None
    masters = [Master(random.Random("%s-m%d" % (seed, i)), aw, dw, None, geom) for i in range(nm)]
    lines = [core_cfg_line(cfg), " ".join(["0 0 0 0 0"] * nm)]
    obs = []; events = []; offered = []

    def gen():
        fb = [(0, 0)] * nm
        for p in ports:
            yield p.rdata.ready.eq(1)
        for t in range(ncycles):
            if t > 0:
                o = []; fb = []; evrow = []
                for p in ports:
                    cr = (yield p.cmd.ready); wr = (yield p.wdata.ready); rv = (yield p.rdata.valid); rd = (yield p.rdata.data)
                    o += [cr, wr, rv, rd]; fb.append((cr, wr)); evrow.append((rv, rd))
                for ph in dut.controller.dfi.phases:
                    o += [(yield ph.cs_n), (yield ph.bank), (yield ph.address), (yield ph.cas_n), (yield ph.ras_n), (yield ph.we_n),
                          (yield ph.rddata_en), (yield ph.wrdata_en)]
                obs.append(" ".join(map(str, o)))
                events.append(evrow)
            row = []; accs = []; offs = []
            for m, p, (cr, wr) in zip(masters, ports, fb):
                was_valid = m.cmd is not None
                d, ev = m.next(cr, wr)
                accs.append(ev)
                offs.append(d["cmd_valid"])
                yield p.cmd.valid.eq(d["cmd_valid"]); yield p.cmd.we.eq(d["cmd_we"]); yield p.cmd.addr.eq(d["cmd_addr"])
                yield p.wdata.valid.eq(d["wdata_valid"]); yield p.wdata.data.eq(d["wdata"]); yield p.wdata.we.eq(d["wdata_we"])
                row.append("%d %d %d %d %d" % (d["cmd_valid"], d["cmd_we"], d["cmd_addr"], d["wdata"], d["wdata_we"]))
            lines.append(" ".join(row))
            if t > 0:
                events[-1] = (accs, events[-1])     # accs: commands accepted in the cycle just observed
            offered.append(offs)
            yield
    run_simulation(dut, gen())
    mo = core.run_driver("core", lines)[2:]
    n = min(len(mo), len(obs))
    mismatch = None
    for i in range(n):
        if mo[i] != obs[i]:
            a, b = obs[i].split(), mo[i].split()
            k = next(j for j in range(len(a)) if a[j] != b[j])
            what = ("port%d.%s" % (k // 4, ["cmd.ready", "wdata.ready", "rdata.valid", "rdata.data"][k % 4]) if k < 4 * nm
                    else "dfi.p%d.%s" % ((k - 4 * nm) // 8, ["cs_n", "bank", "address", "cas_n", "ras_n", "we_n", "rddata_en", "wrdata_en"][(k - 4 * nm) % 8]))
            mismatch = dict(cycle=i, signal=what, impl=a[k], model=b[k], inputs=lines[max(2, i - 3):i + 3])
            break
    return dict(mismatch=mismatch, lines=lines, obs=obs[:n], events=events[:n], offered=offered, cycles=n, nm=nm, dw=dw, aw=aw, dut=dut,
                spurious=[m.spurious_wdata_strobes for m in masters])


def run_port_monitor(nm, dw, events):
    """Lean port-memory monitor (Spec/PortMemory) on the implementation's port-level events."""
    ml = ["%d %d" % (nm, dw // 8)]
    for accs, rv in events:
        row = []
        for p in range(nm):
            a = accs[p]
            if a is not None:
                row += [1, a[0], a[1], a[2], a[3]]
            else:
                row += [0, 0, 0, 0, 0]
            row += [rv[p][0], rv[p][1] if rv[p][0] else 0]
        ml.append(" ".join(map(str, row)))
    ml.append("999999")
    out = core.run_driver("portmon", ml)
    viol = next((x for x in out[1:-1] if x.startswith("VIOL")), None)
    tail = out[-1].split()
    k = tail.index("mem")
    pending = [int(x) for x in tail[1:k]]
    mem = {int(tail[i]): int(tail[i + 1]) for i in range(k + 1, len(tail), 2)}
    return viol, pending, mem
