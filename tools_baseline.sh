#!/bin/bash
# Runs /repo's pinned suite (guard off) and compares the set of passing tests with BASELINE.json's stable_pass.
cd /repo
env -u LITEDRAM_VERIF /venv/bin/python -m pytest -q -p no:cacheprovider --timeout=900 --continue-on-collection-errors --junitxml=/tmp/baseline.$$.xml > /tmp/baseline.$$.log 2>&1
python3 - $$ <<'PY'
import sys, json, xml.etree.ElementTree as ET
pid = sys.argv[1]
base = set(json.load(open('/root/.vp/BASELINE.json'))['stable_pass'])
passed = set()
for tc in ET.parse('/tmp/baseline.%s.xml' % pid).getroot().iter('testcase'):
    if not any(c.tag in ('failure', 'error', 'skipped') for c in tc):
        passed.add("%s::%s" % (tc.get('classname'), tc.get('name')))
missing = sorted(base - passed)
print("passed=%d baseline=%d missing=%s" % (len(passed), len(base), missing))
sys.exit(1 if missing else 0)
PY
rc=$?
rm -f /tmp/baseline.$$.*
cd /repo && git status --short | grep -v '^??' ; rm -f /repo/*.vcd
exit $rc
