import Drv.Util
import Drv.C06
import Drv.C15
import Drv.C16
import Drv.C17
import Drv.C20
import Drv.Core
import Drv.DramMon
import Drv.Phy
import Drv.PortMon
import Drv.Dma
import Drv.RateConv
import Drv.Injector
import Drv.Bist
import Drv.Adapter
import Drv.DramFifo
import Drv.Avalon
import Drv.Wishbone
import Drv.Axi
import Drv.Cdc
open DrvUtil

def main (args : List String) : IO UInt32 := do
  let i ← IO.getStdin
  let o ← IO.getStdout
  match args with
  | ["c06"] => mapLines i o drvC06; return 0
  | ["c20a4"] => mapLines i o drvC20a4; return 0
  | ["c20exp4"] => mapLines i o drvC20exp4; return 0
  | ["c20exp5"] => mapLines i o drvC20exp5; return 0
  | ["c20path4"] => foldLines i o none drvC20path4; return 0
  | ["c20stream4"] => foldLines i o none drvC20stream4; return 0
  | ["bistgen"] => foldLines i o none drvBistGen; return 0
  | ["bistchk"] => foldLines i o none drvBistChk; return 0
  | ["bistpgen"] => foldLines i o none drvBistPGen; return 0
  | ["bistpchk"] => foldLines i o none drvBistPChk; return 0
  | ["bistspec"] => foldLines i o none drvBistSpec; return 0
  | ["addown"] => foldLines i o none drvAdDown; return 0
  | ["adup"] => foldLines i o none drvAdUp; return 0
  | ["adwitness"] => mapLines i o drvAdWitness; return 0
  | ["dramfifo"] => foldLines i o none drvDramFifo; return 0
  | ["fifomon"] => foldLines i o none drvFifoMon; return 0
  | ["fifowitness"] => mapLines i o drvFifoWitness; return 0
  | ["avalon"] => foldLines i o none drvAvalon; return 0
  | ["wbw2n"] => foldLines i o none drvWbW2N; return 0
  | ["wbup"] => foldLines i o none drvWbUp; return 0
  | ["wbn2w"] => foldLines i o none drvWbN2W; return 0
  | ["axi"] => foldLines i o none drvAxi; return 0
  | ["aximon"] => foldLines i o none drvAxiMon; return 0
  | ["cdc"] => foldLines i o none drvCdc; return 0
  | ["injector"] => foldLines i o none drvInjector; return 0
  | ["ratemon"] => foldLines i o none drvRateMon; return 0
  | ["rateconv"] => foldLines i o none drvRateConv; return 0
  | ["dmar"] => foldLines i o none drvDmaR; return 0
  | ["dmaw"] => foldLines i o none drvDmaW; return 0
  | ["dmamon"] => foldLines i o none drvDmaMon; return 0
  | ["portmon"] => foldLines i o none drvPortMon; return 0
  | ["phy"] => foldLines i o none drvPhy; return 0
  | ["adram"] => foldLines i o none drvADram; return 0
  | ["drammon"] => foldLines i o none drvDramMon; return 0
  | ["timingmon"] => foldLines i o none drvTimingMon; return 0
  | ["core"] => foldLines i o none drvCore; return 0
  | ["controller"] => foldLines i o none drvController; return 0
  | ["refresher"] => foldLines i o none drvRefresher; return 0
  | ["bankmachine"] => foldLines i o none drvBankMachine; return 0
  | ["c20pipe"] => foldLines i o none drvC20pipe; return 0
  | ["c20a5"] => mapLines i o drvC20a5; return 0
  | ["c17mr"] => mapLines i o drvC17mr; return 0
  | ["c17dec"] => mapLines i o drvC17dec; return 0
  | ["c17elec"] => mapLines i o drvC17elec; return 0
  | ["c16"] => mapLines i o drvC16; return 0
  | ["c15pos"] => mapLines i o drvC15pos; return 0
  | ["c15enc"] => mapLines i o drvC15enc; return 0
  | ["c15dec"] => mapLines i o drvC15dec; return 0
  | ["c15lw"] => mapLines i o drvC15lw; return 0
  | ["c15lr"] => mapLines i o drvC15lr; return 0
  | ["c15port"] => foldLines i o none drvC15port; return 0
  | _ => IO.eprintln s!"unknown model {args}"; return 2
