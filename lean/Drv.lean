import Drv.Util
import Drv.C06
import Drv.C15
open DrvUtil

def main (args : List String) : IO UInt32 := do
  let i ← IO.getStdin
  let o ← IO.getStdout
  match args with
  | ["c06"] => mapLines i o drvC06; return 0
  | ["c15pos"] => mapLines i o drvC15pos; return 0
  | ["c15enc"] => mapLines i o drvC15enc; return 0
  | ["c15dec"] => mapLines i o drvC15dec; return 0
  | ["c15lw"] => mapLines i o drvC15lw; return 0
  | ["c15lr"] => mapLines i o drvC15lr; return 0
  | ["c15port"] => foldLines i o none drvC15port; return 0
  | _ => IO.eprintln s!"unknown model {args}"; return 2
