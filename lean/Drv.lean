import Drv.Util
import Drv.C06
open DrvUtil

def main (args : List String) : IO UInt32 := do
  let i ← IO.getStdin
  let o ← IO.getStdout
  match args with
  | ["c06"] => mapLines i o drvC06; return 0
  | _ => IO.eprintln s!"unknown model {args}"; return 2
