import LitedramVerif.Model.LpddrCmd
import LitedramVerif.Model.CmdPipeline
import LitedramVerif.Spec.LpddrExpect
import LitedramVerif.Spec.Lpddr4Stream
import Drv.Util
open DrvUtil LpddrCmd

def bitsToNat (l : List Bool) : Nat := l.foldr (fun b acc => 2 * acc + b2n b) 0

/-- in: masked csN casN rasN weN address bank ; out: valid cs ca0 ca1 ca2 ca3 -/
def drvC20a4 (xs : List Nat) : String :=
  match xs with
  | [m, cs, cas, ras, we, a, b] =>
    let p := adapter4 (n2b m) ⟨n2b cs, n2b cas, n2b ras, n2b we, a, b⟩
    fmt ([b2n p.valid, bitsToNat p.cs] ++ p.ca.map bitsToNat)
  | _ => "bad-line"

/-- in: masked wckSyncDone csN casN rasN weN address bank ; out: valid cs ca0..ca3 wck_sync -/
def drvC20a5 (xs : List Nat) : String :=
  match xs with
  | [m, wd, cs, cas, ras, we, a, b] =>
    let (p, w) := adapter5 (n2b m) (n2b wd) ⟨n2b cs, n2b cas, n2b ras, n2b we, a, b⟩
    fmt ([b2n p.valid, bitsToNat p.cs] ++ p.ca.map bitsToNat ++ [w])
  | _ => "bad-line"

open CmdPipeline in
/-- Pipeline driver. First line: n csW caW caN span extended.
Then per cycle one line: for each phase p: valid cs(4-bit number) ca0 ca1 ca2 ca3 (each caN-bit number).
Output (registered view, *after* the edge that consumed this line): cs (csW-bit number) ca[0..caN-1] (caW-bit numbers). -/
def drvC20pipe (st : Option (Cfg × State)) (xs : List Nat) : Option (Cfg × State) × String :=
  match st, xs with
  | none, [n, csW, caW, caN, span, ext] => (some ({ n, csW, caW, caN, span, extended := n2b ext }, init), "cfg")
  | some (c, s), xs =>
    let arr := xs.toArray
    let ins : Ins := fun p =>
      let base := p * 6
      { valid := n2b (arr.getD base 0)
        cs := fun k => (arr.getD (base + 1) 0).testBit k
        ca := fun k b => (arr.getD (base + 2 + k) 0).testBit b }
    let s' := step c s ins
    let cs := bitsToNat ((List.range c.csW).map (outCs c s'))
    let cas := (List.range c.caN).map fun b => bitsToNat ((List.range c.caW).map (outCa c s' b))
    (some (c, s'), fmt (cs :: cas))
  | _, _ => (st, "bad-line")

/-! spec-side drivers: JEDEC decode of *given* pins compared with the DFI-level expectation -/
def natToBits (w x : Nat) : List Bool := (List.range w).map x.testBit

/-- in: masked csN casN rasN weN address bank | cs ca0 ca1 ca2 ca3 valid ; out: 1 = pins decode to the requested op and valid flag right -/
def drvC20exp4 (xs : List Nat) : String :=
  match xs with
  | [m, cs, cas, ras, we, a, b, pcs, c0, c1, c2, c3, v] =>
    let d : Dfi := ⟨n2b cs, n2b cas, n2b ras, n2b we, a, b⟩
    let want := LpddrExpect.expected4 (n2b m) d
    let got := JedecLpddr4.decode (natToBits 4 pcs) ([c0, c1, c2, c3].map (natToBits 6))
    if got == want && n2b v == want.isSome then "1" else s!"0 want={repr want} got={repr got}"
  | _ => "bad-line"

def drvC20exp5 (xs : List Nat) : String :=
  match xs with
  | [m, dn, cs, cas, ras, we, a, b, pcs, c0, c1, c2, c3, v] =>
    let d : Dfi := ⟨n2b cs, n2b cas, n2b ras, n2b we, a, b⟩
    let want := LpddrExpect.expected5 (n2b m) (n2b dn) d
    let got := JedecLpddr5.decode (natToBits 2 pcs) ([c0, c1, c2, c3].map (natToBits 7))
    if got == want && n2b v == want.isSome then "1" else s!"0 want={repr want} got={repr got}"
  | _ => "bad-line"

/-- full LPDDR4 command path model: adapters + pipeline.  First line: n csW caW caN span extended masked.
Per cycle: n × (csN casN rasN weN address bank).  Output: cs ca0..ca5 after the edge. -/
def drvC20path4 (st : Option (CmdPipeline.Cfg × Bool × CmdPipeline.State)) (xs : List Nat) :
    Option (CmdPipeline.Cfg × Bool × CmdPipeline.State) × String :=
  match st, xs with
  | none, [n, csW, caW, caN, span, ext, m] =>
    (some ({ n, csW, caW, caN, span, extended := n2b ext }, n2b m, CmdPipeline.init), "cfg")
  | some (c, m, s), xs =>
    let arr := xs.toArray
    let ins : CmdPipeline.Ins := fun p =>
      let base := p * 6
      let d : Dfi := ⟨n2b (arr.getD base 1), n2b (arr.getD (base+1) 1), n2b (arr.getD (base+2) 1), n2b (arr.getD (base+3) 1),
                      arr.getD (base+4) 0, arr.getD (base+5) 0⟩
      let pins := adapter4 m d
      { valid := pins.valid
        cs := fun k => pins.cs.getD k false
        ca := fun k b => (pins.ca.getD k []).getD b false }
    let s' := CmdPipeline.step c s ins
    let cs := bitsToNat ((List.range c.csW).map (CmdPipeline.outCs c s'))
    let cas := (List.range c.caN).map fun b => bitsToNat ((List.range c.caW).map (CmdPipeline.outCa c s' b))
    (some (c, m, s'), fmt (cs :: cas))
  | _, _ => (st, "bad-line")

/-- LPDDR4 stream monitor. First line: n ext masked. Per cycle: n × (csN casN rasN weN address bank) then observed cs ca0..ca5
(the pins of the following cycle). A line "999999" ends the trace and prints the verdict: "ok" or "bad <globalphase> <reason>". -/
def drvC20stream4 (st : Option (Nat × Bool × Bool × Array Lpddr4Stream.Cycle)) (xs : List Nat) :
    Option (Nat × Bool × Bool × Array Lpddr4Stream.Cycle) × String :=
  match st, xs with
  | none, [n, ext, m] => (some (n, n2b ext, n2b m, #[]), "cfg")
  | some (n, ext, _, tr), [999999] =>
    match Lpddr4Stream.check n tr ext with
    | none => (st, "ok")
    | some (g, r, ch) => (st, s!"bad {g} {r} {if ch then "chain" else "plain"}")
  | some (n, ext, m, tr), xs =>
    let arr := xs.toArray
    let req : Nat → Option JedecLpddr4.Op := fun p =>
      let base := p * 6
      LpddrExpect.expected4 m ⟨n2b (arr.getD base 1), n2b (arr.getD (base+1) 1), n2b (arr.getD (base+2) 1), n2b (arr.getD (base+3) 1),
                      arr.getD (base+4) 0, arr.getD (base+5) 0⟩
    let o := n * 6
    let cyc : Lpddr4Stream.Cycle :=
      { req := req
        cs := fun j => (arr.getD o 0).testBit j
        ca := fun j => (List.range 6).map fun b => (arr.getD (o + 1 + b) 0).testBit j }
    (some (n, ext, m, tr.push cyc), "")
  | _, _ => (st, "bad-line")
