import LitedramVerif.Spec.Dram
import LitedramVerif.Spec.BankMon
import LitedramVerif.Spec.TimingMon
import Drv.Util
open DrvUtil

structure DramMonSt where
  cfg : Dram.Cfg
  mon : Dram.Mon
  banks : BankMon.Banks := BankMon.Banks.init      -- the monitor of the C02 theorem (Spec/BankMon.lean), run alongside
  err : Option String := none

/-- the request a RD/WR of this cycle serves: head of the accepted-request queue of the addressed bank -/
def servedOf (c : Dram.Cfg) (m : Dram.Mon) (acc : List (Nat × Dram.Request)) (phases : Array Dram.Phase) : Option (Nat × Nat) :=
  let queues := acc.foldl (fun (q : Array (List Dram.Request)) (gb, rq) => q.set! gb (q[gb]! ++ [rq])) m.queues
  (List.range c.nphases).findSome? fun i =>
    let p := phases[i]!
    match Dram.decode p with
    | .rd _ _ | .wr _ _ =>
      match Dram.selected c p with
      | [r] => match queues[r * c.nbanks + p.bank]! with
               | rq :: _ => some (r * c.nbanks + p.bank, Dram.reqRow c rq.addr)
               | [] => none
      | _ => none
    | _ => none

/-- DRAM specification monitor on a DFI trace.
cfg: nphases nranks nbanks rdphase wrphase colbits align tRCD tRP tRAS tRC tRRD tFAW tCCD tWTP tWTR tRFC tZQCS
per cycle: nacc, then nacc × (globalbank we addr), then nphases × (csN bank address casN rasN weN rddataEn wrdataEn)
prints "ok" or "VIOL <cycle> <rule>" (sticky).  A line "999999" prints "refs <cycles of REF commands, oldest first>". -/
def drvDramMon (st : Option DramMonSt) (xs : List Nat) : Option DramMonSt × String :=
  match st, xs with
  | none, [nphases, nranks, nbanks, rdphase, wrphase, colbits, align, tRCD, tRP, tRAS, tRC, tRRD, tFAW, tCCD, tWTP, tWTR, tRFC, tZQCS] =>
    let c : Dram.Cfg := { nphases, nranks, nbanks, rdphase, wrphase, colbits, align,
                          req := { tRCD, tRP, tRAS, tRC, tRRD, tFAW, tCCD, tWTP, tWTR, tRFC, tZQCS } }
    (some { cfg := c, mon := Dram.Mon.init c }, "cfg")
  | some s, [999999] => (some s, "refs " ++ fmt s.mon.refTimes.reverse)
  | some s, nacc :: rest =>
    match s.err with
    | some e => (some s, e)
    | none =>
      let arr := rest.toArray
      let acc := (List.range nacc).map fun k =>
        (arr.getD (3*k) 0, ({ we := n2b (arr.getD (3*k+1) 0), addr := arr.getD (3*k+2) 0 } : Dram.Request))
      let o := 3 * nacc
      let phases := (Array.range s.cfg.nphases).map fun i =>
        let b := o + 8 * i
        ({ csN := arr.getD b 0, bank := arr.getD (b+1) 0, address := arr.getD (b+2) 0, casN := n2b (arr.getD (b+3) 1),
           rasN := n2b (arr.getD (b+4) 1), weN := n2b (arr.getD (b+5) 1), rddataEn := n2b (arr.getD (b+6) 0),
           wrdataEn := n2b (arr.getD (b+7) 0) } : Dram.Phase)
      let bc : BankMon.Cfg := { nphases := s.cfg.nphases, nranks := s.cfg.nranks, nbanks := s.cfg.nbanks,
                                rdphase := s.cfg.rdphase, wrphase := s.cfg.wrphase }
      let bnk := BankMon.cycleStep bc (servedOf s.cfg s.mon acc phases) s.banks phases
      match Dram.Mon.step s.cfg s.mon acc phases with
      | .ok m =>
        match bnk with
        | some b' => (some { s with mon := m, banks := b' }, "ok")
        | none =>
          let msg := s!"VIOL {s.mon.cycle} bank state machine (Spec/BankMon, the monitor of C02.controller_dfi_legal) rejects this cycle"
          (some { s with err := some msg }, msg)
      | .error e =>
        let msg := s!"VIOL {s.mon.cycle} {e}"
        (some { s with err := some msg }, msg)
  | _, _ => (st, "bad-line")

/-! ### the monitor of `C03.controller_timing_ok` (Spec/TimingMon.lean) on a DFI trace, in controller cycles -/
structure TimingMonSt where
  nphases : Nat
  nranks : Nat
  nbanks : Nat
  q : TimingMon.Req
  m : TimingMon.St
  cycle : Nat := 0
  err : Option String := none

/-- cfg: nphases nranks nbanks tRCD tRP tRAS tRC tRRD tFAW tCCD tWTP tWTR tRFC tZQCS   (all in controller cycles, 0 = none)
per cycle: nphases × (csN bank address casN rasN weN rddataEn wrdataEn); prints "ok" or "VIOL <cycle> <what>" (sticky) -/
def drvTimingMon (st : Option TimingMonSt) (xs : List Nat) : Option TimingMonSt × String :=
  match st, xs with
  | none, [nphases, nranks, nbanks, tRCD, tRP, tRAS, tRC, tRRD, tFAW, tCCD, tWTP, tWTR, tRFC, tZQCS] =>
    let q : TimingMon.Req := { tRCD, tRP, tRAS, tRC, tRRD, tFAW, tCCD, tWTP, tWTR, tRFC, tZQCS, nbanks := nranks * nbanks }
    (some { nphases, nranks, nbanks, q, m := TimingMon.St.init q }, "cfg")
  | some s, xs =>
    match s.err with
    | some e => (some s, e)
    | none =>
      let arr := xs.toArray
      let dc : Dram.Cfg := { nphases := s.nphases, nranks := s.nranks, nbanks := s.nbanks, rdphase := 0, wrphase := 0,
                             req := { tRCD := 0, tRP := 0, tRAS := 0, tRC := 0, tRRD := 0, tFAW := 0, tCCD := 0, tWTP := 0, tWTR := 0, tRFC := 0, tZQCS := 0 } }
      let evs : List TimingMon.Ev := (List.range s.nphases).flatMap fun i =>
        let b := 8 * i
        let p : Dram.Phase := { csN := arr.getD b 0, bank := arr.getD (b+1) 0, address := arr.getD (b+2) 0, casN := n2b (arr.getD (b+3) 1), rasN := n2b (arr.getD (b+4) 1), weN := n2b (arr.getD (b+5) 1), rddataEn := false, wrdataEn := false }
        let gbs := (Dram.selected dc p).map fun r => r * s.nbanks + p.bank
        match Dram.decode p with
        | .act _ => gbs.map .act
        | .rd _ ap => gbs.map fun g => .rd g ap
        | .wr _ ap => gbs.map fun g => .wr g ap
        | .pre => gbs.map .pre
        | .prea => [.prea]
        | .ref => [.ref]
        | .zqc => [.zqc]
        | _ => []
      match TimingMon.step s.q s.m evs with
      | some m' => (some { s with m := m', cycle := s.cycle + 1 }, "ok")
      | none =>
        let bad := evs.filter fun e => !TimingMon.allowed s.q s.m e
        let bs : String := toString (repr bad)
        let msg := "VIOL " ++ toString s.cycle ++ " controller-cycle timing monitor (Spec/TimingMon, the monitor of C03.controller_timing_ok) rejects " ++ bs ++ " (empty list: more than four ACT in a tFAW window)"
        (some { s with err := some msg }, msg)
  | _, _ => (st, "bad-line")
