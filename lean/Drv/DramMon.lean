import LitedramVerif.Spec.Dram
import LitedramVerif.Spec.BankMon
import Drv.Util
open DrvUtil

structure DramMonSt where
  cfg : Dram.Cfg
  mon : Dram.Mon
  banks : BankMon.Banks := BankMon.Banks.init      -- the monitor of the C02 theorem (Spec/BankMon.lean), run alongside
  err : Option String := none

/-- the request a RD/WR of this cycle serves: head of the accepted-request queue of the addressed bank -/
def servedOf (c : Dram.Cfg) (m : Dram.Mon) (acc : List (Nat × Dram.Request)) (phases : Array Dram.Phase) : Option (Nat × Nat) :=
  let queues := acc.foldl (fun (q : Array (List Dram.Request)) (gb, rq) => q.set! gb (q[gb]! ++ [rq])) m.queues
  (List.range c.nphases).findSome? fun i =>
    let p := phases[i]!
    match Dram.decode p with
    | .rd _ _ | .wr _ _ =>
      match Dram.selected c p with
      | [r] => match queues[r * c.nbanks + p.bank]! with
               | rq :: _ => some (r * c.nbanks + p.bank, Dram.reqRow c rq.addr)
               | [] => none
      | _ => none
    | _ => none

/-- DRAM specification monitor on a DFI trace.
cfg: nphases nranks nbanks rdphase wrphase colbits align tRCD tRP tRAS tRC tRRD tFAW tCCD tWTP tWTR tRFC tZQCS
per cycle: nacc, then nacc × (globalbank we addr), then nphases × (csN bank address casN rasN weN rddataEn wrdataEn)
prints "ok" or "VIOL <cycle> <rule>" (sticky).  A line "999999" prints "refs <cycles of REF commands, oldest first>". -/
def drvDramMon (st : Option DramMonSt) (xs : List Nat) : Option DramMonSt × String :=
  match st, xs with
  | none, [nphases, nranks, nbanks, rdphase, wrphase, colbits, align, tRCD, tRP, tRAS, tRC, tRRD, tFAW, tCCD, tWTP, tWTR, tRFC, tZQCS] =>
    let c : Dram.Cfg := { nphases, nranks, nbanks, rdphase, wrphase, colbits, align,
                          req := { tRCD, tRP, tRAS, tRC, tRRD, tFAW, tCCD, tWTP, tWTR, tRFC, tZQCS } }
    (some { cfg := c, mon := Dram.Mon.init c }, "cfg")
  | some s, [999999] => (some s, "refs " ++ fmt s.mon.refTimes.reverse)
  | some s, nacc :: rest =>
    match s.err with
    | some e => (some s, e)
    | none =>
      let arr := rest.toArray
      let acc := (List.range nacc).map fun k =>
        (arr.getD (3*k) 0, ({ we := n2b (arr.getD (3*k+1) 0), addr := arr.getD (3*k+2) 0 } : Dram.Request))
      let o := 3 * nacc
      let phases := (Array.range s.cfg.nphases).map fun i =>
        let b := o + 8 * i
        ({ csN := arr.getD b 0, bank := arr.getD (b+1) 0, address := arr.getD (b+2) 0, casN := n2b (arr.getD (b+3) 1),
           rasN := n2b (arr.getD (b+4) 1), weN := n2b (arr.getD (b+5) 1), rddataEn := n2b (arr.getD (b+6) 0),
           wrdataEn := n2b (arr.getD (b+7) 0) } : Dram.Phase)
      let bc : BankMon.Cfg := { nphases := s.cfg.nphases, nranks := s.cfg.nranks, nbanks := s.cfg.nbanks,
                                rdphase := s.cfg.rdphase, wrphase := s.cfg.wrphase }
      let bnk := BankMon.cycleStep bc (servedOf s.cfg s.mon acc phases) s.banks phases
      match Dram.Mon.step s.cfg s.mon acc phases with
      | .ok m =>
        match bnk with
        | some b' => (some { s with mon := m, banks := b' }, "ok")
        | none =>
          let msg := s!"VIOL {s.mon.cycle} bank state machine (Spec/BankMon, the monitor of C02.controller_dfi_legal) rejects this cycle"
          (some { s with err := some msg }, msg)
      | .error e =>
        let msg := s!"VIOL {s.mon.cycle} {e}"
        (some { s with err := some msg }, msg)
  | _, _ => (st, "bad-line")
