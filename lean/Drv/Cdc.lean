import LitedramVerif.Model.AsyncFifo
import Drv.Util
open DrvUtil

/-- LiteDRAMNativePortCDC. cfg: kCmd kW kR
line: kind(1 user edge, 2 controller edge, 3 both)  cmdValid cmd wValid w rReady   cmdReady wReady rValid r
out (state AFTER the instant): u.cmdReady u.wReady u.rValid u.r  y.cmdValid y.cmd y.wValid y.w y.rReady -/
def drvCdc (st : Option (PortCdc.Cfg × PortCdc.State)) (xs : List Nat) : Option (PortCdc.Cfg × PortCdc.State) × String :=
  match st, xs with
  | none, [kCmd, kW, kR] => let c : PortCdc.Cfg := { kCmd, kW, kR }; (some (c, PortCdc.State.init c), "cfg")
  | some (c, s), [kind, cv, cm, wv, w, rr, cr, wr, rv, r] =>
    let s' := PortCdc.tick c s (kind == 1 || kind == 3) (kind == 2 || kind == 3) ⟨n2b cv, cm, n2b wv, w, n2b rr⟩ ⟨n2b cr, n2b wr, n2b rv, r⟩
    let o := PortCdc.out c s'
    (some (c, s'), fmt [b2n o.cmdReady, b2n o.wReady, b2n o.rValid, if o.rValid then o.r else 0,
                        b2n o.cmdValid, if o.cmdValid then o.cmd else 0, b2n o.wValid, if o.wValid then o.w else 0, b2n o.rReady])
  | _, _ => (st, "bad-line")
