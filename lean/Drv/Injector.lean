import LitedramVerif.Model.Injector
import Drv.Util
open DrvUtil Injector

def parseM2S (a : Array Nat) (b : Nat) : M2S :=
  { address := a.getD b 0, bank := a.getD (b+1) 0, casN := a.getD (b+2) 0, csN := a.getD (b+3) 0, rasN := a.getD (b+4) 0, weN := a.getD (b+5) 0,
    cke := a.getD (b+6) 0, odt := a.getD (b+7) 0, resetN := a.getD (b+8) 0, actN := a.getD (b+9) 0, wrdata := a.getD (b+10) 0,
    wrdataEn := a.getD (b+11) 0, wrdataMask := a.getD (b+12) 0, rddataEn := a.getD (b+13) 0 }

def m2sNums (m : M2S) : List Nat :=
  [m.address, m.bank, m.casN, m.csN, m.rasN, m.weN, m.cke, m.odt, m.resetN, m.actN, m.wrdata, m.wrdataEn, m.wrdataMask, m.rddataEn]

/-- DFI injector model. cfg: nranks clam nphases.
line: sel cke odt resetN extSel | per phase: cs we cas ras wren rden csTop csBottom issue address baddress wrdata (12) | slave M2S (14) | ext M2S (14) | phy rddata rdvalid (2)
out: per phase: master M2S (14), slave rddata rdvalid, ext rddata rdvalid, injector rddata status (registered, before the edge) -/
def drvInjector (st : Option (Cfg × Nat × Array Nat)) (xs : List Nat) : Option (Cfg × Nat × Array Nat) × String :=
  match st, xs with
  | none, [nranks, clam, nph] => (some ({ nranks, clamShell := n2b clam }, nph, Array.replicate nph 0), "cfg")
  | some (c, nph, status), sel :: cke :: odt :: resetN :: extSel :: rest =>
    let a := rest.toArray
    let per := 12 + 14 + 14 + 2
    let res := (List.range nph).map fun p =>
      let b := per * p
      let q : Csr := { sel := n2b sel, cke, odt, resetN, cs := n2b (a.getD b 0), we := n2b (a.getD (b+1) 0), cas := n2b (a.getD (b+2) 0),
                       ras := n2b (a.getD (b+3) 0), wren := n2b (a.getD (b+4) 0), rden := n2b (a.getD (b+5) 0), csTop := n2b (a.getD (b+6) 0),
                       csBottom := n2b (a.getD (b+7) 0), issue := n2b (a.getD (b+8) 0), address := a.getD (b+9) 0, baddress := a.getD (b+10) 0,
                       wrdata := a.getD (b+11) 0 }
      let slave := parseM2S a (b + 12)
      let ext := parseM2S a (b + 26)
      let rd : S2M := { rddata := a.getD (b + 40) 0, rddataValid := a.getD (b + 41) 0 }
      let (m, srd, erd) := mux c q (n2b extSel) slave ext rd
      -- csr_dfi's read side is connected only in software mode
      let st' := if !n2b sel && rd.rddataValid % 2 == 1 then rd.rddata else status.getD p 0
      (m2sNums m ++ [srd.rddata, srd.rddataValid, erd.rddata, erd.rddataValid, status.getD p 0], st')
    (some (c, nph, (res.map (·.2)).toArray), fmt (res.flatMap (·.1)))
  | _, _ => (st, "bad-line")
