import LitedramVerif.Spec.PortMemory
import Drv.Util
open DrvUtil

structure PortMonSt where
  n : Nat
  mon : PortMemory.Mon
  err : Option String := none
  cyc : Nat := 0

/-- Port-level memory monitor. cfg: nports nbytes ; per cycle: nports × (accepted we addr data mask rvalid rdata).
"ok" / "VIOL <cycle> <message>" (sticky). "999999" prints "pending <reads in flight per port> mem <addr word ...>" -/
def drvPortMon (st : Option PortMonSt) (xs : List Nat) : Option PortMonSt × String :=
  match st, xs with
  | none, [n, nbytes] => (some { n, mon := PortMemory.Mon.init n nbytes }, "cfg")
  | some s, [999999] =>
    (some s, "pending " ++ fmt (s.mon.expect.toList.map List.length) ++ " mem " ++ fmt (s.mon.mem.flatMap fun (a, v) => [a, v]))
  | some s, xs =>
    match s.err with
    | some e => (some s, e)
    | none =>
      let arr := xs.toArray
      let evs := (Array.range s.n).map fun p =>
        let b := 7 * p
        ({ accepted := n2b (arr.getD b 0), we := n2b (arr.getD (b+1) 0), addr := arr.getD (b+2) 0, data := arr.getD (b+3) 0,
           mask := arr.getD (b+4) 0, rvalid := n2b (arr.getD (b+5) 0), rdata := arr.getD (b+6) 0 } : PortMemory.PortEv)
      match s.mon.step evs with
      | .ok m => (some { s with mon := m, cyc := s.cyc + 1 }, "ok")
      | .error e =>
        let msg := s!"VIOL {s.cyc} {e}"
        (some { s with err := some msg }, msg)
  | _, _ => (st, "bad-line")
