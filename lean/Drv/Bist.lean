import LitedramVerif.Model.Bist
import LitedramVerif.Spec.BistSpec
import Drv.Util
open DrvUtil

def bistCfg : List Nat → Option (Bist.Cfg × Bist.Regs)
  | [dw, aw, axi, ashift, depth, base, end_, length, rd, ra] =>
    some ({ dw, aw, axi := n2b axi, ashift, dma := { depth, buffered := false } }, { base, end_, length, randomData := n2b rd, randomAddr := n2b ra })
  | _ => none

/-- BIST generator. cfg: dw aw axi ashift depth base end length rdata raddr ; cycle: reset start cascadeIn cmdReady wdataReady
out: done ticks cascadeOut cmdValid cmdAddr wdataValid wdata -/
def drvBistGen (st : Option (Bist.Cfg × Bist.Regs × Bist.GState)) (xs : List Nat) : Option (Bist.Cfg × Bist.Regs × Bist.GState) × String :=
  match st, xs with
  | none, _ => match bistCfg xs with
    | some (c, r) => (some (c, r, {}), "cfg")
    | none => (none, "bad-line")
  | some (c, r, s), [rst, start, ci, cr, wr] =>
    let (s', o) := Bist.gstep c r s ⟨n2b rst, n2b start, n2b ci, n2b cr, n2b wr⟩
    (some (c, r, s'), fmt [b2n o.done, o.ticks, b2n o.cascadeOut, b2n o.port.cmdValid, if o.port.cmdValid then o.port.cmdAddr else 0,
                           b2n o.port.wdataValid, if o.port.wdataValid then o.port.wdata else 0])
  | _, _ => (st, "bad-line")

/-- BIST checker. cycle: reset start cascadeIn cmdReady rdataValid rdata ; out: done errors ticks cascadeOut cmdValid cmdAddr rdataReady -/
def drvBistChk (st : Option (Bist.Cfg × Bist.Regs × Bist.CState)) (xs : List Nat) : Option (Bist.Cfg × Bist.Regs × Bist.CState) × String :=
  match st, xs with
  | none, _ => match bistCfg xs with
    | some (c, r) => (some (c, r, {}), "cfg")
    | none => (none, "bad-line")
  | some (c, r, s), [rst, start, ci, cr, rv, rd] =>
    let (s', o) := Bist.cstep c r s ⟨n2b rst, n2b start, n2b ci, n2b cr, n2b rv, rd⟩
    (some (c, r, s'), fmt [b2n o.done, o.errors, o.ticks, b2n o.cascadeOut, b2n o.port.cmdValid, if o.port.cmdValid then o.port.cmdAddr else 0,
                           b2n o.port.rdataReady])
  | _, _ => (st, "bad-line")

/-- specification. cfg line as above, then
  `1 a d`  set memory word (a write observed on the port, or a corruption)
  `3 n`    expected error count over the memory for n positions
  `4 i`    seqAddr i, seqData i, inRange, inMaskWindow
  `5 n`    nWords -/
def drvBistSpec (st : Option (Bist.Cfg × Bist.Regs × BistSpec.Mem)) (xs : List Nat) : Option (Bist.Cfg × Bist.Regs × BistSpec.Mem) × String :=
  match st, xs with
  | none, _ => match bistCfg xs with
    | some (c, r) => (some (c, r, []), "cfg")
    | none => (none, "bad-line")
  | some (c, r, m), [1, a, d] => (some (c, r, m.set a d), "ok")
  | some (c, r, m), [3, n] => (st, toString (BistSpec.expectedErrors c r n m))
  | some (c, r, _), [4, i] =>
    let a := Bist.seqAddr c r i
    (st, fmt [a, Bist.seqData c r i, b2n (BistSpec.inRange c r a), b2n (BistSpec.inMaskWindow c r a)])
  | some (c, r, _), [5] => (st, toString (Bist.nWords c r))
  | _, _ => (st, "bad-line")

/-- Pattern generator / checker. cfg line: dw aw axi ashift depth  a0 d0 a1 d1 ... (the init list)
generator cycle: reset start cascadeIn cmdReady wdataReady ; out as `bistgen`
checker cycle: reset start cascadeIn cmdReady rdataValid rdata ; out as `bistchk` -/
def patCfg : List Nat → Option (Bist.Cfg × List (Nat × Nat))
  | dw :: aw :: axi :: ashift :: depth :: rest =>
    let rec prs : List Nat → List (Nat × Nat)
      | a :: d :: t => (a, d) :: prs t
      | _ => []
    some ({ dw, aw, axi := n2b axi, ashift, dma := { depth, buffered := false } }, prs rest)
  | _ => none

def drvBistPGen (st : Option (Bist.Cfg × List (Nat × Nat) × Bist.PGState)) (xs : List Nat) :
    Option (Bist.Cfg × List (Nat × Nat) × Bist.PGState) × String :=
  match st, xs with
  | none, _ => match patCfg xs with
    | some (c, init) => (some (c, init, {}), "cfg")
    | none => (none, "bad-line")
  | some (c, init, s), [rst, start, ci, cr, wr] =>
    let (s', o) := Bist.pgstep c init s ⟨n2b rst, n2b start, n2b ci, n2b cr, n2b wr⟩
    (some (c, init, s'), fmt [b2n o.done, o.ticks, b2n o.cascadeOut, b2n o.port.cmdValid, if o.port.cmdValid then o.port.cmdAddr else 0,
                              b2n o.port.wdataValid, if o.port.wdataValid then o.port.wdata else 0])
  | _, _ => (st, "bad-line")

def drvBistPChk (st : Option (Bist.Cfg × List (Nat × Nat) × Bist.PCState)) (xs : List Nat) :
    Option (Bist.Cfg × List (Nat × Nat) × Bist.PCState) × String :=
  match st, xs with
  | none, _ => match patCfg xs with
    | some (c, init) => (some (c, init, {}), "cfg")
    | none => (none, "bad-line")
  | some (c, init, s), [rst, start, ci, cr, rv, rd] =>
    let (s', o) := Bist.pcstep c init s ⟨n2b rst, n2b start, n2b ci, n2b cr, n2b rv, rd⟩
    (some (c, init, s'), fmt [b2n o.done, o.errors, o.ticks, b2n o.cascadeOut, b2n o.port.cmdValid, if o.port.cmdValid then o.port.cmdAddr else 0,
                              b2n o.port.rdataReady])
  | _, _ => (st, "bad-line")
