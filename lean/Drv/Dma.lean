import LitedramVerif.Model.Dma
import LitedramVerif.Spec.DmaSpec
import Drv.Util
open DrvUtil

/-- DMA reader model. cfg: depth buffered ; per cycle: enable sinkValid sinkAddr sinkLast cmdReady rdataValid rdata srcReady
out: sinkReady cmdValid cmdAddr cmdLast rdataReady srcValid srcData srcLast (srcData/cmdAddr/cmdLast masked by their valid) -/
def drvDmaR (st : Option (Dma.Cfg × Dma.RState)) (xs : List Nat) : Option (Dma.Cfg × Dma.RState) × String :=
  match st, xs with
  | none, [depth, buffered] => (some ({ depth, buffered := n2b buffered }, {}), "cfg")
  | some (c, s), [en, sv, sa, sl, cr, rv, rd, sr] =>
    let (s', o) := Dma.rstep c s ⟨n2b en, n2b sv, sa, n2b sl, n2b cr, n2b rv, rd, n2b sr⟩
    (some (c, s'), fmt [b2n o.sinkReady, b2n o.cmdValid, if o.cmdValid then o.cmdAddr else 0, b2n (o.cmdValid && o.cmdLast),
                        b2n o.rdataReady, b2n o.srcValid, if o.srcValid then o.srcData else 0, b2n (o.srcValid && o.srcLast)])
  | _, _ => (st, "bad-line")

/-- DMA writer model. cfg: depth buffered ; per cycle: sinkValid sinkAddr sinkData sinkLast cmdReady wdataReady
out: sinkReady cmdValid cmdAddr wdataValid wdata -/
def drvDmaW (st : Option (Dma.Cfg × Dma.WState)) (xs : List Nat) : Option (Dma.Cfg × Dma.WState) × String :=
  match st, xs with
  | none, [depth, buffered] => (some ({ depth, buffered := n2b buffered }, {}), "cfg")
  | some (c, s), [sv, sa, sd, sl, cr, wr] =>
    let (s', o) := Dma.wstep c s ⟨n2b sv, sa, sd, n2b sl, n2b cr, n2b wr⟩
    (some (c, s'), fmt [b2n o.sinkReady, b2n o.cmdValid, if o.cmdValid then o.cmdAddr else 0, b2n o.wdataValid,
                        if o.wdataValid then o.wdata else 0])
  | _, _ => (st, "bad-line")

structure DmaMonSt where
  r : DmaSpec.RMon := {}
  w : DmaSpec.WMon := {}
  err : Option String := none
  cyc : Nat := 0

def optPair (f a b : Nat) : Option (Nat × Nat) := if f == 1 then some (a, b) else none

/-- specification monitors on observed behaviour.
reader line: 0 acc accData accLast rvalid rready out outData outLast
writer line: 1 sinkAcc addr data cmd cmdAddr wd wdData
"999999" prints the number of words still owed. -/
def drvDmaMon (st : Option DmaMonSt) (xs : List Nat) : Option DmaMonSt × String :=
  let s := st.getD {}
  match xs with
  | [999999] => (some s, s!"owed {s.r.expect.length} {s.w.pairs.length + s.w.datas.length}")
  | [0, acc, ad, al, rv, rr, out, od, ol] =>
    match s.err with
    | some e => (some s, e)
    | none =>
      match s.r.step (if acc == 1 then some (ad, n2b al) else none) (n2b rv) (n2b rr) (if out == 1 then some (od, n2b ol) else none) with
      | .ok r => (some { s with r, cyc := s.cyc + 1 }, "ok")
      | .error e => let m := s!"VIOL {s.cyc} {e}"; (some { s with err := some m }, m)
  | [1, sa, a, d, cmd, ca, wd, wdd] =>
    match s.err with
    | some e => (some s, e)
    | none =>
      match s.w.step (optPair sa a d) (if cmd == 1 then some ca else none) (if wd == 1 then some wdd else none) with
      | .ok w => (some { s with w, cyc := s.cyc + 1 }, "ok")
      | .error e => let m := s!"VIOL {s.cyc} {e}"; (some { s with err := some m }, m)
  | _ => (some s, "bad-line")
