import LitedramVerif.Model.AddrMap
import Drv.Util
open DrvUtil AddrMap

/-- in: bankbits rowbits colbits align rankbits bba addr ; out: rank bank row col -/
def drvC06 (xs : List Nat) : String :=
  match xs with
  | [bankbits, rowbits, colbits, align, rankbits, bba, a] =>
    let g : Geom := { bankbits, rowbits, colbits, align, rankbits, bba }
    let (rk, bk, row, col) := translate g a
    fmt [rk, bk, row, col]
  | [memtype, nphases] => fmt [alignOf memtype nphases]       -- address_align of the controller
  | _ => "bad-line"
