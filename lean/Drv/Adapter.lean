import LitedramVerif.Model.Adapter
import LitedramVerif.Spec.AdapterWitness
import Drv.Util
open DrvUtil

def pairs : List Nat → List (Nat × Nat)
  | a :: b :: rest => (a, b) :: pairs rest
  | _ => []

def adCfg : List Nat → Option Adapter.Cfg
  | [ratio, reverse, hasW, hasR, toAddrBits, logRatio] =>
    some { ratio, reverse := n2b reverse, hasW := n2b hasW, hasR := n2b hasR, toAddrBits, logRatio }
  | _ => none

/-- Down converter. cfg: ratio reverse hasW hasR toAddrBits logRatio
cycle: cmdValid cmdWe cmdAddr wValid rReady toCmdReady toWReady toRValid toRData (d we)*ratio
out: cmdReady toCmdValid toCmdWe toCmdAddr wReady toWValid toWd toWwe rValid toRReady r*ratio (data masked by valid) -/
def drvAdDown (st : Option (Adapter.Cfg × Adapter.DState)) (xs : List Nat) : Option (Adapter.Cfg × Adapter.DState) × String :=
  match st, xs with
  | none, _ => match adCfg xs with
    | some c => (some (c, Adapter.DState.init c), "cfg")
    | none => (none, "bad-line")
  | some (c, s), cv :: cw :: ca :: wv :: rr :: tcr :: twr :: trv :: trd :: rest =>
    let (s', o) := Adapter.dstep c s ⟨n2b cv, n2b cw, ca, n2b wv, pairs rest, n2b rr, n2b tcr, n2b twr, n2b trv, trd⟩
    (some (c, s'), fmt ([b2n o.cmdReady, b2n o.toCmdValid, b2n o.toCmdWe, o.toCmdAddr, b2n o.wReady, b2n o.toWValid,
                         if o.toWValid then o.toWData.1 else 0, if o.toWValid then o.toWData.2 else 0, b2n o.rValid, b2n o.toRReady]
                        ++ (if o.rValid then o.rData else List.replicate c.ratio 0)))
  | _, _ => (st, "bad-line")

/-- Up converter. cycle: cmdValid cmdWe cmdAddr cmdLast flush wValid wd wwe rReady toCmdReady toWReady toRValid r*ratio
out: cmdReady toCmdValid toCmdWe toCmdAddr wReady toWValid rValid rData toRReady (d we)*ratio (masked by valid) -/
def drvAdUp (st : Option (Adapter.Cfg × Adapter.UState)) (xs : List Nat) : Option (Adapter.Cfg × Adapter.UState) × String :=
  match st, xs with
  | none, _ => match adCfg xs with
    | some c => (some (c, Adapter.UState.init c), "cfg")
    | none => (none, "bad-line")
  | some (c, s), cv :: cw :: ca :: cl :: fl :: wv :: wd :: wwe :: rr :: tcr :: twr :: trv :: rest =>
    let (s', o) := Adapter.ustep c s ⟨n2b cv, n2b cw, ca, n2b cl, n2b fl, n2b wv, (wd, wwe), n2b rr, n2b tcr, n2b twr, n2b trv, rest⟩
    (some (c, s'), fmt ([b2n o.cmdReady, b2n o.toCmdValid, b2n o.toCmdWe, o.toCmdAddr, b2n o.wReady, b2n o.toWValid,
                         b2n o.rValid, if o.rValid then o.rData else 0, b2n o.toRReady]
                        ++ (if o.toWValid then (List.range c.ratio).flatMap (fun j => let ch := o.toWData.getD j (0, 0); [ch.1, ch.2])
                            else List.replicate (2 * c.ratio) 0)))
  | _, _ => (st, "bad-line")

/-- prints the up-converter input lines of the Lean witnesses (`0` = descending, `1` = repeated) -/
def drvAdWitness (xs : List Nat) : String :=
  let ins := match xs with
    | [0] => AdapterWitness.descending
    | [1] => AdapterWitness.repeated
    | _ => []
  ";".intercalate (ins.map fun i =>
    fmt ([b2n i.cmdValid, b2n i.cmdWe, i.cmdAddr, b2n i.cmdLast, b2n i.flush, b2n i.wValid, i.wData.1, i.wData.2, b2n i.rReady,
          b2n i.toCmdReady, b2n i.toWReady, b2n i.toRValid] ++ i.toRData))
