import LitedramVerif.Model.DramFifo
import LitedramVerif.Spec.FifoSpec
import LitedramVerif.Spec.FifoWitness
import Drv.Util
open DrvUtil

def fsmNum : DramFifo.Fsm → Nat
  | .bypass => 0 | .dram => 1 | .pump => 2 | .drain => 3

/-- LiteDRAMFIFO. cfg: dw ratio withBypass base depth preDepth postDepth addrBits modBits
cycle: sinkValid sinkData srcReady wCmdReady wDataReady rCmdReady rDataValid rData
out: sinkReady srcValid srcData wcmdValid wcmdAddr wdataValid wdata rcmdValid rcmdAddr rdataReady level fsm -/
def drvDramFifo (st : Option (DramFifo.Cfg × DramFifo.State)) (xs : List Nat) : Option (DramFifo.Cfg × DramFifo.State) × String :=
  match st, xs with
  | none, [dw, ratio, wb, base, depth, preDepth, postDepth, addrBits, modBits] =>
    let c : DramFifo.Cfg := { dw, ratio, withBypass := n2b wb, base, depth, preDepth, postDepth, addrBits, modBits }
    (some (c, DramFifo.State.init c), "cfg")
  | some (c, s), [sv, sd, sr, wcr, wdr, rcr, rdv, rd] =>
    let (s', o) := DramFifo.step c s ⟨n2b sv, sd, n2b sr, n2b wcr, n2b wdr, n2b rcr, n2b rdv, rd⟩
    (some (c, s'), fmt [b2n o.sinkReady, b2n o.srcValid, if o.srcValid then o.srcData else 0,
                        b2n o.w.cmdValid, if o.w.cmdValid then o.w.cmdAddr else 0, b2n o.w.wdataValid, if o.w.wdataValid then o.w.wdata else 0,
                        b2n o.r.cmdValid, if o.r.cmdValid then o.r.cmdAddr else 0, b2n o.r.rdataReady, o.level, fsmNum o.fsm])
  | _, _ => (st, "bad-line")

structure FifoMonSt where
  mon : FifoSpec.Mon
  err : Option String := none
  cyc : Nat := 0

def optN (f v : Nat) : Option Nat := if f == 1 then some v else none

/-- FIFO specification monitor. cfg: depth ; cycle: inAcc inData outAcc outData wAcc wAddr rAcc rAddr ;
"999999" prints "left <pending> held <unread> max <maxHeld> delivered <n>" -/
def drvFifoMon (st : Option FifoMonSt) (xs : List Nat) : Option FifoMonSt × String :=
  match st, xs with
  | none, [depth] => (some { mon := { depth } }, "cfg")
  | some s, [999999] => (some s, s!"left {s.mon.pending.length} held {s.mon.unread.length} max {s.mon.maxHeld} delivered {s.mon.delivered}")
  | some s, [ia, id, oa, od, wa, wad, ra, rad] =>
    match s.err with
    | some e => (some s, e)
    | none =>
      match s.mon.step (optN ia id) (optN oa od) (optN wa wad) (optN ra rad) with
      | .ok m => (some { s with mon := m, cyc := s.cyc + 1 }, "ok")
      | .error e => let msg := s!"VIOL {s.cyc} {e}"; (some { s with err := some msg }, msg)
  | _, _ => (st, "bad-line")

/-- prints the input lines of the Lean witness (Spec/FifoWitness.lean) -/
def drvFifoWitness (_ : List Nat) : String :=
  ";".intercalate (FifoWitness.inputs.map fun i =>
    fmt [b2n i.sinkValid, i.sinkData, b2n i.srcReady, b2n i.wCmdReady, b2n i.wDataReady, b2n i.rCmdReady, b2n i.rDataValid, i.rData])
