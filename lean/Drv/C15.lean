import LitedramVerif.Model.Secded
import LitedramVerif.Model.EccPort
import Drv.Util
open DrvUtil Secded

def listStr (l : List Nat) : String := " ".intercalate (l.map toString)

/-- in: k ; out: "m n;dataPos;nsyn;cover_0|cover_1|..." -/
def drvC15pos (xs : List Nat) : String :=
  match xs with
  | [k] =>
    let n := computeN k
    let covers := (List.range (nsyn n)).map (fun i => listStr (cover n i))
    s!"{computeM k} {n};{listStr (dataPos n)};{listStr ((positions n).filter isPow2)};{"|".intercalate covers}"
  | _ => "bad-line"

def drvC15enc (xs : List Nat) : String :=
  match xs with
  | [k, d] => toString (encodeNat k d)
  | _ => "bad-line"

def drvC15dec (xs : List Nat) : String :=
  match xs with
  | [k, en, w] => let (d, s, e) := decodeNat k (n2b en) w; fmt [d, b2n s, b2n e]
  | _ => "bad-line"

def drvC15lw (xs : List Nat) : String :=
  match xs with
  | [lanes, kf, kt, valid, data, we] =>
    let (d, w, e) := laneWrite lanes kf kt (n2b valid) data we; fmt [d, w, b2n e]
  | _ => "bad-line"

def drvC15lr (xs : List Nat) : String :=
  match xs with
  | [lanes, kf, kt, en, valid, data] =>
    let (d, s, e) := laneRead lanes kf kt (n2b en) (n2b valid) data; fmt [d, s, e]
  | _ => "bad-line"

/-- first line: "lanes kf kt"; then per cycle "clear enable rvalid rdata wvalid wwe" -/
def drvC15port (st : Option (EccPort.Cfg × EccPort.State)) (xs : List Nat) :
    Option (EccPort.Cfg × EccPort.State) × String :=
  match st, xs with
  | none, [lanes, kf, kt] => (some ({ lanes, kf, kt }, {}), "cfg")
  | some (c, s), [clear, en, rv, rd, wv, wwe] =>
    let s' := EccPort.step c s ⟨n2b clear, n2b en, n2b rv, rd, n2b wv, wwe⟩
    (some (c, s'), fmt [s'.secErrors, s'.dedErrors, s'.weErrors, b2n s'.secDetected, b2n s'.dedDetected])
  | _, _ => (st, "bad-line")
