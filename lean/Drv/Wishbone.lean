import LitedramVerif.Model.Wishbone
import Drv.Util
open DrvUtil
open Wishbone

def fmtWb (o : WbOut) (q : PortReq) : String :=
  fmt [b2n o.ack, if o.ack then o.datR else 0, b2n q.cmdValid, b2n (q.cmdValid && q.cmdWe), if q.cmdValid then q.cmdAddr else 0,
       b2n (q.cmdValid && q.cmdLast), b2n q.flush, b2n q.wValid, if q.wValid then q.wData else 0, if q.wValid then q.wWe else 0, b2n q.rReady]

/-- Wishbone2Native, equal/wider bus. cfg: aw offset wider ; cycle: cyc stb we adr sel datW cti cmdReady wReady rValid rData
out: ack datR cmdValid cmdWe cmdAddr cmdLast flush wValid wData wWe rReady -/
def drvWbW2N (st : Option (W2N.Cfg × W2N.State)) (xs : List Nat) : Option (W2N.Cfg × W2N.State) × String :=
  match st, xs with
  | none, [aw, offset, wider] => (some ({ aw, offset, wider := n2b wider }, {}), "cfg")
  | some (c, s), [cyc, stb, we, adr, sel, dw, cti, cr, wr, rv, rd] =>
    let i : WbIn := ⟨n2b cyc, n2b stb, n2b we, adr, sel, dw, cti⟩
    let q := W2N.portReq c s i
    let (s', o) := W2N.step c s i ⟨n2b cr, n2b wr, n2b rv, rd⟩
    (some (c, s'), fmtWb o q)
  | _, _ => (st, "bad-line")

/-- burst up-converter. cfg: aw adrBits offset ratio ratioBits dw -/
def drvWbUp (st : Option (Up.Cfg × Up.State)) (xs : List Nat) : Option (Up.Cfg × Up.State) × String :=
  match st, xs with
  | none, [aw, adrBits, offset, ratio, ratioBits, dw] => (some ({ aw, adrBits, offset, ratio, ratioBits, dw }, {}), "cfg")
  | some (c, s), [cyc, stb, we, adr, sel, dw, cti, cr, wr, rv, rd] =>
    let i : WbIn := ⟨n2b cyc, n2b stb, n2b we, adr, sel, dw, cti⟩
    let q := Up.portReq c s i
    let (s', o) := Up.step c s i ⟨n2b cr, n2b wr, n2b rv, rd⟩
    (some (c, s'), fmtWb o q)
  | _, _ => (st, "bad-line")

/-- Native2Wishbone. cfg: dw base byteAddressing selBits adrBits ; cycle: cmdValid cmdWe cmdAddr wValid wData wWe ack datR
out: cmdReady wReady rValid rData cyc stb we adr sel datW -/
def drvWbN2W (st : Option (N2W.Cfg × N2W.State)) (xs : List Nat) : Option (N2W.Cfg × N2W.State) × String :=
  match st, xs with
  | none, [dw, base, ba, selBits, adrBits] => (some ({ dw, base, byteAddressing := n2b ba, selBits, adrBits }, {}), "cfg")
  | some (c, s), [cv, cw, ca, wv, wd, ww, ack, dr] =>
    let (s', o) := N2W.step c s ⟨n2b cv, n2b cw, ca, n2b wv, wd, ww, n2b ack, dr⟩
    (some (c, s'), fmt [b2n o.cmdReady, b2n o.wReady, b2n o.rValid, o.rData, b2n o.cyc, b2n o.stb, b2n o.we,
                        if o.cyc then o.adr else 0, if o.cyc then o.sel else 0, if o.cyc then o.datW else 0])
  | _, _ => (st, "bad-line")
