import LitedramVerif.Model.Timing
import Drv.Util
open DrvUtil Timing

def parseRaw : List Nat → Option (Raw × List Nat)
  | kind :: cN :: cn :: cd :: nN :: nn :: nd :: rest =>
    let r : Raw := match kind with
      | 0 => .none
      | 1 => .scalar ⟨nn, nd⟩
      | _ => .pair (if cN == 1 then none else some ⟨cn, cd⟩) (if nN == 1 then none else some ⟨nn, nd⟩)
    some (r, rest)
  | _ => none

def parseRaws : Nat → List Nat → Option (List Raw)
  | 0, [] => some []
  | 0, _ => none
  | k + 1, xs => do
    let (r, rest) ← parseRaw xs
    let rs ← parseRaws k rest
    return r :: rs

def optStr : Option Nat → String
  | none => "none"
  | some k => toString k

/-- in: f n  then 11 raws (tRP tRCD tWR tREFI tRFC tWTR tFAW tCCD tRRD tRAS tZQCS), 7 numbers each;
out: the 12 TimingSettings fields in constructor order -/
def drvC16 (xs : List Nat) : String :=
  match xs with
  | f :: n :: rest =>
    match parseRaws 11 rest with
    | some [tRP, tRCD, tWR, tREFI, tRFC, tWTR, tFAW, tCCD, tRRD, tRAS, tZQCS] =>
      let s := settings { tRP, tRCD, tWR, tREFI, tRFC, tWTR, tFAW, tCCD, tRRD, tRAS, tZQCS } ⟨f, n⟩
      " ".intercalate ([s.tRP, s.tRCD, s.tWR, s.tREFI, s.tRFC, s.tWTR, s.tFAW, s.tCCD, s.tRRD, s.tRC, s.tRAS, s.tZQCS].map optStr)
    | _ => "bad-line"
  | _ => "bad-line"
