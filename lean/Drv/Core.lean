import LitedramVerif.Model.BankMachine
import LitedramVerif.Model.Refresher
import LitedramVerif.Model.Controller
import LitedramVerif.Model.Core
import LitedramVerif.Model.LiveBound
import Drv.Util
open DrvUtil

/-- Refresher driver. cfg: tREFI tRP tRFC hasZq tZQCS zqPeriod postponing withRefresh abits ; per cycle: ready.
Prints the combinational outputs *before* the edge: valid last a ba cas ras we -/
def drvRefresher (st : Option (Refresher.Cfg × Refresher.State)) (xs : List Nat) :
    Option (Refresher.Cfg × Refresher.State) × String :=
  match st, xs with
  | none, [tREFI, tRP, tRFC, hasZq, tZQCS, zqPeriod, postponing, wr, abits] =>
    let c : Refresher.Cfg := { tREFI, tRP, tRFC, tZQCS := if hasZq == 1 then some tZQCS else none, zqPeriod, postponing,
                               withRefresh := n2b wr, abits }
    (some (c, Refresher.init c), "cfg")
  | some (c, s), [ready] =>
    let o := Refresher.out c s
    (some (c, Refresher.step c s (n2b ready)), fmt [b2n o.valid, b2n o.last, o.a, o.ba, b2n o.cas, b2n o.ras, b2n o.we])
  | _, _ => (st, "bad-line")

/-- BankMachine driver. cfg: depth hasRAS tRAS hasRC tRC twtp tRCD tRP colbits rowbits align abits ap ;
per cycle: valid we addr refresh ready. Prints the 13 combinational outputs. -/
def drvBankMachine (st : Option (BankMachine.Cfg × BankMachine.State)) (xs : List Nat) :
    Option (BankMachine.Cfg × BankMachine.State) × String :=
  match st, xs with
  | none, [depth, hasRAS, tRAS, hasRC, tRC, twtp, tRCD, tRP, colbits, rowbits, align, abits, ap] =>
    let c : BankMachine.Cfg := { depth, tRAS := if hasRAS == 1 then some tRAS else none, tRC := if hasRC == 1 then some tRC else none,
                                 twtp, tRCD, tRP, colbits, rowbits, align, abits, ap := n2b ap }
    (some (c, BankMachine.State.init c), "cfg")
  | some (c, s), [v, we, addr, rf, rdy] =>
    let (s', o) := BankMachine.step c s ⟨n2b v, n2b we, addr, n2b rf, n2b rdy⟩
    (some (c, s'), fmt [b2n o.reqReady, b2n o.lock, b2n o.wdataReady, b2n o.rdataValid, b2n o.refreshGnt, b2n o.cmdValid, o.a,
                        b2n o.cas, b2n o.ras, b2n o.we, b2n o.isCmd, b2n o.isRead, b2n o.isWrite])
  | _, _ => (st, "bad-line")

/-- Controller driver. cfg line (28 numbers):
 nbm bankbits rankbits nphases rdphase wrphase | depth hasRAS tRAS hasRC tRC twtp tRCD tRP colbits rowbits align abits ap |
 tREFI tRFC hasZq tZQCS zqPeriod postponing withRefresh | hasRRD tRRD hasFAW tFAW tCCD twtr readTime writeTime readLatency
per cycle: nbm × (valid we addr).
Output: per bank "ready lock wdataReady rdataValid" (combinational), then per phase the *registered* DFI values before the edge:
"csN bank address casN rasN weN rddataEn wrdataEn". -/
def drvController (st : Option (Controller.Cfg × Controller.State)) (xs : List Nat) :
    Option (Controller.Cfg × Controller.State) × String :=
  match st, xs with
  | none, cfg =>
    let g := fun (k : Nat) => cfg.toArray.getD k 0
    let nbm := g 0; let bankbits := g 1; let rankbits := g 2; let nphases := g 3; let rdphase := g 4; let wrphase := g 5
    let depth := g 6; let hasRAS := g 7; let tRAS := g 8; let hasRC := g 9; let tRC := g 10; let twtp := g 11; let tRCD := g 12
    let tRP := g 13; let colbits := g 14; let rowbits := g 15; let align := g 16; let abits := g 17; let ap := g 18
    let tREFI := g 19; let tRFC := g 20; let hasZq := g 21; let tZQCS := g 22; let zqPeriod := g 23; let postponing := g 24
    let withRefresh := g 25; let hasRRD := g 26; let tRRD := g 27; let hasFAW := g 28; let tFAW := g 29; let tCCD := g 30
    let twtr := g 31; let readTime := g 32; let writeTime := g 33; let readLatency := g 34
    let bm : BankMachine.Cfg := { depth, tRAS := if hasRAS == 1 then some tRAS else none, tRC := if hasRC == 1 then some tRC else none,
                                  twtp, tRCD, tRP, colbits, rowbits, align, abits, ap := n2b ap }
    let rf : Refresher.Cfg := { tREFI, tRP, tRFC, tZQCS := if hasZq == 1 then some tZQCS else none, zqPeriod, postponing,
                                withRefresh := n2b withRefresh, abits }
    let c : Controller.Cfg := { nbm, bankbits, rankbits, nphases, rdphase, wrphase, bm, rf,
                                tRRD := if hasRRD == 1 then some tRRD else none, tFAW := if hasFAW == 1 then some tFAW else none,
                                tCCD, twtr, readTime, writeTime, readLatency }
    (some (c, Controller.init c), (if Controller.wf2Check c then "cfg wf2=1" else "cfg wf2=0") ++ " psimax=" ++ toString (CtlLive.psiMax c) ++ " budget=" ++ (if RefreshRate.budgetCheck c then "1" else "0"))
  | some (c, s), xs =>
    let arr := xs.toArray
    let ins := (Array.range c.nbm).map fun i => ({ valid := n2b (arr.getD (3*i) 0), we := n2b (arr.getD (3*i+1) 0), addr := arr.getD (3*i+2) 0 } : Controller.BankIn)
    let (s', outs) := Controller.step c s ins
    let bo := outs.toList.flatMap fun o => [b2n o.ready, b2n o.lock, b2n o.wdataReady, b2n o.rdataValid]
    let po := s.dfi.toList.flatMap fun p => [p.csN, p.bank, p.address, b2n p.casN, b2n p.rasN, b2n p.weN, b2n p.rddataEn, b2n p.wrdataEn]
    (some (c, s'), fmt (bo ++ po))

/-- Whole-core driver. cfg line = the 35 controller numbers, then: nmasters bba burst phaseBits wl rl.
per cycle: nmasters × (cmdValid cmdWe cmdAddr wdata wdataWe).
Output: per master "cmdReady wdataReady rdataValid rdata", then per phase the DFI command registers (8 numbers). -/
def drvCore (st : Option (Core.Cfg × Core.State)) (xs : List Nat) : Option (Core.Cfg × Core.State) × String :=
  match st, xs with
  | none, cfg =>
    match (drvController none (cfg.take 35)).1 with
    | some (cc, _) =>
      let g := fun (k : Nat) => cfg.toArray.getD (35 + k) 0
      let nmasters := g 0; let bba := g 1; let burst := g 2; let phaseBits := g 3; let wl := g 4; let rl := g 5
      let geom : AddrMap.Geom := { bankbits := cc.bankbits, rowbits := cc.bm.rowbits, colbits := cc.bm.colbits, align := cc.bm.align,
                                   rankbits := cc.rankbits, bba }
      let xb : Crossbar.Cfg := { nmasters, nbanks := cc.nbm, geom, wlat := wl + 1, rlat := rl + 1 }
      let phy : SimPhy.Cfg := { nphases := cc.nphases, nbanks := 2 ^ cc.bankbits, rowbits := cc.bm.rowbits, colbits := cc.bm.colbits,
                                burst, phaseBits, writeLatency := wl, readLatency := rl, weGranularity := 8 }
      let c : Core.Cfg := { xb, ctl := cc, phy }
      (some (c, Core.init c), "cfg")
    | none => (none, "bad-cfg")
  | some (c, s), xs =>
    let arr := xs.toArray
    let ms := (Array.range c.xb.nmasters).map fun i =>
      ({ cmdValid := n2b (arr.getD (5*i) 0), cmdWe := n2b (arr.getD (5*i+1) 0), cmdAddr := arr.getD (5*i+2) 0,
         wdata := arr.getD (5*i+3) 0, wdataWe := arr.getD (5*i+4) 0 } : Crossbar.MasterIn)
    let (s', mo, dfi) := Core.step c s ms
    let a := mo.toList.flatMap fun o => [b2n o.cmdReady, b2n o.wdataReady, b2n o.rdataValid, o.rdata]
    let po := dfi.toList.flatMap fun p => [p.csN, p.bank, p.address, b2n p.casN, b2n p.rasN, b2n p.weN, b2n p.rddataEn, b2n p.wrdataEn]
    (some (c, s'), fmt (a ++ po))
