import LitedramVerif.Model.InitSeq
import LitedramVerif.Spec.JedecMR
import Drv.Util
open DrvUtil InitSeq

def pairsStr (l : List (Nat × Nat)) : String := " ".intercalate (l.map fun (b, v) => s!"{b}:{v}")

/-- in: mem cl cwl nphases tWTR ron rttNom rttWr tdqs frm o3 o11a o11b o12a o12b o14a o14b
mem: 0 SDR 1 DDR 2 LPDDR 3 DDR2 4 DDR3 5 DDR4 6 LPDDR4.  out: the MODE_REGISTER writes "ba:value ..." in
sequence order, or "keyerror". -/
def drvC17mr (xs : List Nat) : String :=
  match xs with
  | [mem, cl, cwl, nph, tWTR, ron, rttNom, rttWr, tdqs, frm, o3, o11a, o11b, o12a, o12b, o14a, o14b] =>
    match mem with
    | 0 => let m := mrBasic nph cl; pairsStr [(0, m + resetDll), (0, m)]
    | 1 => let m := mrBasic 4 cl; pairsStr [(1, 0), (0, m + resetDll), (0, m)]
    | 2 => let m := mrBasic 4 cl; pairsStr [(2, 0), (0, m + resetDll), (0, m)]
    | 3 => let m := ddr2Mr cl; pairsStr [(3, 0), (2, 0), (1, 0), (0, m + resetDll), (0, m), (1, 7 <<< 7), (1, 0)]
    | 4 =>
      match ddr3Mr0 8 cl (ddr3Wr tWTR nph) 1 with
      | some m0 => pairsStr [(2, ddr3Mr2 cwl rttWr), (3, 0), (1, ddr3Mr1 ron rttNom tdqs), (0, m0)]
      | none => "keyerror"
    | 5 =>
      match ddr4Mr0 8 cl (ddr4Wr tWTR nph) 1, ddr4Mr2 cwl rttWr, ddr4Mr6 4 with
      | some m0, some m2, some m6 =>
        pairsStr [(3, ddr4Mr3 frm), (6, m6), (5, ddr4Mr5), (4, 0), (2, m2), (1, ddr4Mr1 1 ron rttNom tdqs), (0, m0)]
      | _, _, _ => "keyerror"
    | 6 =>
      match lpddr4Nwr cl cwl with
      | none => "keyerror"
      | some nwr =>
        let env : Nat → Nat := fun v => [16, nwr, cl, cwl].getD v 0
        let other : Nat → Nat → Nat := fun k sh =>
          match k, sh with
          | 3, _ => o3 | 11, 0 => o11a | 11, _ => o11b | 12, 0 => o12a | 12, _ => o12b | 14, 0 => o14a | 14, _ => o14b
          | _, _ => 0
        let ks := [1, 2, 3, 11, 12, 13, 14]
        match ks.mapM (fun k => (lpddr4Mr k env other).map fun v => (k, v)) with
        | some l => pairsStr l
        | none => "keyerror"
    | _ => "bad-mem"
  | _ => "bad-line"

def optS : Option Nat → String
  | some v => toString v
  | none => "none"

/-- JEDEC decode of mode-register values. in: mem mr0 mr1 mr2 ; out: "bl cl cwl wr" ("-" where not applicable) -/
def drvC17dec (xs : List Nat) : String :=
  match xs with
  | [mem, m0, m1, m2] =>
    match mem with
    | 0 | 1 | 2 => s!"{optS (JedecMR.basicBL m0)} {JedecMR.basicCL m0} - -"
    | 3 => s!"{optS (JedecMR.basicBL m0)} {JedecMR.basicCL m0} - {JedecMR.ddr2WR m0}"
    | 4 => s!"{optS (JedecMR.ddr3BL m0)} {optS (JedecMR.ddr3CL m0)} {JedecMR.ddr3CWL m2} {optS (JedecMR.ddr3WR m0)}"
    | 5 => s!"{optS (JedecMR.ddr4BL m0)} {optS (JedecMR.ddr4CL m0)} {optS (JedecMR.ddr4CWL m2)} {optS (JedecMR.ddr4WR m0)}"
    | 6 => s!"{optS (JedecMR.lpddr4BL m1)} {optS (JedecMR.lpddr4RL m2)} {optS (JedecMR.lpddr4WL m2)} {optS (JedecMR.lpddr4NWR m1)}"
    | _ => "bad-mem"
  | _ => "bad-line"

/-- JEDEC decode of the electrical fields of DDR3/DDR4 MR1/MR2. in: mem mr1 mr2 ;
out: "ron rtt_nom tdqs rtt_wr special" (special = write-levelling/Qoff/DLL-off/AL bits, 0 in normal operation) -/
def drvC17elec (xs : List Nat) : String :=
  match xs with
  | [4, m1, m2] => s!"{JedecMR.ddr3Ron m1} {JedecMR.ddr3RttNom m1} {JedecMR.ddr3Tdqs m1} {JedecMR.ddr3RttWr m2} {JedecMR.ddr3Special m1}"
  | [5, m1, m2] => s!"{JedecMR.ddr4Ron m1} {JedecMR.ddr4RttNom m1} {JedecMR.ddr4Tdqs m1} {JedecMR.ddr4RttWr m2} {JedecMR.ddr4Special m1}"
  | _ => "bad-line"
