/-! Line-protocol helpers shared by all drivers. Lines are space-separated naturals. -/
namespace DrvUtil

def parseLine (line : String) : List Nat :=
  (line.trimAscii.toString.splitOn " ").filterMap (fun s => if s.isEmpty then none else s.toNat?)

def b2n (b : Bool) : Nat := if b then 1 else 0
def n2b (n : Nat) : Bool := n != 0

def fmt (xs : List Nat) : String := " ".intercalate (xs.map toString)

/-- Stateless: map every input line through `f`. -/
partial def mapLines (h : IO.FS.Stream) (out : IO.FS.Stream) (f : List Nat → String) : IO Unit := do
  let line ← h.getLine
  if line.isEmpty then return ()
  out.putStrLn (f (parseLine line))
  mapLines h out f

/-- Stateful: thread a state through the lines. -/
partial def foldLines {σ : Type} (h : IO.FS.Stream) (out : IO.FS.Stream) (s : σ)
    (f : σ → List Nat → σ × String) : IO Unit := do
  let line ← h.getLine
  if line.isEmpty then return ()
  let (s', o) := f s (parseLine line)
  out.putStrLn o
  foldLines h out s' f

end DrvUtil
