import LitedramVerif.Model.SimPhy
import LitedramVerif.Spec.DramData
import LitedramVerif.Props.C19_Phy
import Drv.Util
open DrvUtil

/-- initial image: 32-bit little-endian words → the data word (width `dw` bits) at linear word index `k` -/
def imgWord (img : Array Nat) (dw : Nat) (k : Nat) : Nat :=
  if dw ≥ 32 then
    let r := dw / 32
    (List.range r).foldl (fun acc j => acc ||| ((img.getD (k * r + j) 0) <<< (32 * j))) 0
  else
    let per := 32 / dw
    ((img.getD (k / per) 0) >>> (dw * (k % per))) % 2 ^ dw

/-- linear word index of (bank,row,burst) under the address mapping: 0 = ROW_BANK_COL, 1 = BANK_ROW_COL -/
def linIndex (mapping nbanks nrows wordsPerRow bank row burst : Nat) : Nat :=
  if mapping == 0 then (row * nbanks + bank) * wordsPerRow + burst
  else (bank * nrows + row) * wordsPerRow + burst

structure PhyDrv where
  sc : SimPhy.Cfg
  ss : SimPhy.State
  rc : DramData.Cfg
  rs : DramData.State
  nrows : Nat
  wpr : Nat
  mode : Nat := 0

/-- Drives the transcription (`Model/SimPhy`) and the independent reference (`Spec/DramData`) side by side.
cfg: nphases nbanks rowbits colbits burst phaseBits WL RL weGran mapping ninit init...
per cycle: nphases × (csN rasN casN weN bank address wrdata mask)
out: "<sim valid> <sim data> <ref valid> <ref data> <ref err flag>"; a line "999999" dumps "simmem ..." ; "999998" dumps "refmem ..." -/
def drvPhy (st : Option PhyDrv) (xs : List Nat) : Option PhyDrv × String :=
  match st, xs with
  | none, nphases :: nbanks :: rowbits :: colbits :: burst :: phaseBits :: wl :: rl :: weGran :: mapping :: ninit :: rest =>
    let img := (rest.take ninit).toArray
    let sc : SimPhy.Cfg := { nphases, nbanks, rowbits, colbits, burst, phaseBits, writeLatency := wl, readLatency := rl, weGranularity := weGran }
    let dw := phaseBits * nphases
    let nrows := 2 ^ rowbits
    let wpr := 2 ^ colbits / (burst * nphases)
    let rc : DramData.Cfg := { nphases, nbanks, rowbits, colbits, burstCols := burst * nphases, phaseBits, writeLatency := wl,
                               readLatency := rl, byteMasks := weGran != 0 }
    -- the *reference* lays the image out by the documented mapping; the transcription replays `__prepare_bank_init_data`
    let refInit : DramData.Loc → Nat := fun l => if ninit == 0 then 0 else imgWord img dw (linIndex mapping nbanks nrows wpr l.bank l.row l.burst)
    let simInit : Nat → Array Nat := fun b =>
      if ninit == 0 then #[] else
      (Array.range (nrows * wpr)).map fun idx =>
        imgWord img dw (linIndex mapping nbanks nrows wpr b (idx / wpr) (idx % wpr))
    (some { sc, ss := SimPhy.init sc simInit, rc, rs := DramData.init refInit, nrows, wpr, mode := (rest.drop ninit).headD 0 }, "cfg")
  | some d, 999999 :: idxs =>      -- idxs: global word indices bank·(nrows·wpr) + row·wpr + burst
    let per := d.nrows * d.wpr
    (some d, "simmem " ++ fmt (idxs.map fun g => (d.ss.banks[g / per]!).mem.getD (g % per) 0))
  | some d, 999998 :: idxs =>
    let per := d.nrows * d.wpr
    (some d, "refmem " ++ fmt (idxs.map fun g => d.rs.mem ⟨g / per, (g % per) / d.wpr, (g % per) % d.wpr⟩))
  | some d, xs =>
    let arr := xs.toArray
    let sp : List SimPhy.Phase := (List.range d.sc.nphases).map fun i =>
      let b := 8 * i
      { csN := arr.getD b 1, rasN := n2b (arr.getD (b+1) 1), casN := n2b (arr.getD (b+2) 1), weN := n2b (arr.getD (b+3) 1),
        bank := arr.getD (b+4) 0, address := arr.getD (b+5) 0, wrdata := arr.getD (b+6) 0, wrdataMask := arr.getD (b+7) 0 }
    let rp : List DramData.Phase := sp.map fun p => { csN := p.csN, rasN := p.rasN, casN := p.casN, weN := p.weN, bank := p.bank,
                                                       address := p.address, wrdata := p.wrdata, wrdataMask := p.wrdataMask }
    let (ss', so) := if d.mode == 2 then (d.ss, ⟨false, 0⟩) else SimPhy.step d.sc d.ss sp
    let (rs', ro) := if d.mode == 1 then (d.rs, ⟨false, 0⟩) else DramData.step d.rc d.rs rp
    (some { d with ss := ss', rs := rs' }, fmt [b2n so.rddataValid, so.rddata, b2n ro.valid, ro.data, b2n rs'.err.isSome] ++ (match rs'.err with | some e => " " ++ e.replace " " "_" | none => ""))
  | _, _ => (st, "bad-line")


structure ADramDrv where
  sc : SimPhy.Cfg
  k : Nat
  s : C19.ADram
  legal : Bool := true      -- every cycle so far met `C19.cycLegal`

/-- Drives the abstract multi-bank DRAM of `C19.simphy_refines_abstract_dram` (Props/C19_Phy.lean) and evaluates the theorem's
legality hypothesis cycle by cycle.  Same cfg / cycle lines as `drvPhy`.  out: "<valid> <data> <legal so far>" -/
def drvADram (st : Option ADramDrv) (xs : List Nat) : Option ADramDrv × String :=
  match st, xs with
  | none, nphases :: nbanks :: rowbits :: colbits :: burst :: phaseBits :: wl :: rl :: weGran :: mapping :: ninit :: rest =>
    let img := (rest.take ninit).toArray
    let sc : SimPhy.Cfg := { nphases, nbanks, rowbits, colbits, burst, phaseBits, writeLatency := wl, readLatency := rl, weGranularity := weGran }
    let dw := phaseBits * nphases
    let nrows := 2 ^ rowbits
    let wpr := 2 ^ colbits / (burst * nphases)
    let simInit : Nat → Array Nat := fun b =>
      if ninit == 0 then #[] else
      (Array.range (nrows * wpr)).map fun idx =>
        imgWord img dw (linIndex mapping nbanks nrows wpr b (idx / wpr) (idx % wpr))
    let k := Nat.log2 (burst * nphases)
    let ok := (burst * nphases == 2 ^ k) && decide (k ≤ colbits)
    (some { sc, k, s := C19.aDramInit sc k simInit, legal := ok }, if ok then "cfg wf=1" else "cfg wf=0")
  | some d, xs =>
    let arr := xs.toArray
    let sp : List SimPhy.Phase := (List.range d.sc.nphases).map fun i =>
      let b := 8 * i
      { csN := arr.getD b 1, rasN := n2b (arr.getD (b+1) 1), casN := n2b (arr.getD (b+2) 1), weN := n2b (arr.getD (b+3) 1),
        bank := arr.getD (b+4) 0, address := arr.getD (b+5) 0, wrdata := arr.getD (b+6) 0, wrdataMask := arr.getD (b+7) 0 }
    let lg := d.legal && ((List.range d.sc.nbanks).all fun nb => C19.cycOkB sp nb && C19.legalOpB d.sc (d.s.abanks nb) (C19.cmdFor d.sc sp nb))
    let (s', o) := C19.aDramStep d.sc d.k d.s sp
    -- `aDramStep` returns the banks as a function built on the previous state's function: tabulate it every cycle (same values
    -- for every bank index < nbanks, the only ones ever asked for), otherwise a lookup costs one closure per elapsed cycle
    let tbl := (Array.range d.sc.nbanks).map s'.abanks
    let dflt : C19.ABank := { openRow := none, mem := fun _ _ => 0, inflight := [] }
    (some { d with s := { s' with abanks := fun nb => tbl.getD nb dflt }, legal := lg }, fmt [b2n o.rddataValid, o.rddata, b2n lg])
  | _, _ => (st, "bad-line")
