import LitedramVerif.Model.Axi
import LitedramVerif.Spec.AxiSpec
import Drv.Util
open DrvUtil

/-- AXI2Native (no RMW). cfg: aw paw ashift base wDepth rDepth rmw nb
cycle: awValid addr burst len size id  wValid data strb last  bReady  arValid addr burst len size id  rReady  cmdReady wdataReady rdataValid rdata
out: awReady wReady bValid bId arReady rValid rData rId rLast cmdValid cmdWe cmdAddr cmdLast wdataValid wdata wdataWe rdataReady -/
def drvAxi (st : Option (Axi.Cfg × Axi.State)) (xs : List Nat) : Option (Axi.Cfg × Axi.State) × String :=
  match st, xs with
  | none, [aw, paw, ashift, base, wDepth, rDepth, rmw, nb] => (let c : Axi.Cfg := { aw, paw, ashift, base, wDepth, rDepth, rmw := n2b rmw, nb }; (some (c, Axi.State.init c), "cfg"))
  | some (c, s), [awv, awa, awb, awl, aws, awi, wv, wd, ws, wl, br, arv, ara, arb, arl, ars, ari, rr, cr, wr, rv, rd] =>
    let i : Axi.In := { awValid := n2b awv, aw := ⟨awa, awb, awl, aws, awi⟩, wValid := n2b wv, w := ⟨wd, ws, n2b wl⟩, bReady := n2b br,
                        arValid := n2b arv, ar := ⟨ara, arb, arl, ars, ari⟩, rReady := n2b rr,
                        cmdReady := n2b cr, wdataReady := n2b wr, rdataValid := n2b rv, rdata := rd }
    let (s', o) := Axi.step c s i
    (some (c, s'), fmt [b2n o.awReady, b2n o.wReady, b2n o.bValid, if o.bValid then o.bId else 0, b2n o.arReady,
                        b2n o.rValid, if o.rValid then o.rData else 0, if o.rValid then o.rId else 0, b2n (o.rValid && o.rLast),
                        b2n o.cmdValid, b2n (o.cmdValid && o.cmdWe), if o.cmdValid then o.cmdAddr else 0, b2n (o.cmdValid && o.cmdLast),
                        b2n o.wdataValid, if o.wdataValid then o.wdata else 0, if o.wdataValid then o.wdataWe else 0, b2n o.rdataReady])
  | _, _ => (st, "bad-line")

structure AxiMonSt where
  mon : AxiSpec.Mon := {}
  err : Option String := none
  cyc : Nat := 0

/-- AXI response-rule monitor. cycle: awAcc awId awBeats bAcc bId arAcc arId arBeats rAcc rId rLast nativeW ;
"999999" prints "pending <write bursts> <read bursts> b <n> r <n>" -/
def drvAxiMon (st : Option AxiMonSt) (xs : List Nat) : Option AxiMonSt × String :=
  let s := st.getD {}
  match xs with
  | [999999] => (some s, s!"pending {s.mon.awQ.length} {s.mon.rQ.length} b {s.mon.bCount} r {s.mon.rCount}")
  | [awa, awi, awb, ba, bi, ara, ari, arb, ra, ri, rl, nw] =>
    match s.err with
    | some e => (some s, e)
    | none =>
      let e : AxiSpec.Ev := { aw := if awa == 1 then some (awi, awb) else none, b := if ba == 1 then some bi else none,
                              ar := if ara == 1 then some (ari, arb) else none, r := if ra == 1 then some (ri, n2b rl) else none,
                              nativeW := n2b nw }
      match s.mon.step e with
      | .ok m => (some { s with mon := m, cyc := s.cyc + 1 }, "ok")
      | .error msg => let t := s!"VIOL {s.cyc} {msg}"; (some { s with err := some t }, t)
  | _ => (some s, "bad-line")
