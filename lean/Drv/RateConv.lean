import LitedramVerif.Model.RateConv
import LitedramVerif.Spec.RateSpec
import Drv.Util
open DrvUtil RateConv

def parseCmd (a : Array Nat) (b : Nat) : Cmd :=
  { address := a.getD b 0, bank := a.getD (b+1) 0, casN := a.getD (b+2) 1, csN := a.getD (b+3) 1, rasN := a.getD (b+4) 1, weN := a.getD (b+5) 1,
    cke := a.getD (b+6) 0, odt := a.getD (b+7) 0, resetN := a.getD (b+8) 0, actN := a.getD (b+9) 1, wrdataEn := a.getD (b+10) 0, rddataEn := a.getD (b+11) 0 }

def cmdNums (c : Cmd) : List Nat := [c.address, c.bank, c.casN, c.csN, c.rasN, c.weN, c.cke, c.odt, c.resetN, c.actN, c.wrdataEn, c.rddataEn]

/-- Rate converter model, one line per fast tick.
cfg: ratio nph wdelay rdelay dbits
line: slow | per slow phase (12 cmd numbers, wrdata, wrmask) | per PHY phase (rddata rdvalid)
out (visible before the edge): per PHY phase (12 cmd numbers, wrdata, wrmask) | per slow phase (rddata rdvalid) -/
def drvRateConv (st : Option (Cfg × State)) (xs : List Nat) : Option (Cfg × State) × String :=
  match st, xs with
  | none, [ratio, nph, wdelay, rdelay, dbits] => let c : Cfg := { ratio, nph, wdelay, rdelay, dbits }; (some (c, init c), "cfg")
  | some (c, s), slow :: rest =>
    let a := rest.toArray
    let ns := c.ratio * c.nph
    let i : SlowIn := { cmds := (List.range ns).map fun q => parseCmd a (14 * q),
                        wrdata := (List.range ns).map fun q => a.getD (14 * q + 12) 0,
                        wrmask := (List.range ns).map fun q => a.getD (14 * q + 13) 0 }
    let rd := (List.range c.nph).map fun p => (a.getD (14 * ns + 2 * p) 0, a.getD (14 * ns + 2 * p + 1) 0)
    let fo := fastOut s
    let so := slowOut c s
    let out := (List.range c.nph).flatMap (fun p => cmdNums (fo.cmds.getD p default) ++ [fo.wrdata.getD p 0, fo.wrmask.getD p 0])
                ++ so.flatMap (fun x => [x.1, x.2])
    (some (c, step c s (n2b slow) i rd), fmt out)
  | _, _ => (st, "bad-line")

structure RateMonSt where
  c : RateSpec.Cfg
  samples : Array RateSpec.Sample := #[]
  vis : Array RateSpec.Visible := #[]

/-- Rate-converter specification monitor on observed behaviour.
cfg: ratio nph wdelay rdelay dbits ; one line per fast edge e:
  per slow phase (12 cmd numbers, wrdata, wrmask) | per PHY phase (rddata rdvalid)      -- sampled AT edge e
  | per PHY phase (12 cmd numbers, wrdata, wrmask) | per slow phase (rddata rdvalid)     -- visible BEFORE edge e
"999999" prints "ok" or "bad <edge> <clause>". -/
def drvRateMon (st : Option RateMonSt) (xs : List Nat) : Option RateMonSt × String :=
  match st, xs with
  | none, [ratio, nph, wdelay, rdelay, dbits] => (some { c := { ratio, nph, wdelay, rdelay, dbits } }, "cfg")
  | some s, [999999] =>
    match RateSpec.check s.c s.samples s.vis with
    | none => (some s, "ok")
    | some (e, m) => (some s, s!"bad {e} {m}")
  | some s, xs =>
    let a := xs.toArray
    let ns := s.c.ratio * s.c.nph
    let np := s.c.nph
    let smp : RateSpec.Sample :=
      { cmds := (Array.range ns).map fun q => (List.range 12).map fun k => a.getD (14 * q + k) 0
        wrdata := (Array.range ns).map fun q => a.getD (14 * q + 12) 0
        wrmask := (Array.range ns).map fun q => a.getD (14 * q + 13) 0
        phyRd := (Array.range np).map fun p => (a.getD (14 * ns + 2 * p) 0, a.getD (14 * ns + 2 * p + 1) 0) }
    let o := 14 * ns + 2 * np
    let v : RateSpec.Visible :=
      { phyCmds := (Array.range np).map fun p => (List.range 12).map fun k => a.getD (o + 14 * p + k) 0
        phyWr := (Array.range np).map fun p => (a.getD (o + 14 * p + 12) 0, a.getD (o + 14 * p + 13) 0)
        slowRd := (Array.range ns).map fun q => (a.getD (o + 14 * np + 2 * q) 0, a.getD (o + 14 * np + 2 * q + 1) 0) }
    (some { s with samples := s.samples.push smp, vis := s.vis.push v }, "")
  | _, _ => (st, "bad-line")
