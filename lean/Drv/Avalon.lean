import LitedramVerif.Model.Avalon
import LitedramVerif.Model.Adapter
import Drv.Util
open DrvUtil

/-- Avalon-MM front-end on a port of its own width. cfg: aw maxBurst offset inc
cycle: read write address burstcount byteenable writedata cmdReady wReady rValid rData
out: waitrequest readdatavalid readdata cmdValid cmdWe cmdAddr cmdLast wValid wData wWe rReady -/
def drvAvalon (st : Option (Avalon.Cfg × Avalon.State)) (xs : List Nat) : Option (Avalon.Cfg × Avalon.State) × String :=
  match st, xs with
  | none, [aw, maxBurst, offset, inc] => (some ({ aw, maxBurst, offset, inc }, {}), "cfg")
  | some (c, s), [rd, wr, a, bc, be, wd, cr, wrdy, rv, rdat] =>
    let i : Avalon.AvIn := ⟨n2b rd, n2b wr, a, bc, be, wd⟩
    let q := Avalon.portReq c s i
    let (s', o) := Avalon.step c s i ⟨n2b cr, n2b wrdy, n2b rv, rdat⟩
    (some (c, s'), fmt [b2n o.waitrequest, b2n o.readdatavalid, o.readdata, b2n q.cmdValid, b2n (q.cmdValid && q.cmdWe), if q.cmdValid then q.cmdAddr else 0, b2n (q.cmdValid && q.cmdLast),
                        b2n q.wValid, if q.wValid then q.wData else 0, if q.wValid then q.wWe else 0, b2n q.rReady])
  | _, _ => (st, "bad-line")
