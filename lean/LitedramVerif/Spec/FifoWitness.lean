/-
A concrete history on which the bypass FIFO delivers a word that never entered it (C13 known finding): the inputs
are defined once here, used by the theorem of Props/C13.lean and printed by the driver so that the harness replays the
very same inputs on the real LiteDRAMFIFO.   8-bit stream on 16-bit ports (ratio 2), depth 4 words, pre/post FIFOs of 4.
Seven words 1..7 enter while the consumer is blocked; words 5,6 travel through the DRAM, word 7 is half a DRAM word and
is flushed by the PUMP_PRECONVERTER state, which pads it with a zero that reaches the source.
-/
import LitedramVerif.Model.DramFifo
namespace FifoWitness
open DramFifo

def cfg : Cfg := { dw := 8, ratio := 2, withBypass := true, base := 0, depth := 4, preDepth := 4, postDepth := 4, addrBits := 8, modBits := 1 }

def mk (sv sd sr wcr wdr rcr rdv rd : Nat) : In :=
  { sinkValid := sv != 0, sinkData := sd, srcReady := sr != 0, wCmdReady := wcr != 0, wDataReady := wdr != 0,
    rCmdReady := rcr != 0, rDataValid := rdv != 0, rData := rd }

def inputs : List In :=
  [mk 1 1 0 1 0 1 0 0,
   mk 1 2 0 1 0 1 0 0,
   mk 1 3 0 1 0 1 0 0,
   mk 1 4 0 1 0 1 0 0,
   mk 1 5 0 1 0 1 0 0,
   mk 1 6 0 1 0 1 0 0,
   mk 1 7 0 1 0 1 0 0,
   mk 0 0 0 1 0 1 0 0,
   mk 0 0 1 1 0 1 0 0,
   mk 0 0 0 1 0 1 0 0,
   mk 0 0 1 1 0 1 0 0,
   mk 0 0 0 1 0 1 0 0,
   mk 0 0 1 1 0 1 0 0,
   mk 0 0 0 1 0 1 0 0,
   mk 0 0 1 1 0 1 0 0,
   mk 0 0 1 1 0 1 0 0,
   mk 0 0 1 1 0 1 0 0,
   mk 0 0 1 1 0 1 0 0,
   mk 0 0 1 1 0 1 0 0,
   mk 0 0 1 1 0 1 0 0,
   mk 0 0 1 1 0 1 0 0,
   mk 0 0 1 1 1 1 0 0,
   mk 0 0 1 1 0 1 0 0,
   mk 0 0 1 1 0 1 0 0,
   mk 0 0 1 1 0 1 0 0,
   mk 0 0 1 1 0 1 0 0,
   mk 0 0 1 1 0 1 0 0,
   mk 0 0 1 1 0 1 0 0,
   mk 0 0 1 1 0 1 0 0,
   mk 0 0 1 1 0 1 0 0,
   mk 0 0 1 1 0 1 0 0,
   mk 0 0 1 1 0 1 0 0,
   mk 0 0 1 1 0 1 1 1541,
   mk 0 0 1 1 0 1 0 0,
   mk 0 0 1 1 0 1 0 0,
   mk 0 0 1 1 0 1 0 0,
   mk 0 0 1 1 0 1 0 0,
   mk 0 0 1 1 0 1 0 0,
   mk 0 0 1 1 0 1 0 0,
   mk 0 0 1 1 0 1 0 0,
   mk 0 0 1 1 0 1 0 0,
   mk 0 0 1 1 0 1 0 0,
   mk 0 0 1 1 0 1 0 0,
   mk 0 0 1 1 0 1 0 0]

/-- (words accepted at the sink, words delivered at the source) over a run -/
def streams (c : Cfg) : State → List In → List Nat × List Nat
  | _, [] => ([], [])
  | s, i :: is =>
    let o := (step c s i).2
    let rest := streams c (step c s i).1 is
    ((if i.sinkValid && o.sinkReady then i.sinkData :: rest.1 else rest.1),
     (if o.srcValid && i.srcReady then o.srcData :: rest.2 else rest.2))

end FifoWitness
