/-
AXI4 response rules of C09, over what is observable on the five channels and on the native write-data channel:
 * one write response per write burst, in address order, carrying the burst's ID, and not before all the burst's data
   beats have been handed to the memory side;
 * every read burst returns exactly `len+1` beats, in request order, each carrying the burst's ID, LAST on the final one.
(The data itself is judged by Spec/PortMemory.lean.)
-/
namespace AxiSpec

structure Mon where
  awQ : List (Nat × Nat) := []      -- write bursts accepted, not yet responded: (id, beats)
  responded : Nat := 0              -- beats of the bursts already responded
  nativeW : Nat := 0                -- write-data beats handed to the native port so far
  rQ : List (Nat × Nat) := []       -- read bursts accepted, beats still owed: (id, beats left)
  bCount : Nat := 0
  rCount : Nat := 0
deriving Repr

structure Ev where
  aw : Option (Nat × Nat) := none   -- AW accepted: (id, beats)
  b : Option Nat := none            -- B accepted: id
  ar : Option (Nat × Nat) := none   -- AR accepted: (id, beats)
  r : Option (Nat × Bool) := none   -- R accepted: (id, last)
  nativeW : Bool := false           -- native wdata handshake
deriving Repr

def Mon.step (m : Mon) (e : Ev) : Except String Mon := do
  let mut m := m
  if let some a := e.aw then m := { m with awQ := m.awQ ++ [a] }
  if e.nativeW then m := { m with nativeW := m.nativeW + 1 }
  if let some id := e.b then
    match m.awQ with
    | [] => throw s!"write response (id {id}) without a write burst awaiting one"
    | (hid, hb) :: rest =>
      if hid != id then throw s!"write response carries id {id}, the oldest unanswered write burst has id {hid}"
      if m.nativeW < m.responded + hb then
        throw s!"write response for a burst of {hb} beats given after only {m.nativeW - m.responded} of them were handed to the memory"
      m := { m with awQ := rest, responded := m.responded + hb, bCount := m.bCount + 1 }
  if let some a := e.ar then m := { m with rQ := m.rQ ++ [a] }
  if let some (id, last) := e.r then
    match m.rQ with
    | [] => throw s!"read beat (id {id}) without a read burst in flight"
    | (hid, left) :: rest =>
      if hid != id then throw s!"read beat carries id {id}, the burst being answered has id {hid}"
      if last != (left == 1) then throw s!"read beat with LAST={last} while {left} beats of the burst are owed"
      m := { m with rQ := if left ≤ 1 then rest else (hid, left - 1) :: rest, rCount := m.rCount + 1 }
  return m

end AxiSpec
