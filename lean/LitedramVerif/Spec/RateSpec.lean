/-
Specification of the DFI rate converter (C18), over the two interfaces only.
Slow cycle `t` (t = 0 is the first slow edge) presents commands on `ratio·P` slow phases.  The PHY-side
(fast) interface has `P` phases; fast cycle `f` counts fast clock periods, the slow edges are the
fast edges `f ≡ 0 (mod ratio)`.
 * every command field of slow phase `pi + P·j` sampled at slow edge `t` is on PHY phase `pi` during fast
   cycle `ratio·t + j + 1 … ` — i.e. exactly once, in phase order, one slow cycle later
 * the write data/mask of slow phases `pi·ratio + j` (j < ratio), concatenated, is on PHY phase `pi` in the fast
   cycle of that slow period selected by `write_delay`, zero in the others
 * the read data PHY phase `pi` presents in the fast cycle selected by `read_delay` of a slow period comes back,
   split over slow phases `pi·ratio + j`, two slow cycles later; `rddata_valid` likewise (replicated)
All indices are in terms of the *sampling* edges, so the statement is independent of simulator conventions.
-/
namespace RateSpec

structure Cfg where
  ratio : Nat
  nph : Nat
  wdelay : Nat
  rdelay : Nat
  dbits : Nat
deriving Repr

/-- what was sampled at fast edge `e` : the slow-side inputs (meaningful at slow edges) and the PHY read side -/
structure Sample where
  cmds : Array (List Nat)       -- per slow phase: the command fields as a list
  wrdata : Array Nat
  wrmask : Array Nat
  phyRd : Array (Nat × Nat)     -- per PHY phase (rddata, rddata_valid)
deriving Repr, Inhabited

/-- what is visible just before fast edge `e` on the PHY side and on the slow read side -/
structure Visible where
  phyCmds : Array (List Nat)
  phyWr : Array (Nat × Nat)
  slowRd : Array (Nat × Nat)
deriving Repr, Inhabited

def concat (w : Nat) (xs : List Nat) : Nat := (xs.zipIdx.foldl (fun acc (x, j) => acc ||| ((x % 2 ^ w) <<< (j * w))) 0)

/-- check edge index `e ≥ 3·ratio` (past the start-up of the pipeline); returns the first failing clause -/
def checkAt (c : Cfg) (samples : Array Sample) (vis : Array Visible) (e : Nat) : Option String :=
  let r := c.ratio
  let v := vis[e]!
  -- the slow edge whose sample is being serialised during the slow period containing the interval before edge e:
  -- outputs visible before edge e were produced by edges ≤ e-1; slot j = (e-1) % r of the sample taken at slow edge
  -- ((e-1)/r)·r
  let slot := (e - 1) % r
  let se := ((e - 1) / r) * r
  let s := samples[se]!
  let sw := c.dbits / r
  let badCmd := (List.range c.nph).find? fun pi => v.phyCmds[pi]! != s.cmds[pi + c.nph * slot]!
  let badWr := (List.range c.nph).find? fun pi =>
    let wantD := if slot == c.wdelay then concat sw ((List.range r).map fun j => s.wrdata[pi * r + j]!) else 0
    let wantM := if slot == c.wdelay then concat (sw / 8) ((List.range r).map fun j => s.wrmask[pi * r + j]!) else 0
    v.phyWr[pi]! != (wantD, wantM)
  -- read side: slow outputs visible before edge e were registered at slow edge se; they carry the PHY word sampled
  -- at fast edge (se - 2r + rdelay + 1)  [deserialiser: slot j is written at the edge after fast cycle j; two slow cycles]
  let re := se - 2 * r + c.rdelay + 1
  let rs := samples[re]!
  let badRd := (List.range (r * c.nph)).find? fun q =>
    let pi := q / r; let j := q % r
    let (w, vld) := rs.phyRd[pi]!
    v.slowRd[q]! != ((w >>> (j * sw)) % 2 ^ sw, vld % 2)
  match badCmd, badWr, badRd with
  | some pi, _, _ => some s!"command on PHY phase {pi} is not the slow phase {pi + c.nph * slot} command sampled one slow cycle earlier"
  | _, some pi, _ => some s!"write data/mask on PHY phase {pi} not in the slot selected by write_delay (or not the slow phases' data)"
  | _, _, some q => some s!"read data/valid on slow phase {q} is not the PHY data of the slot selected by read_delay, two slow cycles earlier"
  | none, none, none => none

def check (c : Cfg) (samples : Array Sample) (vis : Array Visible) : Option (Nat × String) :=
  let n := min samples.size vis.size
  (List.range n).findSome? fun e => if e < 3 * c.ratio + 1 then none else (checkAt c samples vis e).map fun m => (e, m)

end RateSpec
