/-
Specification (independent of the controller): the bank state machine a DRAM command stream on a DFI
bus has to obey - property C02 in executable form, small enough to be the subject of a theorem.

 * one DFI phase decodes (JEDEC truth table, `Dram.decode`) to at most one command;
 * ACT only on a precharged bank; it opens the row on the address lines;
 * RD / WR only on a bank whose open row is the row of the request being served, only on the PHY's
   read / write phase, and exactly the RD (WR) commands carry `rddata_en` (`wrdata_en`);
   with A10 set the bank is precharged afterwards (auto-precharge);
 * PRE closes one bank, PREA (A10 set) all banks of the selected ranks;
 * REF only with every bank of every rank precharged and all ranks selected; ZQC / MRS only with every
   bank of the selected ranks precharged;
 * bank commands (ACT, RD, WR, PRE) select exactly one rank through `cs_n`.

State: the open row of every bank, indexed `rank · nbanks + bank`.  The monitor consumes one
controller cycle = all phases in phase order.  `served` is the request a RD/WR of this cycle belongs to
(global bank, row it addressed); the check derives it from the accepted port requests, the theorem
from the controller model.
-/
import LitedramVerif.Spec.Dram
namespace BankMon

structure Cfg where
  nphases : Nat
  nranks : Nat
  nbanks : Nat
  rdphase : Nat
  wrphase : Nat
deriving Repr

abbrev Banks := Nat → Option Nat

def Banks.init : Banks := fun _ => none

def upd (b : Banks) (k : Nat) (v : Option Nat) : Banks := fun j => if j = k then v else b j

/-- ranks selected by the (active-low) chip selects -/
def selected (c : Cfg) (csN : Nat) : List Nat := (List.range c.nranks).filter fun r => !csN.testBit r

def ranksClosed (c : Cfg) (b : Banks) (sel : List Nat) : Bool :=
  sel.all fun r => (List.range c.nbanks).all fun k => (b (r * c.nbanks + k)).isNone

def closeRanks (c : Cfg) (b : Banks) (sel : List Nat) : Banks :=
  fun j => if sel.contains (j / c.nbanks) then none else b j

def isRd : Dram.Cmd → Bool | .rd _ _ => true | _ => false
def isWr : Dram.Cmd → Bool | .wr _ _ => true | _ => false

/-- one phase; `none` = the stream violates the bank state machine here -/
def phaseStep (c : Cfg) (served : Option (Nat × Nat)) (b : Banks) (i : Nat) (p : Dram.Phase) : Option Banks :=
  let cmd := Dram.decode p
  let sel := selected c p.csN
  if (isRd cmd && i != c.rdphase) || (isWr cmd && i != c.wrphase) || p.rddataEn != isRd cmd || p.wrdataEn != isWr cmd
  then none
  else match cmd with
    | .nop => some b
    | .act row =>
      match sel with
      | [r] => if p.bank < c.nbanks && (b (r * c.nbanks + p.bank)).isNone then some (upd b (r * c.nbanks + p.bank) (some row)) else none
      | _ => none
    | .rd _ ap | .wr _ ap =>
      match sel with
      | [r] =>
        let gb := r * c.nbanks + p.bank
        match b gb, served with
        | some row, some (g, rq) =>
          if p.bank < c.nbanks && g == gb && rq == row then some (if ap then upd b gb none else b) else none
        | _, _ => none
      | _ => none
    | .pre =>
      match sel with
      | [r] => if p.bank < c.nbanks then some (upd b (r * c.nbanks + p.bank) none) else none
      | _ => none
    | .prea => if sel.isEmpty then none else some (closeRanks c b sel)
    | .ref => if sel.length == c.nranks && ranksClosed c b sel then some b else none
    | .zqc => if !sel.isEmpty && ranksClosed c b sel then some b else none
    | .mrs => if ranksClosed c b sel then some b else none

/-- all phases of one controller cycle, in phase order -/
def cycleFrom (c : Cfg) (served : Option (Nat × Nat)) (phases : Array Dram.Phase) : List Nat → Banks → Option Banks
  | [], b => some b
  | i :: is, b =>
    match phaseStep c served b i phases[i]! with
    | none => none
    | some b' => cycleFrom c served phases is b'

def cycleStep (c : Cfg) (served : Option (Nat × Nat)) (b : Banks) (phases : Array Dram.Phase) : Option Banks :=
  cycleFrom c served phases (List.range c.nphases) b

/-- a whole trace: per cycle the served request (if any) and the phases -/
def run (c : Cfg) : Banks → List (Option (Nat × Nat) × Array Dram.Phase) → Option Banks
  | b, [] => some b
  | b, (sv, ph) :: rest =>
    match cycleStep c sv b ph with
    | none => none
    | some b' => run c b' rest

end BankMon
