/-
Specification side of C14 (BIST): what the generator is meant to write and what the checker is meant to count,
in terms of the position-indexed sequence `Bist.seqAddr/seqData` and a plain memory.
-/
import LitedramVerif.Model.Bist
namespace BistSpec
open Bist

/-- a memory as an update list (latest first); absent words read 0 -/
abbrev Mem := List (Nat × Nat)
def Mem.get (m : Mem) (a : Nat) : Nat := ((m.find? (fun p => p.1 == a)).map (·.2)).getD 0
def Mem.set (m : Mem) (a d : Nat) : Mem := (a, d) :: m

/-- the generator's write sequence for `n` words -/
def writes (c : Cfg) (r : Regs) (n : Nat) : List (Nat × Nat) := (List.range n).map (fun i => (seqAddr c r i, seqData c r i))
def applyWrites (m : Mem) (ws : List (Nat × Nat)) : Mem := ws.foldl (fun m w => m.set w.1 w.2) m

/-- the number the checker must report over memory `m`: sequence positions whose stored word differs -/
def expectedErrors (c : Cfg) (r : Regs) (n : Nat) (m : Mem) : Nat :=
  (List.range n).countP (fun i => m.get (seqAddr c r i) != seqData c r i)

/-- the same count, over the stream of words returned to the checker (`ws[i]` answers position `i`) -/
def errCount (c : Cfg) (r : Regs) (ws : List Nat) : Nat :=
  ws.zipIdx.countP (fun p => p.1 != seqData c r p.2)

/-- first byte touched by port address `a`, and one past the last -/
def byteLo (c : Cfg) (a : Nat) : Nat := if c.axi then a else a * 2 ^ c.ashift
def byteHi (c : Cfg) (a : Nat) : Nat := byteLo c a + 2 ^ c.ashift

/-- the property's requirement: the word lies inside `[base, end)` (bytes) -/
def inRange (c : Cfg) (r : Regs) (a : Nat) : Bool := decide (r.base ≤ byteLo c a) && decide (byteHi c a ≤ r.end_)

/-- number of word-address bits of the port -/
def wordBits (c : Cfg) : Nat := if c.axi then c.aw - c.ashift else c.aw

/-- what the code guarantees: the word index lies, modulo the port's address space, in a window of `end - base`
WORDS above base (the byte-sized mask is applied to a word offset, then truncated to the address width) -/
def inMaskWindow (c : Cfg) (r : Regs) (a : Nat) : Bool :=
  let w := byteLo c a / 2 ^ c.ashift
  let bw := (r.base / 2 ^ c.ashift) % 2 ^ wordBits c
  decide ((w + 2 ^ wordBits c - bw) % 2 ^ wordBits c < r.end_ - r.base)

end BistSpec
