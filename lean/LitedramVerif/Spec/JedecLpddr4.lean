/-
Specification: JEDEC LPDDR4 (JESD209-4) command truth table read as a *decoder* from the CS/CA pin
sequence of one command slot pair to the operation it denotes.  Written from the standard,
independently of litedram's encoder tables.  CA words are `[CA0, …, CA5]`.
-/
namespace JedecLpddr4

/-- a 2-cycle "small command" (first word latched with CS high, second with CS low) -/
inductive SmallOp
  | mrw1 (op7 : Bool) (ma : List Bool)
  | mrw2 (op6 : Bool) (op05 : List Bool)
  | mrr1 (ma : List Bool)
  | refresh (ab : Bool) (ba : List Bool)
  | act1 (r12_15 : List Bool) (ba : List Bool) (r16 r10 r11 : Bool)
  | act2 (r6_9 : List Bool) (r0_5 : List Bool)
  | write1 (ba : List Bool) (c9 ap : Bool)
  | mwrite1 (ba : List Bool) (c9 ap : Bool)
  | read1 (ba : List Bool) (c9 ap : Bool)
  | cas2 (c8 : Bool) (c2_7 : List Bool)
  | precharge (ab : Bool) (ba : List Bool)
  | mpc (op6 : Bool) (op05 : List Bool)
deriving Repr, DecidableEq

/-- Command truth table, CA0..CA5 on the first / second edge. -/
def decodeSmall : List Bool → List Bool → Option SmallOp
  | [true,  false, r12, r13, r14, r15], [b0, b1, b2, r16, r10, r11] => some (.act1 [r12, r13, r14, r15] [b0, b1, b2] r16 r10 r11)
  | [true,  true,  r6, r7, r8, r9],     [r0, r1, r2, r3, r4, r5]    => some (.act2 [r6, r7, r8, r9] [r0, r1, r2, r3, r4, r5])
  | [false, true,  true,  false, false, op7], [m0, m1, m2, m3, m4, m5] => some (.mrw1 op7 [m0, m1, m2, m3, m4, m5])
  | [false, true,  true,  false, true,  op6], [o0, o1, o2, o3, o4, o5] => some (.mrw2 op6 [o0, o1, o2, o3, o4, o5])
  | [false, true,  true,  true,  false, _],   [m0, m1, m2, m3, m4, m5] => some (.mrr1 [m0, m1, m2, m3, m4, m5])
  | [false, false, false, true,  false, ab],  [b0, b1, b2, _, _, _]    => some (.refresh ab [b0, b1, b2])
  | [false, false, true,  false, false, _],   [b0, b1, b2, _, c9, ap]  => some (.write1 [b0, b1, b2] c9 ap)
  | [false, false, true,  true,  false, _],   [b0, b1, b2, _, c9, ap]  => some (.mwrite1 [b0, b1, b2] c9 ap)
  | [false, true,  false, false, false, _],   [b0, b1, b2, _, c9, ap]  => some (.read1 [b0, b1, b2] c9 ap)
  | [false, true,  false, false, true,  c8],  [c2, c3, c4, c5, c6, c7] => some (.cas2 c8 [c2, c3, c4, c5, c6, c7])
  | [false, false, false, false, true,  ab],  [b0, b1, b2, _, _, _]    => some (.precharge ab [b0, b1, b2])
  | [false, false, false, false, false, op6], [o0, o1, o2, o3, o4, o5] => some (.mpc op6 [o0, o1, o2, o3, o4, o5])
  | _, _ => none

/-- a complete operation as the DRAM understands it -/
inductive Op
  | act (ba : List Bool) (row : List Bool)               -- BA0-2 ; R0..R16
  | rd  (ba : List Bool) (col : List Bool) (ap : Bool)   -- C2..C9
  | wr  (ba : List Bool) (col : List Bool) (ap : Bool)
  | mwr (ba : List Bool) (col : List Bool) (ap : Bool)
  | pre (ba : List Bool) (ab : Bool)
  | ref (ba : List Bool) (ab : Bool)
  | mpc (op : List Bool)                                 -- OP0..OP6
  | mrr (ma : List Bool)                                 -- MA0..MA5
  | mrw (ma : List Bool) (op : List Bool)                -- MA0..MA5 ; OP0..OP7
deriving Repr, DecidableEq

/-- pair two small commands into an operation -/
def combine : SmallOp → SmallOp → Option Op
  | .act1 r12_15 ba r16 r10 r11, .act2 r6_9 r0_5 => some (.act ba (r0_5 ++ r6_9 ++ [r10, r11] ++ r12_15 ++ [r16]))
  | .read1 ba c9 ap, .cas2 c8 c2_7 => some (.rd ba (c2_7 ++ [c8, c9]) ap)
  | .write1 ba c9 ap, .cas2 c8 c2_7 => some (.wr ba (c2_7 ++ [c8, c9]) ap)
  | .mwrite1 ba c9 ap, .cas2 c8 c2_7 => some (.mwr ba (c2_7 ++ [c8, c9]) ap)
  | .mrr1 ma, .cas2 _ _ => some (.mrr ma)
  | .mrw1 op7 ma, .mrw2 op6 op05 => some (.mrw ma (op05 ++ [op6, op7]))
  | _, _ => none

def single : SmallOp → Option Op
  | .precharge ab ba => some (.pre ba ab)
  | .refresh ab ba => some (.ref ba ab)
  | .mpc op6 op05 => some (.mpc (op05 ++ [op6]))
  | _ => none

/-- decode four SDR slots: CS must be H,L,H,L (two small commands) or L,L,H,L (one, in the 2nd slot pair) -/
def decode (cs : List Bool) (ca : List (List Bool)) : Option Op :=
  match cs, ca with
  | [true, false, true, false], [a0, a1, b0, b1] =>
    (decodeSmall a0 a1).bind fun x => (decodeSmall b0 b1).bind fun y => combine x y
  | [false, false, true, false], [_, _, b0, b1] => (decodeSmall b0 b1).bind single
  | _, _ => none

end JedecLpddr4
