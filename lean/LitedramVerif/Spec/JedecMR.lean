/-
Specification: mode-register field decoders, written from the JEDEC standards (JESD79-3 DDR3,
JESD79-4 DDR4, JESD79-2 DDR2, JESD79 DDR, JESD21-C SDR, JESD209-4 LPDDR4), independently of the
encoding dictionaries of litedram/init.py.  `none` = reserved encoding.
-/
namespace JedecMR

def bitsAt (x lo n : Nat) : Nat := (x >>> lo) % 2 ^ n

/-! ### SDR / DDR / LPDDR / DDR2 mode register (A2:A0 burst length, A6:A4 CAS latency) -/
def basicBL (mr : Nat) : Option Nat :=
  match bitsAt mr 0 3 with
  | 0 => some 1 | 1 => some 2 | 2 => some 4 | 3 => some 8 | _ => none
def basicCL (mr : Nat) : Nat := bitsAt mr 4 3
def basicDllReset (mr : Nat) : Bool := bitsAt mr 8 1 == 1
/-- DDR2 MR A11:A9 = write recovery − 1 (in clocks) -/
def ddr2WR (mr : Nat) : Nat := bitsAt mr 9 3 + 1

/-! ### DDR3 -/
/-- MR0 A1:A0 : 00 = BL8 fixed, 01 = on the fly, 10 = BC4 fixed -/
def ddr3BL (mr0 : Nat) : Option Nat :=
  match bitsAt mr0 0 2 with
  | 0 => some 8 | 2 => some 4 | _ => none
/-- MR0 CAS latency, code = A6 A5 A4 A2 -/
def ddr3CL (mr0 : Nat) : Option Nat :=
  match bitsAt mr0 4 3 * 2 + bitsAt mr0 2 1 with
  | 0b0010 => some 5 | 0b0100 => some 6 | 0b0110 => some 7 | 0b1000 => some 8 | 0b1010 => some 9
  | 0b1100 => some 10 | 0b1110 => some 11 | 0b0001 => some 12 | 0b0011 => some 13 | 0b0101 => some 14
  | _ => none
/-- MR0 A11:A9 write recovery for auto-precharge -/
def ddr3WR (mr0 : Nat) : Option Nat :=
  match bitsAt mr0 9 3 with
  | 0 => some 16 | 1 => some 5 | 2 => some 6 | 3 => some 7 | 4 => some 8 | 5 => some 10 | 6 => some 12 | 7 => some 14
  | _ => none
def ddr3DllReset (mr0 : Nat) : Bool := bitsAt mr0 8 1 == 1
/-- MR2 A5:A3 CAS write latency = 5 + code -/
def ddr3CWL (mr2 : Nat) : Nat := 5 + bitsAt mr2 3 3
/-- MR2 A10:A9 Rtt_WR -/
def ddr3RttWr (mr2 : Nat) : Nat := bitsAt mr2 9 2
/-- MR1: A5,A1 output driver; A9,A6,A2 Rtt_nom; A11 TDQS; A7 write levelling; A0 DLL disable -/
def ddr3Ron (mr1 : Nat) : Nat := bitsAt mr1 1 1 + 2 * bitsAt mr1 5 1
def ddr3RttNom (mr1 : Nat) : Nat := bitsAt mr1 2 1 + 2 * bitsAt mr1 6 1 + 4 * bitsAt mr1 9 1
def ddr3Tdqs (mr1 : Nat) : Nat := bitsAt mr1 11 1
/-- MR1 A7 write-levelling enable, A12 Qoff (outputs disabled), A0 DLL disable, A4:A3 additive latency:
all zero in normal operation -/
def ddr3Special (mr1 : Nat) : Nat :=
  bitsAt mr1 7 1 + 2 * bitsAt mr1 12 1 + 4 * bitsAt mr1 0 1 + 8 * bitsAt mr1 3 2

/-! ### DDR4 -/
def ddr4BL (mr0 : Nat) : Option Nat :=
  match bitsAt mr0 0 2 with
  | 0 => some 8 | 2 => some 4 | _ => none
/-- MR0 CAS latency, code = A12 A6 A5 A4 A2 -/
def ddr4CL (mr0 : Nat) : Option Nat :=
  match bitsAt mr0 12 1 * 16 + bitsAt mr0 4 3 * 2 + bitsAt mr0 2 1 with
  | 0 => some 9 | 1 => some 10 | 2 => some 11 | 3 => some 12 | 4 => some 13 | 5 => some 14 | 6 => some 15 | 7 => some 16
  | 8 => some 18 | 9 => some 20 | 10 => some 22 | 11 => some 24 | 12 => some 23 | 13 => some 17 | 14 => some 19 | 15 => some 21
  | 16 => some 25 | 17 => some 26 | 18 => some 27 | 19 => some 28 | 20 => some 29 | 21 => some 30 | 22 => some 31 | 23 => some 32
  | _ => none
/-- MR0 write recovery, code = A13 A11 A10 A9 -/
def ddr4WR (mr0 : Nat) : Option Nat :=
  match bitsAt mr0 13 1 * 8 + bitsAt mr0 9 3 with
  | 0 => some 10 | 1 => some 12 | 2 => some 14 | 3 => some 16 | 4 => some 18 | 5 => some 20 | 6 => some 24 | 7 => some 22
  | 8 => some 26 | 9 => some 28 | _ => none
def ddr4DllReset (mr0 : Nat) : Bool := bitsAt mr0 8 1 == 1
/-- MR2 A5:A3 CAS write latency -/
def ddr4CWL (mr2 : Nat) : Option Nat :=
  match bitsAt mr2 3 3 with
  | 0 => some 9 | 1 => some 10 | 2 => some 11 | 3 => some 12 | 4 => some 14 | 5 => some 16 | 6 => some 18 | 7 => some 20
  | _ => none
def ddr4RttWr (mr2 : Nat) : Nat := bitsAt mr2 9 3
def ddr4DllEnable (mr1 : Nat) : Nat := bitsAt mr1 0 1
def ddr4Ron (mr1 : Nat) : Nat := bitsAt mr1 1 2
def ddr4RttNom (mr1 : Nat) : Nat := bitsAt mr1 8 3
def ddr4Tdqs (mr1 : Nat) : Nat := bitsAt mr1 11 1
/-- MR1 A7 write-levelling enable, A12 Qoff, A4:A3 additive latency: all zero in normal operation -/
def ddr4Special (mr1 : Nat) : Nat :=
  bitsAt mr1 7 1 + 2 * bitsAt mr1 12 1 + 8 * bitsAt mr1 3 2
/-- MR3 A7:A6 fine granularity refresh: 0 = 1x, 1 = 2x, 2 = 4x -/
def ddr4FineRefresh (mr3 : Nat) : Nat := bitsAt mr3 6 3
/-- MR6 A12:A10 tCCD_L = 4 + code -/
def ddr4TccdL (mr6 : Nat) : Nat := 4 + bitsAt mr6 10 3

/-! ### LPDDR4 -/
/-- MR1 OP1:0 burst length 00 = 16, 01 = 32, 10 = on the fly -/
def lpddr4BL (mr1 : Nat) : Option Nat :=
  match bitsAt mr1 0 2 with
  | 0 => some 16 | 1 => some 32 | _ => none
/-- MR1 OP6:4 nWR -/
def lpddr4NWR (mr1 : Nat) : Option Nat :=
  match bitsAt mr1 4 3 with
  | 0 => some 6 | 1 => some 10 | 2 => some 16 | 3 => some 20 | 4 => some 24 | 5 => some 30 | 6 => some 34 | 7 => some 40
  | _ => none
/-- MR2 OP2:0 read latency (DBI-RD disabled) -/
def lpddr4RL (mr2 : Nat) : Option Nat :=
  match bitsAt mr2 0 3 with
  | 0 => some 6 | 1 => some 10 | 2 => some 14 | 3 => some 20 | 4 => some 24 | 5 => some 28 | 6 => some 32 | 7 => some 36
  | _ => none
/-- MR2 OP5:3 write latency, set A (OP6 = 0) -/
def lpddr4WL (mr2 : Nat) : Option Nat :=
  if bitsAt mr2 6 1 != 0 then none else
  match bitsAt mr2 3 3 with
  | 0 => some 4 | 1 => some 6 | 2 => some 8 | 3 => some 10 | 4 => some 12 | 5 => some 14 | 6 => some 16 | 7 => some 18
  | _ => none

end JedecMR
