/-
Specification: an independent reference DRAM *with data*, at the DFI level, for a single rank.
Locations are (bank, row, burst index); the column comes from the address lines A0..A9, A11.. (A10 is
the auto-precharge flag, JEDEC); a write burst's data and mask are taken `writeLatency` controller
cycles after the WR command, a read burst is returned `readLatency` cycles after the RD command and
observes every write whose data has been taken in an earlier cycle.  Auto-precharge closes the bank.
Nothing here is derived from litedram/phy/model.py.
-/
namespace DramData

structure Cfg where
  nphases : Nat
  nbanks : Nat
  rowbits : Nat
  colbits : Nat
  burstCols : Nat          -- columns covered by one controller-cycle burst (model's burst_length · nphases)
  phaseBits : Nat
  writeLatency : Nat
  readLatency : Nat
  byteMasks : Bool
deriving Repr

structure Phase where
  csN : Nat
  rasN : Bool
  casN : Bool
  weN : Bool
  bank : Nat
  address : Nat
  wrdata : Nat
  wrdataMask : Nat
deriving Repr, Inhabited

inductive Cmd
  | act (bank row : Nat) | pre (bank : Nat) | prea | wr (bank col : Nat) (ap : Bool) | rd (bank col : Nat) (ap : Bool)
deriving Repr, DecidableEq

/-- column number from the address lines: A0..A9 then A11.. (A10 skipped) -/
def columnOf (c : Cfg) (address : Nat) : Nat :=
  ((address % 1024) + ((address >>> 11) <<< 10)) % 2 ^ c.colbits

def decode (c : Cfg) (p : Phase) : Option Cmd :=
  if p.csN.testBit 0 then none else
  match p.rasN, p.casN, p.weN with
  | false, true, true => some (.act p.bank (p.address % 2 ^ c.rowbits))
  | false, true, false => if p.address.testBit 10 then some .prea else some (.pre p.bank)
  | true, false, false => some (.wr p.bank (columnOf c p.address) (p.address.testBit 10))
  | true, false, true => some (.rd p.bank (columnOf c p.address) (p.address.testBit 10))
  | _, _, _ => none

/-- a location: bank, row, burst index inside the row -/
structure Loc where
  bank : Nat
  row : Nat
  burst : Nat
deriving Repr, DecidableEq

structure State where
  openRow : List (Nat × Option Nat)    -- per bank (association list, newest first; absent = precharged)
  base : Loc → Nat                     -- initial contents
  written : List (Loc × Nat)           -- burst words written so far (newest first)
  wq : List (Nat × Loc)                -- writes in flight: (cycles until the data is taken, location)
  rq : List (Nat × Nat)                -- reads in flight: (cycles until returned, data)
  err : Option String := none          -- first illegal command

def init (initMem : Loc → Nat) : State := { openRow := [], base := initMem, written := [], wq := [], rq := [] }

/-- current contents of a location -/
def State.mem (s : State) (l : Loc) : Nat :=
  match s.written.find? (·.1 == l) with
  | some (_, v) => v
  | none => s.base l

def rowOf (o : List (Nat × Option Nat)) (b : Nat) : Option Nat :=
  match o.find? (·.1 == b) with
  | some (_, r) => r
  | none => none

def dataWord (c : Cfg) (phases : List Phase) : Nat × Nat :=
  let pm := c.phaseBits / 8
  ((List.range c.nphases).foldl (fun acc i => acc ||| (((phases.getD i default).wrdata % 2 ^ c.phaseBits) <<< (i * c.phaseBits))) 0,
   (List.range c.nphases).foldl (fun acc i => acc ||| (((phases.getD i default).wrdataMask % 2 ^ pm) <<< (i * pm))) 0)

def merge (nbytes : Nat) (old new mask : Nat) : Nat :=
  (List.range nbytes).foldl (fun acc b =>
    acc ||| ((if mask.testBit b then (old >>> (8*b)) % 256 else (new >>> (8*b)) % 256) <<< (8*b))) 0

structure Out where
  valid : Bool
  data : Nat
deriving Repr

def upd (o : List (Nat × Option Nat)) (b : Nat) (v : Option Nat) : List (Nat × Option Nat) :=
  (b, v) :: o.filter (·.1 != b)

/-- one controller cycle -/
def step (c : Cfg) (s : State) (phases : List Phase) : State × Out :=
  -- 1. read data due now; reads issued now see the memory *before* this cycle's writes land
  let due := s.rq.find? (·.1 == 0)
  let out : Out := match due with | some (_, d) => ⟨true, d⟩ | none => ⟨false, 0⟩
  -- 2. commands of this cycle, in phase order
  let cmds := (phases.take c.nphases).filterMap (decode c)
  let (openRow, wq, rq, err) := cmds.foldl (fun (acc : List (Nat × Option Nat) × List (Nat × Loc) × List (Nat × Nat) × Option String) cmd =>
    let (orow, wq, rq, err) := acc
    match cmd with
    | .act b r => if (rowOf orow b).isSome then (orow, wq, rq, err.orElse fun _ => some "ACT on an open bank") else (upd orow b (some r), wq, rq, err)
    | .pre b => (upd orow b none, wq, rq, err)
    | .prea => ([], wq, rq, err)
    | .wr b col ap =>
      match rowOf orow b with
      | none => (orow, wq, rq, err.orElse fun _ => some "WR on a precharged bank")
      | some r => (if ap then upd orow b none else orow, wq ++ [(c.writeLatency, ⟨b, r, col / c.burstCols⟩)], rq, err)
    | .rd b col ap =>
      match rowOf orow b with
      | none => (orow, wq, rq, err.orElse fun _ => some "RD on a precharged bank")
      | some r => (if ap then upd orow b none else orow, wq, rq ++ [(c.readLatency, s.mem ⟨b, r, col / c.burstCols⟩)], err))
    (s.openRow, s.wq, s.rq.filter (·.1 != 0), s.err)
  -- 3. writes whose data is taken in this cycle
  let (word, mask) := dataWord c phases
  let nb := c.phaseBits * c.nphases / 8
  let cur (wr : List (Loc × Nat)) (l : Loc) : Nat :=
    match wr.find? (·.1 == l) with
    | some (_, v) => v
    | none => s.base l
  let written' := wq.foldl (fun wr (w : Nat × Loc) =>
    if w.1 == 0 then
      let old := cur wr w.2
      let v := if c.byteMasks then merge nb old word mask else word
      (w.2, v) :: wr.filter (·.1 != w.2)
    else wr) s.written
  ({ openRow, base := s.base, written := written', wq := (wq.filter (·.1 != 0)).map (fun w => (w.1 - 1, w.2)),
     rq := rq.map (fun r => (r.1 - 1, r.2)), err }, out)

end DramData
