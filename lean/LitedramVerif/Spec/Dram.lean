/-
Specification: an independent reference for what may appear on a DFI command bus.
 * decode of one DFI phase into a DRAM command (JEDEC command truth table: CS#, RAS#, CAS#, WE#, A10)
 * per-rank bank automaton (Idle / Active row; auto-precharge closes the bank)
 * structural rules of the DFI data-enable strobes
 * minimum distances between commands, in DRAM clocks (time = cycle·nphases + phase)
 * refresh accounting (PREA before REF, count of REFs)
Written from the standards; mentions nothing of the controller's implementation.
The monitor is executable: `Mon.step` consumes one controller cycle (all phases) and returns the
updated monitor or the first violated rule.
-/
namespace Dram

/-- the command signals of one DFI phase -/
structure Phase where
  csN : Nat
  bank : Nat
  address : Nat
  casN : Bool
  rasN : Bool
  weN : Bool
  rddataEn : Bool
  wrdataEn : Bool
deriving Repr, DecidableEq, Inhabited

inductive Cmd
  | nop
  | act (row : Nat)
  | rd (col : Nat) (ap : Bool)
  | wr (col : Nat) (ap : Bool)
  | pre            -- single bank
  | prea           -- all banks (A10 = 1)
  | ref
  | zqc
  | mrs
deriving Repr, DecidableEq

/-- JEDEC truth table (active-low RAS#/CAS#/WE#); the column address excludes A10 -/
def decode (p : Phase) : Cmd :=
  let a10 := p.address.testBit 10
  let col := p.address - (if a10 then 1024 else 0)
  match p.rasN, p.casN, p.weN with
  | true,  true,  true  => .nop
  | false, true,  true  => .act p.address
  | true,  false, true  => .rd col a10
  | true,  false, false => .wr col a10
  | false, true,  false => if a10 then .prea else .pre
  | false, false, true  => .ref
  | true,  true,  false => .zqc
  | false, false, false => .mrs

/-- timing requirements in DRAM clocks (already converted: `cycles·n − (n−1)`, see C16) -/
structure Req where
  tRCD : Nat
  tRP : Nat
  tRAS : Nat
  tRC : Nat
  tRRD : Nat
  tFAW : Nat
  tCCD : Nat
  tWTP : Nat       -- WR → PRE of that bank (write latency + burst + tWR)
  tWTR : Nat       -- WR → RD in the rank (write latency + burst + tWTR)
  tRFC : Nat
  tZQCS : Nat
deriving Repr

structure Cfg where
  nphases : Nat
  nranks : Nat
  nbanks : Nat          -- banks per rank
  rdphase : Nat
  wrphase : Nat
  req : Req
  colbits : Nat := 10     -- geometry, to relate a request address to the row / column lines
  align : Nat := 0
deriving Repr

/-- per bank bookkeeping; times are `Option Nat` (none = never) -/
structure Bank where
  openRow : Option Nat := none
  lastAct : Option Nat := none
  lastPre : Option Nat := none      -- explicit or all-bank precharge, or the time an auto-precharge may be assumed done
  lastWr  : Option Nat := none
  apPending : Option Nat := none    -- earliest time the bank may be activated again after an auto-precharge
deriving Repr, Inhabited

structure Rank where
  banks : Array Bank
  acts : List Nat := []             -- times of the last 4 ACTs, most recent first
  lastCas : Option Nat := none
  lastWr : Option Nat := none
  lastRef : Option Nat := none
  lastZq : Option Nat := none
  lastPrea : Option Nat := none
  refCount : Nat := 0
deriving Repr, Inhabited

/-- a request accepted by the controller for (rank, bank): direction and the bank-local address -/
structure Request where
  we : Bool
  addr : Nat
deriving Repr, DecidableEq, Inhabited

structure Mon where
  ranks : Array Rank
  cycle : Nat := 0
  queues : Array (List Request)       -- per global bank (rank·nbanks + bank): accepted, not yet served
  refTimes : List Nat := []           -- cycles of the REF commands seen so far (most recent first)
deriving Repr

def Mon.init (c : Cfg) : Mon :=
  { ranks := Array.replicate c.nranks { banks := Array.replicate c.nbanks {} },
    queues := Array.replicate (c.nranks * c.nbanks) [] }

/-- how a bank-local request address appears on the row / column address lines
(row = upper part; column = burst index shifted by the burst alignment, A10 skipped) -/
def reqRow (c : Cfg) (addr : Nat) : Nat := addr >>> (c.colbits - c.align)
def reqCol (c : Cfg) (addr : Nat) : Nat :=
  let ci := addr % 2 ^ (c.colbits - c.align)
  if 10 < c.colbits then (ci % 2 ^ (10 - c.align)) * 2 ^ c.align + (ci / 2 ^ (10 - c.align)) * 2 ^ 11
  else ci * 2 ^ c.align

/-- `t ≥ t0 + d` when `t0` is known -/
def after (t0 : Option Nat) (d t : Nat) : Bool :=
  match t0 with
  | none => true
  | some x => x + d ≤ t

/-- one command on one rank; returns the updated rank or the violated rule's name -/
def rankStep (c : Cfg) (r : Rank) (t : Nat) (bank : Nat) (cmd : Cmd) : Except String Rank :=
  let q := c.req
  let b := r.banks[bank]!
  let quiet := after r.lastRef q.tRFC t && after r.lastZq q.tZQCS t   -- nothing during tRFC / tZQCS
  match cmd with
  | .nop => .ok r
  | .mrs => .ok r
  | .act row =>
    if bank ≥ c.nbanks then .error "ACT: bank out of range"
    else if b.openRow.isSome then .error "ACT on a bank that is not precharged"
    else if !quiet then .error "ACT inside tRFC/tZQCS"
    else if !after b.lastPre q.tRP t then .error "tRP: PRE -> ACT too close"
    else if !after r.lastPrea q.tRP t then .error "tRP: PREA -> ACT too close"
    else if !after b.lastAct q.tRC t then .error "tRC: ACT -> ACT (same bank) too close"
    else if !after b.apPending 0 t then .error "ACT before the auto-precharge of that bank completed (tWR/tRAS + tRP)"
    else if !after r.acts.head? q.tRRD t then .error "tRRD: ACT -> ACT (rank) too close"
    else if !(r.acts.length < 4 || after r.acts[3]? q.tFAW t) then .error "tFAW: fifth ACT inside the window"
    else .ok { r with banks := r.banks.set! bank { b with openRow := some row, lastAct := some t, apPending := none },
                      acts := (t :: r.acts).take 4 }
  | .rd _ ap =>
    if b.openRow.isNone then .error "RD on a precharged bank"
    else if !after b.lastAct q.tRCD t then .error "tRCD: ACT -> RD too close"
    else if !after r.lastCas q.tCCD t then .error "tCCD: CAS -> CAS too close"
    else if !after r.lastWr q.tWTR t then .error "tWTR: WR -> RD too close"
    else
      let b' := if ap then { b with openRow := none,
                                    apPending := some (max (t + q.tRP) ((b.lastAct.getD 0) + q.tRAS + q.tRP)) } else b
      .ok { r with banks := r.banks.set! bank b', lastCas := some t }
  | .wr _ ap =>
    if b.openRow.isNone then .error "WR on a precharged bank"
    else if !after b.lastAct q.tRCD t then .error "tRCD: ACT -> WR too close"
    else if !after r.lastCas q.tCCD t then .error "tCCD: CAS -> CAS too close"
    else
      let b1 := { b with lastWr := some t }
      let b' := if ap then { b1 with openRow := none,
                                     apPending := some (max (t + q.tWTP + q.tRP) ((b.lastAct.getD 0) + q.tRAS + q.tRP)) } else b1
      .ok { r with banks := r.banks.set! bank b', lastCas := some t, lastWr := some t }
  | .pre =>
    if b.openRow.isSome && !after b.lastAct q.tRAS t then .error "tRAS: ACT -> PRE too close"
    else if b.openRow.isSome && !after b.lastWr q.tWTP t then .error "tWR: WR -> PRE too close"
    else .ok { r with banks := r.banks.set! bank { b with openRow := none, lastPre := some t } }
  | .prea =>
    if r.banks.any (fun x => x.openRow.isSome && !after x.lastAct q.tRAS t) then .error "tRAS: ACT -> PREA too close"
    else if r.banks.any (fun x => x.openRow.isSome && !after x.lastWr q.tWTP t) then .error "tWR: WR -> PREA too close"
    else .ok { r with banks := r.banks.map (fun x => { x with openRow := none }), lastPrea := some t }
  | .ref =>
    if r.banks.any (·.openRow.isSome) then .error "REF with a bank of the rank not precharged"
    else if !quiet then .error "REF inside tRFC/tZQCS"
    else if !after r.lastPrea q.tRP t then .error "tRP: PREA -> REF too close"
    else if r.banks.any (fun x => !after x.lastPre q.tRP t || !after x.apPending 0 t) then .error "tRP: PRE -> REF too close"
    else .ok { r with lastRef := some t, refCount := r.refCount + 1 }
  | .zqc =>
    if r.banks.any (·.openRow.isSome) then .error "ZQC with a bank of the rank not precharged"
    else if !quiet then .error "ZQC inside tRFC/tZQCS"
    else if !after r.lastPrea q.tRP t then .error "tRP: PREA -> ZQC too close"
    else .ok { r with lastZq := some t }

/-- structural rules of one phase -/
def phaseOk (c : Cfg) (i : Nat) (p : Phase) : Except String Unit :=
  let cmd := decode p
  let isRd := match cmd with | .rd _ _ => true | _ => false
  let isWr := match cmd with | .wr _ _ => true | _ => false
  if isRd && i != c.rdphase then .error "RD not on the read phase"
  else if isWr && i != c.wrphase then .error "WR not on the write phase"
  else if p.rddataEn != isRd then .error "rddata_en does not accompany exactly the RD commands"
  else if p.wrdataEn != isWr then .error "wrdata_en does not accompany exactly the WR commands"
  else .ok ()

/-- ranks selected by `cs_n` -/
def selected (c : Cfg) (p : Phase) : List Nat := (List.range c.nranks).filter fun r => !p.csN.testBit r

/-- consume one controller cycle: the requests accepted in it (global bank, request) and all phases -/
def Mon.step (c : Cfg) (m : Mon) (accepted : List (Nat × Request)) (phases : Array Phase) : Except String Mon := do
  let mut m := m
  for (gb, rq) in accepted do
    m := { m with queues := m.queues.set! gb (m.queues[gb]! ++ [rq]) }
  for i in [0:c.nphases] do
    let p := phases[i]!
    phaseOk c i p
    let cmd := decode p
    if cmd != .nop then
      let sel := selected c p
      let t := m.cycle * c.nphases + i
      match cmd with
      | .ref | .zqc | .prea | .mrs => pure ()       -- may address several ranks
      | _ => if sel.length != 1 then throw "bank command with cs_n not selecting exactly one rank"
      if (cmd == .ref) && sel.length != c.nranks then throw "REF not addressed to all ranks"
      for r in sel do
        -- a RD/WR serves the oldest accepted request of that bank: same direction, row = the open row, same column
        match cmd with
        | .rd col _ | .wr col _ =>
          let gb := r * c.nbanks + p.bank
          match m.queues[gb]! with
          | [] => throw "RD/WR without an accepted request for that bank"
          | rq :: rest =>
            let isWr := match cmd with | .wr _ _ => true | _ => false
            if rq.we != isWr then throw "RD/WR direction differs from the request at the head of the bank queue"
            if (m.ranks[r]!.banks[p.bank]!).openRow != some (reqRow c rq.addr) then
              throw "RD/WR while the open row is not the row the request addressed"
            if col != reqCol c rq.addr then throw "RD/WR column differs from the request's column"
            m := { m with queues := m.queues.set! gb rest }
        | _ => pure ()
        let rk ← rankStep c m.ranks[r]! t p.bank cmd
        m := { m with ranks := m.ranks.set! r rk }
      if cmd == .ref then m := { m with refTimes := m.cycle :: m.refTimes }
  return { m with cycle := m.cycle + 1 }

end Dram
