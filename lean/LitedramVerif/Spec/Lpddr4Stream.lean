/-
Specification monitor for the LPDDR4 command path at the pin level: given what the controller put on
the DFI phases in every cycle and what came out on the serialised CS/CA lines, check that every DFI
command that does not overlap an earlier one appears, one controller cycle later, at the slot of its
phase as the JEDEC sequence decoding to the requested operation, and that nothing else drives CS.
Uses only the JEDEC decoder and the DFI-level expectation (`expected`), not the model.
-/
import LitedramVerif.Spec.JedecLpddr4
namespace Lpddr4Stream

/-- one controller cycle: per phase the requested operation (none = no command), and the pins seen
one cycle later: `cs j`, `ca j` for slot j < n (SDR: one slot per phase) -/
structure Cycle where
  req : Nat → Option JedecLpddr4.Op
  cs  : Nat → Bool
  ca  : Nat → List Bool

/-- is a command requested at global phase index g (= t·n + p)? -/
def reqAt (n : Nat) (tr : Array Cycle) (g : Nat) : Option JedecLpddr4.Op :=
  match tr[g / n]? with
  | some c => c.req (g % n)
  | none => none

/-- commands that must reach the DRAM: a requested command is dropped only if it would overlap a
command still in flight, i.e. one *actually sent* on one of the 3 previous phases (a command spans
4 slots).  Unbounded history, computed left to right. -/
def sentList (n : Nat) (tr : Array Cycle) : Nat → List Bool
  | 0 => []
  | g + 1 =>
    let h := sentList n tr g
    h ++ [(reqAt n tr g).isSome && !((h.drop (g - 3)).any id)]

/-- `g` ends a chain of three requests, each fewer than 4 phases after the previous one -/
def chainEnd (n : Nat) (tr : Array Cycle) (g : Nat) : Bool :=
  (reqAt n tr g).isSome &&
  (List.range 3).any fun a => a + 1 ≤ g && (reqAt n tr (g - 1 - a)).isSome &&
    (List.range 3).any fun b => a + b + 2 ≤ g && (reqAt n tr (g - 2 - a - b)).isSome

/-- how far back a run of requests, each fewer than 4 phases after the previous one, reaches from `g` -/
def chainStart (n : Nat) (tr : Array Cycle) : Nat → Nat → Nat
  | 0, g => g
  | fuel + 1, g =>
    match (List.range 3).find? (fun a => a + 1 ≤ g && (reqAt n tr (g - 1 - a)).isSome) with
    | some a => chainStart n tr fuel (g - 1 - a)
    | none => g

/-- with the extended overlap check the pipeline resolves "was it actually sent" over the previous and the current
controller cycle: the recorded finding then only concerns runs of overlapping requests that began before the previous cycle -/
def longChain (n : Nat) (tr : Array Cycle) (g : Nat) : Bool :=
  (reqAt n tr g).isSome && chainStart n tr (2 * n + 8) g < (g / n - 1) * n

/-- pin slot at global slot index (slot g of cycle t is what was observed after cycle t) -/
def csAt (n : Nat) (tr : Array Cycle) (g : Nat) : Bool :=
  match tr[g / n]? with
  | some c => c.cs (g % n)
  | none => false
def caAt (n : Nat) (tr : Array Cycle) (g : Nat) : List Bool :=
  match tr[g / n]? with
  | some c => c.ca (g % n)
  | none => []

/-- first violation, if any: (global phase index, reason code, chain flag)
  reason 1 = a command that had to be sent does not decode to the requested operation at its slot
  reason 2 = CS high in a slot that belongs to no command that had to be sent
  chain flag = a request within [g-3, g+3] ends a 3-chain (the recorded known-finding class) -/
def check (n : Nat) (tr : Array Cycle) (ext : Bool := false) : Option (Nat × Nat × Bool) :=
  let total := tr.size * n
  let sent := (sentList n tr total).toArray
  let near (g : Nat) : Bool := (List.range 7).any fun k => g + k ≥ 3 &&
    (if ext then longChain n tr (g + k - 3) else chainEnd n tr (g + k - 3))
  let bad1 := (List.range total).find? fun g =>
    sent.getD g false && g + 4 ≤ total &&
      (JedecLpddr4.decode ((List.range 4).map fun k => csAt n tr (g + k)) ((List.range 4).map fun k => caAt n tr (g + k))
        != reqAt n tr g)
  let covered (g : Nat) : Bool := (List.range 4).any fun k => k ≤ g && sent.getD (g - k) false
  let bad2 := (List.range total).find? fun g => csAt n tr g && !covered g
  -- report a non-chain violation in preference to a chain-class one
  let all1 := (List.range total).filter fun g =>
    sent.getD g false && g + 4 ≤ total &&
      (JedecLpddr4.decode ((List.range 4).map fun k => csAt n tr (g + k)) ((List.range 4).map fun k => caAt n tr (g + k))
        != reqAt n tr g)
  let all2 := (List.range total).filter fun g => csAt n tr g && !covered g
  match (all1.find? fun g => !near g), (all2.find? fun g => !near g) with
  | some g, _ => some (g, 1, false)
  | none, some g => some (g, 2, false)
  | none, none =>
    match bad1, bad2 with
    | some g, _ => some (g, 1, true)
    | none, some g => some (g, 2, true)
    | none, none => none

end Lpddr4Stream
