/-
Specification of the native-port memory contract (C01, and reused by the frontends): a word-addressed
memory with byte enables.  Commands take effect in the order in which they are *accepted*; a write's data
is the data the master offers with the command; every read returns, in command order per port, the
bytes most recently written (initial contents 0).  Executable monitor over port-level events.
-/
namespace PortMemory

/-- what happened on one port in one cycle -/
structure PortEv where
  accepted : Bool          -- cmd.valid & cmd.ready
  we : Bool
  addr : Nat
  data : Nat               -- the write's data word (as offered by the master)
  mask : Nat               -- byte enables of the write (bit = 1: byte written)
  rvalid : Bool            -- rdata.valid (master always ready)
  rdata : Nat
deriving Repr, Inhabited

structure Mon where
  nbytes : Nat
  mem : List (Nat × Nat)              -- address ↦ word, newest first
  expect : Array (List Nat)           -- per port: data expected by the reads in flight, oldest first
  reads : Nat := 0
  writes : Nat := 0
deriving Repr

def Mon.init (nports nbytes : Nat) : Mon := { nbytes, mem := [], expect := Array.replicate nports [] }

def Mon.read (m : Mon) (a : Nat) : Nat :=
  match m.mem.find? (·.1 == a) with
  | some (_, v) => v
  | none => 0

def mergeBytes (nbytes old new mask : Nat) : Nat :=
  (List.range nbytes).foldl (fun acc b =>
    acc ||| ((if mask.testBit b then (new >>> (8*b)) % 256 else (old >>> (8*b)) % 256) <<< (8*b))) 0

/-- one cycle: first the accepted commands (they address different banks, hence commute), then the
returned read data -/
def Mon.step (m : Mon) (evs : Array PortEv) : Except String Mon := do
  let mut m := m
  for p in [0:evs.size] do
    let e := evs[p]!
    if e.accepted then
      if e.we then
        let v := mergeBytes m.nbytes (m.read e.addr) e.data e.mask
        m := { m with mem := (e.addr, v) :: m.mem.filter (·.1 != e.addr), writes := m.writes + 1 }
      else
        m := { m with expect := m.expect.set! p (m.expect[p]! ++ [m.read e.addr]), reads := m.reads + 1 }
  for p in [0:evs.size] do
    let e := evs[p]!
    if e.rvalid then
      match m.expect[p]! with
      | [] => throw s!"port {p}: read data returned without a read command in flight"
      | want :: rest =>
        if want != e.rdata then throw s!"port {p}: read returned {e.rdata}, last written bytes are {want}"
        m := { m with expect := m.expect.set! p rest }
  return m

end PortMemory
