/-
Concrete histories on which the up-converter misplaces data (C07 known finding): the inputs are defined once here,
used by the theorems of Props/C07.lean (what the model does on them) and printed by the driver so that the harness
replays the very same inputs on the real converter.
-/
import LitedramVerif.Model.Adapter
namespace AdapterWitness
open Adapter

/-- 1:2 up-converter, 8-bit user port, both directions -/
def cfg : Cfg := { ratio := 2, toAddrBits := 3, logRatio := 1 }

def mk (cv cw : Bool) (ca : Nat) (cl : Bool) (wv : Bool) (wd : Nat) (twr : Bool := false) : UIn :=
  { cmdValid := cv, cmdWe := cw, cmdAddr := ca, cmdLast := cl, flush := false, wValid := wv, wData := (wd, 1), rReady := true,
    toCmdReady := true, toWReady := twr, toRValid := false, toRData := [0, 0] }

/-- write 0xAA to address 5, then 0xBB to address 4 (same wide word, descending), each held until accepted -/
def descending : List UIn :=
  [mk true true 5 false true 0xAA, mk true true 4 true true 0xBB, mk false true 4 true true 0xBB,
   mk false true 4 true true 0xBB, mk false true 4 true false 0, mk false true 4 true false 0,
   mk false true 4 true false 0, mk false true 4 true false 0]

/-- write 0x11 then 0x22 to address 4 (repeated), then 0x33 to address 6 -/
def repeated : List UIn :=
  [mk true true 4 false true 0x11, mk true true 4 true true 0x22, mk false true 4 true true 0x22,
   mk false true 4 true true 0x22, mk false true 4 true false 0, mk false true 4 true false 0,
   mk true true 6 true true 0x33, mk false true 6 true true 0x33, mk false true 6 true true 0x33,
   mk false true 6 true true 0x33, mk false true 6 true true 0x33, mk false true 6 true true 0x33 true,
   mk false true 6 true true 0x33, mk false true 6 true true 0x33, mk false true 6 true true 0x33]

def outs (c : Cfg) : UState → List UIn → List UOut
  | _, [] => []
  | s, i :: is => (ustep c s i).2 :: outs c (ustep c s i).1 is

/-- what matters of an output: user command taken, controller command (valid, address), controller write word -/
def digest (o : UOut) : Bool × Bool × Nat × Bool × List Chunk := (o.cmdReady, o.toCmdValid, o.toCmdAddr, o.toWValid, o.toWData)

end AdapterWitness
