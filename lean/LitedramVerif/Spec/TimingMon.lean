/-
Specification (independent of the controller): minimum distances between DRAM commands, counted in
controller cycles (C03, "controller layer"; `C03.worst_phase` and C16 turn a distance of `c` controller
cycles between commands on arbitrary phases into ≥ c·n − (n−1) DRAM clocks ≥ the datasheet value).

The monitor consumes, per controller cycle, the commands issued in that cycle (on any phase) and keeps
*ages*: the number of cycles since the last event of a kind (`none` = never).  An event in the previous cycle
has age 1.  Rules (t… = the required distances in controller cycles):
  ACT b   tRP after the precharge of b (PRE b or PREA), tRC after ACT b, tRRD after any ACT, at most four ACT in
          any tFAW consecutive cycles, tRFC after REF, tZQCS after ZQC; after an auto-precharge of b: tRP after a
          RD+AP, tWTP + tRP after a WR+AP and tRAS + tRP after the ACT that opened the row
  RD b    tRCD after ACT b, tCCD after any RD/WR, tWTR after any WR   (tWTR, tWTP include write latency and burst)
  WR b    tRCD after ACT b, tCCD after any RD/WR
  PRE b   tRAS after ACT b, tWTP after WR b;   PREA: the same for every bank
  REF/ZQC tRP after PREA, tRFC after REF, tZQCS after ZQC
-/
namespace TimingMon

inductive Ev
  | act (b : Nat) | rd (b : Nat) (ap : Bool) | wr (b : Nat) (ap : Bool) | pre (b : Nat) | prea | ref | zqc
deriving Repr, DecidableEq

structure Req where
  tRCD : Nat
  tRP : Nat
  tRAS : Nat
  tRC : Nat
  tRRD : Nat
  tFAW : Nat         -- 0 = no four-activate rule
  tCCD : Nat
  tWTP : Nat
  tWTR : Nat
  tRFC : Nat
  tZQCS : Nat
  nbanks : Nat       -- total number of banks (all ranks), for PREA
deriving Repr

abbrev Age := Option Nat

/-- at least `t` cycles have passed -/
def ok (a : Age) (t : Nat) : Bool := match a with | none => true | some x => decide (t ≤ x)

def tick (a : Age) : Age := a.map (· + 1)

structure St where
  act : Nat → Age
  pre : Nat → Age
  wr : Nat → Age
  apRd : Nat → Age        -- since a RD with auto-precharge of the currently pending auto-precharge
  apWr : Nat → Age
  apPend : Nat → Bool     -- an auto-precharge was started by the last RD/WR and no ACT came since
  actAny : Age
  cas : Age
  wrAny : Age
  ref : Age
  zq : Age
  prea : Age
  win : List Bool         -- ACT issued in the last cycles, most recent first (as long as tFAW)

def St.init (q : Req) : St :=
  { act := fun _ => none, pre := fun _ => none, wr := fun _ => none, apRd := fun _ => none, apWr := fun _ => none,
    apPend := fun _ => false, actAny := none, cas := none, wrAny := none, ref := none, zq := none, prea := none,
    win := List.replicate q.tFAW false }

/-- is the event allowed now? -/
def allowed (q : Req) (m : St) : Ev → Bool
  | .act b =>
    ok (m.pre b) q.tRP && ok (m.act b) q.tRC && ok m.actAny q.tRRD && ok m.ref q.tRFC && ok m.zq q.tZQCS &&
    (!m.apPend b || (ok (m.apRd b) q.tRP && ok (m.apWr b) (q.tWTP + q.tRP) && ok (m.act b) (q.tRAS + q.tRP)))
  | .rd b _ => ok (m.act b) q.tRCD && ok m.cas q.tCCD && ok m.wrAny q.tWTR
  | .wr b _ => ok (m.act b) q.tRCD && ok m.cas q.tCCD
  | .pre b => ok (m.act b) q.tRAS && ok (m.wr b) q.tWTP
  | .prea => (List.range q.nbanks).all fun b => ok (m.act b) q.tRAS && ok (m.wr b) q.tWTP
  | .ref => ok m.prea q.tRP && ok m.ref q.tRFC && ok m.zq q.tZQCS
  | .zqc => ok m.prea q.tRP && ok m.ref q.tRFC && ok m.zq q.tZQCS

def isAct : Ev → Bool | .act _ => true | _ => false
def isCas : Ev → Bool | .rd _ _ | .wr _ _ => true | _ => false
def isWr : Ev → Bool | .wr _ _ => true | _ => false

/-- ages after this cycle: everything grows by one, the events of this cycle get age 1 -/
def advance (q : Req) (m : St) (evs : List Ev) : St :=
  let has (p : Ev → Bool) : Bool := evs.any p
  let upd (a : Age) (hit : Bool) : Age := if hit then some 1 else tick a
  { act := fun b => upd (m.act b) (has (· == .act b))
    pre := fun b => upd (m.pre b) (has (fun e => e == .pre b || e == .prea))
    wr := fun b => upd (m.wr b) (has (fun e => e == .wr b true || e == .wr b false))
    apRd := fun b => if has (· == .rd b true) then some 1 else if has (· == .wr b true) then none else tick (m.apRd b)
    apWr := fun b => if has (· == .wr b true) then some 1 else if has (· == .rd b true) then none else tick (m.apWr b)
    apPend := fun b => if has (· == .act b) then false
                       else if has (fun e => e == .rd b true || e == .wr b true) then true else m.apPend b
    actAny := upd m.actAny (has isAct)
    cas := upd m.cas (has isCas)
    wrAny := upd m.wrAny (has isWr)
    ref := upd m.ref (has (· == .ref))
    zq := upd m.zq (has (· == .zqc))
    prea := upd m.prea (has (· == .prea))
    win := (has isAct :: m.win).take q.tFAW }

/-- two commands of ONE controller cycle are at distance 0 (the phase order inside the cycle is not part of this layer): `first`
followed by `second` is a conflict when a rule with a non-zero requirement relates them -/
def conflict1 (q : Req) : Ev → Ev → Bool
  | .act b, .act b' => q.tRRD != 0 || q.tFAW != 0 || (b == b' && q.tRC != 0)
  | .act b, .rd b' _ => b == b' && q.tRCD != 0
  | .act b, .wr b' _ => b == b' && q.tRCD != 0
  | .act b, .pre b' => b == b' && q.tRAS != 0
  | .act _, .prea => q.tRAS != 0
  | .rd _ _, .rd _ _ => q.tCCD != 0
  | .rd _ _, .wr _ _ => q.tCCD != 0
  | .wr _ _, .wr _ _ => q.tCCD != 0
  | .wr _ _, .rd _ _ => q.tCCD != 0 || q.tWTR != 0
  | .wr b _, .pre b' => b == b' && q.tWTP != 0
  | .wr _ _, .prea => q.tWTP != 0
  | .rd b ap, .act b' => ap && b == b' && q.tRP != 0
  | .wr b ap, .act b' => ap && b == b' && (q.tWTP + q.tRP) != 0
  | .pre b, .act b' => b == b' && q.tRP != 0
  | .prea, .act _ => q.tRP != 0
  | .prea, .ref => q.tRP != 0
  | .prea, .zqc => q.tRP != 0
  | .ref, .act _ => q.tRFC != 0
  | .ref, .ref => q.tRFC != 0
  | .ref, .zqc => q.tRFC != 0
  | .zqc, .act _ => q.tZQCS != 0
  | .zqc, .ref => q.tZQCS != 0
  | .zqc, .zqc => q.tZQCS != 0
  | _, _ => false

def conflict (q : Req) (a b : Ev) : Bool := conflict1 q a b || conflict1 q b a

/-- no two commands of the cycle are related by a rule with a non-zero requirement -/
def exclusive (q : Req) : List Ev → Bool
  | [] => true
  | e :: rest => rest.all (fun e' => !conflict q e e') && exclusive q rest

/-- one controller cycle: every event must be allowed with respect to the earlier cycles, the events of the cycle must not
conflict with each other, and (after it) no more than four ACT in the tFAW window -/
def step (q : Req) (m : St) (evs : List Ev) : Option St :=
  if evs.all (allowed q m) && exclusive q evs then
    let m' := advance q m evs
    if (m'.win.filter id).length ≤ 4 then some m' else none
  else none

def run (q : Req) : St → List (List Ev) → Option St
  | m, [] => some m
  | m, evs :: rest => match step q m evs with | none => none | some m' => run q m' rest

end TimingMon
