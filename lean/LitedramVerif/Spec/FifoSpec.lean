/-
Specification of the DRAM-backed FIFO (C13), over what is observable at its boundaries:
 * stream: the words leaving are exactly the words that entered, in order (none lost, duplicated, invented);
 * DRAM side: words are read back in the order they were written, an address is never written again before it
   has been read (no overwrite of unread data), and never more than `depth` words are held in DRAM.
-/
namespace FifoSpec

structure Mon where
  depth : Nat
  pending : List Nat := []        -- words accepted at the sink, not yet delivered (oldest first)
  unread : List Nat := []         -- DRAM addresses written and not yet read (oldest first)
  delivered : Nat := 0
  maxHeld : Nat := 0
deriving Repr

def Mon.step (m : Mon) (inp out wr rd : Option Nat) : Except String Mon := do
  let mut m := m
  if let some d := inp then m := { m with pending := m.pending ++ [d] }
  if let some d := out then
    match m.pending with
    | [] => throw s!"word {d} delivered although every accepted word has already been delivered (duplicated or invented)"
    | e :: rest =>
      if e != d then throw s!"word #{m.delivered} delivered is {d}, the word accepted at that position is {e}"
      m := { m with pending := rest, delivered := m.delivered + 1 }
  if let some a := wr then
    if m.unread.contains a then throw s!"DRAM word {a} written again before it was read (unread data overwritten)"
    m := { m with unread := m.unread ++ [a], maxHeld := max m.maxHeld (m.unread.length + 1) }
    if m.unread.length > m.depth then throw s!"{m.unread.length} words held in DRAM, depth is {m.depth}"
  if let some a := rd then
    match m.unread with
    | [] => throw s!"DRAM word {a} read although nothing is stored"
    | e :: rest =>
      if e != a then throw s!"DRAM word {a} read, the oldest unread word is at {e}"
      m := { m with unread := rest }
  return m

end FifoSpec
