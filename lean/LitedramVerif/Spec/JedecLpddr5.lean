/-
Specification: JEDEC LPDDR5 (JESD209-5) command truth table read as a decoder from CS / CA[6:0]
(rising and falling CK edge) to the operation it denotes.  Written from the standard, independently
of litedram's encoder tables.  CA words are `[CA0, …, CA6]`.  Bank organisation: 16-bank mode.
-/
namespace JedecLpddr5

inductive SmallOp
  | act1 (r14_17 : List Bool) (ba : List Bool) (r11_13 : List Bool)
  | act2 (r7_10 : List Bool) (r0_6 : List Bool)
  | pre (ba : List Bool) (ab : Bool)
  | ref (ba : List Bool) (rfm sb0 sb1 ab : Bool)
  | mwr (c0 : Bool) (c3_5 : List Bool) (ba : List Bool) (c1 c2 ap : Bool)
  | wr16 (c0 : Bool) (c3_5 : List Bool) (ba : List Bool) (c1 c2 ap : Bool)
  | wr32 (c3_5 : List Bool) (ba : List Bool) (c1 c2 ap : Bool)
  | rd16 (c0 : Bool) (c3_5 : List Bool) (ba : List Bool) (c1 c2 ap : Bool)
  | rd32 (c0 : Bool) (c3_5 : List Bool) (ba : List Bool) (c1 c2 ap : Bool)
  | cas (wsWr wsRd wsFs : Bool) (rest : List Bool)
  | mpc (op7 : Bool) (op0_6 : List Bool)
  | mrw1 (ma : List Bool)
  | mrw2 (op7 : Bool) (op0_6 : List Bool)
  | mrr (ma : List Bool)
  | nop | pde | sre | srx | wff | rff | rdc
deriving Repr, DecidableEq

def decodeSmall : List Bool → List Bool → Option SmallOp
  | [true, true, true, r14, r15, r16, r17], [b0, b1, b2, b3, r11, r12, r13] => some (.act1 [r14, r15, r16, r17] [b0, b1, b2, b3] [r11, r12, r13])
  | [true, true, false, r7, r8, r9, r10], [r0, r1, r2, r3, r4, r5, r6] => some (.act2 [r7, r8, r9, r10] [r0, r1, r2, r3, r4, r5, r6])
  | [false, false, false, true, true, true, true], [b0, b1, b2, b3, _, _, ab] => some (.pre [b0, b1, b2, b3] ab)
  | [false, false, false, true, true, true, false], [b0, b1, b2, rfm, sb0, sb1, ab] => some (.ref [b0, b1, b2] rfm sb0 sb1 ab)
  | [false, true, false, c0, c3, c4, c5], [b0, b1, b2, b3, c1, c2, ap] => some (.mwr c0 [c3, c4, c5] [b0, b1, b2, b3] c1 c2 ap)
  | [false, true, true, c0, c3, c4, c5], [b0, b1, b2, b3, c1, c2, ap] => some (.wr16 c0 [c3, c4, c5] [b0, b1, b2, b3] c1 c2 ap)
  | [false, false, true, false, c3, c4, c5], [b0, b1, b2, b3, c1, c2, ap] => some (.wr32 [c3, c4, c5] [b0, b1, b2, b3] c1 c2 ap)
  | [true, false, false, c0, c3, c4, c5], [b0, b1, b2, b3, c1, c2, ap] => some (.rd16 c0 [c3, c4, c5] [b0, b1, b2, b3] c1 c2 ap)
  | [true, false, true, c0, c3, c4, c5], [b0, b1, b2, b3, c1, c2, ap] => some (.rd32 c0 [c3, c4, c5] [b0, b1, b2, b3] c1 c2 ap)
  | [false, false, true, true, wswr, wsrd, wsfs], rest => some (.cas wswr wsrd wsfs rest)
  | [false, false, false, false, true, true, op7], [o0, o1, o2, o3, o4, o5, o6] => some (.mpc op7 [o0, o1, o2, o3, o4, o5, o6])
  | [false, false, false, true, true, false, true], [m0, m1, m2, m3, m4, m5, m6] => some (.mrw1 [m0, m1, m2, m3, m4, m5, m6])
  | [false, false, false, true, false, false, op7], [o0, o1, o2, o3, o4, o5, o6] => some (.mrw2 op7 [o0, o1, o2, o3, o4, o5, o6])
  | [false, false, false, true, true, false, false], [m0, m1, m2, m3, m4, m5, m6] => some (.mrr [m0, m1, m2, m3, m4, m5, m6])
  | [false, false, false, false, false, false, false], _ => some .nop
  | [false, false, false, false, false, false, true], _ => some .pde
  | [false, false, false, true, false, true, true], _ => some .sre
  | [false, false, false, true, false, true, false], _ => some .srx
  | [false, false, false, false, false, true, true], _ => some .wff
  | [false, false, false, false, false, true, false], _ => some .rff
  | [false, false, false, false, true, false, true], _ => some .rdc
  | _, _ => none

/-- WCK2CK sync request carried by the CAS command: (WS_WR, WS_RD, WS_FS) -/
abbrev Sync := Bool × Bool × Bool

inductive Op
  | act (ba : List Bool) (row : List Bool)                            -- BA0-3 ; R0..R17
  | rd  (ba : List Bool) (col : List Bool) (ap : Bool) (sync : Sync)  -- C0..C5
  | wr  (ba : List Bool) (col : List Bool) (ap : Bool) (sync : Sync)
  | mwr (ba : List Bool) (col : List Bool) (ap : Bool) (sync : Sync)
  | pre (ba : List Bool) (ab : Bool)
  | ref (ba : List Bool) (ab : Bool)                                  -- BA0-2, REF (not RFM)
  | mpc (op : List Bool)                                              -- OP0..OP7
  | mrr (ma : List Bool) (sync : Sync)                                -- MA0..MA6
  | mrw (ma : List Bool) (op : List Bool)                             -- MA0..MA6 ; OP0..OP7
  | nop
deriving Repr, DecidableEq

def combine : SmallOp → SmallOp → Option Op
  | .act1 r14_17 ba r11_13, .act2 r7_10 r0_6 => some (.act ba (r0_6 ++ r7_10 ++ r11_13 ++ r14_17))
  | .cas w r f _, .rd16 c0 c3_5 ba c1 c2 ap => some (.rd ba ([c0, c1, c2] ++ c3_5) ap (w, r, f))
  | .cas w r f _, .wr16 c0 c3_5 ba c1 c2 ap => some (.wr ba ([c0, c1, c2] ++ c3_5) ap (w, r, f))
  | .cas w r f _, .mwr c0 c3_5 ba c1 c2 ap => some (.mwr ba ([c0, c1, c2] ++ c3_5) ap (w, r, f))
  | .cas w r f _, .mrr ma => some (.mrr ma (w, r, f))
  | .mrw1 ma, .mrw2 op7 op0_6 => some (.mrw ma (op0_6 ++ [op7]))
  | _, _ => none

def single : SmallOp → Option Op
  | .pre ba ab => some (.pre ba ab)
  | .ref ba false false false ab => some (.ref ba ab)
  | .mpc op7 op0_6 => some (.mpc (op0_6 ++ [op7]))
  | .nop => some .nop
  | _ => none

/-- decode two CK cycles: CS high in both (two commands) or only in the second (single command) -/
def decode (cs : List Bool) (ca : List (List Bool)) : Option Op :=
  match cs, ca with
  | [true, true], [a0, a1, b0, b1] =>
    (decodeSmall a0 a1).bind fun x => (decodeSmall b0 b1).bind fun y => combine x y
  | [false, true], [_, _, b0, b1] => (decodeSmall b0 b1).bind single
  | _, _ => none

end JedecLpddr5
