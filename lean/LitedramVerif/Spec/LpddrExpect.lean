/-
Specification: what operation a DFI phase *asks for* under litedram's DFI conventions for LPDDR4/5
(command bits cas/ras/we, ZQC + bank selecting the special commands, operands in address/bank).
This is the left-hand side of the round-trip property; it mentions no CA encoding at all.
-/
import LitedramVerif.Model.LpddrCmd
import LitedramVerif.Spec.JedecLpddr4
import LitedramVerif.Spec.JedecLpddr5
namespace LpddrExpect
open LpddrCmd

/-- bits `lo .. lo+n-1` of `x`, LSB first -/
def bits (x lo n : Nat) : List Bool := (List.range n).map (fun i => x.testBit (lo + i))

/-- the operation a DFI phase asks for, LPDDR4 reading (DFI command → operation and operand bits) -/
def expected4 (masked : Bool) (d : Dfi) : Option JedecLpddr4.Op :=
  if d.csN then none
  else match dfiCmd d with
    | 0b010 => some (.act (bits d.bank 0 3) (bits d.address 0 17))
    | 0b100 => some (.rd (bits d.bank 0 3) (bits d.address 2 8) (d.address.testBit 10))
    | 0b101 => if masked then some (.mwr (bits d.bank 0 3) (bits d.address 2 8) (d.address.testBit 10))
               else some (.wr (bits d.bank 0 3) (bits d.address 2 8) (d.address.testBit 10))
    | 0b011 => some (.pre (bits d.bank 0 3) (d.address.testBit 10))
    | 0b110 => some (.ref (bits d.bank 0 3) (d.address.testBit 10))
    | 0b001 => if d.bank = 0 then some (.mpc (bits d.address 0 7))
               else if d.bank = 1 then some (.mrr (bits d.address 0 6))
               else none
    | 0b111 => some (.mrw (bits d.bank 0 6) (bits d.address 0 8))
    | _ => none

/-- MPC operand actually sent: DFI address 0 stands for ZQC_LATCH -/
def mpcOperand (d : Dfi) : Nat := if d.address = 0 then zqcLatch5 else d.address % 256

/-- WCK2CK sync flags the CAS must carry: the requested type unless the PHY reports sync done -/
def syncOf (done : Bool) (ty : Nat) : JedecLpddr5.Sync :=
  let w := if done then 0 else ty
  (w == 1, w == 2, w == 3)

def expected5 (masked done : Bool) (d : Dfi) : Option JedecLpddr5.Op :=
  if d.csN then none
  else match dfiCmd d with
    | 0b010 => some (.act (bits d.bank 0 4) (bits d.address 0 18))
    | 0b100 => some (.rd (bits d.bank 0 4) (bits d.address 4 6) (d.address.testBit 10) (syncOf done 2))
    | 0b101 => if masked then some (.mwr (bits d.bank 0 4) (bits d.address 4 6) (d.address.testBit 10) (syncOf done 1))
               else some (.wr (bits d.bank 0 4) (bits d.address 4 6) (d.address.testBit 10) (syncOf done 1))
    | 0b011 => some (.pre (bits d.bank 0 4) (d.address.testBit 10))
    | 0b110 => some (.ref (bits d.bank 0 3) (d.address.testBit 10))
    | 0b001 => if d.bank = 0 then some (.mpc (bits (mpcOperand d) 0 8))
               else if d.bank = 1 then some (.mrr (bits d.address 0 7) (syncOf done 2))
               else if d.bank = 2 then some .nop
               else none
    | 0b111 => some (.mrw (bits d.bank 0 7) (bits d.address 0 8))
    | _ => none

end LpddrExpect
