/-
Specification monitors for the DMA engines (C12), over what is observable at their boundaries.
Reader: the source stream is, in order, one word per accepted address (the word the memory returns for that
read), `last` on the matching word; the memory side never has to present a word the reader cannot take.
Writer: every accepted (address, data) pair is issued exactly once: the k-th write command carries the k-th
address and the k-th write-data word the k-th data.
-/
namespace DmaSpec

structure RMon where
  expect : List (Nat × Bool) := []    -- words owed to the consumer: (data, last), oldest first
  returned : List Nat := []           -- read data handed back by the memory, not yet matched (for order)
deriving Repr

/-- one cycle of the reader.
`accepted = some (data_that_memory_will_return, last)` when a read command is accepted;
`rvalid/rready` the memory-side data strobe and the reader's readiness; `out = some (data,last)` on a source handshake -/
def RMon.step (m : RMon) (accepted : Option (Nat × Bool)) (rvalid rready : Bool) (out : Option (Nat × Bool)) : Except String RMon := do
  let mut m := m
  if let some a := accepted then m := { m with expect := m.expect ++ [a] }
  if rvalid && !rready then throw "a returned read word could not be taken (more reads in flight than buffer space)"
  if let some o := out then
    match m.expect with
    | [] => throw "source produced a word that no accepted address accounts for"
    | e :: rest =>
      if e != o then throw s!"source word/last ({o.1},{o.2}) differs from the word owed ({e.1},{e.2})"
      m := { m with expect := rest }
  return m

structure WMon where
  pairs : List (Nat × Nat) := []      -- (address, data) accepted on the sink, not yet seen as command
  datas : List Nat := []              -- data of accepted pairs whose command was seen, not yet seen as write data
deriving Repr

/-- one cycle of the writer: `sinkAcc` a pair accepted; `cmd` a write command accepted by the port (its address);
`wd` a write-data word taken by the port -/
def WMon.step (m : WMon) (sinkAcc : Option (Nat × Nat)) (cmd : Option Nat) (wd : Option Nat) : Except String WMon := do
  let mut m := m
  if let some p := sinkAcc then m := { m with pairs := m.pairs ++ [p] }
  if let some a := cmd then
    match m.pairs with
    | [] => throw "write command without an accepted (address, data) pair"
    | (pa, pd) :: rest =>
      if pa != a then throw s!"write command address {a} differs from the accepted pair's address {pa}"
      m := { m with pairs := rest, datas := m.datas ++ [pd] }
  if let some d := wd then
    match m.datas with
    | [] => throw "write data without its command"
    | pd :: rest =>
      if pd != d then throw s!"write data {d} differs from the data {pd} paired with that address"
      m := { m with datas := rest }
  return m

end DmaSpec
