/-
Cycle model of `CommandsPipeline` (litedram/phy/utils.py) with its `ConstBitSlip` instances, as used by
the LPDDR4 PHY (lpddr4/basephy.py): per DFI phase one adapter presenting `valid`, 4 CS slots and
4 CA words; overlap masking from the history of `valid`s; per-phase bit-slip; OR-reduction.
Registers are modelled as index → bit functions (widths are explicit in `Cfg`), which makes slicing
an index shift.  No imports.
-/
namespace CmdPipeline

structure Cfg where
  n    : Nat      -- number of adapters = DFI phases
  csW  : Nat      -- cs_ser_width
  caW  : Nat      -- ca_ser_width
  caN  : Nat      -- ca_nbits
  span : Nat      -- cmd_nphases_span
  extended : Bool -- extended_overlaps_check
deriving Repr

/-- adapter slots per command (len(Cat(adapter.cs)) = len(adapter.ca) = 4) -/
def slots : Nat := 4

/-- outputs of one adapter in one cycle -/
structure AdIn where
  valid : Bool
  cs : Nat → Bool            -- slot k < 4
  ca : Nat → Nat → Bool      -- slot k < 4, CA bit

abbrev Ins := Nat → AdIn     -- phase ↦ adapter outputs

structure State where
  validsReg : Nat → Bool           -- `valids.reg`: the previous cycle's valid vector
  csR : Nat → Nat → Bool           -- adapter p: ConstBitSlip.r (2·csW bits)
  caR : Nat → Nat → Nat → Bool     -- adapter p, CA bit b: ConstBitSlip.r (2·caW bits)

def init : State := ⟨fun _ => false, fun _ _ => false, fun _ _ _ => false⟩

def nprev (c : Cfg) : Nat := c.span - 1
def slip (c : Cfg) : Nat := c.caW / c.csW

/-- `valids.r = Cat(reg, i)`: index k < 2n -/
def rValid (c : Cfg) (s : State) (i : Ins) (k : Nat) : Bool :=
  if k < c.n then s.validsReg k else (i (k - c.n)).valid

/-- extended check: `valids_hist[i] = valids.r[i] & ~OR(valids_hist[max(0,i-n_previous):i])`, built left to right -/
def histExtList (c : Cfg) (s : State) (i : Ins) : Nat → List Bool
  | 0 => []
  | m + 1 =>
    let h := histExtList c s i m
    h ++ [rValid c s i m && !((h.drop (m - nprev c)).any id)]

def hist (c : Cfg) (s : State) (i : Ins) (k : Nat) : Bool :=
  if c.extended then (histExtList c s i (k + 1)).getD k false else rValid c s i k

/-- `allowed = ~OR(valids_hist[nphases+phase-n_previous : nphases+phase])` -/
def allowed (c : Cfg) (s : State) (i : Ins) (p : Nat) : Bool :=
  !((List.range (nprev c)).any fun q => hist c s i (c.n + p - nprev c + q))

/-- serialised outputs visible in the current cycle (functions of the registers only) -/
def outCs (c : Cfg) (s : State) (j : Nat) : Bool :=
  (List.range c.n).any fun p => s.csR p (c.csW - p + j)

def outCa (c : Cfg) (s : State) (b j : Nat) : Bool :=
  (List.range c.n).any fun p => s.caR p b (c.caW - p * slip c + j)

/-- clock edge: `r <= Cat(r[dw:], i)` for every bit-slip, `reg <= i` for the valid history -/
def step (c : Cfg) (s : State) (i : Ins) : State :=
  { validsReg := fun p => (i p).valid
    csR := fun p k => if k < c.csW then s.csR p (k + c.csW)
                      else decide (k - c.csW < slots) && (i p).cs (k - c.csW) && allowed c s i p
    caR := fun p b k => if k < c.caW then s.caR p b (k + c.caW)
                        else decide (k - c.caW < slots) && (i p).ca (k - c.caW) b && allowed c s i p }

end CmdPipeline
