/-
Small hardware library blocks used by the controller models, transcribed from
  litedram/common.py      tXXDController, tFAWController
  migen/genlib/roundrobin RoundRobin (SP_CE)
  litex/gen/genlib/misc   timeline
No imports.
-/
namespace Hw

/-- `bits_for(n)` -/
def bitsFor (n : Nat) : Nat := if n = 0 then 1 else Nat.log2 n + 1

/-- width of `Signal(max=m)` : `bits_for(m-1)` -/
def maxBits (m : Nat) : Nat := bitsFor (m - 1)

/-! ### tXXDController -/
structure TX where
  count : Nat := 0
  ready : Bool := false
deriving Repr, DecidableEq, Inhabited

/-- reset state: `ready = (txxd is None)`, `count = 0` -/
def TX.init (t : Option Nat) : TX := ⟨0, t.isNone⟩

/-- clock edge; `count` is a `Signal(max=max(txxd,2))` and wraps -/
def TX.step (t : Option Nat) (s : TX) (valid : Bool) : TX :=
  match t with
  | none => s
  | some txxd =>
    let w := maxBits (max txxd 2)
    if valid then ⟨(txxd - 1) % 2 ^ w, txxd - 1 == 0⟩
    else if !s.ready then ⟨(s.count + 2 ^ w - 1) % 2 ^ w, if s.count == 1 then true else s.ready⟩
    else s

/-! ### tFAWController -/
structure TF where
  window : List Bool := []     -- `window` shift register, index 0 = most recent
  ready : Bool := true
deriving Repr, DecidableEq, Inhabited

def TF.init (t : Option Nat) : TF := ⟨List.replicate (t.getD 0) false, true⟩

def TF.count (s : TF) : Nat := (s.window.filter id).length

def TF.step (t : Option Nat) (s : TF) (valid : Bool) : TF :=
  match t with
  | none => s
  | some tfaw =>
    -- `count = Signal(max=max(tfaw, 2))` is assigned the sum of the window bits and truncates (tfaw = 2 or 4: a full
    -- window reads as 0)
    let cnt := s.count % 2 ^ maxBits (max tfaw 2)
    { window := (valid :: s.window).take tfaw
      ready := if cnt < 4 then (if cnt == 3 then !valid else true) else s.ready }

/-! ### RoundRobin, switch policy SP_CE: next grant = first requester after the current one (cyclically),
the current one excluded; unchanged when nobody else requests -/
def rrNext (n grant : Nat) (req : Nat → Bool) : Nat :=
  match (List.range (n - 1)).find? (fun k => req ((grant + 1 + k) % n)) with
  | some k => (grant + 1 + k) % n
  | none => grant

def rrStep (n grant : Nat) (req : Nat → Bool) (ce : Bool) : Nat :=
  if n > 1 && ce then rrNext n grant req else grant

/-! ### timeline(trigger, events): the counter -/
def timelineStep (lastevent counter : Nat) (trigger : Bool) : Nat :=
  let wrapNaturally := (lastevent &&& (lastevent + 1)) == 0
  let w := maxBits (lastevent + 1)
  let logic := if counter != 0 then (counter + 1) % 2 ^ w else if trigger then 1 else counter
  if !wrapNaturally && counter == lastevent then 0 else logic

/-- event condition: `trigger & counter == 0` for offset 0, `counter == offset` otherwise -/
def timelineFires (offset counter : Nat) (trigger : Bool) : Bool :=
  if offset == 0 then trigger && counter == 0 else counter == offset

end Hw
