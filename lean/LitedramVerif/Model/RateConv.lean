/-
Model of `DFIRateConverter` (litedram/phy/dfi.py) built on `Serializer` / `Deserializer`
(litedram/phy/utils.py) for two phase-aligned clocks: the fast clock `clk` ticks every step, the slow clock
`clkdiv` ticks together with every `ratio`-th fast tick (fast tick index ≡ 0 mod ratio).

Each converted DFI signal is an independent (de)serializer; the model keeps, per signal class, the
registers of one instance as lists over the PHY phases.
 * command-type signals (everything except wrdata/wrdata_mask/rddata/rddata_valid): slow phase `pi + P·j`
   feeds slot `j` of PHY phase `pi`
 * wrdata / wrdata_mask: slow phases `pi·ratio + j` (j < ratio) are concatenated and placed in slot
   `write_delay` of PHY phase `pi`, zeros elsewhere
 * rddata / rddata_valid: PHY phase `pi` is deserialised over `ratio` fast ticks; slot `read_delay` is handed
   to slow phases `pi·ratio + j` (valid replicated)
-/
namespace RateConv

structure Cfg where
  ratio : Nat
  nph : Nat            -- PHY phases P
  wdelay : Nat
  rdelay : Nat
  dbits : Nat          -- PHY wrdata/rddata width per phase (slow side: dbits / ratio)
deriving Repr

/-- `Serializer` state: registered parallel word (list of `ratio` slots) and the fast counter -/
structure Ser (α : Type) where
  iD : List α
  cnt : Nat
deriving Repr

/-- output in the current fast cycle: `i_array[cnt]` of the registered word -/
def Ser.out {α : Type} [Inhabited α] (s : Ser α) : α := s.iD.getD s.cnt default

/-- fast tick (`slow` = the slow clock ticks too): counter wraps at ratio−1; `i_d` latches the parallel input -/
def Ser.step {α : Type} (ratio : Nat) (s : Ser α) (slow : Bool) (i : List α) : Ser α :=
  { iD := if slow then i else s.iD, cnt := if s.cnt == ratio - 1 then 0 else s.cnt + 1 }

/-- `Deserializer` state -/
structure Des (α : Type) where
  cnt : Nat
  oPre : List α          -- `o_pre`, `ratio` slots
  oPreD : List α         -- `o_pre_d` (slow)
  o : List α             -- `o` (slow)
deriving Repr

def Des.step {α : Type} [Inhabited α] (ratio : Nat) (s : Des α) (slow : Bool) (i : α) : Des α :=
  { cnt := (s.cnt + 1) % 2 ^ (Nat.log2 (ratio - 1) + 1)   -- `Signal(max=ratio)` wraps naturally (ratio a power of two)
    oPre := s.oPre.set (s.cnt % ratio) i
    oPreD := if slow then s.oPre else s.oPreD
    -- `o.eq(Cat(as_array(o_pre_d)[:-1], as_array(o_pre)[-1]))`
    o := if slow then (s.oPreD.take (ratio - 1)) ++ [s.oPre.getD (ratio - 1) default] else s.o }

instance : Inhabited (Des Nat) := ⟨{ cnt := 0, oPre := [], oPreD := [], o := [] }⟩

/-- one DFI phase value, command part and data part (naturals; widths are the harness's business) -/
structure Cmd where
  address : Nat := 0
  bank : Nat := 0
  casN : Nat := 1
  csN : Nat := 1
  rasN : Nat := 1
  weN : Nat := 1
  cke : Nat := 0
  odt : Nat := 0
  resetN : Nat := 0
  actN : Nat := 1
  wrdataEn : Nat := 0
  rddataEn : Nat := 0
deriving Repr, Inhabited, DecidableEq

structure State where
  cmd : List (Ser Cmd)           -- per PHY phase
  wrdata : List (Ser Nat)
  wrmask : List (Ser Nat)
  rddata : List (Des Nat)
  rdvalid : List (Des Nat)
deriving Repr

def init (c : Cfg) : State :=
  let zc : Ser Cmd := { iD := List.replicate c.ratio { casN := 0, csN := 0, rasN := 0, weN := 0, actN := 0 }, cnt := c.ratio - 1 }
  let zs : Ser Nat := { iD := List.replicate c.ratio 0, cnt := c.ratio - 1 }
  let zd : Des Nat := { cnt := c.ratio - 1, oPre := List.replicate c.ratio 0, oPreD := List.replicate c.ratio 0, o := List.replicate c.ratio 0 }
  { cmd := List.replicate c.nph zc, wrdata := List.replicate c.nph zs, wrmask := List.replicate c.nph zs,
    rddata := List.replicate c.nph zd, rdvalid := List.replicate c.nph zd }
-- (registers reset to 0: the command fields' *signal* resets are on the interface, not on `i_d`)

/-- slow-side inputs: per slow phase its command and write data -/
structure SlowIn where
  cmds : List Cmd        -- ratio·P entries
  wrdata : List Nat
  wrmask : List Nat
deriving Repr

/-- PHY-side (fast) outputs per PHY phase -/
structure FastOut where
  cmds : List Cmd
  wrdata : List Nat
  wrmask : List Nat
deriving Repr

def fastOut (s : State) : FastOut :=
  { cmds := s.cmd.map Ser.out, wrdata := s.wrdata.map Ser.out, wrmask := s.wrmask.map Ser.out }

/-- slow-side read outputs per slow phase: (rddata, rddata_valid) -/
def slowOut (c : Cfg) (s : State) : List (Nat × Nat) :=
  let sw := c.dbits / c.ratio
  (List.range (c.ratio * c.nph)).map fun q =>
    let pi := q / c.ratio
    let j := q % c.ratio
    let word := ((s.rddata.getD pi default).o.getD c.rdelay 0)
    let v := ((s.rdvalid.getD pi default).o.getD c.rdelay 0)
    ((word >>> (j * sw)) % 2 ^ sw, v % 2)

/-- fast tick -/
def step (c : Cfg) (s : State) (slow : Bool) (i : SlowIn) (phyRd : List (Nat × Nat)) : State :=
  let sw := c.dbits / c.ratio
  let smw := sw / 8
  { cmd := (List.range c.nph).map fun pi =>
      Ser.step c.ratio (s.cmd.getD pi ⟨[], 0⟩) slow ((List.range c.ratio).map fun j => i.cmds.getD (pi + c.nph * j) default)
    wrdata := (List.range c.nph).map fun pi =>
      let word := (List.range c.ratio).foldl (fun acc j => acc ||| ((i.wrdata.getD (pi * c.ratio + j) 0) % 2 ^ sw) <<< (j * sw)) 0
      Ser.step c.ratio (s.wrdata.getD pi ⟨[], 0⟩) slow ((List.range c.ratio).map fun k => if k == c.wdelay then word else 0)
    wrmask := (List.range c.nph).map fun pi =>
      let word := (List.range c.ratio).foldl (fun acc j => acc ||| ((i.wrmask.getD (pi * c.ratio + j) 0) % 2 ^ smw) <<< (j * smw)) 0
      Ser.step c.ratio (s.wrmask.getD pi ⟨[], 0⟩) slow ((List.range c.ratio).map fun k => if k == c.wdelay then word else 0)
    rddata := (List.range c.nph).map fun pi => Des.step c.ratio (s.rddata.getD pi default) slow (phyRd.getD pi (0, 0)).1
    rdvalid := (List.range c.nph).map fun pi => Des.step c.ratio (s.rdvalid.getD pi default) slow (phyRd.getD pi (0, 0)).2 }

end RateConv
