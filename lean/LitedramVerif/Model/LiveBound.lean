/-
Explicit bounds of the refresh-handshake liveness theorems (Props/C04_BankMachine.lean, Props/C04_Controller.lean), as
functions of the configuration only.  Kept with the models (no proofs) so that the native driver can print them.
-/
import LitedramVerif.Model.Controller
namespace BmLive
open Hw BankMachine

/-- width-dependent worst case of a timer: from reset it first wraps once -/
def remMax (t : Option Nat) : Nat := match t with | none => 0 | some x => 2 ^ maxBits (max x 2)

/-- explicit bound, independent of the state -/
def phiMax (c : Cfg) (A : Nat) : Nat :=
  2 * remMax (some c.twtp) + remMax c.tRAS + remMax c.tRC + c.tRAS.getD 0 + 2 * A + 2 * c.tRP + c.tRCD + 4

end BmLive

namespace CtlLive
open Controller Hw BmLive

/-- by how much one more activate can raise it -/
def rasInc (c : Cfg) : Nat := c.tRRD.getD 0 + c.tFAW.getD 0 + 1

def tfMax (t : Option Nat) : Nat := match t with | none => 0 | some f => f * f + 1

/-- explicit bound on `omegaB`, independent of the state -/
def omegaMax (c : Cfg) : Nat :=
  (remMax (some c.twtr) + 1 + c.readLatency) + (c.nbm - 1) * (rasInc c + 1) + (remMax c.tRRD + tfMax c.tFAW)

def omega1Max (c : Cfg) : Nat :=
  (remMax (some c.twtr) + 1 + c.readLatency) + remMax (some c.tCCD) + (remMax c.tRRD + tfMax c.tFAW) + (c.nbm - 1) +
    c.nbm * (rasInc c + c.nbm)

def omegaGMax (c : Cfg) : Nat := if c.nphases == 1 then omega1Max c else omegaMax c

/-- the acceptance bound handed to `BmLive.phi` -/
def accBound (c : Cfg) : Nat := omegaGMax c + 1

/-- explicit bound, independent of the state -/
def psiMax (c : Cfg) : Nat :=
  phiMax c.bm (accBound c) + 1 + (remMax (some c.twtr) + 1 + c.readLatency) + 1

end CtlLive

namespace RefreshRate
open Controller CtlLive

/-- length of one PREA / REF execution of the sequencer -/
def M (c : Refresher.Cfg) : Nat := c.tRP + c.tRFC + 1
def zqLen (c : Refresher.Cfg) : Nat := match c.tZQCS with | none => 0 | some z => c.tRP + z + 1

/-- executable form of `RefreshRate.Budget` (the hypothesis of `C04.refresh_rate`): one refresh episode fits between two
requests of the postponer -/
def budgetCheck (c : Controller.Cfg) : Bool :=
  decide (psiMax c + 2 + c.rf.postponing * M c.rf + zqLen c.rf ≤ c.rf.postponing * c.rf.tREFI)

end RefreshRate
