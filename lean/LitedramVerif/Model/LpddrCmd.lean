/-
Model of the DFI-phase → LPDDR4 / LPDDR5 command adapters:
  litedram/phy/lpddr4/commands.py  (Command.set / parse_bit / DFIPhaseAdapter)
  litedram/phy/lpddr5/commands.py  (Command.set / parse_bit / DFIPhaseAdapter, WCK sync bits, MPC operand)
The truth tables themselves are *generated* from the source (Generated/LpddrTables.lean); the meaning
of a table token (`parse_bit`'s rules) and the DFI-command `Case` are transcribed here.
-/
import LitedramVerif.Generated.LpddrTables
namespace LpddrCmd

/-- where a CA bit comes from -/
inductive Src
  | const (b : Bool)
  | addr (i : Nat)      -- dfi.address[i]
  | bank (i : Nat)      -- dfi.bank[i]
  | mpcOp (i : Nat)     -- LPDDR5 mpc_op[i]
  | wsWr | wsRd | wsFs  -- LPDDR5 wck_sync == WR / RD / FS
deriving Repr, DecidableEq

/-- one DFI phase (command part) -/
structure Dfi where
  csN : Bool
  casN : Bool
  rasN : Bool
  weN : Bool
  address : Nat
  bank : Nat
deriving Repr

structure Env where
  dfi : Dfi
  wckSync : Nat := 0     -- LPDDR5 adapter's wck_sync output value (0 = none)

/-- `MPC.ZQC_LATCH` of LPDDR5 -/
def zqcLatch5 : Nat := 0b10000110

def eval (e : Env) : Src → Bool
  | .const b => b
  | .addr i => e.dfi.address.testBit i
  | .bank i => e.dfi.bank.testBit i
  | .mpcOp i => (if e.dfi.address = 0 then zqcLatch5 else e.dfi.address % 256).testBit i
  | .wsWr => e.wckSync == 1
  | .wsRd => e.wckSync == 2
  | .wsFs => e.wckSync == 3

abbrev Tok := String × Option Nat

/-- LPDDR4 `parse_bit` rules -/
def rule4 (isMrw : Bool) : Tok → Option Src
  | ("H", none) => some (.const true)
  | ("L", none) => some (.const false)
  | ("V", none) => some (.const false)
  | ("X", none) => some (.const false)
  | ("BL", none) => some (.const false)
  | ("AP", none) => some (.addr 10)
  | ("AB", none) => some (.addr 10)
  | ("BA", some i) => some (.bank i)
  | ("R", some i) => some (.addr i)
  | ("C", some i) => some (.addr i)
  | ("MA", some i) => some (if isMrw then .bank i else .addr i)
  | ("OP", some i) => some (.addr i)
  | _ => none

/-- LPDDR5 `parse_bit` rules -/
def rule5 (isMrw isMpc : Bool) : Tok → Option Src
  | ("H", none) => some (.const true)
  | ("L", none) => some (.const false)
  | ("V", none) => some (.const false)
  | ("X", none) => some (.const false)
  | ("AB", none) => some (.addr 10)
  | ("AP", none) => some (.addr 10)
  | ("RFM", none) => some (.const false)
  | ("SB", some _) => some (.const false)
  | ("WS_WR", none) => some .wsWr
  | ("WS_RD", none) => some .wsRd
  | ("WS_FS", none) => some .wsFs
  | ("DC", some _) => some (.const false)
  | ("WRX", none) => some (.const false)
  | ("WXSA", none) => some (.const false)
  | ("WXSB", none) => some (.const false)
  | ("BA", some i) => some (.bank i)
  | ("R", some i) => some (.addr i)
  | ("C", some i) => some (.addr (i + 4))
  | ("MA", some i) => some (if isMrw then .bank i else .addr i)
  | ("OP", some i) => some (if isMpc then .mpcOp i else .addr i)
  | _ => none

/-- a "small command": CS flag and two CA words (as sources) -/
structure Small where
  cs : Bool
  ca0 : List Src
  ca1 : List Src
deriving Repr, DecidableEq

def mapRule (r : Tok → Option Src) (l : List Tok) : List Src :=
  l.map (fun t => (r t).getD (.const false))

/-- LPDDR4 `Command.set(cmd)` -/
def small4 (cmd : String) : Small :=
  match Generated.lpddr4Table.lookup cmd with
  | some (e1, e2) =>
    let r := rule4 (cmd == "MRW-1" || cmd == "MRW-2")
    { cs := cmd != "DESELECT", ca0 := mapRule r e1, ca1 := mapRule r e2 }
  | none => { cs := false, ca0 := [], ca1 := [] }

/-- LPDDR5 `Command.set(cmd)` -/
def small5 (cmd : String) : Small :=
  match Generated.lpddr5Table.lookup cmd with
  | some (e1, e2) =>
    let r := rule5 (cmd == "MRW-1" || cmd == "MRW-2") (cmd == "MPC")
    { cs := cmd != "DES", ca0 := mapRule r e1, ca1 := mapRule r e2 }
  | none => { cs := false, ca0 := [], ca1 := [] }

/-- `dfi_cmd = Cat(~we_n, ~ras_n, ~cas_n)` -/
def dfiCmd (d : Dfi) : Nat := (if d.weN then 0 else 1) + (if d.rasN then 0 else 2) + (if d.casN then 0 else 4)

/-- LPDDR4 `DFIPhaseAdapter`: names of (cmd1, cmd2) and `valid` -/
def select4 (masked : Bool) (d : Dfi) : String × String × Bool :=
  if d.csN then ("DESELECT", "DESELECT", false)      -- nothing driven: all zero
  else match dfiCmd d with
    | 0b010 => ("ACTIVATE-1", "ACTIVATE-2", true)
    | 0b100 => ("READ-1", "CAS-2", true)
    | 0b101 => (if masked then "MASK WRITE-1" else "WRITE-1", "CAS-2", true)
    | 0b011 => ("DESELECT", "PRECHARGE", true)
    | 0b110 => ("DESELECT", "REFRESH", true)
    | 0b001 => if d.bank = 0 then ("DESELECT", "MPC", true)
               else if d.bank = 1 then ("MRR-1", "CAS-2", true)
               else ("DESELECT", "DESELECT", false)
    | 0b111 => ("MRW-1", "MRW-2", true)
    | _ => ("DESELECT", "DESELECT", false)

/-- LPDDR5 `DFIPhaseAdapter`: (cmd1, cmd2, valid, wck_sync request type) -/
def select5 (masked : Bool) (d : Dfi) : String × String × Bool × Nat :=
  if d.csN then ("DES", "DES", false, 0)
  else match dfiCmd d with
    | 0b010 => ("ACT-1", "ACT-2", true, 0)
    | 0b100 => ("CAS", "RD16", true, 2)
    | 0b101 => ("CAS", if masked then "MWR" else "WR16", true, 1)
    | 0b011 => ("DES", "PRE", true, 0)
    | 0b110 => ("DES", "REF", true, 0)
    | 0b001 => if d.bank = 0 then ("DES", "MPC", true, 0)
               else if d.bank = 1 then ("CAS", "MRR", true, 2)
               else if d.bank = 2 then ("DES", "NOP", true, 0)
               else ("DES", "DES", false, 0)
    | 0b111 => ("MRW-1", "MRW-2", true, 0)
    | _ => ("DES", "DES", false, 0)

/-- evaluated adapter outputs -/
structure Pins where
  cs : List Bool            -- LPDDR4: 4 SDR slots; LPDDR5: 2 CK cycles
  ca : List (List Bool)     -- 4 CA words
  valid : Bool
deriving Repr, DecidableEq

def mk4 (c1 c2 : String) (v : Bool) (d : Dfi) : Pins :=
  let s1 := small4 c1
  let s2 := small4 c2
  let e : Env := { dfi := d }
  { cs := [s1.cs, false, s2.cs, false]
    ca := [s1.ca0.map (eval e), s1.ca1.map (eval e), s2.ca0.map (eval e), s2.ca1.map (eval e)]
    valid := v }

def adapter4 (masked : Bool) (d : Dfi) : Pins :=
  let s := select4 masked d
  mk4 s.1 s.2.1 s.2.2 d

/-- LPDDR5 adapter; `wckSyncDone` is the PHY's input; returns pins and the `wck_sync` output -/
def mk5 (c1 c2 : String) (v : Bool) (wck : Nat) (d : Dfi) : Pins :=
  let s1 := small5 c1
  let s2 := small5 c2
  let e : Env := { dfi := d, wckSync := wck }
  { cs := [s1.cs, s2.cs]
    ca := [s1.ca0.map (eval e), s1.ca1.map (eval e), s2.ca0.map (eval e), s2.ca1.map (eval e)]
    valid := v }

def adapter5 (masked : Bool) (wckSyncDone : Bool) (d : Dfi) : Pins × Nat :=
  let s := select5 masked d
  let wck := if wckSyncDone then 0 else s.2.2.2
  (mk5 s.1 s.2.1 s.2.2.1 wck d, wck)

end LpddrCmd
