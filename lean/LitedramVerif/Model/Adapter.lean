/-
Cycle models of `litedram/frontend/adapter.py`: LiteDRAMNativePortDownConverter and LiteDRAMNativePortUpConverter,
including the LiteX stream converters (`stream._UpConverter`, `stream._DownConverter` behind `StrideConverter`) and
FIFOs they are built from.  A narrow word is a pair (data, we); a wide word is the list of its `ratio` narrow
chunks, chunk 0 = least significant (StrideConverter keeps the fields chunk-wise, so this is exact).
-/
import LitedramVerif.Model.Fifo
namespace Adapter

abbrev Chunk := Nat × Nat          -- (data, we) of one narrow word

/-- position of the `i`-th narrow word (in time) inside the wide word -/
def place (ratio : Nat) (reverse : Bool) (i : Nat) : Nat := if reverse then ratio - 1 - i else i

/-! ### litex stream._UpConverter (narrow → wide), `sink.last = 0` -/
structure UpS where
  demux : Nat := 0
  strobeAll : Bool := false
  regs : List Chunk := []          -- `source.data`, `ratio` chunks
deriving Repr

def UpS.init (ratio : Nat) : UpS := { regs := List.replicate ratio (0, 0) }
def UpS.sinkReady (s : UpS) (srcReady : Bool) : Bool := !s.strobeAll || srcReady
def UpS.step (ratio : Nat) (reverse : Bool) (s : UpS) (sinkValid : Bool) (d : Chunk) (srcReady : Bool) : UpS :=
  let load := sinkValid && s.sinkReady srcReady
  let strobe1 := if srcReady then false else s.strobeAll
  if load then
    let regs := s.regs.set (place ratio reverse s.demux) d
    if s.demux == ratio - 1 then { demux := 0, strobeAll := true, regs }
    else { demux := s.demux + 1, strobeAll := strobe1, regs }
  else { s with strobeAll := strobe1 }

/-! ### litex stream._DownConverter (wide → narrow): only a `mux` counter -/
def downData (ratio : Nat) (reverse : Bool) (mux : Nat) (w : List Chunk) : Chunk := w.getD (place ratio reverse mux) (0, 0)
def downStep (ratio : Nat) (mux : Nat) (srcValid srcReady : Bool) : Nat :=
  if srcValid && srcReady then (if mux == ratio - 1 then 0 else mux + 1) else mux

structure Cfg where
  ratio : Nat
  reverse : Bool := false
  hasW : Bool := true
  hasR : Bool := true
  toAddrBits : Nat               -- len(port_to.cmd.addr)
  logRatio : Nat                 -- log2(ratio)
deriving Repr

/-! ### LiteDRAMNativePortDownConverter (wide user port → narrow controller port) -/
structure DState where
  convert : Bool := false
  cmdCount : Nat := 0
  cmdAddr : Nat := 0
  cmdWe : Bool := false
  wmux : Nat := 0
  rup : UpS := {}
deriving Repr

def DState.init (c : Cfg) : DState := { rup := UpS.init c.ratio }

structure DIn where
  cmdValid : Bool
  cmdWe : Bool
  cmdAddr : Nat
  wValid : Bool
  wData : List Chunk            -- the user's wide write word
  rReady : Bool
  toCmdReady : Bool
  toWReady : Bool
  toRValid : Bool
  toRData : Nat
deriving Repr

structure DOut where
  cmdReady : Bool
  toCmdValid : Bool
  toCmdWe : Bool
  toCmdAddr : Nat
  wReady : Bool
  toWValid : Bool
  toWData : Chunk
  rValid : Bool
  rData : List Nat
  toRReady : Bool
deriving Repr

def dstep (c : Cfg) (s : DState) (i : DIn) : DState × DOut :=
  let cmdReady := !s.convert
  let toCmdValid := s.convert
  let toCmdAddr := (s.cmdAddr * c.ratio + s.cmdCount) % 2 ^ c.toAddrBits
  -- write path
  let wlast := s.wmux == c.ratio - 1
  let toWValid := c.hasW && i.wValid
  let wReady := c.hasW && wlast && i.toWReady
  -- read path
  let rValid := c.hasR && s.rup.strobeAll
  let toRReady := c.hasR && s.rup.sinkReady i.rReady
  let s' : DState :=
    { convert := if !s.convert then i.cmdValid else !(i.toCmdReady && s.cmdCount == c.ratio - 1)
      cmdCount := if !s.convert then (if i.cmdValid then 0 else s.cmdCount)
                  else if i.toCmdReady then (s.cmdCount + 1) % 2 ^ c.logRatio else s.cmdCount
      cmdAddr := if !s.convert && i.cmdValid then i.cmdAddr else s.cmdAddr
      cmdWe := if !s.convert && i.cmdValid then i.cmdWe else s.cmdWe
      wmux := if c.hasW then downStep c.ratio s.wmux i.wValid i.toWReady else s.wmux
      rup := if c.hasR then s.rup.step c.ratio c.reverse i.toRValid (i.toRData, 0) i.rReady else s.rup }
  (s', { cmdReady, toCmdValid, toCmdWe := s.convert && s.cmdWe, toCmdAddr := if s.convert then toCmdAddr else 0,
         wReady, toWValid, toWData := downData c.ratio c.reverse s.wmux i.wData,
         rValid, rData := s.rup.regs.map (·.1), toRReady })

/-! ### LiteDRAMNativePortUpConverter (narrow user port → wide controller port) -/
inductive UFsm | new | cmd | fill | commit
deriving Repr, DecidableEq

structure UState where
  fsm : UFsm := .new
  sel : Nat := 0
  cmdAddr : Nat := 0
  cmdWe : Bool := false
  cmdLast : Bool := false
  readLock : Bool := false
  readUnlocked : Bool := false
  -- read path
  rfifo : Fifo.State (List Nat) := {}
  rmux : Nat := 0
  rchunk : Nat := 0              -- position of the single 1 in `rdata_chunk`
  -- write path
  wfifo : Fifo.State Chunk := {}
  wup : UpS := {}
  wbuf : Fifo.State (List Chunk) := {}
  wchunk : Nat := 0
  wsel : Nat := 0
deriving Repr

def UState.init (c : Cfg) : UState := { wup := UpS.init c.ratio }

structure UIn where
  cmdValid : Bool
  cmdWe : Bool
  cmdAddr : Nat
  cmdLast : Bool
  flush : Bool
  wValid : Bool
  wData : Chunk
  rReady : Bool
  toCmdReady : Bool
  toWReady : Bool
  toRValid : Bool
  toRData : List Nat             -- wide read word, chunk-wise
deriving Repr

structure UOut where
  cmdReady : Bool
  toCmdValid : Bool
  toCmdWe : Bool
  toCmdAddr : Nat
  wReady : Bool
  toWValid : Bool
  toWData : List Chunk
  rValid : Bool
  rData : Nat
  toRReady : Bool
deriving Repr

def fifoCfg (c : Cfg) : Fifo.Cfg := { depth := c.ratio - 1 }
def bufCfg : Fifo.Cfg := { depth := 1 }

/-- `wdata_converter.source.we & wdata_sel`, chunk-wise -/
def maskWide (c : Cfg) (wsel : Nat) (w : List Chunk) : List Chunk :=
  (List.range c.ratio).map fun j =>
    let ch := w.getD j (0, 0)
    (ch.1, if wsel.testBit (place c.ratio c.reverse j) then ch.2 else 0)

def ustep (c : Cfg) (s : UState) (i : UIn) : UState × UOut :=
  let lowAddr := i.cmdAddr % 2 ^ c.logRatio
  let addrChanged := s.cmdAddr / 2 ^ c.logRatio != i.cmdAddr / 2 ^ c.logRatio
  let rwCollision := s.cmdWe && (i.cmdValid && !i.cmdWe) && !addrChanged
  let nextCmd := addrChanged || (s.cmdWe != i.cmdWe) || s.sel == 2 ^ c.ratio - 1 || s.cmdLast || i.flush
  let cbValid := s.fsm == .commit
  let toCmdValid := s.fsm == .cmd
  -- write datapath
  let wr := c.hasW && cbValid && s.cmdWe
  let wChunkValid := s.sel.testBit s.wchunk
  let wfValid := Fifo.srcValid (fifoCfg c) s.wfifo i.wValid
  let wfData := (Fifo.srcData (fifoCfg c) s.wfifo i.wData).getD (0, 0)
  let bufSinkReady := Fifo.sinkReady bufCfg s.wbuf i.toWReady
  let convSinkReady := s.wup.sinkReady bufSinkReady
  let convSinkValid := wr && (if wChunkValid then wfValid else true)
  let convSinkData : Chunk := if wr && wChunkValid then wfData else (0, 0)
  let wfSrcReady := wr && wChunkValid && convSinkReady
  let wdataFinished := c.hasW && convSinkValid && convSinkReady && s.wchunk == c.ratio - 1
  let wReady := c.hasW && Fifo.sinkReady (fifoCfg c) s.wfifo wfSrcReady
  let toWValid := c.hasW && Fifo.srcValid bufCfg s.wbuf s.wup.strobeAll
  let toWData := (Fifo.srcData bufCfg s.wbuf []).getD []
  -- read datapath
  let rd := c.hasR && cbValid && !s.cmdWe
  let rChunkValid := s.sel.testBit s.rchunk
  let rfValid := c.hasR && Fifo.srcValid (fifoCfg c) s.rfifo i.toRValid
  let rfData := (Fifo.srcData (fifoCfg c) s.rfifo i.toRData).getD []
  let rconvSrcReady := rd && (if rChunkValid then i.rReady else true)
  let rlast := s.rmux == c.ratio - 1
  let rfSrcReady := rlast && rconvSrcReady
  let rValid := rd && rChunkValid && rfValid
  let rData := rfData.getD (place c.ratio c.reverse s.rmux) 0
  let rdataFinished := rd && rfValid && rconvSrcReady && s.rchunk == c.ratio - 1
  let toRReady := c.hasR && Fifo.sinkReady (fifoCfg c) s.rfifo rfSrcReady
  -- command FSM
  let cbReady := wdataFinished || rdataFinished
  let cmdReady :=
    match s.fsm with
    | .new => i.cmdValid && !s.readLock
    | .fill => !nextCmd && i.cmdValid
    | _ => false
  let fsm' : UFsm :=
    match s.fsm with
    | .new => if cmdReady then (if i.cmdWe then .fill else .cmd) else .new
    | .cmd => if i.toCmdReady then (if s.cmdWe then .new else .fill) else .cmd
    | .fill => if nextCmd then .commit else .fill
    | .commit => if cbReady then (if s.cmdWe then .cmd else .new) else .commit
  let sel' :=
    match s.fsm with
    | .new => if cmdReady then 2 ^ lowAddr else s.sel
    | .fill => if !nextCmd && i.cmdValid then s.sel ||| 2 ^ lowAddr else s.sel
    | _ => s.sel
  let newAcc := s.fsm == .new && cmdReady
  let readLock1 := if wdataFinished then false else if rwCollision && !toCmdValid && !s.readUnlocked then true else s.readLock
  let readUnl1 := if wdataFinished then true else s.readUnlocked
  let readUnl2 := if i.cmdValid && cmdReady then false else readUnl1
  let s' : UState :=
    { fsm := fsm', sel := sel'
      cmdAddr := if newAcc then i.cmdAddr else s.cmdAddr
      cmdWe := if newAcc then i.cmdWe else s.cmdWe
      cmdLast := if newAcc then i.cmdLast else if s.fsm == .fill && !nextCmd then i.cmdLast else s.cmdLast
      readLock := readLock1, readUnlocked := readUnl2
      rfifo := if c.hasR then Fifo.step (fifoCfg c) s.rfifo i.toRValid i.toRData rfSrcReady else s.rfifo
      rmux := if c.hasR then downStep c.ratio s.rmux rfValid rconvSrcReady else s.rmux
      rchunk := if c.hasR && rfValid && rconvSrcReady then (s.rchunk + 1) % c.ratio else s.rchunk
      wfifo := if c.hasW then Fifo.step (fifoCfg c) s.wfifo i.wValid i.wData wfSrcReady else s.wfifo
      wup := if c.hasW then s.wup.step c.ratio c.reverse convSinkValid convSinkData bufSinkReady else s.wup
      wbuf := if c.hasW then Fifo.step bufCfg s.wbuf s.wup.strobeAll (maskWide c s.wsel s.wup.regs) i.toWReady else s.wbuf
      wchunk := if c.hasW && convSinkValid && convSinkReady then (s.wchunk + 1) % c.ratio else s.wchunk
      wsel := if c.hasW && cbValid && s.cmdWe && s.wchunk == c.ratio - 1 then s.sel else s.wsel }
  (s', { cmdReady, toCmdValid, toCmdWe := toCmdValid && s.cmdWe,
         toCmdAddr := if toCmdValid then (s.cmdAddr / 2 ^ c.logRatio) % 2 ^ c.toAddrBits else 0,
         wReady, toWValid, toWData, rValid, rData, toRReady })

end Adapter
