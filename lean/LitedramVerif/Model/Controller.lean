/-
Cycle model of the LiteDRAM controller core: `litedram/core/multiplexer.py` (_CommandChooser ×2, _Steerer,
timing gates, anti-starvation, READ/WRITE/RTW/WTR/REFRESH FSM) composed with N bank machines and the
refresher as `litedram/core/controller.py` wires them.  Combinational paths across the blocks are
evaluated in dependency order: refresher outputs → bank-machine requests → choosers/ready → everything steps.
Not modelled: dynamic (Signal) rdphase/wrphase, `tCCD=None`, the bandwidth counters.
-/
import LitedramVerif.Model.BankMachine
import LitedramVerif.Model.Refresher
namespace Controller
open Hw

structure Cfg where
  nbm : Nat                -- number of bank machines = nranks * 2^bankbits
  bankbits : Nat
  rankbits : Nat
  nphases : Nat
  rdphase : Nat
  wrphase : Nat
  bm : BankMachine.Cfg
  rf : Refresher.Cfg
  tRRD : Option Nat
  tFAW : Option Nat
  tCCD : Nat
  twtr : Nat               -- tWTR + ceil(cwl/nphases) + tCCD
  readTime : Nat
  writeTime : Nat
  readLatency : Nat        -- phy.read_latency
deriving Repr

inductive Fsm | read | write | refresh | wtr | rtw (k : Nat)
deriving Repr, DecidableEq

/-- registered DFI command signals of one phase -/
structure Phase where
  csN : Nat := 0
  bank : Nat := 0
  address : Nat := 0
  casN : Bool := true
  rasN : Bool := true
  weN : Bool := true
  rddataEn : Bool := false
  wrdataEn : Bool := false
deriving Repr, DecidableEq, Inhabited

structure State where
  bms : Array BankMachine.State
  rf : Refresher.State
  grantCmd : Nat := 0
  grantReq : Nat := 0
  trrd : TX
  tfaw : TF
  tccd : TX
  twtr : TX
  readTimer : Nat
  writeTimer : Nat
  fsm : Fsm := .read
  dfi : Array Phase

def init (c : Cfg) : State :=
  { bms := Array.replicate c.nbm (BankMachine.State.init c.bm)
    rf := Refresher.init c.rf
    trrd := TX.init c.tRRD, tfaw := TF.init c.tFAW, tccd := TX.init (some c.tCCD), twtr := TX.init (some c.twtr)
    readTimer := 0, writeTimer := 0
    dfi := Array.replicate c.nphases { casN := false, rasN := false, weN := false } }
-- note: the steerer's registers reset to 0 (cas_n = ras_n = we_n = 0 for the very first cycle)

structure BankIn where
  valid : Bool
  we : Bool
  addr : Nat
deriving Repr, Inhabited

structure BankOut where
  ready : Bool
  lock : Bool
  wdataReady : Bool
  rdataValid : Bool
deriving Repr, Inhabited

/-- a chooser's selected command (cas/ras/we already gated by valid) -/
structure Chosen where
  valid : Bool
  a : Nat
  ba : Nat
  cas : Bool
  ras : Bool
  we : Bool
  isCmd : Bool
  isRead : Bool
  isWrite : Bool
deriving Repr, Inhabited

def chooserValid (r : BankMachine.Req) (wantReads wantWrites wantCmds wantActs : Bool) : Bool :=
  let isAct := r.ras && !r.cas && !r.we
  let command := r.isCmd && wantCmds && (!isAct || wantActs)
  r.valid && (command || ((r.isRead == wantReads) && (r.isWrite == wantWrites)))

def choose (reqs : Array BankMachine.Req) (valids : Array Bool) (grant : Nat) : Chosen :=
  let r := reqs[grant]!
  let v := valids[grant]!
  { valid := v, a := r.a, ba := grant, cas := v && r.cas, ras := v && r.ras, we := v && r.we,
    isCmd := r.isCmd, isRead := r.isRead, isWrite := r.isWrite }

def Chosen.activate (c : Chosen) : Bool := c.ras && !c.cas && !c.we

def antiStarve (timeout timer : Nat) (en : Bool) : Nat × Bool :=
  if timeout == 0 then (timer, false)
  else
    let maxT := timer == 0
    (if !en then timeout - 1 else if !maxT then timer - 1 else timer, maxT)

/-- STEER_* selections -/
inductive Sel | nop | cmd | req | refresh
deriving DecidableEq, Repr

def steerSel (c : Cfg) (fsm : Fsm) (i : Nat) : Sel :=
  match fsm with
  | .read =>
    let rdcmd := (c.rdphase + c.nphases - 1) % c.nphases
    if i == rdcmd then .cmd else if i == c.rdphase then .req else .nop
  | .write =>
    let wrcmd := (c.wrphase + c.nphases - 1) % c.nphases
    if i == wrcmd then .cmd else if i == c.wrphase then .req else .nop
  | .refresh => if i == 0 then .refresh else .nop
  | _ => .nop

def decodeRank (c : Cfg) (ba : Nat) : Nat × Nat :=   -- (cs_n, bank)
  if c.rankbits == 0 then (0, ba)
  else
    let rank := ba >>> c.bankbits
    let nr := 2 ^ c.rankbits
    ((2 ^ nr - 1) - (1 <<< rank) % 2 ^ nr, ba % 2 ^ c.bankbits)

def step (c : Cfg) (s : State) (ins : Array BankIn) : State × Array BankOut :=
  -- 1. refresher
  let ro := Refresher.out c.rf s.rf
  -- 2. bank-machine requests
  let reqs := (Array.range c.nbm).map fun i =>
    let x := ins[i]!
    BankMachine.req c.bm s.bms[i]! x.valid x.we x.addr ro.valid
  -- 3. gates
  let rasAllowed := s.trrd.ready && s.tfaw.ready
  let casAllowed := s.tccd.ready
  let inRead := s.fsm == .read
  let inWrite := s.fsm == .write
  let one := c.nphases == 1
  -- 4. choosers
  let vReq := reqs.map fun r => chooserValid r inRead inWrite one (one && rasAllowed)
  let vCmd := reqs.map fun r => chooserValid r false false false ((inRead || inWrite) && rasAllowed)
  let cReq := choose reqs vReq s.grantReq
  let cCmd := choose reqs vCmd s.grantCmd
  -- 5. ready
  let active := inRead || inWrite
  let reqReady := active && (if one then casAllowed && (!cReq.activate || rasAllowed) else casAllowed)
  let cmdReady := active && !one && (!cCmd.activate || rasAllowed)
  let reqAccept := cReq.valid && reqReady
  let cmdAccept := cCmd.valid && cmdReady
  let bmReady (i : Nat) : Bool := (reqAccept && s.grantReq == i) || (cmdAccept && s.grantCmd == i)
  -- 6. timers' strobes (`choose_cmd` is `choose_req` when there is a single phase)
  let actStrobe := if one then reqAccept && cReq.activate else cmdAccept && cCmd.activate
  let casStrobe := reqAccept && (cReq.isWrite || cReq.isRead)
  let wrStrobe := reqAccept && cReq.isWrite
  -- 7. availability, anti-starvation, refresh grant
  let readAvail := reqs.any fun r => r.valid && r.isRead
  let writeAvail := reqs.any fun r => r.valid && r.isWrite
  let (readTimer', maxRead) := antiStarve c.readTime s.readTimer inRead
  let (writeTimer', maxWrite) := antiStarve c.writeTime s.writeTimer inWrite
  let goRefresh := reqs.all fun r => r.refreshGnt
  -- 8. FSM
  let rtwEntry : Fsm := if c.readLatency - 1 > 0 then .rtw 0 else .write
  let fsm' : Fsm :=
    match s.fsm with
    | .read => if goRefresh then .refresh else if writeAvail && (!readAvail || maxRead) then rtwEntry else .read
    | .write => if goRefresh then .refresh else if readAvail && (!writeAvail || maxWrite) then .wtr else .write
    | .refresh => if ro.last then .read else .refresh
    | .wtr => if s.twtr.ready then .read else .wtr
    | .rtw k => if k + 1 < c.readLatency - 1 then .rtw (k + 1) else .write
  let rfReady := s.fsm == .refresh
  -- 9. steerer
  let dfi' := (Array.range c.nphases).map fun i =>
    match steerSel c s.fsm i with
    | .nop => let (cs, b) := decodeRank c 0
              ({ csN := cs, bank := b, address := 0 } : Phase)
    | .cmd => let x := if one then cReq else cCmd
              let acc := if one then reqAccept else cmdAccept
              let (cs, b) := decodeRank c x.ba
              { csN := cs, bank := b, address := x.a, casN := !(acc && x.cas), rasN := !(acc && x.ras), weN := !(acc && x.we),
                rddataEn := acc && x.isRead, wrdataEn := acc && x.isWrite }
    | .req => let (cs, b) := decodeRank c cReq.ba
              { csN := cs, bank := b, address := cReq.a, casN := !(reqAccept && cReq.cas), rasN := !(reqAccept && cReq.ras),
                weN := !(reqAccept && cReq.we), rddataEn := reqAccept && cReq.isRead, wrdataEn := reqAccept && cReq.isWrite }
    | .refresh =>
      let acc := ro.valid && rfReady
      let (_, b) := decodeRank c ro.ba
      { csN := 0, bank := b, address := ro.a, casN := !(acc && ro.cas), rasN := !(acc && ro.ras), weN := !(acc && ro.we) }
  -- 10. step the bank machines with their ready
  let stepped := (Array.range c.nbm).map fun i =>
    let x := ins[i]!
    BankMachine.step c.bm s.bms[i]! ⟨x.valid, x.we, x.addr, ro.valid, bmReady i⟩
  let outs := stepped.map fun (_, o) => ({ ready := o.reqReady, lock := o.lock, wdataReady := o.wdataReady, rdataValid := o.rdataValid } : BankOut)
  let s' : State :=
    { bms := stepped.map (·.1)
      rf := Refresher.step c.rf s.rf rfReady
      grantCmd := rrStep c.nbm s.grantCmd (fun i => vCmd[i]!) (cmdReady || !cCmd.valid)
      grantReq := rrStep c.nbm s.grantReq (fun i => vReq[i]!) (reqReady || !cReq.valid)
      trrd := TX.step c.tRRD s.trrd actStrobe
      tfaw := TF.step c.tFAW s.tfaw actStrobe
      tccd := TX.step (some c.tCCD) s.tccd casStrobe
      twtr := TX.step (some c.twtr) s.twtr wrStrobe
      readTimer := readTimer', writeTimer := writeTimer'
      fsm := fsm', dfi := dfi' }
  (s', outs)

/-- the configuration conditions under which `C02.controller_dfi_legal` is proved, as an executable test
(`C02.wf2Check_sound`: it implies the theorem's hypothesis `CtlInv.WF2`); the check evaluates it on every
configuration it co-simulates and reports how many meet it -/
def wf2Check (c : Cfg) : Bool :=
  decide (1 ≤ c.nbm) && decide (c.nbm = 2 ^ (c.rankbits + c.bankbits)) && decide (11 ≤ c.bm.abits) && decide (c.bm.rowbits ≤ c.bm.abits) &&
  decide (1 ≤ c.nphases) && decide (c.rdphase < c.nphases) && decide (c.wrphase < c.nphases) &&
  decide (1 ≤ c.rf.tRP) && decide (1 ≤ c.rf.tRFC) && (match c.rf.tZQCS with | some z => decide (1 ≤ z) | none => true) &&
  decide (11 ≤ c.rf.abits) && decide (1 ≤ c.rf.postponing) && decide (c.rf.tRP + c.rf.tRFC + 1 ≤ c.rf.tREFI)

end Controller
