/-
Cycle model of `litedram/frontend/axi.py`: LiteDRAMAXI2Native = write path (LiteDRAMAXI2NativeW), read path
(LiteDRAMAXI2NativeR) and their round-robin arbitration, including LiteX's `AXIBurst2Beat` and the stream buffers.
(Without the optional read-modify-write FSM, which is modelled in `Rmw` below on top of the same state.)
-/
import LitedramVerif.Model.Fifo
namespace Axi

/-- one AW / AR request as it sits in the channel buffer -/
structure AxReq where
  addr : Nat
  burst : Nat      -- 0 FIXED, 1 INCR, 2 WRAP
  len : Nat
  size : Nat
  id : Nat
deriving Repr, DecidableEq, Inhabited

/-! ### litex AXIBurst2Beat -/
structure B2B where
  count : Nat := 0
  offset : Int := 0          -- 13-bit signed
deriving Repr, DecidableEq

def wrap13 (x : Int) : Int := ((x + 4096) % 8192) - 4096

def beatAddr (aw : Nat) (b : B2B) (r : AxReq) : Nat := (((r.addr : Int) + b.offset) % (2 ^ aw : Nat)).toNat

def B2B.step (aw : Nat) (b : B2B) (r : AxReq) (acc : Bool) : B2B :=
  if !acc then b else
    let size : Int := 2 ^ (r.size % 8)
    let wrapv : Nat := (r.len % 256 * 2 ^ (r.size % 8)) % 4096
    let last := b.count == r.len % 256
    let cnt := if last then 0 else (b.count + 1) % 256
    let off1 : Int := if last then 0 else if r.burst == 1 || r.burst == 2 then wrap13 (b.offset + size) else b.offset
    let off2 : Int := if r.burst == 2 && (beatAddr aw b r &&& wrapv) == wrapv then wrap13 (b.offset - wrapv) else off1
    { count := cnt, offset := off2 }

/-- migen `SyncFIFO` with its storage kept, so that the word shown while the FIFO is empty (stale memory) is exact:
used for the write-ID and response FIFOs, whose entries can be lost in read-modify-write mode -/
structure MemFifo where
  mem : List Nat := []
  produce : Nat := 0
  consume : Nat := 0
  level : Nat := 0
deriving Repr

def MemFifo.init (depth : Nat) : MemFifo := { mem := List.replicate depth 0 }
def MemFifo.valid (f : MemFifo) : Bool := f.level != 0
def MemFifo.dout (f : MemFifo) : Nat := f.mem.getD f.consume 0
def MemFifo.step (depth : Nat) (f : MemFifo) (we : Bool) (din : Nat) (re : Bool) : MemFifo :=
  let doWrite := we && f.level != depth
  let doRead := re && f.level != 0
  { mem := if doWrite then f.mem.set f.produce din else f.mem
    produce := if doWrite then (if f.produce + 1 == depth then 0 else f.produce + 1) else f.produce
    consume := if doRead then (if f.consume + 1 == depth then 0 else f.consume + 1) else f.consume
    level := f.level + (if doWrite then 1 else 0) - (if doRead then 1 else 0) }

structure Cfg where
  aw : Nat                  -- AXI address width
  paw : Nat                 -- port address width
  ashift : Nat
  base : Nat
  wDepth : Nat
  rDepth : Nat
  rmw : Bool := false       -- with_read_modify_write
  nb : Nat := 4             -- bytes per word (full strobe = 2^nb - 1)
deriving Repr

inductive RmwFsm | idle | read | modify | write
deriving Repr, DecidableEq

structure WBeat where
  data : Nat
  strb : Nat
  last : Bool
deriving Repr, DecidableEq, Inhabited

structure State where
  -- write path
  awBuf : Fifo.State AxReq := {}
  awB : B2B := {}
  wBuf : Fifo.State WBeat := {}
  wId : MemFifo := {}
  resp : MemFifo := {}
  wLevel : Nat := 0
  -- read path
  arBuf : Fifo.State AxReq := {}
  arB : B2B := {}
  rBuf : Fifo.State Nat := {}
  rId : Fifo.State (Nat × Bool) := {}
  rLevel : Nat := 0
  -- arbiter
  grant : Nat := 0
  -- read-modify-write FSM
  rmwFsm : RmwFsm := .idle
  rmwData : Nat := 0
  rmwCmdDone : Bool := false
  rmwDataDone : Bool := false
deriving Repr

/-- `(old & ~mask) | (new & mask)` with the byte mask replicated from the strobes, byte by byte from the least
significant one -/
def mergeBytes : Nat → Nat → Nat → Nat → Nat
  | 0, _, _, _ => 0
  | n + 1, old, new, strb =>
    (if strb % 2 == 1 then new % 256 else old % 256) + 256 * mergeBytes n (old / 256) (new / 256) (strb / 2)

structure In where
  awValid : Bool
  aw : AxReq
  wValid : Bool
  w : WBeat
  bReady : Bool
  arValid : Bool
  ar : AxReq
  rReady : Bool
  cmdReady : Bool
  wdataReady : Bool
  rdataValid : Bool
  rdata : Nat
deriving Repr

structure Out where
  awReady : Bool
  wReady : Bool
  bValid : Bool
  bId : Nat
  arReady : Bool
  rValid : Bool
  rData : Nat
  rId : Nat
  rLast : Bool
  cmdValid : Bool
  cmdWe : Bool
  cmdAddr : Nat
  cmdLast : Bool
  wdataValid : Bool
  wdata : Nat
  wdataWe : Nat
  rdataReady : Bool
deriving Repr

def bufCfg : Fifo.Cfg := { depth := 1 }
def wCfg (c : Cfg) : Fifo.Cfg := { depth := c.wDepth, buffered := true }
def wIdCfg (c : Cfg) : Fifo.Cfg := { depth := c.wDepth }
def rCfg (c : Cfg) : Fifo.Cfg := { depth := c.rDepth, buffered := true }
def rIdCfg (c : Cfg) : Fifo.Cfg := { depth := c.rDepth }

def portAddr (c : Cfg) (a : Nat) : Nat := ((a - c.base) / 2 ^ c.ashift) % 2 ^ c.paw

/-- RoundRobin(2, SP_CE) -/
def rrNext (grant : Nat) (wReq rReq : Bool) : Nat :=
  if grant == 0 then (if rReq then 1 else 0) else (if wReq then 0 else 1)

def State.init (c : Cfg) : State := { wId := MemFifo.init c.wDepth, resp := MemFifo.init c.wDepth }

def step (c : Cfg) (s : State) (i : In) : State × Out :=
  -- burst to beat
  let awReq := (s.awBuf.q.head?).getD default
  let arReq := (s.arBuf.q.head?).getD default
  let awSrcValid := !s.awBuf.q.isEmpty
  let arSrcValid := !s.arBuf.q.isEmpty
  let awFirst := s.awB.count == 0
  let arFirst := s.arB.count == 0
  let awValid := awSrcValid || !awFirst
  let arValid := arSrcValid || !arFirst
  let awLast := s.awB.count == awReq.len % 256
  let arLast := s.arB.count == arReq.len % 256
  let awAddr := beatAddr c.aw s.awB awReq
  let arAddr := beatAddr c.aw s.arB arReq
  -- read-modify-write request
  let full := 2 ^ c.nb - 1
  let rmwReq := c.rmw && (s.rmwFsm != .idle || (i.wValid && i.w.strb != full))
  -- requests / arbitration
  let rmwActive := c.rmw && s.rmwFsm != .idle
  let canWrite := !rmwActive && Fifo.count s.wBuf > s.wLevel
  let canRead := !rmwReq && s.rLevel != c.rDepth
  -- a response slot is reserved for the burst with its first beat's command
  let canRespond := !awFirst || s.wId.level + s.resp.level < c.wDepth
  let wReq := awValid && canWrite && canRespond
  let rReq := arValid && canRead
  let wGo := wReq && s.grant == 0
  let rGo := rReq && s.grant == 1
  let rmwRead := c.rmw && s.rmwFsm == .read
  let rmwWrite := c.rmw && s.rmwFsm == .write
  let rmwCmd := rmwRead || (rmwWrite && !s.rmwCmdDone)
  -- the RMW FSM's assignments override the regular command path
  let cmdValid := if rmwRead || rmwWrite then rmwCmd else (wGo || rGo)
  let cmdWe := if rmwRead then false else if rmwWrite then true else wGo
  let cmdLast := if rmwRead || rmwWrite then awLast else if wGo then awLast else if rGo then arLast else false
  let cmdAddr := if rmwRead || rmwWrite then portAddr c awAddr else if wGo then portAddr c awAddr else if rGo then portAddr c arAddr else 0
  let awBeatReady := if rmwWrite then (cmdValid && i.cmdReady) else (wGo && i.cmdReady)
  let arBeatReady := rGo && i.cmdReady
  let ce := !cmdValid || (i.cmdReady && cmdLast)
  -- write data
  let wQueue := cmdValid && i.cmdReady && cmdWe
  let wSend := s.wLevel != 0 || wQueue
  let wSinkValid := if rmwReq then (rmwWrite && !s.rmwDataDone) else i.wValid
  let wSinkData : WBeat := if rmwWrite then ⟨s.rmwData, full, i.w.last⟩ else i.w
  let wSrcValid := Fifo.srcValid (wCfg c) s.wBuf wSinkValid
  let wHead := (Fifo.srcData (wCfg c) s.wBuf wSinkData).getD default
  let wSrcReady := i.wdataReady && wSend
  let wDequeue := wSrcValid && wSrcReady
  let wSinkReady := Fifo.sinkReady (wCfg c) s.wBuf wSrcReady
  -- write response
  let respPush := wSrcValid && wHead.last && wSrcReady
  let wIdHead := s.wId.dout
  -- read data
  let rQueue := !rmwReq && cmdValid && i.cmdReady && !cmdWe
  let rGrantRmw := s.rLevel == 0 && !rQueue
  -- granted only once the write buffer is empty and the beat's address is known
  let wGrantRmw := !wQueue && s.wLevel == 0 && Fifo.count s.wBuf == 0 && awValid && canRespond
  let rmwTakesRdata := rmwReq && rGrantRmw
  let rSinkValid := i.rdataValid && !rmwTakesRdata
  let rSrcValid := Fifo.srcValid (rCfg c) s.rBuf rSinkValid
  let rHead := (Fifo.srcData (rCfg c) s.rBuf i.rdata).getD 0
  let rDequeue := rSrcValid && i.rReady
  let rIdHead := (s.rId.q.head?).getD (0, false)
  let rdataReady := if rmwTakesRdata || (c.rmw && s.rmwFsm == .modify) then true else Fifo.sinkReady (rCfg c) s.rBuf i.rReady
  -- RMW FSM
  let wDataAcc := rmwWrite && !s.rmwDataDone && wSinkReady
  let rmwFsm' : RmwFsm :=
    if !c.rmw then s.rmwFsm else
    match s.rmwFsm with
    | .idle => if i.wValid && i.w.strb != full && rGrantRmw && wGrantRmw then .read else .idle
    | .read => if i.cmdReady then .modify else .read
    | .modify => if i.rdataValid then .write else .modify
    | .write => if (i.cmdReady || s.rmwCmdDone) && (wSinkReady || s.rmwDataDone) then .idle else .write
  let s' : State :=
    { awBuf := Fifo.step bufCfg s.awBuf i.awValid i.aw (awBeatReady && awLast)
      awB := s.awB.step c.aw awReq (awValid && awBeatReady)
      wBuf := Fifo.step (wCfg c) s.wBuf wSinkValid wSinkData wSrcReady
      wId := s.wId.step c.wDepth (awValid && awFirst && awBeatReady) awReq.id respPush
      resp := s.resp.step c.wDepth respPush wIdHead i.bReady
      wLevel := if wQueue then (if !wDequeue then s.wLevel + 1 else s.wLevel) else if wDequeue then s.wLevel - 1 else s.wLevel
      arBuf := Fifo.step bufCfg s.arBuf i.arValid i.ar (arBeatReady && arLast)
      arB := s.arB.step c.aw arReq (arValid && arBeatReady)
      rBuf := Fifo.step (rCfg c) s.rBuf rSinkValid i.rdata i.rReady
      rId := Fifo.step (rIdCfg c) s.rId (arValid && arBeatReady) (arReq.id, arLast) (rSrcValid && i.rReady)
      rLevel := if rQueue then (if !rDequeue then s.rLevel + 1 else s.rLevel) else if rDequeue then s.rLevel - 1 else s.rLevel
      grant := if ce then rrNext s.grant wReq rReq else s.grant
      rmwFsm := rmwFsm'
      rmwData := if c.rmw && s.rmwFsm == .modify && i.rdataValid then mergeBytes c.nb i.rdata i.w.data i.w.strb else s.rmwData
      rmwCmdDone := if !c.rmw then s.rmwCmdDone else
        match s.rmwFsm with
        | .idle => false
        | .write => if cmdValid && i.cmdReady then true else s.rmwCmdDone
        | _ => s.rmwCmdDone
      rmwDataDone := if !c.rmw then s.rmwDataDone else
        match s.rmwFsm with
        | .idle => false
        | .write => if wDataAcc then true else s.rmwDataDone
        | _ => s.rmwDataDone }
  (s', { awReady := Fifo.sinkReady bufCfg s.awBuf (awBeatReady && awLast)
         wReady := if rmwReq then wDataAcc else wSinkReady
         bValid := s.resp.valid, bId := s.resp.dout
         arReady := Fifo.sinkReady bufCfg s.arBuf (arBeatReady && arLast)
         rValid := rSrcValid, rData := rHead, rId := rIdHead.1, rLast := rIdHead.2
         cmdValid, cmdWe, cmdAddr, cmdLast
         wdataValid := wSrcValid && wSend, wdata := wHead.data, wdataWe := wHead.strb
         rdataReady })

end Axi
