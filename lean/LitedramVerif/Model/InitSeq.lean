/-
Model of the mode-register formatting of `litedram/init.py` (get_*_phy_init_sequence).
Encoding tables come from `Generated/InitTables.lean` (regenerated from the source); the bit
placement code (`format_mr0/1/2/3/6`, `reg`, the SDR..DDR2 `mr` arithmetic, the WR choice) is
transcribed here.  `none` models a Python `KeyError`/`AssertionError`.
-/
import LitedramVerif.Generated.InitTables
namespace InitSeq
open Generated

def look (t : List (Nat × Nat)) (k : Nat) : Option Nat := t.lookup k

/-- SDR / DDR / LPDDR: `mr = log2_int(bl) + (cl << 4)` -/
def mrBasic (bl cl : Nat) : Nat := Nat.log2 bl + (cl <<< 4)
/-- DDR2: `mr = log2_int(bl) + (cl << 4) + (wr << 9)` with the hard-coded `wr = 2`, `bl = 4` -/
def ddr2Mr (cl : Nat) : Nat := Nat.log2 4 + (cl <<< 4) + (2 <<< 9)
def resetDll : Nat := 1 <<< 8

/-! ### DDR3 -/
def ddr3Mr0 (bl cl wr dll : Nat) : Option Nat := do
  let b ← look ddr3_bl_to_mr0 bl
  let c ← look ddr3_cl_to_mr0 cl
  let w ← look ddr3_wr_to_mr0 wr
  some (b ||| ((c &&& 1) <<< 2) ||| (((c >>> 1) &&& 7) <<< 4) ||| (dll <<< 8) ||| (w <<< 9))

def ddr3Mr1 (ron rttNom tdqs : Nat) : Nat :=
  (((ron >>> 0) &&& 1) <<< 1) ||| (((ron >>> 1) &&& 1) <<< 5) ||| (((rttNom >>> 0) &&& 1) <<< 2) |||
  (((rttNom >>> 1) &&& 1) <<< 6) ||| (((rttNom >>> 2) &&& 1) <<< 9) ||| ((tdqs &&& 1) <<< 11)

def ddr3Mr2 (cwl rttWr : Nat) : Nat := ((cwl - 5) <<< 3) ||| (rttWr <<< 9)

/-- `wr = max(timing_settings.tWTR*phy_settings.nphases, 5)` -/
def ddr3Wr (tWTR nphases : Nat) : Nat := max (tWTR * nphases) 5

/-! ### DDR4 -/
def ddr4Mr0 (bl cl wr dll : Nat) : Option Nat := do
  let b ← look ddr4_bl_to_mr0 bl
  let c ← look ddr4_cl_to_mr0 cl
  let w ← look ddr4_wr_to_mr0 wr
  some (b ||| ((c &&& 1) <<< 2) ||| (((c >>> 1) &&& 7) <<< 4) ||| (((c >>> 4) &&& 1) <<< 12) ||| (dll <<< 8) |||
        ((w &&& 7) <<< 9) ||| ((w >>> 3) <<< 13))

def ddr4Mr1 (dllEnable ron rttNom tdqs : Nat) : Nat :=
  dllEnable ||| (((ron >>> 0) &&& 1) <<< 1) ||| (((ron >>> 1) &&& 1) <<< 2) ||| (((rttNom >>> 0) &&& 1) <<< 8) |||
  (((rttNom >>> 1) &&& 1) <<< 9) ||| (((rttNom >>> 2) &&& 1) <<< 10) ||| ((tdqs &&& 1) <<< 11)

def ddr4Mr2 (cwl rttWr : Nat) : Option Nat := do
  let c ← look ddr4_cwl_to_mr2 cwl
  some ((c <<< 3) ||| (rttWr <<< 9))

/-- fine refresh mode code 0/1/2 for "1x"/"2x"/"4x" (`fine_refresh_mode_to_mr3`) -/
def ddr4Mr3 (frm : Nat) : Nat := frm <<< 6
def ddr4Mr5 : Nat := 1 <<< 10
def ddr4Mr6 (tccd : Nat) : Option Nat := (look ddr4_tccd_to_mr6 tccd).map (· <<< 10)
def ddr4Wr (tWTR nphases : Nat) : Nat := max (tWTR * nphases) 10

/-! ### LPDDR4 (`reg`-built registers, layout generated) -/

/-- `reg(fields)`: fails when a value does not fit its field or two fields overlap -/
def reg (fields : List (Nat × Nat × Nat)) : Option Nat :=
  (fields.foldl (fun (acc : Option (Nat × Nat)) (f : Nat × Nat × Nat) =>
    acc.bind fun (regval, written) =>
      let (shift, width, val) := f
      let mask := (2 ^ width - 1) <<< shift
      if written &&& mask != 0 then none
      else if val ≥ 2 ^ width then none
      else some (regval ||| ((val <<< shift) &&& mask), written ||| mask)) (some (0, 0))).map (·.1)

/-- value of one generated field given the environment (variable index ↦ value: 0=bl 1=nwr 2=cl 3=cwl);
`other` fields (electrical options) are supplied by the caller -/
def fieldVal (env : Nat → Nat) (other : Nat → Nat → Nat) (f : Nat × Nat × Nat × Nat × Nat × List (Nat × Nat)) :
    Option (Nat × Nat × Nat) :=
  let (k, shift, width, kind, arg, tbl) := f
  match kind with
  | 0 => some (shift, width, arg)
  | 1 => (tbl.lookup (env arg)).map fun v => (shift, width, v)
  | _ => some (shift, width, other k shift)

def lpddr4Mr (k : Nat) (env : Nat → Nat) (other : Nat → Nat → Nat) : Option Nat := do
  let fs := lpddr4_fields.filter (·.1 == k)
  let vals ← fs.mapM (fieldVal env other)
  reg vals

/-- `get_nwr`: first frequency range whose RL equals `cl`; asserts WL matches -/
def lpddr4Nwr (cl cwl : Nat) : Option Nat :=
  match lpddr4_freq.find? (·.1 == cl) with
  | some (_, wl, nwr) => if wl == cwl then some nwr else none
  | none => none

end InitSeq
