/-
Cycle model of `litedram/frontend/avalon.py`: LiteDRAMAvalonMM2Native (the FSM with its command / write-data FIFOs) on a
native port of the Avalon data width.  For other widths the real module inserts a LiteDRAMNativePortConverter; the model
is composed with Model/Adapter.lean the same way (`portReq` = what the FSM drives onto the port, which does not depend
on the port's answers; `step` = the rest of the cycle once the port has answered).
-/
import LitedramVerif.Model.Fifo
namespace Avalon

structure Cfg where
  aw : Nat                  -- port.address_width (of the Avalon-width port)
  maxBurst : Nat := 16
  offset : Nat := 0         -- address_offset = base_address >> log2(bytes per word), truncated to aw bits
  inc : Nat := 1            -- burst_increment
deriving Repr

inductive Fsm | start | singleWrite | singleRead | burstWrite | burstRead
deriving Repr, DecidableEq

structure State where
  fsm : Fsm := .start
  burstCount : Nat := 0
  address : Nat := 0
  byteenable : Nat := 0
  writedata : Nat := 0
  cmdReadySeen : Bool := false
  cmdReadyCount : Nat := 0
  cmdFifo : Fifo.State Nat := {}
  wFifo : Fifo.State (Nat × Nat) := {}
deriving Repr

structure AvIn where
  read : Bool
  write : Bool
  address : Nat
  burstcount : Nat
  byteenable : Nat
  writedata : Nat
deriving Repr

structure PortReq where
  cmdValid : Bool
  cmdWe : Bool
  cmdAddr : Nat
  cmdLast : Bool
  wValid : Bool
  wData : Nat
  wWe : Nat
  rReady : Bool
deriving Repr

structure PortResp where
  cmdReady : Bool
  wReady : Bool
  rValid : Bool
  rData : Nat
deriving Repr

structure AvOut where
  waitrequest : Bool
  readdatavalid : Bool
  readdata : Nat
deriving Repr

def fcfg (c : Cfg) : Fifo.Cfg := { depth := c.maxBurst }

def relAddr (c : Cfg) (a : Nat) : Nat := (a + 2 ^ c.aw - c.offset % 2 ^ c.aw) % 2 ^ c.aw

def portReq (c : Cfg) (s : State) (i : AvIn) : PortReq :=
  match s.fsm with
  | .start =>
    let single := (i.read || i.write) && !(i.burstcount > 1)
    { cmdValid := single, cmdWe := single && i.write, cmdAddr := if single then relAddr c i.address else 0, cmdLast := single,
      wValid := false, wData := 0, wWe := 0, rReady := false }
  | .singleWrite =>
    { cmdValid := false, cmdWe := false, cmdAddr := 0, cmdLast := false, wValid := true, wData := s.writedata, wWe := s.byteenable, rReady := false }
  | .singleRead =>
    { cmdValid := false, cmdWe := false, cmdAddr := 0, cmdLast := false, wValid := false, wData := 0, wWe := 0, rReady := true }
  | .burstWrite =>
    let cv := !s.cmdFifo.q.isEmpty
    let hd := s.wFifo.q.head?.getD (0, 0)
    { cmdValid := cv, cmdWe := cv, cmdAddr := s.cmdFifo.q.head?.getD 0, cmdLast := false,
      wValid := !s.wFifo.q.isEmpty, wData := hd.1, wWe := hd.2, rReady := false }
  | .burstRead =>
    { cmdValid := !s.cmdReadySeen, cmdWe := false, cmdAddr := s.address, cmdLast := s.cmdReadyCount == 1, wValid := false, wData := 0, wWe := 0, rReady := true }

def step (c : Cfg) (s : State) (i : AvIn) (p : PortResp) : State × AvOut :=
  let latch := s.fsm == .start && (i.read || i.write)
  let latched : State :=
    if latch then { s with byteenable := i.byteenable, writedata := i.writedata, burstCount := i.burstcount % 512, address := relAddr c i.address }
    else s
  match s.fsm with
  | .start =>
    if i.read || i.write then
      if i.burstcount > 1 then
        if i.read then
          ({ latched with fsm := .burstRead, cmdReadySeen := false, cmdReadyCount := i.burstcount % 512 }, ⟨false, false, 0⟩)
        else
          ({ latched with fsm := .burstWrite, cmdReadySeen := false }, ⟨true, false, 0⟩)
      else if p.cmdReady then
        ({ latched with fsm := if i.write then .singleWrite else .singleRead, cmdReadySeen := false }, ⟨false, false, 0⟩)
      else ({ latched with cmdReadySeen := false }, ⟨true, false, 0⟩)
    else ({ s with cmdReadySeen := false }, ⟨true, false, 0⟩)
  | .singleWrite => ({ s with fsm := if p.wReady then .start else .singleWrite }, ⟨true, false, 0⟩)
  | .singleRead =>
    if p.rValid then ({ s with fsm := .start }, ⟨true, true, p.rData⟩) else (s, ⟨true, false, 0⟩)
  | .burstWrite =>
    let cfReady := Fifo.sinkReady (fcfg c) s.cmdFifo p.cmdReady
    let wfReady := Fifo.sinkReady (fcfg c) s.wFifo p.wReady
    let accepting := i.write && s.burstCount > 0
    -- (an idle cycle of the master inside a burst - write low, beats still owed - neither accepts nor ends the burst)
    let ending := !accepting && s.burstCount == 0
    let waitrequest := if ending then true else !(cfReady && wfReady)
    let sinkValid := i.write && !waitrequest
    let pushed := accepting && cfReady && sinkValid
    let done := ending && s.cmdFifo.q.length == 0 && (s.wFifo.q.length == 0 || (s.wFifo.q.length == 1 && p.wReady))
    ({ s with
        fsm := if done then .start else .burstWrite
        burstCount := if pushed then (s.burstCount + 511) % 512 else s.burstCount
        address := if pushed then (s.address + c.inc) % 2 ^ c.aw else s.address
        cmdFifo := Fifo.step (fcfg c) s.cmdFifo sinkValid s.address p.cmdReady
        wFifo := Fifo.step (fcfg c) s.wFifo sinkValid (i.writedata, i.byteenable) p.wReady },
     ⟨waitrequest, false, 0⟩)
  | .burstRead =>
    ({ s with
        fsm := if p.rValid && s.burstCount == 1 then .start else .burstRead
        burstCount := if p.rValid then (s.burstCount + 511) % 512 else s.burstCount
        cmdReadySeen := if p.cmdReady && s.cmdReadyCount == 1 then true else s.cmdReadySeen
        cmdReadyCount := if p.cmdReady then (s.cmdReadyCount + 511) % 512 else s.cmdReadyCount
        address := if p.cmdReady then (s.address + c.inc) % 2 ^ c.aw else s.address },
     ⟨true, p.rValid, if p.rValid then p.rData else 0⟩)

end Avalon
