/-
LiteX `stream.SyncFIFO(layout, depth, buffered)` in its four shapes, as used by the frontends
(litex/soc/interconnect/stream.py, migen/genlib/fifo.py):
  depth = 0            a wire
  depth = 1            `stream.Buffer` = `PipeValid` (one register; ready when empty or being read)
  depth ≥ 2            `fifo.SyncFIFO` (first-word-fall-through; writable iff level ≠ depth)
  depth ≥ 2, buffered  `fifo.SyncFIFOBuffered` (non-fwft inner FIFO + output register)
Payloads are kept in lists (oldest first); the observable handshakes and data are exact.
-/
namespace Fifo

structure Cfg where
  depth : Nat
  buffered : Bool := false
deriving Repr

structure State (α : Type) where
  q : List α := []          -- stored entries (inner FIFO / the single register), oldest first
  out : Option α := none    -- output register of the buffered variant
deriving Repr

def init {α : Type} : State α := {}

/-- `source.valid` and head payload, given what the sink presents (needed for depth 0) -/
def srcValid {α : Type} (c : Cfg) (s : State α) (sinkValid : Bool) : Bool :=
  if c.depth == 0 then sinkValid
  else if c.depth ≥ 2 && c.buffered then s.out.isSome
  else !s.q.isEmpty

def srcData {α : Type} (c : Cfg) (s : State α) (sinkData : α) : Option α :=
  if c.depth == 0 then some sinkData
  else if c.depth ≥ 2 && c.buffered then s.out
  else s.q.head?

/-- `sink.ready`, given `source.ready` (needed for depth 0 and 1) -/
def sinkReady {α : Type} (c : Cfg) (s : State α) (srcReady : Bool) : Bool :=
  if c.depth == 0 then srcReady
  else if c.depth == 1 then s.q.isEmpty || srcReady
  else s.q.length != c.depth

/-- number of entries held -/
def count {α : Type} (s : State α) : Nat := s.q.length + (if s.out.isSome then 1 else 0)

def step {α : Type} (c : Cfg) (s : State α) (sinkValid : Bool) (sinkData : α) (srcReady : Bool) : State α :=
  if c.depth == 0 then s
  else if c.depth == 1 then
    -- PipeValid: `If(~source.valid | source.ready, source.valid.eq(sink.valid), payload...)`
    if s.q.isEmpty || srcReady then { q := if sinkValid then [sinkData] else [] } else s
  else if !c.buffered then
    let doWrite := sinkValid && s.q.length != c.depth
    let doRead := !s.q.isEmpty && srcReady
    let q1 := if doRead then s.q.tail else s.q
    { q := if doWrite then q1 ++ [sinkData] else q1 }
  else
    let doWrite := sinkValid && s.q.length != c.depth
    let innerRe := !s.q.isEmpty && (s.out.isNone || srcReady)
    let out' := if innerRe then s.q.head? else if srcReady then none else s.out
    let q1 := if innerRe then s.q.tail else s.q
    { q := if doWrite then q1 ++ [sinkData] else q1, out := out' }

end Fifo
