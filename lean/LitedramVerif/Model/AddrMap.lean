/-
Model of the port-address → (bank, row, column) translation.

Transcribes, from /repo:
  litedram/core/crossbar.py  `do_finalize` (cba_shift, m_ba, m_rca)
  litedram/common.py         `LiteDRAMNativePort.get_bank_address / get_row_column_address`
  litedram/core/bankmachine.py `_AddressSlicer.row / .col`, `cmd.a` width = geom.addressbits
  litedram/core/multiplexer.py `_Steerer`: rank = top `rankbits` bits of `ba`, bank = the rest
No imports: this file is compiled into the native driver.
-/
namespace AddrMap

/-- Generator parameters that influence the mapping.
`bba` is `log2_int(bank_byte_alignment // (data_width // 8))` (0 when the option is 0). -/
structure Geom where
  bankbits : Nat
  rowbits  : Nat
  colbits  : Nat
  align    : Nat      -- address_align = log2(burst_length)
  rankbits : Nat      -- log2(nranks)
  bba      : Nat
deriving Repr, DecidableEq

namespace Geom
/-- `cba_shift = max(colbits - address_align, log2_int(bank_byte_alignment // (data_width//8)))` -/
def cbaShift (g : Geom) : Nat := max (g.colbits - g.align) g.bba
/-- `bank_bits = log2_int(nbanks)` with `nbanks = nranks * 2**bankbits` -/
def bankBits (g : Geom) : Nat := g.bankbits + g.rankbits
/-- `rca_bits = controller.address_width = rowbits + colbits + rankbits - address_align` -/
def rcaBits (g : Geom) : Nat := g.rowbits + g.colbits + g.rankbits - g.align
/-- width of the crossbar port address: `rca_bits + bank_bits - rank_bits` -/
def portBits (g : Geom) : Nat := g.rcaBits + g.bankBits - g.rankbits
/-- `geom.addressbits = max(rowbits, colbits)` : width of `cmd.a` / DFI address -/
def addressbits (g : Geom) : Nat := max g.rowbits g.colbits
/-- `split = colbits - address_align` of `_AddressSlicer` -/
def split (g : Geom) : Nat := g.colbits - g.align
end Geom

/-- `get_bank_address`: `cmd.addr[cba_shift : cba_shift+bank_bits]` -/
def bankOf (g : Geom) (a : Nat) : Nat := (a >>> g.cbaShift) % 2 ^ g.bankBits

/-- `get_row_column_address` (three cases), then assignment to `bank.addr` (`rca_bits` wide). -/
def rcaOf (g : Geom) (a : Nat) : Nat :=
  let cba := g.cbaShift
  let v :=
    if cba < g.rcaBits then
      if cba ≠ 0 then (a % 2 ^ cba) + ((a >>> (cba + g.bankBits)) <<< cba)   -- Cat(addr[:cba], addr[upper:])
      else a >>> g.bankBits                                                    -- addr[upper:]
    else a % 2 ^ cba                                                           -- addr[:cba]
  v % 2 ^ g.rcaBits

/-- `_AddressSlicer.row` assigned to a `rowbits`-wide signal / `addressbits`-wide `cmd.a`
(`rowbits ≤ addressbits`, so the narrower `row` register decides). -/
def rowOf (g : Geom) (rca : Nat) : Nat := (rca >>> g.split) % 2 ^ g.rowbits

/-- `_AddressSlicer.col` (A10 skipped when `colbits > 10`), truncated to `addressbits`. -/
def colOf (g : Geom) (rca : Nat) : Nat :=
  let v :=
    if g.colbits > 10 then
      ((rca % 2 ^ (10 - g.align)) <<< g.align)
        + (((rca >>> (10 - g.align)) % 2 ^ (g.split - (10 - g.align))) <<< 11)
    else (rca % 2 ^ g.split) <<< g.align
  v % 2 ^ g.addressbits

/-- steerer: `cmd.ba[:-rankbits]` -/
def dfiBank (g : Geom) (ba : Nat) : Nat := ba % 2 ^ g.bankbits
/-- steerer: `cmd.ba[-rankbits:]` -/
def rankOf (g : Geom) (ba : Nat) : Nat := ba >>> g.bankbits

/-- Complete translation as observable on DFI: (rank, bank, row, column address). -/
def translate (g : Geom) (a : Nat) : Nat × Nat × Nat × Nat :=
  let ba := bankOf g a
  let rca := rcaOf g a
  (rankOf g ba, dfiBank g ba, rowOf g rca, colOf g rca)

/-! ### `address_align` as `LiteDRAMController.__init__` derives it (core/controller.py) -/
/-- memory types in the order the drivers use: 0 SDR, 1 DDR, 2 LPDDR, 3 DDR2, 4 DDR3, 5 DDR4, 6 LPDDR4, 7 LPDDR5 -/
def burstLengthCode (memtype nphases : Nat) : Nat :=
  match memtype with
  | 0 => nphases        -- SDR: the burst length is the number of DFI phases (init.py programs BL = nphases)
  | 1 | 2 | 3 => 4
  | 4 | 5 => 8
  | _ => 16

/-- `address_align = log2_int(burst_length)` -/
def alignOf (memtype nphases : Nat) : Nat := Nat.log2 (burstLengthCode memtype nphases)

end AddrMap
