/-
The whole memory core as wired by litedram (crossbar + controller + simulation PHY/DRAM):
`Model/Crossbar` ∘ `Model/Controller` ∘ `Model/SimPhy`, with the data path of the multiplexer
(`Cat(*all_wrdata).eq(interface.wdata)`, `Cat(*all_wrdata_mask).eq(~interface.wdata_we)`,
`interface.rdata.eq(Cat(*all_rddata))`) and `controller.dfi.connect(phy.dfi)`.
-/
import LitedramVerif.Model.Crossbar
import LitedramVerif.Model.Controller
import LitedramVerif.Model.SimPhy
namespace Core

structure Cfg where
  xb : Crossbar.Cfg
  ctl : Controller.Cfg
  phy : SimPhy.Cfg
deriving Repr

structure State where
  xb : Crossbar.State
  ctl : Controller.State
  phy : SimPhy.State

def init (c : Cfg) : State :=
  { xb := Crossbar.init c.xb, ctl := Controller.init c.ctl, phy := SimPhy.init c.phy fun _ => #[] }

structure MasterOut where
  cmdReady : Bool
  wdataReady : Bool
  rdataValid : Bool
  rdata : Nat
deriving Repr, Inhabited

/-- the bank interfaces' `req.ready` and `req.lock` as the crossbar sees them.  For a command buffer of depth ≥ 2
they depend on the bank machine's state only (FIFO writable / anything queued); for depth 1 (a `stream.Buffer`)
`ready` also depends combinationally on the multiplexer's acceptance of this bank machine's command, but not on what
the crossbar offers - so they are read off a controller evaluation with no request offered.
(Depth 0 - a wire from the crossbar to `cmd_buffer` - makes `lock` depend on the offered request and is not
supported by the whole-core model; the controller and bank-machine models do support it.) -/
def bankFb (c : Cfg) (s : State) : Array Crossbar.BankFb :=
  let idle := Array.replicate c.ctl.nbm ({ valid := false, we := false, addr := 0 } : Controller.BankIn)
  (Controller.step c.ctl s.ctl idle).2.map fun o => { ready := o.ready, lock := o.lock }

def step (c : Cfg) (s : State) (ms : Array Crossbar.MasterIn) : State × Array MasterOut × Array Controller.Phase :=
  let fb := bankFb c s
  let cb := Crossbar.comb c.xb s.xb ms fb
  let xo := Crossbar.out c.xb s.xb ms cb
  -- controller
  let ins := cb.bankReqs.map fun r => ({ valid := r.valid, we := r.we, addr := r.addr } : Controller.BankIn)
  let (ctl', bouts) := Controller.step c.ctl s.ctl ins
  -- PHY: command signals are the steerer's registers, write data is combinational from the crossbar
  let pb := c.phy.phaseBits
  let nbytes := pb / 8
  let phases := (List.range c.phy.nphases).map fun i =>
    let p := s.ctl.dfi[i]!
    ({ csN := p.csN, rasN := p.rasN, casN := p.casN, weN := p.weN, bank := p.bank, address := p.address,
       wrdata := (xo.ctlWdata >>> (i * pb)) % 2 ^ pb,
       wrdataMask := (2 ^ nbytes - 1) - ((xo.ctlWdataWe >>> (i * nbytes)) % 2 ^ nbytes) } : SimPhy.Phase)
  let (phy', po) := SimPhy.step c.phy s.phy phases
  let xb' := Crossbar.step c.xb s.xb cb fb (bouts.map (·.wdataReady)) (bouts.map (·.rdataValid))
  let mouts := (Array.range c.xb.nmasters).map fun nm =>
    ({ cmdReady := xo.cmdReady[nm]!, wdataReady := xo.wdataReady[nm]!, rdataValid := xo.rdataValid[nm]!, rdata := po.rddata } : MasterOut)
  ({ xb := xb', ctl := ctl', phy := phy' }, mouts, s.ctl.dfi)

end Core
