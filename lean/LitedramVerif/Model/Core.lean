/-
The whole memory core as wired by litedram (crossbar + controller + simulation PHY/DRAM):
`Model/Crossbar` ∘ `Model/Controller` ∘ `Model/SimPhy`, with the data path of the multiplexer
(`Cat(*all_wrdata).eq(interface.wdata)`, `Cat(*all_wrdata_mask).eq(~interface.wdata_we)`,
`interface.rdata.eq(Cat(*all_rddata))`) and `controller.dfi.connect(phy.dfi)`.
-/
import LitedramVerif.Model.Crossbar
import LitedramVerif.Model.Controller
import LitedramVerif.Model.SimPhy
namespace Core

structure Cfg where
  xb : Crossbar.Cfg
  ctl : Controller.Cfg
  phy : SimPhy.Cfg
deriving Repr

structure State where
  xb : Crossbar.State
  ctl : Controller.State
  phy : SimPhy.State

def init (c : Cfg) : State :=
  { xb := Crossbar.init c.xb, ctl := Controller.init c.ctl, phy := SimPhy.init c.phy fun _ => #[] }

structure MasterOut where
  cmdReady : Bool
  wdataReady : Bool
  rdataValid : Bool
  rdata : Nat
deriving Repr, Inhabited

/-- state-only view of the bank interfaces: `req.ready` (FIFO writable) and `req.lock` -/
def bankFb (c : Cfg) (s : State) : Array Crossbar.BankFb :=
  s.ctl.bms.map fun b => { ready := b.level != c.ctl.bm.depth, lock := b.level != 0 || b.bufValid }

def step (c : Cfg) (s : State) (ms : Array Crossbar.MasterIn) : State × Array MasterOut × Array Controller.Phase :=
  let fb := bankFb c s
  let cb := Crossbar.comb c.xb s.xb ms fb
  let xo := Crossbar.out c.xb s.xb ms cb
  -- controller
  let ins := cb.bankReqs.map fun r => ({ valid := r.valid, we := r.we, addr := r.addr } : Controller.BankIn)
  let (ctl', bouts) := Controller.step c.ctl s.ctl ins
  -- PHY: command signals are the steerer's registers, write data is combinational from the crossbar
  let pb := c.phy.phaseBits
  let nbytes := pb / 8
  let phases := (List.range c.phy.nphases).map fun i =>
    let p := s.ctl.dfi[i]!
    ({ csN := p.csN, rasN := p.rasN, casN := p.casN, weN := p.weN, bank := p.bank, address := p.address,
       wrdata := (xo.ctlWdata >>> (i * pb)) % 2 ^ pb,
       wrdataMask := (2 ^ nbytes - 1) - ((xo.ctlWdataWe >>> (i * nbytes)) % 2 ^ nbytes) } : SimPhy.Phase)
  let (phy', po) := SimPhy.step c.phy s.phy phases
  let xb' := Crossbar.step c.xb s.xb cb fb (bouts.map (·.wdataReady)) (bouts.map (·.rdataValid))
  let mouts := (Array.range c.xb.nmasters).map fun nm =>
    ({ cmdReady := xo.cmdReady[nm]!, wdataReady := xo.wdataReady[nm]!, rdataValid := xo.rdataValid[nm]!, rdata := po.rddata } : MasterOut)
  ({ xb := xb', ctl := ctl', phy := phy' }, mouts, s.ctl.dfi)

end Core
