/-
Model of LiteX's SECDED encoder/decoder (`litex/soc/cores/ecc.py`), the code that
`litedram/frontend/ecc.py` instantiates once per ECC lane, and of the lane logic of
`LiteDRAMNativePortECCW/R`.

Positions are numbered as in the Python: 1..n inside the Hamming code word; position 0 is the
overall parity bit (`o = Cat(parity, codeword_d_p)`), so a stored ECC word is a `Word` on 0..n.
No imports (compiled into the driver).
-/
namespace Secded

/-- `compute_m_n(k)`: smallest `m ≥ 1` with `2^m ≥ m + k + 1`; `n = m + k`. -/
def computeMAux (k : Nat) : Nat → Nat → Nat
  | 0, m => m
  | fuel + 1, m => if 2 ^ m < m + k + 1 then computeMAux k fuel (m + 1) else m
def computeM (k : Nat) : Nat := computeMAux k (k + 2) 1
def computeN (k : Nat) : Nat := computeM k + k

/-- positions 1..n -/
def positions (n : Nat) : List Nat := List.range' 1 n

/-- `compute_syndrome_positions`: the powers of two -/
def isPow2 (p : Nat) : Bool := p != 0 && p == 2 ^ p.log2

/-- `compute_data_positions(n)`: positions 1..n that are not powers of two -/
def dataPos (n : Nat) : List Nat := (positions n).filter (fun p => !isPow2 p)

/-- number of syndrome bits in use: `len(compute_syndrome_positions(n))` = #powers of two ≤ n -/
def nsyn (n : Nat) : Nat := n.log2 + 1

/-- `compute_cover_positions(n, 2^i)`: positions ≤ n whose index has bit `i` set -/
def cover (n i : Nat) : List Nat := (positions n).filter (fun c => c.testBit i)

def xorAll (l : List Bool) : Bool := l.foldr xor false

/-- a code word / stored word: position ↦ bit -/
abbrev Word := Nat → Bool

/-- `compute_syndrome`: syndrome bit `i` = XOR of the covered positions -/
def synBit (n : Nat) (w : Word) (i : Nat) : Bool := xorAll ((cover n i).map w)

/-! ### encoder -/

/-- `place_data`: data bit `j` goes to the `j`-th data position -/
def placeData (n : Nat) (data : List Bool) : Word :=
  fun c => (((dataPos n).zip data).lookup c).getD false

/-- `place_syndrome` over `codeword_d` -/
def withSyndrome (n : Nat) (cwD : Word) : Word :=
  fun c => if isPow2 c then synBit n cwD c.log2 else cwD c

/-- the stored word `Cat(parity, codeword_d_p)` -/
def encode (n : Nat) (data : List Bool) : Word :=
  let cw := withSyndrome n (placeData n data)
  let parity := xorAll ((positions n).map cw)
  fun c => if c = 0 then parity else cw c

/-! ### decoder -/

structure DecOut where
  data : List Bool
  sec  : Bool
  ded  : Bool
deriving DecidableEq, Repr

/-- effective syndrome bit (`If(~enable, syndrome.eq(0))`) -/
def decSyn (n : Nat) (enable : Bool) (w : Word) (i : Nat) : Bool := enable && synBit n w i

/-- `Case(syndrome)`: position `c` is flipped iff the syndrome value equals `c` -/
def synIs (n : Nat) (enable : Bool) (w : Word) (c : Nat) : Bool :=
  (List.range (nsyn n)).all (fun i => decSyn n enable w i == c.testBit i)

def synNonzero (n : Nat) (enable : Bool) (w : Word) : Bool :=
  (List.range (nsyn n)).any (fun i => decSyn n enable w i)

def corrected (n : Nat) (enable : Bool) (w : Word) : Word :=
  fun c => w c != synIs n enable w c

/-- `ECCDecoder(k)` on a stored word of n+1 bits -/
def decode (n k : Nat) (enable : Bool) (w : Word) : DecOut :=
  let parity := xorAll ((0 :: positions n).map w)
  let nz := synNonzero n enable w
  { data := ((dataPos n).map (corrected n enable w)).take k
    sec  := nz && parity
    ded  := nz && !parity }

/-- fault injection: flip the stored bit at position `q` -/
def flipBit (q : Nat) (w : Word) : Word := fun c => w c != (c == q)

/-! ### Nat-level wrappers used by the driver (bit 0 of the stored word = parity, bit p = position p) -/

def bitsOf (width x : Nat) : List Bool := (List.range width).map (fun i => x.testBit i)
def natOf (bits : List Bool) : Nat := bits.foldr (fun b acc => 2 * acc + (if b then 1 else 0)) 0

def encodeNat (k data : Nat) : Nat :=
  let n := computeN k
  natOf ((List.range (n + 1)).map (encode n (bitsOf k data)))

def decodeNat (k : Nat) (enable : Bool) (word : Nat) : Nat × Bool × Bool :=
  let n := computeN k
  let r := decode n k enable (fun c => word.testBit c)
  (natOf r.data, r.sec, r.ded)

/-! ### lanes of `LiteDRAMNativePortECCW` / `ECCR` (`burst_cycles` lanes, `kf = data_width_from // burst_cycles`,
`kt = data_width_to // burst_cycles`) -/

def slice (x lo hi : Nat) : Nat := (x >>> lo) % 2 ^ (hi - lo)

/-- write side: returns (source.data, source.we, we_error). -/
def laneWrite (lanes kf kt : Nat) (valid : Bool) (data we : Nat) : Nat × Nat × Bool :=
  let weFull := 2 ^ (kf / 8) - 1      -- all byte enables of one ECC word
  let weSet  := 2 ^ kt / 8 - 1        -- `2**ecc_width_to//8-1` as written; all-ones after truncation to the slice
  (List.range lanes).foldl (fun (acc : Nat × Nat × Bool) i =>
    let (d, w, e) := acc
    let weI := slice we (i * kf / 8) ((i + 1) * kf / 8)
    let enc := encodeNat kf (slice data (i * kf) ((i + 1) * kf)) % 2 ^ kt
    let lo := i * kt / 8
    let hi := (i + 1) * kt / 8
    let w' := if weI != 0 then w ||| ((weSet % 2 ^ (hi - lo)) <<< lo) else w
    (d ||| (enc <<< (i * kt)), w', e || (valid && weI != weFull))) (0, 0, false)

/-- read side: returns (source.data, sec mask, ded mask) -/
def laneRead (lanes kf kt : Nat) (enable valid : Bool) (data : Nat) : Nat × Nat × Nat :=
  (List.range lanes).foldl (fun (acc : Nat × Nat × Nat) i =>
    let (d, s, e) := acc
    let n := computeN kf
    let (o, sec, ded) := decodeNat kf enable (slice data (i * kt) ((i + 1) * kt) % 2 ^ (n + 1))
    (d ||| (o <<< (i * kf)),
     if valid && sec then s ||| (1 <<< i) else s,
     if valid && ded then e ||| (1 <<< i) else e)) (0, 0, 0)

end Secded
