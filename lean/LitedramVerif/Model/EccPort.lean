/-
Cycle model of the error counters of `LiteDRAMNativePortECC` (litedram/frontend/ecc.py, "Errors count"
block) on top of the lane logic of `Model/Secded.lean`.
-/
import LitedramVerif.Model.Secded
namespace EccPort
open Secded

structure Cfg where
  lanes : Nat      -- burst_cycles
  kf    : Nat      -- data bits per lane  (port_from.data_width // burst_cycles)
  kt    : Nat      -- stored bits per lane (port_to.data_width // burst_cycles)
deriving Repr

structure State where
  secErrors : Nat := 0
  dedErrors : Nat := 0
  weErrors  : Nat := 0
  secDetected : Bool := false
  dedDetected : Bool := false
deriving Repr, DecidableEq

structure In where
  clear  : Bool     -- clear.wr_stb
  enable : Bool     -- enable.storage
  rvalid : Bool     -- port_to.rdata.valid
  rdata  : Nat      -- port_to.rdata.data
  wvalid : Bool     -- port_from.wdata.valid
  wwe    : Nat      -- port_from.wdata.we
deriving Repr

def satMax : Nat := 2 ^ 32 - 1

/-- the two event strobes of a cycle: some lane corrected / some lane uncorrectable -/
def secEvent (c : Cfg) (i : In) : Bool := (laneRead c.lanes c.kf c.kt i.enable i.rvalid i.rdata).2.1 != 0
def dedEvent (c : Cfg) (i : In) : Bool := (laneRead c.lanes c.kf c.kt i.enable i.rvalid i.rdata).2.2 != 0
def weEvent  (c : Cfg) (i : In) : Bool := (laneWrite c.lanes c.kf c.kt i.wvalid 0 i.wwe).2.2

/-- one saturating event counter with its sticky flag (`If(cnt != max, If(ev, det.eq(1), cnt.eq(cnt+1)))`) -/
def bump (cnt : Nat) (det : Bool) (ev : Bool) : Nat × Bool :=
  if cnt != satMax then (if ev then (cnt + 1, true) else (cnt, det)) else (cnt, det)

def step (c : Cfg) (s : State) (i : In) : State :=
  if i.clear then {}
  else
    let (se, sd) := bump s.secErrors s.secDetected (secEvent c i)
    let (de, dd) := bump s.dedErrors s.dedDetected (dedEvent c i)
    let (we, _)  := bump s.weErrors false (weEvent c i)
    { secErrors := se, dedErrors := de, weErrors := we, secDetected := sd, dedDetected := dd }

def run (c : Cfg) (s : State) (is : List In) : State := is.foldl (step c) s

end EccPort
