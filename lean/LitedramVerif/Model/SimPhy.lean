/-
Cycle model of the bundled simulation PHY/DRAM `litedram/phy/model.py` (DFIPhaseModel, BankModel,
SDRAMPHYModel: one-hot `Case` routing of the phases to the banks, write pipeline of `write_latency`
stages, asynchronous read port, read pipeline of `read_latency` stages) — transcribed as is, including
what it does *not* do (auto-precharge bit ignored, only phase 0's `rddata_valid` driven).  Single rank.
-/
namespace SimPhy

structure Cfg where
  nphases : Nat
  nbanks : Nat
  rowbits : Nat
  colbits : Nat
  burst : Nat              -- model's `burst_length` (1 SDR, 2 DDRx)
  phaseBits : Nat          -- dfi_databits (data bits per phase)
  writeLatency : Nat
  readLatency : Nat
  weGranularity : Nat      -- 8 (byte enables) or 0 (whole word)
deriving Repr

def Cfg.dataWidth (c : Cfg) : Nat := c.phaseBits * c.nphases
def Cfg.shift (c : Cfg) : Nat := Nat.log2 (c.burst * c.nphases)
def Cfg.memLen (c : Cfg) : Nat := 2 ^ c.rowbits * 2 ^ c.colbits / (c.burst * c.nphases)

/-- one DFI phase as the model sees it (cs_n: bit 0 only matters) -/
structure Phase where
  csN : Nat
  rasN : Bool
  casN : Bool
  weN : Bool
  bank : Nat
  address : Nat
  wrdata : Nat
  wrdataMask : Nat
deriving Repr, Inhabited

structure Bank where
  active : Bool := false
  row : Nat := 0
  mem : Array Nat
  wpipe : List (Bool × Nat)      -- write pipeline stages, oldest last
deriving Repr, Inhabited

structure State where
  banks : Array Bank
  rpipe : List (Bool × Nat)      -- read pipeline stages, oldest last
deriving Repr

def init (c : Cfg) (initMem : Nat → Array Nat) : State :=
  { banks := (Array.range c.nbanks).map fun b =>
      { mem := (initMem b ++ Array.replicate (c.memLen - (initMem b).size) 0).extract 0 c.memLen,
        wpipe := List.replicate c.writeLatency (false, 0) },
    rpipe := List.replicate c.readLatency (false, 0) }

/-- DFIPhaseModel -/
def sel (p : Phase) : Bool := !p.csN.testBit 0
def isAct (p : Phase) : Bool := sel p && !p.rasN && p.casN && p.weN
def isPre (p : Phase) : Bool := sel p && !p.rasN && p.casN && !p.weN
def isWr (p : Phase) : Bool := sel p && p.rasN && !p.casN && !p.weN
def isRd (p : Phase) : Bool := sel p && p.rasN && !p.casN && p.weN

/-- `_column_address`: `Cat(address[:10], address[11:])`, then truncated to `Signal(max=ncols)` -/
def colOf (c : Cfg) (address : Nat) : Nat := ((address % 1024) + ((address >>> 11) <<< 10)) % 2 ^ c.colbits

/-- `Case(flags, {2**np: ...})`: the phase index when exactly one phase raises the flag -/
def oneHot (flags : List Bool) : Option Nat :=
  match (List.range flags.length).filter (fun i => flags.getD i false) with
  | [i] => some i
  | _ => none

structure Out where
  rddataValid : Bool
  rddata : Nat           -- all phases concatenated (phase 0 in the low bits)
deriving Repr

/-- BankModel's `active`/`row` registers: `If(precharge, active.eq(0)).Elif(activate, active.eq(1), row.eq(activate_row))` -/
def bankNext (active : Bool) (row : Nat) (precharge activate : Bool) (actRow : Nat) : Bool × Nat :=
  if precharge then (false, row) else if activate then (true, actRow) else (active, row)

/-- byte-masked merge of `new` into `old` -/
def mergeBytes (nbytes : Nat) (old new mask : Nat) : Nat :=
  (List.range nbytes).foldl (fun acc b =>
    let sh := 8 * b
    let byte := if mask.testBit b then (old >>> sh) % 256 else (new >>> sh) % 256
    acc ||| (byte <<< sh)) 0

def step (c : Cfg) (s : State) (phases : List Phase) : State × Out :=
  let actSel := oneHot (phases.map isAct)
  let preSel := oneHot (phases.map isPre)
  let wrSel := oneHot (phases.map isWr)
  let rdSel := oneHot (phases.map isRd)
  let ph (i : Nat) : Phase := phases.getD i default
  let wrdata := (List.range c.nphases).foldl (fun acc i => acc ||| ((ph i).wrdata % 2 ^ c.phaseBits) <<< (i * c.phaseBits)) 0
  let nb8 := c.dataWidth / 8
  let pm := c.phaseBits / 8
  let wrmask := (List.range c.nphases).foldl (fun acc i => acc ||| ((ph i).wrdataMask % 2 ^ pm) <<< (i * pm)) 0
  let ncols := 2 ^ c.colbits
  -- per bank
  let results := (Array.range c.nbanks).map fun nb =>
    let b := s.banks[nb]!
    let activate := match actSel with | some i => (ph i).bank == nb | none => false
    let actRow := match actSel with | some i => (ph i).address % 2 ^ c.rowbits | none => 0
    let precharge := match preSel with | some i => (ph i).bank == nb || (ph i).address.testBit 10 | none => false
    let bw := match wrSel with | some i => (ph i).bank == nb | none => false
    let bwCol := match wrSel with | some i => colOf c (ph i).address | none => 0
    let rd := match rdSel with | some i => (ph i).bank == nb | none => false
    let rdCol := match rdSel with | some i => colOf c (ph i).address | none => 0
    -- write pipeline
    let stages := (bw, bwCol) :: b.wpipe
    let (write, writeCol) := stages.getD c.writeLatency (false, 0)
    let wpipe' := stages.take c.writeLatency
    let wraddr := ((b.row * ncols) ||| writeCol) >>> c.shift
    let rdaddr := ((b.row * ncols) ||| rdCol) >>> c.shift
    let readData := if b.active && rd then b.mem.getD rdaddr 0 else 0
    let mem' :=
      if b.active && write && wraddr < b.mem.size then
        if c.weGranularity == 0 then b.mem.set! wraddr wrdata
        else b.mem.set! wraddr (mergeBytes nb8 (b.mem.getD wraddr 0) wrdata wrmask)
      else b.mem
    let (active', row') := bankNext b.active b.row precharge activate actRow
    (({ active := active', row := row', mem := mem', wpipe := wpipe' } : Bank), rd, readData)
  let banksRead := results.any fun r => r.2.1
  let banksData := results.foldl (fun acc r => acc ||| r.2.2) 0
  let rstages := (banksRead, banksData) :: s.rpipe
  let (v, d) := rstages.getD c.readLatency (false, 0)
  ({ banks := results.map (·.1), rpipe := rstages.take c.readLatency }, { rddataValid := v, rddata := d })

end SimPhy
