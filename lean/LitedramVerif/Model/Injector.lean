/-
Model of `litedram/dfii.py`: `DFIInjector` (a combinational multiplexer between the controller's DFI
(`slave`), an external DFI and the CSR-driven phase injectors towards the PHY (`master`)) and `PhaseInjector`.
One phase is modelled; phases are independent.  Values are naturals (widths are the harness's business).
-/
namespace Injector

/-- master→slave direction signals of one phase -/
structure M2S where
  address : Nat := 0
  bank : Nat := 0
  casN : Nat := 1
  csN : Nat := 0
  rasN : Nat := 1
  weN : Nat := 1
  cke : Nat := 0
  odt : Nat := 0
  resetN : Nat := 0
  actN : Nat := 1
  wrdata : Nat := 0
  wrdataEn : Nat := 0
  wrdataMask : Nat := 0
  rddataEn : Nat := 0
deriving Repr, DecidableEq, Inhabited

structure S2M where
  rddata : Nat := 0
  rddataValid : Nat := 0
deriving Repr, DecidableEq, Inhabited

/-- CSR state relevant to one phase -/
structure Csr where
  sel : Bool            -- _control.sel (1 = hardware control)
  cke : Nat
  odt : Nat
  resetN : Nat
  cs : Bool
  we : Bool
  cas : Bool
  ras : Bool
  wren : Bool
  rden : Bool
  csTop : Bool
  csBottom : Bool
  issue : Bool          -- _command_issue.wr_stb (one cycle)
  address : Nat
  baddress : Nat
  wrdata : Nat
deriving Repr

structure Cfg where
  nranks : Nat
  clamShell : Bool
deriving Repr

def ones (n : Nat) : Nat := 2 ^ n - 1

/-- `PhaseInjector` combinational outputs (`csr_dfi` phase); `mr` = ranks of the master interface -/
def phaseInj (mr : Nat) (nranks : Nat) (q : Csr) : M2S :=
  let csN := if q.issue then (if q.csTop then 2 % 2 ^ mr else if q.csBottom then 1 else (if q.cs then 0 else ones mr)) else ones mr
  { address := q.address, bank := q.baddress,
    casN := if q.issue then (if q.cas then 0 else 1) else 1,
    csN,
    rasN := if q.issue then (if q.ras then 0 else 1) else 1,
    weN := if q.issue then (if q.we then 0 else 1) else 1,
    -- `phase.cke[i].eq(cke) for i in range(nranks)`: only the first `nranks` bits are driven
    cke := if q.cke % 2 == 1 then ones nranks else 0,
    odt := if q.odt % 2 == 1 then ones nranks else 0,
    resetN := q.resetN % 2, actN := 1,
    wrdata := q.wrdata, wrdataEn := if q.issue && q.wren then 1 else 0, wrdataMask := 0,
    rddataEn := if q.issue && q.rden then 1 else 0 }

/-- what the PHY sees (`master`) and what the controller gets back (`slave` read side) -/
def mux (c : Cfg) (q : Csr) (extSel : Bool) (slave ext : M2S) (phyRd : S2M) : M2S × S2M × S2M :=
  let mr := if c.clamShell then 2 * c.nranks else c.nranks
  if q.sel then
    if extSel then (ext, {}, phyRd)     -- (master, slave read side, ext read side)
    else
      let m := if c.clamShell then { slave with csN := slave.csN % 2 ^ c.nranks + (slave.csN % 2 ^ c.nranks) * 2 ^ c.nranks } else slave
      (m, phyRd, {})
  else (phaseInj mr c.nranks q, {}, {})

end Injector
