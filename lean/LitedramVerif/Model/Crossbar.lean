/-
Cycle model of `litedram/core/crossbar.py` (LiteDRAMCrossbar.do_finalize) for native ports at the
controller's data width in the sys clock domain: address split (via `Model/AddrMap`), one `RoundRobin`
(SP_CE) per bank, lock logic, ready/valid routing, the `write_latency+1` / `read_latency+1` strobe
delay lines, the `Case`-on-one-hot write-data routing.
-/
import LitedramVerif.Model.AddrMap
import LitedramVerif.Model.Hw
namespace Crossbar
open Hw

structure Cfg where
  nmasters : Nat
  nbanks : Nat              -- controller banks (ranks × banks)
  geom : AddrMap.Geom
  wlat : Nat                -- phy.write_latency + 1
  rlat : Nat                -- phy.read_latency + 1
deriving Repr

structure MasterIn where
  cmdValid : Bool
  cmdWe : Bool
  cmdAddr : Nat
  wdata : Nat
  wdataWe : Nat
deriving Repr, Inhabited

/-- what the controller's bank interfaces show (before this cycle's edge) -/
structure BankFb where
  ready : Bool
  lock : Bool
deriving Repr, Inhabited

structure BankReq where
  valid : Bool
  we : Bool
  addr : Nat
deriving Repr, Inhabited

structure State where
  grants : Array Nat                  -- per bank arbiter
  wdl : Array (List Bool)             -- per master: wdata_ready delay line (newest first)
  rdl : Array (List Bool)             -- per master: rdata_valid delay line
deriving Repr

def init (c : Cfg) : State :=
  { grants := Array.replicate c.nbanks 0,
    wdl := Array.replicate c.nmasters (List.replicate c.wlat false),
    rdl := Array.replicate c.nmasters (List.replicate c.rlat false) }

structure Comb where
  bankReqs : Array BankReq
  cmdReady : Array Bool               -- per master
  requested : Array (Array Bool)      -- per bank, per master
deriving Repr

/-- combinational part that does not depend on the bank machines' strobes -/
def comb (c : Cfg) (s : State) (ms : Array MasterIn) (fb : Array BankFb) : Comb :=
  let mba := ms.map fun m => AddrMap.bankOf c.geom m.cmdAddr
  let mrca := ms.map fun m => AddrMap.rcaOf c.geom m.cmdAddr
  let locked (nb nm : Nat) : Bool :=
    (List.range c.nbanks).any fun ob => ob != nb && (fb[ob]!).lock && s.grants[ob]! == nm
  let selected (nb nm : Nat) : Bool := mba[nm]! == nb && !locked nb nm
  let requested := (Array.range c.nbanks).map fun nb =>
    (Array.range c.nmasters).map fun nm => selected nb nm && (ms[nm]!).cmdValid
  let bankReqs := (Array.range c.nbanks).map fun nb =>
    let g := s.grants[nb]!
    ({ valid := (requested[nb]!)[g]!, we := (ms[g]!).cmdWe, addr := mrca[g]! } : BankReq)
  let cmdReady := (Array.range c.nmasters).map fun nm =>
    (List.range c.nbanks).any fun nb => s.grants[nb]! == nm && selected nb nm && (fb[nb]!).ready
  { bankReqs, cmdReady, requested }

structure Out where
  cmdReady : Array Bool
  wdataReady : Array Bool
  rdataValid : Array Bool
  ctlWdata : Nat
  ctlWdataWe : Nat
deriving Repr

/-- a master's delayed write strobe (`master.wdata.ready`) -/
def delayedW (c : Cfg) (s : State) (nm : Nat) : Bool := (s.wdl[nm]!).getD (c.wlat - 1) false
/-- a master's delayed read strobe (`master.rdata.valid`) -/
def delayedR (c : Cfg) (s : State) (nm : Nat) : Bool := (s.rdl[nm]!).getD (c.rlat - 1) false
/-- masters whose delayed write strobe is up -/
def writers (c : Cfg) (s : State) : List Nat := (List.range c.nmasters).filter (delayedW c s)

/-- `Case(Cat(*master_wdata_readys), {2**nm: ...})`: data of the master when exactly one is ready, else 0 -/
def routeWdata (ms : Array MasterIn) : List Nat → Nat × Nat
  | [nm] => ((ms[nm]!).wdata, (ms[nm]!).wdataWe)
  | _ => (0, 0)

/-- the registered outputs and the write-data routing visible in this cycle -/
def out (c : Cfg) (s : State) (ms : Array MasterIn) (cb : Comb) : Out :=
  let dw := routeWdata ms (writers c s)
  { cmdReady := cb.cmdReady, wdataReady := (Array.range c.nmasters).map (delayedW c s),
    rdataValid := (Array.range c.nmasters).map (delayedR c s), ctlWdata := dw.1, ctlWdataWe := dw.2 }

/-- clock edge, given the bank machines' strobes of this cycle -/
def step (c : Cfg) (s : State) (cb : Comb) (fb : Array BankFb) (bankWdataReady bankRdataValid : Array Bool) : State :=
  let mw (nm : Nat) : Bool := (List.range c.nbanks).any fun nb => s.grants[nb]! == nm && bankWdataReady[nb]!
  let mr (nm : Nat) : Bool := (List.range c.nbanks).any fun nb => s.grants[nb]! == nm && bankRdataValid[nb]!
  { grants := (Array.range c.nbanks).map fun nb =>
      let ce := !(cb.bankReqs[nb]!).valid && !(fb[nb]!).lock
      rrStep c.nmasters s.grants[nb]! (fun nm => (cb.requested[nb]!)[nm]!) ce
    wdl := (Array.range c.nmasters).map fun nm => (mw nm :: s.wdl[nm]!).take c.wlat
    rdl := (Array.range c.nmasters).map fun nm => (mr nm :: s.rdl[nm]!).take c.rlat }

end Crossbar
