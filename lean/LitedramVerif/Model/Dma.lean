/-
Cycle models of `litedram/frontend/dma.py`: LiteDRAMDMAReader and LiteDRAMDMAWriter on a native port
(the AXI flavour only renames the channels), without the optional CSR front-end.
-/
import LitedramVerif.Model.Fifo
namespace Dma

structure Cfg where
  depth : Nat
  buffered : Bool
deriving Repr

/-! ### reader -/
structure RIn where
  enable : Bool
  sinkValid : Bool
  sinkAddr : Nat
  sinkLast : Bool
  cmdReady : Bool        -- port.cmd.ready
  rdataValid : Bool      -- port.rdata.valid
  rdata : Nat
  srcReady : Bool        -- consumer
deriving Repr

structure ROut where
  sinkReady : Bool
  cmdValid : Bool
  cmdAddr : Nat
  cmdLast : Bool
  rdataReady : Bool
  srcValid : Bool
  srcData : Nat
  srcLast : Bool
deriving Repr

structure RState where
  res : Fifo.State Bool := {}     -- reservation FIFO (payload: `last`)
  fifo : Fifo.State Nat := {}     -- data FIFO
deriving Repr

def resCfg (c : Cfg) : Fifo.Cfg := { depth := c.depth }
def dataCfg (c : Cfg) : Fifo.Cfg := { depth := c.depth, buffered := c.buffered }

def rstep (c : Cfg) (s : RState) (i : RIn) : RState × ROut :=
  -- data FIFO source side
  let fValid := Fifo.srcValid (dataCfg c) s.fifo i.rdataValid
  let fData := (Fifo.srcData (dataCfg c) s.fifo i.rdata).getD 0
  let fSrcReady := i.srcReady || !i.enable
  -- reservation FIFO: its sink.ready depends on its source.ready only for depth ≤ 1
  let resSrcReady := fValid && fSrcReady
  let resSinkReady := Fifo.sinkReady (resCfg c) s.res resSrcReady
  let cmdValid := i.enable && i.sinkValid && resSinkReady
  let sinkReady := i.enable && i.cmdReady && resSinkReady
  let push := cmdValid && i.cmdReady
  let resValid := Fifo.srcValid (resCfg c) s.res push
  let resLast := (Fifo.srcData (resCfg c) s.res i.sinkLast).getD false
  let srcValid := resValid && fValid
  let srcLast := resValid && resLast
  let rdataReady := Fifo.sinkReady (dataCfg c) s.fifo fSrcReady
  let s' : RState :=
    { res := Fifo.step (resCfg c) s.res push i.sinkLast resSrcReady
      fifo := Fifo.step (dataCfg c) s.fifo i.rdataValid i.rdata fSrcReady }
  (s', { sinkReady, cmdValid, cmdAddr := i.sinkAddr, cmdLast := i.sinkLast, rdataReady, srcValid, srcData := fData, srcLast })

/-! ### writer -/
structure WIn where
  sinkValid : Bool
  sinkAddr : Nat
  sinkData : Nat
  sinkLast : Bool
  cmdReady : Bool
  wdataReady : Bool
deriving Repr

structure WOut where
  sinkReady : Bool
  cmdValid : Bool
  cmdAddr : Nat
  wdataValid : Bool
  wdata : Nat
deriving Repr

structure WState where
  fifo : Fifo.State Nat := {}
deriving Repr

def wstep (c : Cfg) (s : WState) (i : WIn) : WState × WOut :=
  let fSinkReady := Fifo.sinkReady (dataCfg c) s.fifo i.wdataReady
  let cmdValid := fSinkReady && i.sinkValid
  let sinkReady := fSinkReady && i.cmdReady
  let push := i.sinkValid && i.cmdReady
  let wValid := Fifo.srcValid (dataCfg c) s.fifo push
  let wData := (Fifo.srcData (dataCfg c) s.fifo i.sinkData).getD 0
  ({ fifo := Fifo.step (dataCfg c) s.fifo push i.sinkData i.wdataReady },
   { sinkReady, cmdValid, cmdAddr := i.sinkAddr, wdataValid := wValid, wdata := wData })

end Dma
