/-
Cycle models of `litedram/frontend/bist.py`: the PRBS31/counter `Generator`, `_LiteDRAMBISTGenerator` and
`_LiteDRAMBISTChecker` (each composed with the DMA engine models of Model/Dma.lean), on a native or AXI-shaped port.
The CSR wrappers `LiteDRAMBISTGenerator/Checker` in the `sys` domain only wire CSRs to these cores combinationally.
-/
import LitedramVerif.Model.Dma
namespace Bist

/-! ### data / address generators -/

/-- one of the 31 unrolled shifts of `LFSR(31, 31, taps=[27, 30])`: new bit 0 is `~(b27 ^ b30)`, the rest moves up -/
def lfsrShift (s : Nat) : Nat :=
  (s % 2 ^ 30) * 2 + (if s.testBit 27 != s.testBit 30 then 0 else 1)

def iter {α : Type} (f : α → α) : Nat → α → α
  | 0, x => x
  | n + 1, x => iter f n (f x)

/-- `lfsr.o` (combinational) and also the next `state` -/
def lfsrOut (s : Nat) : Nat := iter lfsrShift 31 s

structure Gen where
  lfsr : Nat := 0
  count : Nat := 0
deriving Repr, DecidableEq

def Gen.o (g : Gen) (random : Bool) : Nat := if random then lfsrOut g.lfsr else g.count
/-- one clock with `ce = 1` (CEInserter gates both the LFSR state and the counter) -/
def Gen.tick (g : Gen) : Gen := { lfsr := lfsrOut g.lfsr, count := (g.count + 1) % 2 ^ 31 }

/-- `Replicate(o, ceil(dw / 31))[:dw]` -/
def replicate (dw o : Nat) : Nat :=
  ((List.range ((dw + 30) / 31)).foldl (fun acc k => acc + o * 2 ^ (31 * k)) 0) % 2 ^ dw

/-! ### configuration -/
structure Cfg where
  dw : Nat            -- port data width (bits)
  aw : Nat            -- port.address_width
  axi : Bool
  ashift : Nat        -- log2(dw / 8)
  dma : Dma.Cfg := { depth := 16, buffered := false }
deriving Repr

def Cfg.awidth (c : Cfg) : Nat := if c.axi then c.aw else c.aw + c.ashift

/-- the CSR-visible settings, constant during a run -/
structure Regs where
  base : Nat
  end_ : Nat
  length : Nat
  randomData : Bool
  randomAddr : Bool
deriving Repr

/-- `addr_mask = (end - base) - 1` on `awidth` bits -/
def addrMask (c : Cfg) (r : Regs) : Nat :=
  (r.end_ + 2 ^ c.awidth - r.base % 2 ^ c.awidth + 2 ^ c.awidth - 1) % 2 ^ c.awidth

/-- the value on `dma.sink.address` for generator output `o` -/
def sinkAddr (c : Cfg) (r : Regs) (o : Nat) : Nat :=
  let x := (r.base % 2 ^ c.awidth) / 2 ^ c.ashift + (o &&& addrMask c r)
  if c.axi then (x % 2 ^ (c.aw - c.ashift)) * 2 ^ c.ashift else x % 2 ^ c.aw

/-- number of words: `length[ashift:]` -/
def nWords (c : Cfg) (r : Regs) : Nat := (r.length % 2 ^ c.awidth) / 2 ^ c.ashift

/-! ### the sequence (what position `i` of a run writes / expects) -/
def genAt (i : Nat) : Gen := iter Gen.tick i {}
def seqData (c : Cfg) (r : Regs) (i : Nat) : Nat := replicate c.dw ((genAt i).o r.randomData)
def seqAddr (c : Cfg) (r : Regs) (i : Nat) : Nat := sinkAddr c r ((genAt i).o r.randomAddr)

/-! ### _LiteDRAMBISTGenerator -/
inductive GFsm | idle | wait | run | await | done
deriving Repr, DecidableEq

structure GState where
  fsm : GFsm := .idle
  cmdCounter : Nat := 0
  ticks : Nat := 0
  dataGen : Gen := {}
  addrGen : Gen := {}
  dma : Dma.WState := {}
deriving Repr

structure GIn where
  reset : Bool
  start : Bool
  cascadeIn : Bool
  cmdReady : Bool
  wdataReady : Bool
deriving Repr

structure GOut where
  done : Bool
  ticks : Nat
  cascadeOut : Bool
  sinkValid : Bool       -- word handed to the DMA engine this cycle iff sinkValid && sinkReady
  sinkReady : Bool
  sinkAddr : Nat
  sinkData : Nat
  port : Dma.WOut
deriving Repr

def gstep (c : Cfg) (r : Regs) (s : GState) (i : GIn) : GState × GOut :=
  let sinkValid := s.fsm == .run
  let addr := sinkAddr c r (s.addrGen.o r.randomAddr)
  let data := replicate c.dw (s.dataGen.o r.randomData)
  let (dma', po) := Dma.wstep c.dma s.dma ⟨sinkValid, addr, data, false, i.cmdReady, i.wdataReady⟩
  let acc := sinkValid && po.sinkReady
  let fifoValid := po.wdataValid
  let out : GOut :=
    { done := s.fsm == .done, ticks := s.ticks, cascadeOut := acc || s.fsm == .done,
      sinkValid, sinkReady := po.sinkReady, sinkAddr := addr, sinkData := data, port := po }
  let fsm' : GFsm :=
    match s.fsm with
    | .idle => if i.start then .run else .idle
    | .wait => if i.cascadeIn then .run else .wait
    | .run =>
      if acc then
        if (s.cmdCounter : Int) == (nWords c r : Int) - 1 then .await
        else if !i.cascadeIn then .wait else .run
      else .run
    | .await => if !fifoValid then .done else .await
    | .done => .done
  let cmdCounter' :=
    match s.fsm with
    | .idle => if i.start then 0 else s.cmdCounter
    | .run => if acc then (s.cmdCounter + 1) % 2 ^ c.aw else s.cmdCounter
    | _ => s.cmdCounter
  let ticks' :=
    match s.fsm with
    | .idle => 0
    | .run => (s.ticks + 1) % 2 ^ 32
    | _ => s.ticks
  let s' : GState :=
    { fsm := fsm', cmdCounter := cmdCounter', ticks := ticks',
      dataGen := if acc then s.dataGen.tick else s.dataGen,
      addrGen := if acc then s.addrGen.tick else s.addrGen,
      dma := dma' }
  -- ResetInserter: every register but the reset-less command counter
  ((if i.reset then { cmdCounter := cmdCounter' } else s'), out)

/-! ### _LiteDRAMBISTChecker -/
inductive CFsm | idle | wait | run | done
deriving Repr, DecidableEq
inductive DFsm | idle | run | done
deriving Repr, DecidableEq

structure CState where
  cmdFsm : CFsm := .idle
  dataFsm : DFsm := .idle
  cmdCounter : Nat := 0
  dataCounter : Nat := 0
  errors : Nat := 0
  ticks : Nat := 0
  dataGen : Gen := {}
  addrGen : Gen := {}
  dma : Dma.RState := {}
deriving Repr

structure CIn where
  reset : Bool
  start : Bool
  cascadeIn : Bool
  cmdReady : Bool
  rdataValid : Bool
  rdata : Nat
deriving Repr

structure COut where
  done : Bool
  errors : Nat
  ticks : Nat
  cascadeOut : Bool
  cmdAcc : Bool          -- a read address is handed to the DMA engine this cycle
  dataAcc : Bool         -- a returned word is compared this cycle
  data : Nat
  addr : Nat             -- the address presented to the DMA engine
  port : Dma.ROut
deriving Repr

def cstep (c : Cfg) (r : Regs) (s : CState) (i : CIn) : CState × COut :=
  let sinkValid := s.cmdFsm == .run
  let srcReady := s.dataFsm == .run
  let addr := sinkAddr c r (s.addrGen.o r.randomAddr)
  let (dma', po) := Dma.rstep c.dma s.dma ⟨true, sinkValid, addr, false, i.cmdReady, i.rdataValid, i.rdata, srcReady⟩
  let cacc := sinkValid && po.sinkReady
  let dacc := srcReady && po.srcValid
  let expect := replicate c.dw (s.dataGen.o r.randomData)
  let out : COut :=
    { done := s.dataFsm == .done, errors := s.errors, ticks := s.ticks, cascadeOut := cacc, cmdAcc := cacc, dataAcc := dacc,
      data := po.srcData, addr, port := po }
  let cmdFsm' : CFsm :=
    match s.cmdFsm with
    | .idle => if i.start then .wait else .idle
    | .wait => if i.cascadeIn then .run else .wait
    | .run =>
      if cacc then
        if (s.cmdCounter : Int) == (nWords c r : Int) - 1 then .done
        else if !i.cascadeIn then .wait else .run
      else .run
    -- `cmd_fsm.act("DONE")` has no statements: Migen gives such a state the reset state's (IDLE) case as default
    | .done => if i.start then .wait else .done
  let cmdCounter' :=
    match s.cmdFsm with
    | .idle | .done => if i.start then 0 else s.cmdCounter
    | .run => if cacc then (s.cmdCounter + 1) % 2 ^ c.aw else s.cmdCounter
    | _ => s.cmdCounter
  let dataFsm' : DFsm :=
    match s.dataFsm with
    | .idle => if i.start then .run else .idle
    | .run => if dacc && (s.dataCounter : Int) == (nWords c r : Int) - 1 then .done else .run
    | .done => .done
  let dataCounter' :=
    match s.dataFsm with
    | .idle => if i.start then 0 else s.dataCounter
    | .run => if dacc then (s.dataCounter + 1) % 2 ^ c.aw else s.dataCounter
    | .done => s.dataCounter
  let errors' :=
    match s.dataFsm with
    | .idle => if i.start then 0 else s.errors
    | .run => if dacc && po.srcData != expect then (s.errors + 1) % 2 ^ 32 else s.errors
    | .done => s.errors
  let ticks' :=
    match s.dataFsm with
    | .idle => 0
    | .run => (s.ticks + 1) % 2 ^ 32
    | .done => s.ticks
  let s' : CState :=
    { cmdFsm := cmdFsm', dataFsm := dataFsm', cmdCounter := cmdCounter', dataCounter := dataCounter',
      errors := errors', ticks := ticks',
      dataGen := if dacc then s.dataGen.tick else s.dataGen,
      addrGen := if cacc then s.addrGen.tick else s.addrGen,
      dma := dma' }
  ((if i.reset then { cmdCounter := cmdCounter', dataCounter := dataCounter' } else s'), out)

/-! ### _LiteDRAMPatternGenerator / _LiteDRAMPatternChecker (address/data pairs from an initialised memory) -/

inductive PFsm | idle | wait | run | done
deriving Repr, DecidableEq

structure PGState where
  fsm : PFsm := .idle
  cmdCounter : Nat := 0
  ticks : Nat := 0
  dma : Dma.WState := {}
deriving Repr

def patAddr (c : Cfg) (a : Nat) : Nat :=
  if c.axi then (a % 2 ^ (c.aw - c.ashift)) * 2 ^ c.ashift else a % 2 ^ c.aw

def pgstep (c : Cfg) (init : List (Nat × Nat)) (s : PGState) (i : GIn) : PGState × GOut :=
  let sinkValid := s.fsm == .run
  let e := init.getD s.cmdCounter (0, 0)
  let addr := patAddr c e.1
  let data := e.2 % 2 ^ c.dw
  let (dma', po) := Dma.wstep c.dma s.dma ⟨sinkValid, addr, data, false, i.cmdReady, i.wdataReady⟩
  let acc := sinkValid && po.sinkReady
  let out : GOut :=
    { done := s.fsm == .done, ticks := s.ticks, cascadeOut := acc || s.fsm == .done,
      sinkValid, sinkReady := po.sinkReady, sinkAddr := addr, sinkData := data, port := po }
  let fsm' : PFsm :=
    match s.fsm with
    | .idle => if i.start then .run else .idle
    | .wait => if i.cascadeIn then .run else .wait
    | .run => if acc then (if s.cmdCounter + 1 == init.length then .done else if !i.cascadeIn then .wait else .run) else .run
    | .done => .done
  let cmdCounter' :=
    match s.fsm with
    | .idle => if i.start then 0 else s.cmdCounter
    | .run => if acc then (s.cmdCounter + 1) % 2 ^ c.aw else s.cmdCounter
    | _ => s.cmdCounter
  let ticks' :=
    match s.fsm with
    | .idle => 0
    | .run => (s.ticks + 1) % 2 ^ 32
    | _ => s.ticks
  let s' : PGState := { fsm := fsm', cmdCounter := cmdCounter', ticks := ticks', dma := dma' }
  ((if i.reset then { cmdCounter := cmdCounter' } else s'), out)

structure PCState where
  cmdFsm : PFsm := .idle
  dataFsm : DFsm := .idle
  cmdCounter : Nat := 0
  dataCounter : Nat := 0
  errors : Nat := 0
  ticks : Nat := 0
  dma : Dma.RState := {}
deriving Repr

def pcstep (c : Cfg) (init : List (Nat × Nat)) (s : PCState) (i : CIn) : PCState × COut :=
  let sinkValid := s.cmdFsm == .run
  let srcReady := s.dataFsm == .run
  let addr := patAddr c (init.getD s.cmdCounter (0, 0)).1
  let (dma', po) := Dma.rstep c.dma s.dma ⟨true, sinkValid, addr, false, i.cmdReady, i.rdataValid, i.rdata, srcReady⟩
  let cacc := sinkValid && po.sinkReady
  let dacc := srcReady && po.srcValid
  let expect := (init.getD s.dataCounter (0, 0)).2 % 2 ^ c.dw
  let out : COut :=
    { done := s.dataFsm == .done, errors := s.errors, ticks := s.ticks, cascadeOut := cacc, cmdAcc := cacc, dataAcc := dacc,
      data := po.srcData, addr, port := po }
  let cmdFsm' : PFsm :=
    match s.cmdFsm with
    | .idle | .done => if i.start then (if i.cascadeIn then .run else .wait) else s.cmdFsm
    | .wait => if i.cascadeIn then .run else .wait
    | .run => if cacc then (if s.cmdCounter + 1 == init.length then .done else if !i.cascadeIn then .wait else .run) else .run
  let cmdCounter' :=
    match s.cmdFsm with
    | .idle | .done => if i.start then 0 else s.cmdCounter
    | .run => if cacc then (s.cmdCounter + 1) % 2 ^ c.aw else s.cmdCounter
    | _ => s.cmdCounter
  let dataFsm' : DFsm :=
    match s.dataFsm with
    | .idle => if i.start then .run else .idle
    | .run => if dacc && s.dataCounter + 1 == init.length then .done else .run
    | .done => .done
  let dataCounter' :=
    match s.dataFsm with
    | .idle => if i.start then 0 else s.dataCounter
    | .run => if dacc then (s.dataCounter + 1) % 2 ^ c.aw else s.dataCounter
    | .done => s.dataCounter
  let errors' :=
    match s.dataFsm with
    | .idle => if i.start then 0 else s.errors
    | .run => if dacc && po.srcData != expect then (s.errors + 1) % 2 ^ 32 else s.errors
    | .done => s.errors
  -- `ticks` is written by both FSMs; the data FSM's assignment comes later and wins where it makes one
  let ticks' :=
    match s.dataFsm with
    | .idle => 0
    | .run => (s.ticks + 1) % 2 ^ 32
    | .done => if s.cmdFsm == .wait then (s.ticks + 1) % 2 ^ 32 else s.ticks
  let s' : PCState :=
    { cmdFsm := cmdFsm', dataFsm := dataFsm', cmdCounter := cmdCounter', dataCounter := dataCounter',
      errors := errors', ticks := ticks', dma := dma' }
  ((if i.reset then { cmdCounter := cmdCounter', dataCounter := dataCounter' } else s'), out)

end Bist
