/-
Cycle model of `litedram/core/bankmachine.py` (BankMachine + _AddressSlicer) with the library blocks it
instantiates: `stream.SyncFIFO` (unbuffered; depth ≥ 2: storage array, produce/consume pointers, level; depth 1: a
`stream.Buffer` whose `level` is an undriven dummy; depth 0: a wire),
`stream.Buffer` (PipeValid), three `tXXDController`s, the FSM with its `delayed_enter` chains.
Not modelled: `cmd_buffer_buffered=True`.
-/
import LitedramVerif.Model.Hw
namespace BankMachine
open Hw

structure Cfg where
  depth : Nat            -- settings.cmd_buffer_depth
  tRAS : Option Nat
  tRC : Option Nat
  twtp : Nat             -- ceil(cwl/nphases) + tWR + tCCD
  tRCD : Nat
  tRP : Nat
  colbits : Nat
  rowbits : Nat
  align : Nat            -- address_align
  abits : Nat            -- geom.addressbits (width of cmd.a)
  ap : Bool              -- with_auto_precharge
deriving Repr

inductive St | regular | precharge | autoprecharge | activate | refresh | trp (k : Nat) | trcd (k : Nat)
deriving Repr, DecidableEq, Inhabited

structure Entry where
  we : Bool := false
  addr : Nat := 0
deriving Repr, Inhabited, DecidableEq

structure State where
  mem : Array Entry
  produce : Nat := 0
  consume : Nat := 0
  level : Nat := 0
  bufValid : Bool := false
  buf : Entry := {}
  row : Nat := 0
  rowOpened : Bool := false
  fsm : St := .regular
  twtp : TX
  trc : TX
  tras : TX
deriving Repr, Inhabited

def State.init (c : Cfg) : State :=
  { mem := Array.replicate c.depth {}, twtp := TX.init (some c.twtp), trc := TX.init c.tRC, tras := TX.init c.tRAS }

/-- inputs of one cycle: the crossbar's request, the refresh request, and `cmd.ready` from the multiplexer -/
structure In where
  valid : Bool
  we : Bool
  addr : Nat
  refresh : Bool
  ready : Bool
deriving Repr

/-- combinational outputs -/
structure Out where
  reqReady : Bool
  lock : Bool
  wdataReady : Bool
  rdataValid : Bool
  refreshGnt : Bool
  cmdValid : Bool
  a : Nat
  cas : Bool
  ras : Bool
  we : Bool
  isCmd : Bool
  isRead : Bool
  isWrite : Bool
deriving Repr

/-- `slicer.row(address)` = `address[split:]` (full width of the slice) -/
def rowFull (c : Cfg) (addr : Nat) : Nat := addr >>> (c.colbits - c.align)
/-- … as stored in the `rowbits`-wide `row` register -/
def rowOf (c : Cfg) (addr : Nat) : Nat := rowFull c addr % 2 ^ c.rowbits

def colOf (c : Cfg) (addr : Nat) : Nat :=
  let split := c.colbits - c.align
  if c.colbits > 10 then
    let lo := addr % 2 ^ (10 - c.align)
    let hi := (addr >>> (10 - c.align)) % 2 ^ (split - (10 - c.align))
    (lo <<< c.align) ||| (hi <<< 11)
  else (addr % 2 ^ split) <<< c.align

/-- `fsm.delayed_enter(name, target, delay)` -/
def enter (delay : Nat) (mk : Nat → St) (target : St) : St :=
  if delay > 0 then mk 0 else target

/-- the part of the combinational outputs that does not depend on `cmd.ready` (what the multiplexer sees) -/
structure Req where
  valid : Bool
  a : Nat
  cas : Bool
  ras : Bool
  we : Bool
  isCmd : Bool
  isRead : Bool
  isWrite : Bool
  refreshGnt : Bool
deriving Repr, Inhabited

def step (c : Cfg) (s : State) (i : In) : State × Out :=
  -- look-ahead stage: `stream.SyncFIFO(depth)`; depth 1 is a Buffer (its valid bit is kept in `level`, its payload in
  -- `mem[0]`), depth 0 a combinational connection
  let laValid := if c.depth == 0 then i.valid else s.level != 0
  let laOut : Entry := if c.depth == 0 then ⟨i.we, i.addr⟩ else s.mem[s.consume]!
  let rowHit := s.row == rowFull c s.buf.addr
  let twtpR := s.twtp.ready; let trasR := s.tras.ready; let trcR := s.trc.ready
  let inReg := s.fsm == .regular
  let rowClose := s.fsm == .precharge || s.fsm == .autoprecharge || s.fsm == .refresh
  let autoPre := c.ap && laValid && s.bufValid && (rowFull c laOut.addr != rowFull c s.buf.addr) && !rowClose
  let casCond := inReg && !i.refresh && s.bufValid && s.rowOpened && rowHit
  let preCond := s.fsm == .precharge && twtpR && trasR
  let actCond := s.fsm == .activate && trcR
  let cmdValid := casCond || preCond || actCond
  let wdataReady := casCond && s.buf.we && i.ready
  let rdataValid := casCond && !s.buf.we && i.ready
  let isWrite := casCond && s.buf.we
  let isRead := casCond && !s.buf.we
  let cas := casCond
  let ras := preCond || actCond
  let we := isWrite || preCond
  let isCmd := preCond || actCond || s.fsm == .refresh
  let rowOpen := actCond
  let refreshGnt := s.fsm == .refresh && twtpR && trasR
  let a := (if actCond then rowFull c s.buf.addr else ((if autoPre then 1024 else 0) ||| colOf c s.buf.addr)) % 2 ^ c.abits
  let next : St :=
    match s.fsm with
    | .regular =>
      if i.refresh then .refresh
      else if s.bufValid then
        if s.rowOpened then
          if rowHit then (if i.ready && autoPre then .autoprecharge else .regular)
          else .precharge
        else .activate
      else .regular
    | .precharge => if twtpR && trasR && i.ready then enter (c.tRP - 1) .trp .activate else .precharge
    | .autoprecharge => if twtpR && trasR then enter (c.tRP - 1) .trp .activate else .autoprecharge
    | .activate => if trcR && i.ready then enter (c.tRCD - 1) .trcd .regular else .activate
    | .refresh => if !i.refresh then .regular else .refresh
    | .trp k => if k + 1 < c.tRP - 1 then .trp (k+1) else .activate
    | .trcd k => if k + 1 < c.tRCD - 1 then .trcd (k+1) else .regular
  let bufSrcReady := wdataReady || rdataValid
  let bufSinkReady := !s.bufValid || bufSrcReady
  let writable := if c.depth == 0 then bufSinkReady else if c.depth == 1 then (s.level == 0 || bufSinkReady) else s.level != c.depth
  let small := c.depth == 0 || c.depth == 1
  let doRead := laValid && bufSinkReady
  let doWrite := i.valid && writable
  -- depth 1: the Buffer registers valid *and payload* whenever it advances
  let mem' := if c.depth == 0 then s.mem else if c.depth == 1 then (if writable then s.mem.set! 0 ⟨i.we, i.addr⟩ else s.mem)
              else if doWrite then s.mem.set! s.produce ⟨i.we, i.addr⟩ else s.mem
  let inc (p : Nat) := if p + 1 == c.depth then 0 else p + 1
  let level' := if c.depth == 0 then s.level else if c.depth == 1 then (if writable then (if i.valid then 1 else 0) else s.level)
                else if doWrite then (if !doRead then s.level + 1 else s.level) else if doRead then s.level - 1 else s.level
  let accepted := cmdValid && i.ready
  let s' : State :=
    { mem := mem'
      produce := if small then s.produce else if doWrite then inc s.produce else s.produce
      consume := if small then s.consume else if doRead then inc s.consume else s.consume
      level := level'
      bufValid := if bufSinkReady then laValid else s.bufValid
      buf := if bufSinkReady then laOut else s.buf
      row := if rowClose then s.row else if rowOpen then rowOf c s.buf.addr else s.row
      rowOpened := if rowClose then false else if rowOpen then true else s.rowOpened
      fsm := next
      twtp := TX.step (some c.twtp) s.twtp (accepted && isWrite)
      trc := TX.step c.tRC s.trc (accepted && rowOpen)
      tras := TX.step c.tRAS s.tras (accepted && rowOpen) }
  (s', { reqReady := writable, lock := laValid || s.bufValid, wdataReady, rdataValid, refreshGnt, cmdValid, a, cas, ras, we, isCmd, isRead, isWrite })

/-- request view (independent of `ready`): evaluate `step` with `ready := false` -/
def req (c : Cfg) (s : State) (valid we : Bool) (addr : Nat) (refresh : Bool) : Req :=
  let o := (step c s ⟨valid, we, addr, refresh, false⟩).2
  { valid := o.cmdValid, a := o.a, cas := o.cas, ras := o.ras, we := o.we, isCmd := o.isCmd, isRead := o.isRead,
    isWrite := o.isWrite, refreshGnt := o.refreshGnt }

end BankMachine
