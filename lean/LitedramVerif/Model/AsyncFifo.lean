/-
Model of migen's `AsyncFIFO` (gray-coded pointers, two-stage synchronisers, dual-clock memory) as wrapped by LiteX's
`stream.AsyncFIFO` / `ClockDomainCrossing`, and of `LiteDRAMNativePortCDC` (frontend/adapter.py), which is three of them:
commands and write data from the user's clock domain to the controller's, read data back.
Time is a sequence of instants; at each instant the write clock, the read clock or both have a rising edge - any
frequency ratio and phase relation is such a sequence.  All registers sample the values of just before the instant.
-/
namespace AsyncFifo

def gray (x : Nat) : Nat := x ^^^ (x >>> 1)

structure State where
  wbin : Nat := 0           -- produce.q_binary (k+1 bits)
  wgray : Nat := 0          -- produce.q
  rbin : Nat := 0
  rgray : Nat := 0
  w2r0 : Nat := 0           -- MultiReg(produce.q -> read domain), first and second stage
  w2r1 : Nat := 0
  r2w0 : Nat := 0           -- MultiReg(consume.q -> write domain)
  r2w1 : Nat := 0
  mem : List Nat := []
  dout : Nat := 0           -- synchronous read port
deriving Repr

def State.init (k : Nat) : State := { mem := List.replicate (2 ^ k) 0 }

/-- `writable`: the gray-coded pointers do not differ by exactly `depth` -/
def writable (k : Nat) (s : State) : Bool :=
  (s.wgray.testBit k == s.r2w1.testBit k) || (s.wgray.testBit (k - 1) == s.r2w1.testBit (k - 1)) ||
    (s.wgray % 2 ^ (k - 1) != s.r2w1 % 2 ^ (k - 1))

def readable (s : State) : Bool := s.rgray != s.w2r1

/-- the write-clock registers after a write-clock edge -/
def tickW (k : Nat) (s : State) (we : Bool) (din : Nat) : State :=
  let ce := writable k s && we
  let wbin' := if ce then (s.wbin + 1) % 2 ^ (k + 1) else s.wbin
  { s with wbin := wbin', wgray := gray wbin', mem := if ce then s.mem.set (s.wbin % 2 ^ k) din else s.mem,
           r2w1 := s.r2w0, r2w0 := s.rgray }

/-- the read-clock registers after a read-clock edge -/
def tickR (k : Nat) (s : State) (re : Bool) : State :=
  let ce := readable s && re
  let rbin' := if ce then (s.rbin + 1) % 2 ^ (k + 1) else s.rbin
  { s with rbin := rbin', rgray := gray rbin', dout := s.mem.getD (rbin' % 2 ^ k) 0, w2r1 := s.w2r0, w2r0 := s.wgray }

/-- one instant: `w` / `r` say which clocks rise; both sides sample the pre-instant state -/
def tick (k : Nat) (s : State) (w r : Bool) (we : Bool) (din : Nat) (re : Bool) : State :=
  let sw := if w then tickW k s we din else s
  let sr := if r then tickR k s re else s
  { wbin := sw.wbin, wgray := sw.wgray, mem := sw.mem, r2w0 := sw.r2w0, r2w1 := sw.r2w1,
    rbin := sr.rbin, rgray := sr.rgray, dout := sr.dout, w2r0 := sr.w2r0, w2r1 := sr.w2r1 }

end AsyncFifo

/-! ### LiteDRAMNativePortCDC -/
namespace PortCdc

structure Cfg where
  kCmd : Nat := 2
  kW : Nat := 4
  kR : Nat := 4
deriving Repr

structure State where
  cmd : AsyncFifo.State
  wdata : AsyncFifo.State
  rdata : AsyncFifo.State
deriving Repr

def State.init (c : Cfg) : State := ⟨AsyncFifo.State.init c.kCmd, AsyncFifo.State.init c.kW, AsyncFifo.State.init c.kR⟩

/-- user-domain inputs -/
structure UIn where
  cmdValid : Bool
  cmd : Nat
  wValid : Bool
  w : Nat
  rReady : Bool
deriving Repr

/-- controller-domain inputs -/
structure SIn where
  cmdReady : Bool
  wReady : Bool
  rValid : Bool
  r : Nat
deriving Repr

structure Out where
  -- user side
  cmdReady : Bool
  wReady : Bool
  rValid : Bool
  r : Nat
  -- controller side
  cmdValid : Bool
  cmd : Nat
  wValid : Bool
  w : Nat
  rReady : Bool
deriving Repr

def out (c : Cfg) (s : State) : Out :=
  { cmdReady := AsyncFifo.writable c.kCmd s.cmd, wReady := AsyncFifo.writable c.kW s.wdata,
    rValid := AsyncFifo.readable s.rdata, r := s.rdata.dout,
    cmdValid := AsyncFifo.readable s.cmd, cmd := s.cmd.dout, wValid := AsyncFifo.readable s.wdata, w := s.wdata.dout,
    rReady := AsyncFifo.writable c.kR s.rdata }

/-- one instant: `u` / `y` say whether the user clock / the controller clock rises -/
def tick (c : Cfg) (s : State) (u y : Bool) (iu : UIn) (iy : SIn) : State :=
  { cmd := AsyncFifo.tick c.kCmd s.cmd u y iu.cmdValid iu.cmd iy.cmdReady
    wdata := AsyncFifo.tick c.kW s.wdata u y iu.wValid iu.w iy.wReady
    rdata := AsyncFifo.tick c.kR s.rdata y u iy.rValid iy.r iu.rReady }

end PortCdc
