/-
Cycle model of `litedram/frontend/fifo.py`: `_LiteDRAMFIFOCtrl`, `_LiteDRAMFIFO` (writer/reader on the DMA engines) and
`LiteDRAMFIFO` with its pre/post FIFOs, pre/post width converters and the BYPASS / DRAM / PUMP / DRAIN mode FSM.
Later comb assignments override earlier ones exactly as in the generated logic (the FSM's statements come last).
-/
import LitedramVerif.Model.Dma
import LitedramVerif.Model.Adapter
namespace DramFifo

structure Cfg where
  dw : Nat                  -- stream data width
  ratio : Nat               -- port_data_width / data_width
  withBypass : Bool
  base : Nat                -- fifo_base (port words)
  depth : Nat               -- fifo_depth (port words)
  preDepth : Nat
  postDepth : Nat
  addrBits : Nat            -- port_address_width (width of dram_cnt)
  modBits : Nat             -- width of dram_inc_mod / dram_dec_mod
  dma : Dma.Cfg := { depth := 16, buffered := false }
deriving Repr

/-! ### _LiteDRAMFIFOCtrl -/
structure Ctrl where
  level : Nat := 0
  produce : Nat := 0
  consume : Nat := 0
deriving Repr, DecidableEq

def Ctrl.writable (depth : Nat) (c : Ctrl) : Bool := c.level < depth
def Ctrl.readable (c : Ctrl) : Bool := c.level > 0
def Ctrl.step (depth : Nat) (c : Ctrl) (write read : Bool) : Ctrl :=
  { produce := if write then (if c.produce == depth - 1 then 0 else c.produce + 1) else c.produce
    consume := if read then (if c.consume == depth - 1 then 0 else c.consume + 1) else c.consume
    level := c.level + (if write then 1 else 0) - (if read then 1 else 0) }

inductive Fsm | bypass | dram | pump | drain
deriving Repr, DecidableEq

structure State where
  pre : Fifo.State Nat := {}
  post : Fifo.State Nat := {}
  up : Adapter.UpS := {}            -- pre-converter (ratio > 1)
  mux : Nat := 0                    -- post-converter (ratio > 1)
  ctrl : Ctrl := {}
  wr : Dma.WState := {}
  rd : Dma.RState := {}
  fsm : Fsm := .bypass
  first : Bool := false
  cnt : Nat := 0
  incMod : Nat := 0
  decMod : Nat := 0
deriving Repr

def State.init (c : Cfg) : State := { up := Adapter.UpS.init c.ratio }

structure In where
  sinkValid : Bool
  sinkData : Nat
  srcReady : Bool
  wCmdReady : Bool
  wDataReady : Bool
  rCmdReady : Bool
  rDataValid : Bool
  rData : Nat
deriving Repr

structure Out where
  sinkReady : Bool
  srcValid : Bool
  srcData : Nat
  w : Dma.WOut
  r : Dma.ROut
  level : Nat
  fsm : Fsm
  dramWrite : Bool          -- ctrl.write: a word enters the DRAM FIFO
  dramRead : Bool           -- ctrl.read
deriving Repr

def preCfg (c : Cfg) : Fifo.Cfg := { depth := c.preDepth }
def postCfg (c : Cfg) : Fifo.Cfg := { depth := c.postDepth }

def joinChunks (dw : Nat) (cs : List Adapter.Chunk) : Nat :=
  (cs.zipIdx.map (fun p => p.1.1 * 2 ^ (dw * p.2))).foldl (· + ·) 0

def step (c : Cfg) (s : State) (i : In) : State × Out :=
  let r1 := c.ratio == 1
  let bypass := c.withBypass && s.fsm == .bypass
  -- (`dram_pending`: a complete word waiting in the pre-converter for the write port keeps the FSM in DRAM mode)
  let exhausted := !s.first && s.cnt == 0 && !(!r1 && s.up.strobeAll)
  let store := c.withBypass && s.fsm == .dram && !exhausted
  let pumpOrDrain := c.withBypass && (s.fsm == .pump || s.fsm == .drain)
  -- pre-FIFO source
  let preV := Fifo.srcValid (preCfg c) s.pre i.sinkValid
  let preD := (Fifo.srcData (preCfg c) s.pre i.sinkData).getD 0
  let postSinkReady := Fifo.sinkReady (postCfg c) s.post i.srcReady
  -- pre-converter sink
  let toConv := !bypass && (store || !c.withBypass)
  let pumping := c.withBypass && s.fsm == .pump && s.incMod != 0
  let pcSinkValid := (toConv && preV) || pumping
  let pcSinkData := if toConv then preD else 0
  -- pre-converter source
  let pcSrcValid := if r1 then pcSinkValid else s.up.strobeAll
  let pcSrcData := if r1 then pcSinkData else joinChunks c.dw s.up.regs
  -- DRAM FIFO writer
  let wSinkValid := pcSrcValid && s.ctrl.writable c.depth
  let (wr', wo) := Dma.wstep c.dma s.wr ⟨wSinkValid, c.base + s.ctrl.produce, pcSrcData, false, i.wCmdReady, i.wDataReady⟩
  let dramWrite := wSinkValid && wo.sinkReady
  -- DRAM FIFO reader
  let rSinkValid := s.ctrl.readable
  -- post-converter: source.ready first (needed for its sink.ready)
  let pocSrcReady := !bypass && postSinkReady
  let pocLast := r1 || s.mux == c.ratio - 1
  let pocSinkReady := if r1 then pocSrcReady else (pocLast && pocSrcReady)
  let (rd', ro) := Dma.rstep c.dma s.rd ⟨true, rSinkValid, c.base + s.ctrl.consume, false, i.rCmdReady, i.rDataValid, i.rData, pocSinkReady⟩
  let dramRead := rSinkValid && ro.sinkReady
  -- post-converter sink: the DRAM FIFO's source, overridden by the pre-converter's source in PUMP / DRAIN
  let pocSinkValid := if pumpOrDrain then pcSrcValid else ro.srcValid
  let pocSinkData := if pumpOrDrain then pcSrcData else ro.srcData
  let pcSrcReady := if pumpOrDrain then pocSinkReady else dramWrite
  let pcSinkReady := if r1 then pcSrcReady else s.up.sinkReady pcSrcReady
  -- post-converter source
  let pocSrcValid := pocSinkValid
  let pocSrcData := if r1 then pocSinkData else (pocSinkData / 2 ^ (c.dw * s.mux)) % 2 ^ c.dw
  -- post-FIFO sink
  let postSinkValid := if bypass then preV else pocSrcValid
  let postSinkData := if bypass then preD else pocSrcData
  -- pre-FIFO source.ready
  let preSrcReady := if bypass then postSinkReady else (toConv && pcSinkReady)
  -- events used by the FSM
  let pcSrcAcc := pcSrcValid && pcSrcReady
  let pcSinkAcc := pcSinkValid && pcSinkReady
  let pocSinkAcc := pocSinkValid && pocSinkReady
  let pocSrcAcc := pocSrcValid && pocSrcReady
  let modMask := 2 ^ c.modBits
  let gt1 := !r1
  let fsm' : Fsm :=
    if !c.withBypass then s.fsm else
    match s.fsm with
    | .bypass => if s.pre.q.length ≥ c.ratio then .dram else .bypass
    | .dram => if exhausted then (if s.decMod == 0 && s.incMod == 0 then .bypass else .pump) else .dram
    | .pump => if s.incMod == 0 then .drain else .pump
    | .drain => if s.decMod == 0 then (if s.incMod == 0 then .bypass else .pump) else .drain
  let first' :=
    if !c.withBypass then s.first else
    match s.fsm with
    | .bypass => if s.pre.q.length ≥ c.ratio then true else s.first
    | .dram => if pcSrcAcc then false else s.first
    | _ => s.first
  let cnt' :=
    if !c.withBypass then s.cnt else
    match s.fsm with
    | .bypass => if s.pre.q.length ≥ c.ratio then 0 else s.cnt
    | .dram => (s.cnt + (if pcSrcAcc then 1 else 0) + 2 ^ c.addrBits - (if pocSinkAcc then 1 else 0)) % 2 ^ c.addrBits
    | _ => s.cnt
  let incMod' :=
    if !c.withBypass then s.incMod else
    match s.fsm with
    | .dram => if gt1 && pcSinkAcc then (s.incMod + 1) % modMask else s.incMod
    | .pump => if s.incMod != 0 && pcSrcAcc then (s.incMod + 1) % modMask else s.incMod
    | _ => s.incMod
  let decMod' :=
    if !c.withBypass then s.decMod else
    match s.fsm with
    | .dram =>
      if exhausted && !(s.decMod == 0 && s.incMod == 0) then s.incMod
      else if gt1 && pocSrcAcc then (s.decMod + 1) % modMask else s.decMod
    | .drain =>
      if s.decMod == 0 then (if s.incMod == 0 then s.decMod else s.incMod)
      else if pocSrcAcc then (s.decMod + 1) % modMask else s.decMod
    | _ => s.decMod
  let s' : State :=
    { pre := Fifo.step (preCfg c) s.pre i.sinkValid i.sinkData preSrcReady
      post := Fifo.step (postCfg c) s.post postSinkValid postSinkData i.srcReady
      up := if r1 then s.up else s.up.step c.ratio false pcSinkValid (pcSinkData, 0) pcSrcReady
      mux := if r1 then s.mux else Adapter.downStep c.ratio s.mux pocSrcValid pocSrcReady
      ctrl := s.ctrl.step c.depth dramWrite dramRead
      wr := wr', rd := rd'
      fsm := fsm', first := first', cnt := cnt', incMod := incMod', decMod := decMod' }
  (s', { sinkReady := Fifo.sinkReady (preCfg c) s.pre preSrcReady
         srcValid := Fifo.srcValid (postCfg c) s.post postSinkValid
         srcData := (Fifo.srcData (postCfg c) s.post postSinkData).getD 0
         w := wo, r := ro, level := s.ctrl.level, fsm := s.fsm, dramWrite, dramRead })

end DramFifo
