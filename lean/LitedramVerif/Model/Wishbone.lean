/-
Cycle models of `litedram/frontend/wishbone.py`:
 * `W2N`  LiteDRAMWishbone2Native for a Wishbone bus as wide as, or wider than, the native port (the three-state FSM;
          for the wider case the real module inserts a LiteDRAMNativePortDownConverter behind it),
 * `Up`   the burst up-converter used when the Wishbone bus is narrower than the native port (write merging, read cache),
 * `N2W`  LiteDRAMNative2Wishbone.
`portReq` = what the module drives onto the native port (independent of the port's answers), `step` = the rest.
-/
namespace Wishbone

structure WbIn where
  cyc : Bool
  stb : Bool
  we : Bool
  adr : Nat
  sel : Nat
  datW : Nat
  cti : Nat
deriving Repr

structure PortReq where
  cmdValid : Bool
  cmdWe : Bool
  cmdAddr : Nat
  cmdLast : Bool
  flush : Bool
  wValid : Bool
  wData : Nat
  wWe : Nat
  rReady : Bool
deriving Repr

structure PortResp where
  cmdReady : Bool
  wReady : Bool
  rValid : Bool
  rData : Nat
deriving Repr

structure WbOut where
  ack : Bool
  datR : Nat
deriving Repr

/-! ### equal / wider Wishbone bus -/
namespace W2N

structure Cfg where
  aw : Nat                  -- len(port.cmd.addr) (of the Wishbone-width port)
  offset : Nat              -- base_address >> log2(bytes per word)
  wider : Bool              -- ratio > 1: write data is offered outside the WRITE state too
deriving Repr

inductive Fsm | cmd | write | read
deriving Repr, DecidableEq

structure State where
  fsm : Fsm := .cmd
  aborted : Bool := false
deriving Repr

def relAddr (c : Cfg) (a : Nat) : Nat := (a + 2 ^ c.aw - c.offset % 2 ^ c.aw) % 2 ^ c.aw

def portReq (c : Cfg) (s : State) (i : WbIn) : PortReq :=
  { cmdValid := s.fsm == .cmd && i.cyc && i.stb, cmdWe := i.we, cmdAddr := relAddr c i.adr, cmdLast := !i.we, flush := !i.cyc,
    -- WRITE after an abort: the accepted command still gets its data beat, with no byte enabled
    wValid := (s.fsm == .write && (!i.cyc || s.aborted)) || (i.stb && i.we && (c.wider || s.fsm == .write)),
    wData := i.datW, wWe := if s.fsm == .write && (!i.cyc || s.aborted) then 0 else i.sel, rReady := true }

def step (c : Cfg) (s : State) (i : WbIn) (p : PortResp) : State × WbOut :=
  let q := portReq c s i
  match s.fsm with
  | .cmd =>
    ({ fsm := if q.cmdValid && p.cmdReady then (if i.we then .write else .read) else .cmd, aborted := false }, ⟨false, 0⟩)
  | .write =>
    let done := q.wValid && p.wReady
    ({ fsm := if done then .cmd else .write, aborted := !i.cyc || s.aborted }, ⟨done && i.cyc && !s.aborted, 0⟩)
  | .read =>
    ({ fsm := if p.rValid then .cmd else .read, aborted := !i.cyc || s.aborted },
     ⟨p.rValid && i.cyc && !s.aborted, if p.rValid then p.rData else 0⟩)

end W2N

/-! ### narrower Wishbone bus: burst up-converter -/
namespace Up

structure Cfg where
  aw : Nat                  -- len(port.cmd.addr)
  adrBits : Nat             -- len(wishbone.adr)
  offset : Nat              -- base_address >> log2(wishbone bytes per word)
  ratio : Nat
  ratioBits : Nat
  dw : Nat                  -- Wishbone data width
deriving Repr

inductive Fsm | cmd | writeCmd | writeData | readCmd | readData
deriving Repr, DecidableEq

structure State where
  fsm : Fsm := .cmd
  wrValid : Bool := false
  wrAddr : Nat := 0
  wrData : Nat := 0
  wrWe : Nat := 0
  wrSel : Nat := 0
  wrLast : Bool := false
  rdCacheValid : Bool := false
  rdCacheAddr : Nat := 0
  rdCacheData : Nat := 0
  rdAddr : Nat := 0
  rdChunk : Nat := 0
  rdLast : Bool := false
  aborted : Bool := false
deriving Repr

def narrowAddr (c : Cfg) (i : WbIn) : Nat := (i.adr + 2 ^ c.adrBits - c.offset % 2 ^ c.adrBits) % 2 ^ c.adrBits
def wideAddr (c : Cfg) (i : WbIn) : Nat := (narrowAddr c i / 2 ^ c.ratioBits) % 2 ^ c.aw
def chunk (c : Cfg) (i : WbIn) : Nat := narrowAddr c i % 2 ^ c.ratioBits
def lane (c : Cfg) (w k : Nat) : Nat := (w / 2 ^ (c.dw * k)) % 2 ^ c.dw

def portReq (_c : Cfg) (s : State) (i : WbIn) : PortReq :=
  let none : PortReq := ⟨false, false, 0, false, !i.cyc, false, 0, 0, false⟩
  match s.fsm with
  | .cmd => none
  | .writeCmd =>
    if s.wrValid then { none with cmdValid := true, cmdWe := true, cmdAddr := s.wrAddr, cmdLast := s.wrLast } else none
  | .writeData => { none with wValid := true, wData := s.wrData, wWe := s.wrWe }
  | .readCmd =>
    if !i.cyc then none else { none with cmdValid := true, cmdWe := false, cmdAddr := s.rdAddr, cmdLast := s.rdLast }
  | .readData => { none with rReady := true }

def step (c : Cfg) (s : State) (i : WbIn) (p : PortResp) : State × WbOut :=
  let wide := wideAddr c i
  let ch := chunk c i
  let chunkBit := 2 ^ ch
  let last := i.cti != 2
  let chunkData := (i.datW % 2 ^ c.dw) * 2 ^ (c.dw * ch)
  let chunkWe := (i.sel % 2 ^ (c.dw / 8)) * 2 ^ ((c.dw / 8) * ch)
  let canMerge := !s.wrValid || (s.wrAddr == wide && (s.wrSel &&& chunkBit) == 0)
  let nextSel := s.wrSel ||| chunkBit
  let wrFlush := last || nextSel == 2 ^ c.ratio - 1
  let hit := s.rdCacheValid && s.rdCacheAddr == wide
  match s.fsm with
  | .cmd =>
    let s0 := { s with aborted := false }
    if !i.cyc then
      if s.wrValid then ({ s0 with rdCacheValid := false, wrLast := true, fsm := .writeCmd }, ⟨false, 0⟩)
      else ({ s0 with rdCacheValid := false }, ⟨false, 0⟩)
    else if i.stb then
      if i.we then
        if canMerge then
          ({ s0 with
              rdCacheValid := false, wrValid := true
              wrAddr := if s.wrValid then s.wrAddr else wide
              wrData := if s.wrValid then s.wrData ||| chunkData else chunkData
              wrWe := if s.wrValid then s.wrWe ||| chunkWe else chunkWe
              wrSel := nextSel, wrLast := last
              fsm := if wrFlush then .writeCmd else .cmd }, ⟨true, 0⟩)
        else ({ s0 with rdCacheValid := false, wrLast := true, fsm := .writeCmd }, ⟨false, 0⟩)
      else if s.wrValid then ({ s0 with wrLast := true, fsm := .writeCmd }, ⟨false, 0⟩)
      else if hit then
        ({ s0 with rdCacheValid := if last then false else s.rdCacheValid }, ⟨true, lane c s.rdCacheData ch⟩)
      else ({ s0 with rdAddr := wide, rdChunk := ch, rdLast := last, fsm := .readCmd }, ⟨false, 0⟩)
    else (s0, ⟨false, 0⟩)
  | .writeCmd =>
    if s.wrValid then ({ s with fsm := if p.cmdReady then .writeData else .writeCmd }, ⟨false, 0⟩)
    else ({ s with fsm := .cmd }, ⟨false, 0⟩)
  | .writeData =>
    if p.wReady then ({ s with wrValid := false, wrData := 0, wrWe := 0, wrSel := 0, fsm := .cmd }, ⟨false, 0⟩)
    else (s, ⟨false, 0⟩)
  | .readCmd =>
    if !i.cyc then ({ s with fsm := .cmd }, ⟨false, 0⟩)
    else ({ s with fsm := if p.cmdReady then .readData else .readCmd }, ⟨false, 0⟩)
  | .readData =>
    let s1 := { s with aborted := !i.cyc || s.aborted }
    if p.rValid then
      let ok := i.cyc && !s.aborted
      ({ s1 with rdCacheData := p.rData, rdCacheAddr := s.rdAddr, rdCacheValid := if ok then !s.rdLast else false, fsm := .cmd },
       ⟨ok, if ok then lane c p.rData s.rdChunk else 0⟩)
    else (s1, ⟨false, 0⟩)

end Up

/-! ### LiteDRAMNative2Wishbone -/
namespace N2W

structure Cfg where
  dw : Nat
  base : Nat                -- base_address (bytes)
  byteAddressing : Bool
  selBits : Nat
  adrBits : Nat             -- len(wishbone.adr)
deriving Repr

inductive Fsm | cmd | write | read
deriving Repr, DecidableEq

structure State where
  fsm : Fsm := .cmd
  adr : Nat := 0
deriving Repr

structure In where
  cmdValid : Bool
  cmdWe : Bool
  cmdAddr : Nat
  wValid : Bool
  wData : Nat
  wWe : Nat
  ack : Bool
  datR : Nat
deriving Repr

structure Out where
  cmdReady : Bool
  wReady : Bool
  rValid : Bool
  rData : Nat
  cyc : Bool
  stb : Bool
  we : Bool
  adr : Nat
  sel : Nat
  datW : Nat
deriving Repr

def step (c : Cfg) (s : State) (i : In) : State × Out :=
  let idle : Out := ⟨false, false, false, 0, false, false, false, 0, 0, 0⟩
  match s.fsm with
  | .cmd =>
    if i.cmdValid then
      let a := if c.byteAddressing then i.cmdAddr * (c.dw / 8) + c.base else i.cmdAddr + c.base / (c.dw / 8)
      ({ fsm := if i.cmdWe then .write else .read, adr := a % 2 ^ 32 }, { idle with cmdReady := true })
    else (s, idle)
  | .write =>
    if i.wValid then
      ({ s with fsm := if i.ack then .cmd else .write },
       { idle with wReady := i.ack, cyc := true, stb := true, we := true, adr := s.adr % 2 ^ c.adrBits, sel := i.wWe, datW := i.wData })
    else (s, idle)
  | .read =>
    ({ s with fsm := if i.ack then .cmd else .read },
     { idle with rValid := i.ack, rData := if i.ack then i.datR else 0, cyc := true, stb := true, adr := s.adr % 2 ^ c.adrBits, sel := 2 ^ c.selBits - 1 })

end N2W
end Wishbone
