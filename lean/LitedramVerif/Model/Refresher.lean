/-
Cycle model of `litedram/core/refresher.py`: RefreshTimer, RefreshPostponer, RefreshSequencer,
RefreshExecuter, ZQCSExecuter (both on litex `timeline`), the ZQCS timer with its pending flag, and the
IDLE / WAIT-BANK-MACHINES / DO-REFRESH / DO-ZQCS FSM.
-/
import LitedramVerif.Model.Hw
namespace Refresher
open Hw

structure Cfg where
  tREFI : Nat
  tRP : Nat
  tRFC : Nat
  tZQCS : Option Nat
  zqPeriod : Nat          -- int(clk_freq / zqcs_freq)
  postponing : Nat
  withRefresh : Bool
  abits : Nat
deriving Repr

inductive Fsm | idle | waitBm | doRefresh | doZqcs
deriving Repr, DecidableEq

structure State where
  timerCount : Nat
  postCount : Nat
  reqO : Bool := false
  seqCount : Nat
  exCounter : Nat := 0          -- RefreshExecuter timeline counter
  exDone : Bool := false
  zqTimerCount : Nat
  zqCounter : Nat := 0          -- ZQCSExecuter timeline counter
  zqDone : Bool := false
  zqPending : Bool := false
  a : Nat := 0
  ba : Nat := 0
  cas : Bool := false
  ras : Bool := false
  we : Bool := false
  fsm : Fsm := .idle
deriving Repr

def init (c : Cfg) : State :=
  { timerCount := c.tREFI - 1, postCount := c.postponing - 1, seqCount := c.postponing - 1, zqTimerCount := c.zqPeriod - 1 }

/-- combinational outputs that depend only on the state -/
structure Out where
  valid : Bool
  last : Bool
  a : Nat
  ba : Nat
  cas : Bool
  ras : Bool
  we : Bool
deriving Repr

def seqDone (s : State) : Bool := s.exDone && s.seqCount == 0
def zqTimerDone (s : State) : Bool := s.zqTimerCount == 0
def wantsZqcs (c : Cfg) (s : State) : Bool := c.tZQCS.isSome && (zqTimerDone s || s.zqPending)

def out (c : Cfg) (s : State) : Out :=
  let (valid, last) :=
    match s.fsm with
    | .idle => (false, false)
    | .waitBm => (true, false)
    | .doRefresh =>
      if seqDone s then (if wantsZqcs c s then (true, false) else (false, true)) else (true, false)
    | .doZqcs => if s.zqDone then (false, true) else (true, false)
  { valid, last, a := s.a, ba := s.ba, cas := s.cas, ras := s.ras, we := s.we }

/-- clock edge; `ready` is `cmd.ready` from the multiplexer -/
def step (c : Cfg) (s : State) (ready : Bool) : State :=
  let timerDone := s.timerCount == 0
  -- FSM combinational strobes
  let seqStart := s.fsm == .waitBm && ready
  let zqStart := s.fsm == .doRefresh && seqDone s && wantsZqcs c s
  let fsm' : Fsm :=
    match s.fsm with
    | .idle => if c.withRefresh && s.reqO then .waitBm else .idle
    | .waitBm => if ready then .doRefresh else .waitBm
    | .doRefresh => if seqDone s then (if wantsZqcs c s then .doZqcs else .idle) else .doRefresh
    | .doZqcs => if s.zqDone then .idle else .doZqcs
  -- timer / postponer
  let timerCount' := if !timerDone then s.timerCount - 1 else c.tREFI - 1
  let wPost := bitsFor c.postponing
  let (postCount', reqO') :=
    if timerDone then
      (if s.postCount == 0 then (c.postponing - 1, true) else ((s.postCount + 2 ^ wPost - 1) % 2 ^ wPost, false))
    else (s.postCount, false)
  -- sequencer
  let exStart := seqStart || s.seqCount != 0
  let seqCount' := if seqStart then c.postponing - 1
                   else if s.exDone then (if s.seqCount != 0 then s.seqCount - 1 else s.seqCount) else s.seqCount
  -- RefreshExecuter: defaults then timeline events (later assignments win)
  let lastEx := c.tRP + c.tRFC
  let f0 := timelineFires 0 s.exCounter exStart
  let f1 := timelineFires c.tRP s.exCounter exStart
  let f2 := timelineFires lastEx s.exCounter exStart
  let a1 := if f2 then 0 else if f1 then 1024 else if f0 then 1024 else 0
  let cas1 := if f2 then false else if f1 then true else false
  let ras1 := if f2 then false else if f1 then true else if f0 then true else false
  let we1 := if f2 then false else if f1 then false else if f0 then true else false
  let exDone' := f2
  let exCounter' := timelineStep lastEx s.exCounter exStart
  -- ZQCSExecuter (statements come after the refresh executer's: they win when they fire)
  match c.tZQCS with
  | none =>
    { s with timerCount := timerCount', postCount := postCount', reqO := reqO', seqCount := seqCount',
             exCounter := exCounter', exDone := exDone', a := a1 % 2 ^ c.abits, ba := 0, cas := cas1, ras := ras1, we := we1, fsm := fsm' }
  | some tzq =>
    let lastZq := c.tRP + tzq
    let z0 := timelineFires 0 s.zqCounter zqStart
    let z1 := timelineFires c.tRP s.zqCounter zqStart
    let z2 := timelineFires lastZq s.zqCounter zqStart
    let a2 := if z2 then 0 else if z1 then 0 else if z0 then 1024 else a1
    let cas2 := if z2 || z1 || z0 then false else cas1
    let ras2 := if z2 then false else if z1 then false else if z0 then true else ras1
    let we2 := if z2 then false else if z1 then true else if z0 then true else we1
    let zqWait := !s.zqDone
    let zqTimerCount' := if zqWait && !zqTimerDone s then s.zqTimerCount - 1 else c.zqPeriod - 1
    { timerCount := timerCount', postCount := postCount', reqO := reqO', seqCount := seqCount',
      exCounter := exCounter', exDone := exDone',
      zqTimerCount := zqTimerCount', zqCounter := timelineStep lastZq s.zqCounter zqStart, zqDone := z2,
      zqPending := if zqStart then false else if zqTimerDone s then true else s.zqPending,
      a := a2 % 2 ^ c.abits, ba := 0, cas := cas2, ras := ras2, we := we2, fsm := fsm' }

end Refresher
