/-
Model of the datasheet → controller-cycle conversion of `litedram/modules.py`
(`SDRAMModule.get`, `Timing.__add__`, `ns_to_cycles`, `ck_to_cycles`, `ck_ns_to_cycles`, `margin`,
and the `timing_settings` construction in `SDRAMModule.__init__`), in exact arithmetic.

Datasheet values are decimal literals; they are carried as exact rationals (`Q`, nanoseconds or
clock counts).  The controller clock is `f` Hz (an integer), the rate is `1:n`.
No imports (compiled into the driver).
-/
namespace Timing

/-- non-negative rational `num/den` (`den > 0` for well-formed values) -/
structure Q where
  num : Nat
  den : Nat
deriving Repr, DecidableEq

def Q.zero : Q := ⟨0, 1⟩
def Q.add (a b : Q) : Q := ⟨a.num * b.den + b.num * a.den, a.den * b.den⟩

/-- `ceil(a/b)` for naturals -/
def ceilDiv (a b : Nat) : Nat := (a + b - 1) / b

structure Clk where
  f : Nat      -- clk_freq in Hz
  n : Nat      -- rate 1:n  (rate_frac.denom)
deriving Repr

/-- a raw library entry as written in a `_TechnologyTimings` / `_SpeedgradeTimings` field -/
inductive Raw
  | none                                   -- None
  | scalar (ns : Q)                        -- a bare number: nanoseconds
  | pair (ck : Option Q) (ns : Option Q)   -- (ck, ns) tuple, either may be None
deriving Repr

/-- `Timing(ck, ns)` -/
structure T where
  ck : Q
  ns : Q
deriving Repr

/-- `SDRAMModule.get`: `ck, ns = timing if tuple else (0, timing)`; `ck = ck or 0`; `ns = ns or 0` -/
def get : Raw → Option T
  | .none => Option.none
  | .scalar ns => some ⟨Q.zero, ns⟩
  | .pair ck ns => some ⟨ck.getD Q.zero, ns.getD Q.zero⟩

/-- `Timing.__add__` -/
def T.add (a b : T) : T := ⟨a.ck.add b.ck, a.ns.add b.ns⟩

/-- `ck_to_cycles`: `ceil(c / rate_frac.denom)` -/
def ckToCycles (ck : Q) (c : Clk) : Nat := ceilDiv ck.num (ck.den * c.n)

/-- `ns_to_cycles(t, margin=True)`: `ceil((t + T·(1 − 1/n)) / T)` with `T = 1e9/f` ns,
i.e. `ceil(t·f/1e9 + (n−1)/n)` -/
def nsToCyclesMargin (t : Q) (c : Clk) : Nat :=
  ceilDiv (t.num * c.f * c.n + t.den * 10 ^ 9 * (c.n - 1)) (t.den * 10 ^ 9 * c.n)

/-- `ck_ns_to_cycles(timing)` for a minimum-type timing -/
def minCycles (t : T) (c : Clk) : Nat := max (ckToCycles t.ck c) (nsToCyclesMargin t.ns c)

/-- refresh interval (a maximum): `floor(t / T)` = `floor(t·f/1e9)` -/
def maxCycles (t : T) (c : Clk) : Nat := (t.ns.num * c.f) / (t.ns.den * 10 ^ 9)

/-- the twelve fields of `TimingSettings` -/
structure Lib where
  tRP : Raw
  tRCD : Raw
  tWR : Raw
  tREFI : Raw
  tRFC : Raw
  tWTR : Raw
  tFAW : Raw
  tCCD : Raw
  tRRD : Raw
  tRAS : Raw
  tZQCS : Raw

structure Settings where
  tRP : Option Nat
  tRCD : Option Nat
  tWR : Option Nat
  tREFI : Option Nat
  tRFC : Option Nat
  tWTR : Option Nat
  tFAW : Option Nat
  tCCD : Option Nat
  tRRD : Option Nat
  tRC : Option Nat
  tRAS : Option Nat
  tZQCS : Option Nat
deriving Repr, DecidableEq

def optMin (r : Raw) (c : Clk) : Option Nat := (get r).map (minCycles · c)

/-- `SDRAMModule.__init__` : `timing_settings` -/
def settings (l : Lib) (c : Clk) : Settings :=
  { tRP := optMin l.tRP c, tRCD := optMin l.tRCD c, tWR := optMin l.tWR c,
    tREFI := (get l.tREFI).map (maxCycles · c),
    tRFC := optMin l.tRFC c, tWTR := optMin l.tWTR c, tFAW := optMin l.tFAW c,
    tCCD := optMin l.tCCD c, tRRD := optMin l.tRRD c,
    tRC := match get l.tRAS, get l.tRP with
      | some ras, some rp => some (minCycles (rp.add ras) c)
      | _, _ => Option.none,
    tRAS := optMin l.tRAS c, tZQCS := optMin l.tZQCS c }

end Timing
