/-
C01, whole-core level: every data strobe reaches the master that issued the command.

Ghost `own j` = the issuing masters of the requests queued in bank machine `j` (oldest first).  `owner_invariant`: in every
reachable state of `Model/Core.lean` all of them equal the bank's current arbiter grant (the grant cannot move while the bank
is locked, and the lock is exactly "queue not empty").  `strobe_to_issuer`: when a bank machine serves a request, it is the
head of its queue (`C01.bank_queue_fifo`), issued by the current grant, and in that cycle exactly that master's strobe delay
line receives the pulse (no other bank strobes: `C01.one_strobe_per_cycle`); `C01.delay_line_tap` brings it to the port
`write_latency+1` / `read_latency+1` cycles later.  Together: *per bank, every accepted command gets its data strobe, in
order, at the master that issued it*.  What is still missing for `core_memory_semantics_full`: the order across banks for one
master (a master is locked to one bank at a time) and the data path through the PHY model (C19).
Hypotheses: the crossbar has as many banks as the controller bank machines, command-buffer depth ≥ 2, ≥ 11 address lines.
-/
import LitedramVerif.Model.Core
import LitedramVerif.Proofs.BmQueue
import LitedramVerif.Props.C01_Controller
import LitedramVerif.Props.C01
namespace C01
open Controller CtlInv

/-- the controller inputs the crossbar produces -/
def insOf (c : Core.Cfg) (s : Core.State) (ms : Array Crossbar.MasterIn) : Array BankIn :=
  (Crossbar.comb c.xb s.xb ms (Core.bankFb c s)).bankReqs.map fun r => ({ valid := r.valid, we := r.we, addr := r.addr } : BankIn)

theorem core_ctl (c : Core.Cfg) (s : Core.State) (ms : Array Crossbar.MasterIn) :
    (Core.step c s ms).1.ctl = (Controller.step c.ctl s.ctl (insOf c s ms)).1 := rfl

theorem core_xb (c : Core.Cfg) (s : Core.State) (ms : Array Crossbar.MasterIn) :
    (Core.step c s ms).1.xb = Crossbar.step c.xb s.xb (Crossbar.comb c.xb s.xb ms (Core.bankFb c s)) (Core.bankFb c s)
      ((Controller.step c.ctl s.ctl (insOf c s ms)).2.map (·.wdataReady)) ((Controller.step c.ctl s.ctl (insOf c s ms)).2.map (·.rdataValid)) := rfl

theorem step_outs_all (c : Controller.Cfg) (s : State) (ins : Array BankIn) (i : Nat) (h : i < c.nbm) :
    ((step c s ins).2[i]!) = (let o := (BankMachine.step c.bm s.bms[i]! (bmIn c s ins i)).2
      ({ ready := o.reqReady, lock := o.lock, wdataReady := o.wdataReady, rdataValid := o.rdataValid } : BankOut)) := by
  have : (step c s ins).2 = ((Array.range c.nbm).map fun i => BankMachine.step c.bm s.bms[i]! (bmIn c s ins i)).map
      (fun (_, o) => ({ ready := o.reqReady, lock := o.lock, wdataReady := o.wdataReady, rdataValid := o.rdataValid } : BankOut)) := rfl
  rw [this, Array.map_map, getElem!_map_range _ _ _ h]
  rfl

/-- for a command buffer of depth ≥ 1 `req.lock` depends on the state only -/
theorem lock_state (c : BankMachine.Cfg) (hd : 1 ≤ c.depth) (s : BankMachine.State) (i : BankMachine.In) :
    (BankMachine.step c s i).2.lock = (s.level != 0 || s.bufValid) := by
  have : (c.depth == 0) = false := by simpa using (by omega : ¬ c.depth = 0)
  simp [BankMachine.step, this]

/-- … and says that the bank machine's request queue is not empty -/
theorem lock_iff_queue (c : BankMachine.Cfg) (s : BankMachine.State) :
    (s.level != 0 || s.bufValid) = !(BmQueue.queue c s).isEmpty := by
  simp only [BmQueue.queue, BmQueue.fifoList]
  cases hb : s.bufValid
  · by_cases hl : s.level = 0
    · simp [hl]
    · obtain ⟨k, hk⟩ : ∃ k, s.level = k + 1 := ⟨s.level - 1, by omega⟩
      simp [hk, List.range_succ_eq_map]
  · simp

/-- ghost: per bank, the master that issued each queued request (oldest first) -/
abbrev Own := Nat → List Nat

structure OInv (c : Core.Cfg) (s : Core.State) (own : Own) : Prop where
  fifo : ∀ j, j < c.ctl.nbm → BmQueue.FInv c.ctl.bm s.ctl.bms[j]!
  len : ∀ j, j < c.ctl.nbm → (own j).length = (BmQueue.queue c.ctl.bm s.ctl.bms[j]!).length
  owner : ∀ j, j < c.ctl.nbm → ∀ m ∈ own j, m = s.xb.grants[j]!

def takenJ (c : Core.Cfg) (s : Core.State) (ms : Array Crossbar.MasterIn) (j : Nat) : Bool :=
  BmQueue.taken c.ctl.bm s.ctl.bms[j]! (bmIn c.ctl s.ctl (insOf c s ms) j)
def servedJ (c : Core.Cfg) (s : Core.State) (ms : Array Crossbar.MasterIn) (j : Nat) : Bool :=
  BmQueue.served c.ctl.bm s.ctl.bms[j]! (bmIn c.ctl s.ctl (insOf c s ms) j)

def ownNext (c : Core.Cfg) (s : Core.State) (ms : Array Crossbar.MasterIn) (own : Own) : Own := fun j =>
  (if servedJ c s ms j then (own j).tail else own j) ++ (if takenJ c s ms j then [s.xb.grants[j]!] else [])

theorem getElemBang_map {α β : Type} [Inhabited α] [Inhabited β] (arr : Array α) (f : α → β) (j : Nat) (h : j < arr.size) :
    (arr.map f)[j]! = f arr[j]! := by
  have h2 : j < (arr.map f).size := by simpa using h
  rw [getElem!_pos (arr.map f) j h2, getElem!_pos arr j h]
  simp

structure WFc (c : Core.Cfg) : Prop where
  banks : c.xb.nbanks = c.ctl.nbm
  depth : 2 ≤ c.ctl.bm.depth

theorem bankFb_lock (c : Core.Cfg) (hwf : WFc c) (s : Core.State) (j : Nat) (hj : j < c.ctl.nbm) :
    ((Core.bankFb c s)[j]!).lock = !(BmQueue.queue c.ctl.bm s.ctl.bms[j]!).isEmpty := by
  have hsz : j < (Controller.step c.ctl s.ctl (Array.replicate c.ctl.nbm ({ valid := false, we := false, addr := 0 } : BankIn))).2.size := by
    simp [Controller.step, hj]
  simp only [Core.bankFb]
  rw [getElemBang_map _ _ _ hsz, step_outs_all _ _ _ _ hj]
  simp only []
  rw [lock_state _ (by have := hwf.depth; omega), lock_iff_queue]

theorem insOf_valid (c : Core.Cfg) (hwf : WFc c) (s : Core.State) (ms : Array Crossbar.MasterIn) (j : Nat) (hj : j < c.ctl.nbm) :
    ((insOf c s ms)[j]!).valid = ((Crossbar.comb c.xb s.xb ms (Core.bankFb c s)).bankReqs[j]!).valid := by
  have hsz : j < (Crossbar.comb c.xb s.xb ms (Core.bankFb c s)).bankReqs.size := by
    simp [Crossbar.comb, hwf.banks, hj]
  simp only [insOf]
  rw [getElemBang_map _ _ _ hsz]

theorem oinv_step (c : Core.Cfg) (hwf : WFc c) (s : Core.State) (ms : Array Crossbar.MasterIn) (own : Own) (h : OInv c s own) :
    OInv c (Core.step c s ms).1 (ownNext c s ms own) := by
  have hq : ∀ j, j < c.ctl.nbm → _ := fun j hj =>
    BmQueue.queue_step c.ctl.bm hwf.depth s.ctl.bms[j]! (bmIn c.ctl s.ctl (insOf c s ms) j) (h.fifo j hj)
  refine ⟨?_, ?_, ?_⟩
  · intro j hj
    rw [core_ctl, step_bms _ _ _ _ hj]
    exact (hq j hj).1
  · intro j hj
    rw [core_ctl, step_bms _ _ _ _ hj, (hq j hj).2]
    have hl := h.len j hj
    have e1 : servedJ c s ms j = BmQueue.served c.ctl.bm s.ctl.bms[j]! (bmIn c.ctl s.ctl (insOf c s ms) j) := rfl
    have e2 : takenJ c s ms j = BmQueue.taken c.ctl.bm s.ctl.bms[j]! (bmIn c.ctl s.ctl (insOf c s ms) j) := rfl
    simp only [ownNext, e1, e2]
    cases BmQueue.served c.ctl.bm s.ctl.bms[j]! (bmIn c.ctl s.ctl (insOf c s ms) j) <;>
      cases BmQueue.taken c.ctl.bm s.ctl.bms[j]! (bmIn c.ctl s.ctl (insOf c s ms) j) <;> simp [hl]
  · intro j hj m hm
    -- the grant of bank j is unchanged whenever its queue is or becomes non-empty
    have hstable : (ownNext c s ms own j) ≠ [] → (Core.step c s ms).1.xb.grants[j]! = s.xb.grants[j]! := by
      intro hne
      rw [core_xb]
      apply C01.grant_stable_while_busy _ _ _ _ _ _ j (by rw [hwf.banks]; exact hj)
      by_cases htk : takenJ c s ms j = true
      · left
        simp only [takenJ, BmQueue.taken, Bool.and_eq_true] at htk
        rw [← insOf_valid c hwf s ms j hj]
        exact htk.1
      · right
        rw [bankFb_lock c hwf s j hj]
        have hown : own j ≠ [] := by
          intro he
          simp only [ownNext, he, List.tail_nil, ite_self, List.nil_append] at hne
          simp [htk] at hne
        have : (BmQueue.queue c.ctl.bm s.ctl.bms[j]!).length ≠ 0 := by
          rw [← h.len j hj]; simpa using hown
        cases hq2 : BmQueue.queue c.ctl.bm s.ctl.bms[j]! with
        | nil => simp [hq2] at this
        | cons a l => rfl
    rw [hstable (List.ne_nil_of_mem hm)]
    simp only [ownNext, List.mem_append] at hm
    rcases hm with hm | hm
    · split at hm
      · exact h.owner j hj m (List.mem_of_mem_tail hm)
      · exact h.owner j hj m hm
    · split at hm
      · simpa using hm
      · cases hm

/-- the bit pushed into master `nm`'s write-strobe delay line in this cycle -/
def pushW (c : Core.Cfg) (s : Core.State) (ms : Array Crossbar.MasterIn) (nm : Nat) : Bool :=
  (List.range c.xb.nbanks).any fun nb => s.xb.grants[nb]! == nm &&
    (((Controller.step c.ctl s.ctl (insOf c s ms)).2.map (·.wdataReady))[nb]!)
def pushR (c : Core.Cfg) (s : Core.State) (ms : Array Crossbar.MasterIn) (nm : Nat) : Bool :=
  (List.range c.xb.nbanks).any fun nb => s.xb.grants[nb]! == nm &&
    (((Controller.step c.ctl s.ctl (insOf c s ms)).2.map (·.rdataValid))[nb]!)

theorem core_wdl (c : Core.Cfg) (s : Core.State) (ms : Array Crossbar.MasterIn) (nm : Nat) (h : nm < c.xb.nmasters) :
    (Core.step c s ms).1.xb.wdl[nm]! = (pushW c s ms nm :: s.xb.wdl[nm]!).take c.xb.wlat ∧
    (Core.step c s ms).1.xb.rdl[nm]! = (pushR c s ms nm :: s.xb.rdl[nm]!).take c.xb.rlat := by
  rw [core_xb]
  simp only [Crossbar.step]
  rw [getElem!_map_range _ _ _ h, getElem!_map_range _ _ _ h]
  exact ⟨rfl, rfl⟩

theorem outs_size (c : Controller.Cfg) (s : State) (ins : Array BankIn) : (step c s ins).2.size = c.nbm := by
  simp [step]

/-- **Every data strobe goes to the master that issued the command**: when bank machine `j` serves a request (raises
`wdata_ready` or `rdata_valid`), the request is the oldest one in its queue, it was issued by the master that currently
holds the bank's arbiter, and in this cycle exactly that master's delay line receives the strobe. -/
theorem strobe_to_issuer (c : Core.Cfg) (hwf : WFc c) (hab : 11 ≤ c.ctl.bm.abits) (s : Core.State) (ms : Array Crossbar.MasterIn)
    (own : Own) (h : OInv c s own) (j : Nat) (hj : j < c.ctl.nbm) :
    let o := (Controller.step c.ctl s.ctl (insOf c s ms)).2[j]!
    (o.wdataReady = true ∨ o.rdataValid = true) →
      (own j).head? = some s.xb.grants[j]! ∧
      (∀ nm, pushW c s ms nm = (o.wdataReady && s.xb.grants[j]! == nm)) ∧
      (∀ nm, pushR c s ms nm = (o.rdataValid && s.xb.grants[j]! == nm)) := by
  intro o hs
  have hsv : servedJ c s ms j = true := by
    simp only [servedJ, BmQueue.served, Bool.or_eq_true]
    have := step_outs_all c.ctl s.ctl (insOf c s ms) j hj
    simp only [o, this] at hs
    exact hs
  have hbv := (BmQueue.served_head _ _ _ hsv).1
  have hqne : (BmQueue.queue c.ctl.bm s.ctl.bms[j]!).length ≠ 0 := by simp [BmQueue.queue, hbv]
  have hown : own j ≠ [] := by
    intro he; rw [← h.len j hj, he] at hqne; exact hqne rfl
  refine ⟨?_, ?_, ?_⟩
  · cases ho : own j with
    | nil => exact absurd ho hown
    | cons a l =>
      have := h.owner j hj a (by rw [ho]; simp)
      simp [this]
  all_goals
    intro nm
    have hone : ∀ nb, nb < c.ctl.nbm → nb ≠ j →
        ((Controller.step c.ctl s.ctl (insOf c s ms)).2[nb]!).wdataReady = false ∧
        ((Controller.step c.ctl s.ctl (insOf c s ms)).2[nb]!).rdataValid = false := by
      intro nb hnb hne
      constructor
      · cases hx : ((Controller.step c.ctl s.ctl (insOf c s ms)).2[nb]!).wdataReady
        · rfl
        · exact absurd (C01.one_strobe_per_cycle c.ctl hab s.ctl (insOf c s ms) nb j hnb hj (Or.inl hx) hs) hne
      · cases hx : ((Controller.step c.ctl s.ctl (insOf c s ms)).2[nb]!).rdataValid
        · rfl
        · exact absurd (C01.one_strobe_per_cycle c.ctl hab s.ctl (insOf c s ms) nb j hnb hj (Or.inr hx) hs) hne
  · simp only [pushW]
    rw [Bool.eq_iff_iff, List.any_eq_true]
    constructor
    · rintro ⟨nb, hnb, hp⟩
      have hnb' : nb < c.ctl.nbm := by rw [← hwf.banks]; simpa using hnb
      rw [getElemBang_map _ _ _ (by rw [outs_size]; exact hnb')] at hp
      simp only [Bool.and_eq_true, beq_iff_eq] at hp
      by_cases hne : nb = j
      · subst hne; simp [o, hp.1, hp.2]
      · rw [(hone nb hnb' hne).1] at hp; cases hp.2
    · intro hp
      simp only [Bool.and_eq_true, beq_iff_eq] at hp
      refine ⟨j, by rw [List.mem_range, hwf.banks]; exact hj, ?_⟩
      rw [getElemBang_map _ _ _ (by rw [outs_size]; exact hj)]
      simp [hp.2]; exact hp.1
  · simp only [pushR]
    rw [Bool.eq_iff_iff, List.any_eq_true]
    constructor
    · rintro ⟨nb, hnb, hp⟩
      have hnb' : nb < c.ctl.nbm := by rw [← hwf.banks]; simpa using hnb
      rw [getElemBang_map _ _ _ (by rw [outs_size]; exact hnb')] at hp
      simp only [Bool.and_eq_true, beq_iff_eq] at hp
      by_cases hne : nb = j
      · subst hne; simp [o, hp.1, hp.2]
      · rw [(hone nb hnb' hne).2] at hp; cases hp.2
    · intro hp
      simp only [Bool.and_eq_true, beq_iff_eq] at hp
      refine ⟨j, by rw [List.mem_range, hwf.banks]; exact hj, ?_⟩
      rw [getElemBang_map _ _ _ (by rw [outs_size]; exact hj)]
      simp [hp.2]; exact hp.1

theorem oinv_init (c : Core.Cfg) (hwf : WFc c) : OInv c (Core.init c) (fun _ => []) := by
  have hb : ∀ i, i < c.ctl.nbm → (Core.init c).ctl.bms[i]! = BankMachine.State.init c.ctl.bm := by
    intro i hi
    simp only [Core.init, Controller.init]
    rw [getElem!_pos _ _ (by simpa using hi)]
    simp
  refine ⟨fun j hj => ?_, fun j hj => ?_, fun j hj m hm => by cases hm⟩
  · rw [hb j hj]; exact BmQueue.finv_init _ (by have := hwf.depth; omega)
  · rw [hb j hj]; simp [BmQueue.queue, BmQueue.fifoList, BankMachine.State.init]

/-- run the whole core with the ownership ghost -/
def runOwn (c : Core.Cfg) : Core.State → Own → List (Array Crossbar.MasterIn) → Core.State × Own
  | s, own, [] => (s, own)
  | s, own, ms :: rest => runOwn c (Core.step c s ms).1 (ownNext c s ms own) rest

/-- **In every reachable state of the whole core** (crossbar + controller + PHY model, any masters' behaviour): every
request queued in a bank machine was issued by the master that holds that bank's arbiter now. -/
theorem owner_invariant (c : Core.Cfg) (hwf : WFc c) (inputs : List (Array Crossbar.MasterIn)) :
    OInv c (runOwn c (Core.init c) (fun _ => []) inputs).1 (runOwn c (Core.init c) (fun _ => []) inputs).2 := by
  have key : ∀ (s : Core.State) (own : Own), OInv c s own → OInv c (runOwn c s own inputs).1 (runOwn c s own inputs).2 := by
    induction inputs with
    | nil => intro s own h; exact h
    | cons ms rest ih => intro s own h; exact ih _ _ (oinv_step c hwf s ms own h)
  exact key _ _ (oinv_init c hwf)

/-- a master owns at most one non-empty bank queue -/
def OneBank (c : Core.Cfg) (s : Core.State) (own : Own) : Prop :=
  ∀ j1 j2, j1 < c.ctl.nbm → j2 < c.ctl.nbm → own j1 ≠ [] → own j2 ≠ [] → s.xb.grants[j1]! = s.xb.grants[j2]! → j1 = j2

/-- acceptance of a request at bank `j` means: the granted master selected this bank, and it is not locked by another bank -/
theorem taken_selected (c : Core.Cfg) (hwf : WFc c) (s : Core.State) (ms : Array Crossbar.MasterIn) (j : Nat) (hj : j < c.ctl.nbm)
    (h : takenJ c s ms j = true) :
    AddrMap.bankOf c.xb.geom (ms[s.xb.grants[j]!]!).cmdAddr = j ∧
    ∀ ob, ob < c.ctl.nbm → ob ≠ j → ¬ (((Core.bankFb c s)[ob]!).lock = true ∧ s.xb.grants[ob]! = s.xb.grants[j]!) := by
  simp only [takenJ, BmQueue.taken, Bool.and_eq_true] at h
  have hv := h.1
  have hvv : (bmIn c.ctl s.ctl (insOf c s ms) j).valid = ((insOf c s ms)[j]!).valid := rfl
  rw [hvv, insOf_valid c hwf s ms j hj] at hv
  -- bankReqs[j].valid = requested[j][grant j] = selected j (grant j) ∧ cmdValid
  have hsz : j < c.xb.nbanks := by rw [hwf.banks]; exact hj
  simp only [Crossbar.comb] at hv
  rw [getElem!_map_range _ _ _ hsz] at hv
  simp only [] at hv
  rw [getElem!_map_range _ _ _ hsz] at hv
  obtain ⟨hlt, hsel⟩ := map_get_true _ _ _ hv
  have hlt' : s.xb.grants[j]! < c.xb.nmasters := by simpa using hlt
  have hidx : (Array.range c.xb.nmasters)[s.xb.grants[j]!]! = s.xb.grants[j]! := by
    rw [getElem!_pos (Array.range c.xb.nmasters) _ (by simpa using hlt')]; simp
  rw [hidx] at hsel
  simp only [Bool.and_eq_true, Bool.not_eq_true', List.any_eq_false, List.mem_range, beq_iff_eq] at hsel
  constructor
  · have hb := hsel.1.1
    by_cases hm : s.xb.grants[j]! < ms.size
    · rw [getElemBang_map _ _ _ hm] at hb; exact hb
    · have hm2 : ¬ s.xb.grants[j]! < (ms.map fun m => AddrMap.bankOf c.xb.geom m.cmdAddr).size := by simpa using hm
      rw [getElem!_neg (ms.map fun m => AddrMap.bankOf c.xb.geom m.cmdAddr) _ hm2] at hb
      rw [getElem!_neg ms _ hm]
      have hd : (default : Crossbar.MasterIn).cmdAddr = 0 := rfl
      rw [hd]
      have hz : AddrMap.bankOf c.xb.geom 0 = 0 := by simp [AddrMap.bankOf]
      rw [hz]; exact hb
  · intro ob hob hne ⟨hl, hg⟩
    have := hsel.1.2 ob (by rw [hwf.banks]; exact hob)
    simp [hne, hl, hg] at this

/-- the arbiter of a bank whose queue is or becomes non-empty does not move -/
theorem grant_kept (c : Core.Cfg) (hwf : WFc c) (s : Core.State) (ms : Array Crossbar.MasterIn) (own : Own) (h : OInv c s own)
    (j : Nat) (hj : j < c.ctl.nbm) (hne : ownNext c s ms own j ≠ []) :
    (Core.step c s ms).1.xb.grants[j]! = s.xb.grants[j]! := by
  rw [core_xb]
  apply C01.grant_stable_while_busy _ _ _ _ _ _ j (by rw [hwf.banks]; exact hj)
  by_cases htk : takenJ c s ms j = true
  · left
    simp only [takenJ, BmQueue.taken, Bool.and_eq_true] at htk
    rw [← insOf_valid c hwf s ms j hj]
    exact htk.1
  · right
    rw [bankFb_lock c hwf s j hj]
    have hown : own j ≠ [] := by
      intro he
      simp only [ownNext, he, List.tail_nil, ite_self, List.nil_append] at hne
      simp [htk] at hne
    have : (BmQueue.queue c.ctl.bm s.ctl.bms[j]!).length ≠ 0 := by
      rw [← h.len j hj]; simpa using hown
    cases hq2 : BmQueue.queue c.ctl.bm s.ctl.bms[j]! with
    | nil => simp [hq2] at this
    | cons a l => rfl

theorem onebank_step (c : Core.Cfg) (hwf : WFc c) (s : Core.State) (ms : Array Crossbar.MasterIn) (own : Own) (h : OInv c s own)
    (h1 : OneBank c s own) : OneBank c (Core.step c s ms).1 (ownNext c s ms own) := by
  intro j1 j2 hj1 hj2 hn1 hn2 hg
  rw [grant_kept c hwf s ms own h j1 hj1 hn1, grant_kept c hwf s ms own h j2 hj2 hn2] at hg
  -- a bank whose ownership list was empty and is not any more has accepted a request in this cycle
  have hacc : ∀ j, own j = [] → ownNext c s ms own j ≠ [] → takenJ c s ms j = true := by
    intro j he hne
    cases ht : takenJ c s ms j
    · simp [ownNext, he, ht] at hne
    · rfl
  have hlock : ∀ j, j < c.ctl.nbm → own j ≠ [] → ((Core.bankFb c s)[j]!).lock = true := by
    intro j hj hne
    rw [bankFb_lock c hwf s j hj]
    have : (BmQueue.queue c.ctl.bm s.ctl.bms[j]!).length ≠ 0 := by rw [← h.len j hj]; simpa using hne
    cases hq2 : BmQueue.queue c.ctl.bm s.ctl.bms[j]! with
    | nil => simp [hq2] at this
    | cons a l => rfl
  refine Decidable.byContradiction fun hne => ?_
  by_cases he1 : own j1 = []
  · have ht1 := hacc j1 he1 hn1
    obtain ⟨hb1, hnl1⟩ := taken_selected c hwf s ms j1 hj1 ht1
    by_cases he2 : own j2 = []
    · have ht2 := hacc j2 he2 hn2
      obtain ⟨hb2, _⟩ := taken_selected c hwf s ms j2 hj2 ht2
      rw [← hg] at hb2
      exact hne (hb1.symm.trans hb2)
    · exact hnl1 j2 hj2 (fun e => hne e.symm) ⟨hlock j2 hj2 he2, hg.symm⟩
  · by_cases he2 : own j2 = []
    · have ht2 := hacc j2 he2 hn2
      obtain ⟨_, hnl2⟩ := taken_selected c hwf s ms j2 hj2 ht2
      exact hnl2 j1 hj1 hne ⟨hlock j1 hj1 he1, hg⟩
    · exact hne (h1 j1 j2 hj1 hj2 he1 he2 hg)

theorem onebank_init (c : Core.Cfg) : OneBank c (Core.init c) (fun _ => []) := by
  intro j1 j2 _ _ h; exact absurd rfl h

/-- **A master has requests queued in at most one bank at a time** (every reachable state of the whole core): so the data
strobes a port receives come back in the order of its commands - per bank they are FIFO (`bank_queue_fifo`), and a port
never has two banks working for it. -/
theorem one_bank_per_master (c : Core.Cfg) (hwf : WFc c) (inputs : List (Array Crossbar.MasterIn)) :
    OneBank c (runOwn c (Core.init c) (fun _ => []) inputs).1 (runOwn c (Core.init c) (fun _ => []) inputs).2 := by
  have key : ∀ (s : Core.State) (own : Own), OInv c s own → OneBank c s own →
      OInv c (runOwn c s own inputs).1 (runOwn c s own inputs).2 ∧ OneBank c (runOwn c s own inputs).1 (runOwn c s own inputs).2 := by
    induction inputs with
    | nil => intro s own h h1; exact ⟨h, h1⟩
    | cons ms rest ih => intro s own h h1; exact ih _ _ (oinv_step c hwf s ms own h) (onebank_step c hwf s ms own h h1)
  exact (key _ _ (oinv_init c hwf) (onebank_init c)).2

end C01
