/-
C02 for the **composed controller** — the top-level theorem.

`controller_dfi_legal`: for every controller configuration (any number of ranks, banks, phases, any timing
values, with or without ZQCS, any refresh postponing) and **every** sequence of bank-machine inputs, the DFI
command stream produced by `Model/Controller.lean` (N bank machines + command choosers + steerer + multiplexer
FSM + refresher) is accepted by the specification monitor `Spec/BankMon.lean`:
  ACT only on a precharged bank; RD/WR only on a bank whose open row is the row of the request being served,
  on the PHY's read/write phase, with exactly their data-enable strobes; PRE/PREA close; REF with every bank
  precharged and all ranks selected; ZQC with every bank of the selected ranks precharged; bank commands select
  exactly the rank of their bank machine.
The proof is an inductive invariant (Proofs/ControllerInv.lean, Proofs/RefresherInv.lean) that discharges the
environment contract under which `C02.bm_step_legal` was proved, followed by the decode of the steerer
registers (Proofs/DfiLegal.lean).

Hypotheses (all about the configuration or the inputs, none about reachable states):
 * `WF2 c`: nbm = 2^(rankbits+bankbits) ≥ 1; ≥ 11 address lines (A10 exists); the row fits the address lines;
   nphases ≥ 1, rdphase, wrphase < nphases; refresher: tRP, tRFC, tZQCS ≥ 1, postponing ≥ 1 and
   tRP + tRFC + 1 ≤ tREFI (the sequencer's reset-time executions finish before the first refresh request —
   without it a REF could precede its precharge-all, see RefresherInv);
 * `InsOk`: request addresses fit the row field (what the crossbar's address slicing guarantees, C06).
What this does not cover: the minimum distances (C03), the per-bank request queue as a FIFO (the served
request is the model's `cmd_buffer` output), and the data path (C01).
-/
import LitedramVerif.Proofs.DfiLegal
namespace C02
open Controller CtlInv

/-- the observable trace: per clock edge the request served by a RD/WR of that cycle (if any) and the DFI phases -/
def dfiTrace (c : Controller.Cfg) : State → List (Array BankIn) → List (Option (Nat × Nat) × Array Dram.Phase)
  | _, [] => []
  | s, ins :: rest => (servedOf c s ins, (step c s ins).1.dfi.map toPhase) :: dfiTrace c (step c s ins).1 rest

theorem run_from (c : Controller.Cfg) (hwf : WF2 c) (inputs : List (Array BankIn)) :
    ∀ (s : State) (g : Ghost) (b : BankMon.Banks), CInv c s g → (∀ j, j < c.nbm → b j = g.d j) →
      (∀ ins ∈ inputs, InsOk c ins) → ∃ b', BankMon.run (monCfgB c) b (dfiTrace c s inputs) = some b' := by
  induction inputs with
  | nil => intro s g b _ _ _; exact ⟨b, rfl⟩
  | cons ins rest ih =>
    intro s g b hinv hb hins
    obtain ⟨b1, h1, h2, h3⟩ := dfi_cycle c hwf s g ins (hins ins (by simp)) hinv b hb
    obtain ⟨b2, h4⟩ := ih (step c s ins).1 (gNext c s g ins) b1 h3 h2 (fun x hx => hins x (by simp [hx]))
    exact ⟨b2, by simp [dfiTrace, BankMon.run, h1, h4]⟩

/-- **C02, composed controller, every configuration, every input sequence, unbounded time.** -/
theorem controller_dfi_legal (c : Controller.Cfg) (hwf : WF2 c) (inputs : List (Array BankIn))
    (hins : ∀ ins ∈ inputs, InsOk c ins) :
    ∃ b, BankMon.run (monCfgB c) BankMon.Banks.init
      ((none, (init c).dfi.map toPhase) :: dfiTrace c (init c) inputs) = some b := by
  obtain ⟨b, hb⟩ := run_from c hwf inputs (init c) g0 BankMon.Banks.init (cinv_init c hwf.base) (fun _ _ => rfl) hins
  exact ⟨b, by simp [BankMon.run, dfi_init c, hb]⟩

/-- the executable configuration test the check applies to every sampled configuration implies the hypothesis -/
theorem wf2Check_sound (c : Controller.Cfg) (h : Controller.wf2Check c = true) : WF2 c := by
  simp only [Controller.wf2Check, Bool.and_eq_true, decide_eq_true_eq] at h
  obtain ⟨⟨⟨⟨⟨⟨⟨⟨⟨⟨⟨⟨h1, h2⟩, h3⟩, h4⟩, h5⟩, h6⟩, h7⟩, h8⟩, h9⟩, h10⟩, h11⟩, h12⟩, h13⟩ := h
  refine { base := { nbm := h1, rf := ⟨h8, h9, ?_, h11, h12, h13⟩, hrow := h4 }, nbm := h2, abits := h3, nph := h5, rdp := h6, wrp := h7 }
  intro z hz
  rw [hz] at h10
  simpa using h10

/-! ### non-vacuity: a configuration meeting the hypotheses, and a run that issues ACT, RD, WR, PRE and a refresh -/
def cfgC : Controller.Cfg :=
  { nbm := 4, bankbits := 1, rankbits := 1, nphases := 2, rdphase := 0, wrphase := 1,
    bm := { depth := 4, tRAS := some 3, tRC := some 5, twtp := 4, tRCD := 2, tRP := 2, colbits := 6, rowbits := 11, align := 2,
            abits := 11, ap := true },
    rf := { tREFI := 24, tRP := 2, tRFC := 4, tZQCS := some 3, zqPeriod := 40, postponing := 2, withRefresh := true, abits := 11 },
    tRRD := some 2, tFAW := some 6, tCCD := 1, twtr := 3, readTime := 8, writeTime := 8, readLatency := 3 }

example : WF2 cfgC :=
  { base := { nbm := by decide, rf := ⟨by decide, by decide, by intro z h; cases h; decide, by decide, by decide, by decide⟩,
              hrow := by decide },
    nbm := by decide, abits := by decide, nph := by decide, rdp := by decide, wrp := by decide }

def insC (k : Nat) : Array BankIn :=
  #[⟨k % 3 == 0, k % 2 == 0, (k * 37) % 2048⟩, ⟨false, false, 0⟩, ⟨k % 5 == 1, false, (k * 53 + 64) % 2048⟩, ⟨k % 7 == 2, true, 17⟩]

/-- the monitor really sees commands on this run: it ends with some bank open and has passed refreshes -/
example : (BankMon.run (monCfgB cfgC) BankMon.Banks.init
    ((none, (init cfgC).dfi.map toPhase) :: dfiTrace cfgC (init cfgC) ((List.range 120).map insC))).isSome = true := by
  decide +kernel

end C02
