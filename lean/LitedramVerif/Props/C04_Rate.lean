/-
C04 for the **composed controller** — the refresh rate, for unbounded time and every traffic.

Configuration hypotheses: `CtlInv.WF` (the one of C02: ≥ 1 bank machine, tRP, tRFC, tZQCS, postponing ≥ 1, A10 present,
tRP + tRFC + 1 ≤ tREFI), refresh enabled, and `Budget`:

    psiMax + 2 + postponing·(tRP + tRFC + 1) + (tRP + tZQCS + 1 if ZQCS) ≤ postponing·tREFI

i.e. one refresh episode — the proved worst-case wait for the bus (`C04.refresh_grant_bound`), the burst of postponed refreshes
and a ZQ calibration — fits between two requests of the postponer (true of every real device: tREFI is 7.8 µs, the left side
a few hundred ns; the check evaluates it for every co-simulated configuration).

For every input sequence of the ports (unbounded length, any traffic) on the composed controller model:
 * `refresh_request_never_lost`  whenever the postponer raises a request the refresher is idle, so the request is taken
                                 (the request is a one-cycle pulse: a busy refresher would lose it);
 * `refresh_accounting`          after t cycles exactly  postponing·⌊t / (postponing·tREFI)⌋ − (what the running episode still
                                 owes) AUTO REFRESH commands have been taken from the refresher;
 * `refresh_rate`                hence  postponing·⌊t/(postponing·tREFI)⌋ − postponing ≤ #REF(t) ≤ postponing·⌊t/(postponing·tREFI)⌋:
                                 never more than `postponing` refreshes are owed, the long-run rate is exactly one per tREFI;
 * `refresh_episode_ends`        from every reachable state the refresher is back in IDLE (multiplexer out of REFRESH, bank machines
                                 released) within psiMax + 2 + postponing·(tRP+tRFC+1) + ZQCS length cycles: traffic resumes;
 * `zqcs_served`                 a due ZQ calibration (timer expired) is issued within `zMax` cycles - at the end of the next refresh
                                 episode - so calibrations recur with a period of at most zq_period + zMax;
 * `refresh_deadline`            **the k-th AUTO REFRESH (k ≥ 1) has been issued by cycle (k + postponing)·tREFI + lat0 +
                                 postponing·(tRP+tRFC+1)**, with the fixed service latency lat0 = psiMax + 2 + (tRP+tZQCS+1 if ZQCS)
                                 (`refresh_deadline_qr`: refresh r+1 of the (q+1)-th request at most lat0 + (r+1)·(tRP+tRFC+1)
                                 cycles after that request) - the statement of the property, with psiMax in place of the measured D.
Each AUTO REFRESH is preceded by its precharge-all (`C04.ref_preceded_by_prea`, C02) and reaches the DFI pins one cycle
later on phase 0 (`C02.controller_dfi_legal`); tREFI in cycles never exceeds the datasheet interval (C16).
The check measures the same deadline on traces with the tighter constant D(cfg) in place of psiMax.
-/
import LitedramVerif.Proofs.RefreshRate
import LitedramVerif.Props.C04_Controller
namespace C04
open Controller Hw CtlInv CtlLive RefreshRate RefresherInv

theorem nl_reachable (c : Controller.Cfg) (hwf : CtlInv.WF c) (hb : Budget c) (inputs : List (Array BankIn))
    (hins : ∀ ins ∈ inputs, InsOk c ins) :
    ∃ g w, NL c (C04.runCtl c (init c) inputs) g w := by
  have h := nl_run c hwf hb inputs _ _ _ (nl_init c hwf) hins
  rw [runG_state] at h
  exact ⟨_, _, h⟩

/-- **no refresh request is ever lost** -/
theorem refresh_request_never_lost (c : Controller.Cfg) (hwf : CtlInv.WF c) (hb : Budget c) (inputs : List (Array BankIn))
    (hins : ∀ ins ∈ inputs, InsOk c ins) :
    (C04.runCtl c (init c) inputs).rf.reqO = true → (C04.runCtl c (init c) inputs).rf.fsm = .idle := by
  obtain ⟨g, w, h⟩ := nl_reachable c hwf hb inputs hins
  exact h.lost

/-- **exact accounting** of the AUTO REFRESH commands taken from the refresher in `t = inputs.length` cycles -/
theorem refresh_accounting (c : Controller.Cfg) (hwf : CtlInv.WF c) (hb : Budget c) (hwr : c.rf.withRefresh = true)
    (inputs : List (Array BankIn)) (hins : ∀ ins ∈ inputs, InsOk c ins) :
    refCount c (init c) inputs + owed c.rf (C04.runCtl c (init c) inputs).rf +
        (if (C04.runCtl c (init c) inputs).rf.reqO then c.rf.postponing else 0) =
      c.rf.postponing * (inputs.length / (c.rf.postponing * c.rf.tREFI)) ∧
    owed c.rf (C04.runCtl c (init c) inputs).rf + (if (C04.runCtl c (init c) inputs).rf.reqO then c.rf.postponing else 0) ≤
      c.rf.postponing := by
  have hP := hwf.rf.post
  have hT : 1 ≤ c.rf.tREFI := by have := hwf.rf.phantom; omega
  have h0 : Acct c (init c) 0 0 0 := by
    refine ⟨by simp [owed, init, Refresher.init], ?_, by simp [owed, init, Refresher.init]⟩
    simp only [Tr, init, Refresher.init]
    have : c.rf.postponing = (c.rf.postponing - 1) + 1 := by omega
    conv => rhs; rw [Nat.zero_add, Nat.one_mul, this, Nat.add_mul, Nat.one_mul]
    omega
  obtain ⟨q', hq'⟩ := acct_run c hwf hb hwr inputs _ _ _ 0 0 0 (nl_init c hwf) h0 hins
  simp only [Nat.zero_add] at hq'
  obtain ⟨g, w, hnl⟩ := nl_reachable c hwf hb inputs hins
  rw [runCtl_eq] at hnl ⊢
  generalize CtlLive.runCtl c (init c) inputs = s at *
  -- q' is the quotient: 1 ≤ Tr ≤ P·T
  have hTr1 : 1 ≤ Tr c.rf s.rf := by simp only [Tr]; omega
  have hTr2 : Tr c.rf s.rf ≤ c.rf.postponing * c.rf.tREFI := by
    have h1 := hnl.rng.1; have h2 := hnl.rng.2
    simp only [Tr]
    have : s.rf.postCount * c.rf.tREFI ≤ (c.rf.postponing - 1) * c.rf.tREFI := Nat.mul_le_mul_right _ (by omega)
    have e : c.rf.postponing * c.rf.tREFI = (c.rf.postponing - 1) * c.rf.tREFI + c.rf.tREFI := by
      have : c.rf.postponing = (c.rf.postponing - 1) + 1 := by omega
      conv => lhs; rw [this, Nat.add_mul, Nat.one_mul]
    omega
  have hPT : 0 < c.rf.postponing * c.rf.tREFI := Nat.mul_pos hP hT
  have hq : inputs.length / (c.rf.postponing * c.rf.tREFI) = q' := by
    have htime := hq'.time
    rw [Nat.add_mul, Nat.one_mul] at htime
    apply Nat.div_eq_of_lt_le
    · omega
    · rw [Nat.add_mul, Nat.one_mul]; omega
  rw [hq]
  exact ⟨hq'.cnt, hq'.le⟩

/-- **the refresh rate**: never more than `postponing` refreshes owed, never one too many -/
theorem refresh_rate (c : Controller.Cfg) (hwf : CtlInv.WF c) (hb : Budget c) (hwr : c.rf.withRefresh = true)
    (inputs : List (Array BankIn)) (hins : ∀ ins ∈ inputs, InsOk c ins) :
    c.rf.postponing * (inputs.length / (c.rf.postponing * c.rf.tREFI)) ≤ refCount c (init c) inputs + c.rf.postponing ∧
    refCount c (init c) inputs ≤ c.rf.postponing * (inputs.length / (c.rf.postponing * c.rf.tREFI)) := by
  obtain ⟨h1, h2⟩ := refresh_accounting c hwf hb hwr inputs hins
  constructor <;> omega

/-- **every refresh episode ends** ("traffic resumes afterwards"): from every reachable state the refresher is back in IDLE -
and with it the multiplexer out of REFRESH and the bank machines released (C02's `CInv.idle`) - within
`psiMax + 2 + postponing·(tRP+tRFC+1) + ZQCS length` cycles, whatever the ports do -/
theorem refresh_episode_ends (c : Controller.Cfg) (hwf : CtlInv.WF c) (hb : Budget c) (pre post : List (Array BankIn))
    (hpre : ∀ ins ∈ pre, InsOk c ins) (hpost : ∀ ins ∈ post, InsOk c ins)
    (hlen : psiMax c + 2 + c.rf.postponing * M c.rf + zqLen c.rf ≤ post.length) :
    ∃ k, k ≤ psiMax c + 2 + c.rf.postponing * M c.rf + zqLen c.rf ∧
      (C04.runCtl c (C04.runCtl c (init c) pre) (post.take k)).rf.fsm = .idle := by
  obtain ⟨g, w, hnl⟩ := nl_reachable c hwf hb pre hpre
  have hP := hwf.rf.post
  -- epi ≤ E0 + 1: from `epi + slack ≤ Tr ≤ P·tREFI`
  have hbound : epi c (C04.runCtl c (init c) pre) w ≤ psiMax c + 2 + c.rf.postponing * M c.rf + zqLen c.rf := by
    have hmain := hnl.main
    have h1 := hnl.rng.1; have h2 := hnl.rng.2
    have hTr : Tr c.rf (C04.runCtl c (init c) pre).rf ≤ c.rf.postponing * c.rf.tREFI := by
      simp only [Tr]
      have : (C04.runCtl c (init c) pre).rf.postCount * c.rf.tREFI ≤ (c.rf.postponing - 1) * c.rf.tREFI := Nat.mul_le_mul_right _ (by omega)
      have e : c.rf.postponing * c.rf.tREFI = (c.rf.postponing - 1) * c.rf.tREFI + c.rf.tREFI := by
        have : c.rf.postponing = (c.rf.postponing - 1) + 1 := by omega
        conv => lhs; rw [this, Nat.add_mul, Nat.one_mul]
      omega
    unfold Budget at hb
    by_cases hi : (C04.runCtl c (init c) pre).rf.fsm = .idle
    · simp only [epi, hi]; omega
    · simp only [hi, if_false, slack] at hmain; omega
  obtain ⟨k, hk, hkf⟩ := reach_idle c hwf hb post _ g w hnl hpost (by omega)
  exact ⟨k, by omega, hkf⟩

/-- **a due ZQ calibration is served**: from every reachable state in which the calibration timer has expired and no
calibration was started since (`zqDue`), the multiplexer takes a ZQ CALIBRATION (short) command from the refresher within
`zMax c` = 2·postponing·tREFI + psiMax + postponing·(tRP+tRFC+1) + 2·tRP + tZQCS + 8 cycles, whatever the ports do: the
calibration rides at the end of the next refresh episode.  The timer expires `zq_period` cycles after the previous calibration
completed (it is reloaded by `zqDone`), so calibrations recur with a period of at most `zq_period + zMax`. -/
theorem zqcs_served (c : Controller.Cfg) (hwf : CtlInv.WF c) (hb : Budget c) (hwr : c.rf.withRefresh = true) (z : Nat)
    (hz : c.rf.tZQCS = some z) (pre post : List (Array BankIn)) (hpre : ∀ ins ∈ pre, InsOk c ins)
    (hpost : ∀ ins ∈ post, InsOk c ins) (hdue : zqDue (C04.runCtl c (init c) pre).rf = true) (hlen : zMax c ≤ post.length) :
    ∃ k, k ≤ zMax c ∧ zqAcc c (C04.runCtl c (C04.runCtl c (init c) pre) (post.take k)) = true := by
  obtain ⟨g, w, hnl⟩ := nl_reachable c hwf hb pre hpre
  have hle := zpot_le c hwf hb z hz _ g w hnl
  obtain ⟨k, hk, hkf⟩ := reach_zq c hwf hb hwr z hz post _ g w hnl (Or.inl hdue) hpost (by omega)
  exact ⟨k, by omega, hkf⟩

/-- fixed service latency of the deadline theorem: the worst-case wait for the bus and a ZQ calibration -/
def lat0 (c : Controller.Cfg) : Nat := psiMax c + 2 + zqLen c.rf

/-- **refresh deadline**, episode form: refresh number r+1 of the (q+1)-th request is issued at most
`lat0 + (r+1)·(tRP+tRFC+1)` cycles after that request (which is raised at cycle (q+1)·P·tREFI) -/
theorem refresh_deadline_qr (c : Controller.Cfg) (hwf : CtlInv.WF c) (hb : Budget c) (hwr : c.rf.withRefresh = true)
    (inputs : List (Array BankIn)) (hins : ∀ ins ∈ inputs, InsOk c ins) (q r : Nat) (hr : r < c.rf.postponing)
    (ht : (q + 1) * (c.rf.postponing * c.rf.tREFI) + lat0 c + (r + 1) * M c.rf ≤ inputs.length) :
    q * c.rf.postponing + r + 1 ≤ refCount c (init c) inputs := by
  have hP := hwf.rf.post
  have hT : 1 ≤ c.rf.tREFI := by have := hwf.rf.phantom; omega
  have h0 : Acct c (init c) 0 0 0 := by
    refine ⟨by simp [owed, init, Refresher.init], ?_, by simp [owed, init, Refresher.init]⟩
    simp only [Tr, init, Refresher.init]
    have : c.rf.postponing = (c.rf.postponing - 1) + 1 := by omega
    conv => rhs; rw [Nat.zero_add, Nat.one_mul, this, Nat.add_mul, Nat.one_mul]
    omega
  obtain ⟨q', hq'⟩ := acct_run c hwf hb hwr inputs _ _ _ 0 0 0 (nl_init c hwf) h0 hins
  simp only [Nat.zero_add] at hq'
  obtain ⟨g, w, hnl⟩ := nl_reachable c hwf hb inputs hins
  rw [runCtl_eq] at hnl
  generalize CtlLive.runCtl c (init c) inputs = s at *
  obtain ⟨hcnt, htime, hle⟩ := hq'
  have hmain := hnl.main
  have hTr1 : 1 ≤ Tr c.rf s.rf := by simp only [Tr]; omega
  unfold Budget at hb
  simp only [lat0] at ht
  generalize hPT : c.rf.postponing * c.rf.tREFI = PT at *
  generalize hPM : c.rf.postponing * M c.rf = PM at *
  have hM1 : 1 ≤ M c.rf := by simp only [M]; omega
  -- q' ≥ q + 1
  have hq1 : q + 1 ≤ q' := by
    apply Nat.le_of_not_lt
    intro hlt
    have : q' + 1 ≤ q + 1 := by omega
    have := Nat.mul_le_mul_right PT this
    omega
  by_cases hq2 : q + 2 ≤ q'
  · have h1 := Nat.mul_le_mul_left c.rf.postponing hq2
    rw [Nat.mul_add] at h1
    have h2 : q * c.rf.postponing = c.rf.postponing * q := Nat.mul_comm _ _
    omega
  · have hqe : q' = q + 1 := by omega
    subst hqe
    rw [Nat.mul_add, Nat.mul_one] at hcnt
    have h2 : q * c.rf.postponing = c.rf.postponing * q := Nat.mul_comm _ _
    have htime' : (q + 1 + 1) * PT = (q + 1) * PT + PT := by rw [Nat.add_mul (q + 1) 1, Nat.one_mul]
    by_cases hidle : s.rf.fsm = .idle
    · have ho : owed c.rf s.rf = 0 := by simp [owed, hidle]
      cases hq : s.rf.reqO
      · simp only [hq, Bool.false_eq_true, if_false] at hcnt; omega
      · have := hnl.req hq
        rw [hPT] at this; omega
    · have hq : s.rf.reqO = false := by
        cases hq : s.rf.reqO
        · rfl
        · exact absurd (hnl.lost hq) hidle
      simp only [hq, Bool.false_eq_true, if_false] at hcnt
      simp only [hidle, if_false, slack, hPT, hPM] at hmain
      by_cases hor : owed c.rf s.rf + r + 1 ≤ c.rf.postponing
      · omega
      · exfalso
        have ho1 : 1 ≤ owed c.rf s.rf := by omega
        have hge := epi_ge_owed c hwf s w ho1
        have h3 : (c.rf.postponing - r - 1) * M c.rf ≤ (owed c.rf s.rf - 1) * M c.rf := Nat.mul_le_mul_right _ (by omega)
        have h4 : (c.rf.postponing - r - 1) * M c.rf + (r + 1) * M c.rf = PM := by
          rw [← Nat.add_mul, ← hPM]; congr 1; omega
        omega

/-- **refresh deadline** in the form of the property: the k-th AUTO REFRESH (k ≥ 1) has been issued by cycle
`(k + postponing)·tREFI + lat0 + postponing·(tRP+tRFC+1)` -/
theorem refresh_deadline (c : Controller.Cfg) (hwf : CtlInv.WF c) (hb : Budget c) (hwr : c.rf.withRefresh = true)
    (inputs : List (Array BankIn)) (hins : ∀ ins ∈ inputs, InsOk c ins) (k : Nat) (hk : 1 ≤ k)
    (ht : (k + c.rf.postponing) * c.rf.tREFI + lat0 c + c.rf.postponing * M c.rf ≤ inputs.length) :
    k ≤ refCount c (init c) inputs := by
  have hP := hwf.rf.post
  -- k − 1 = q·P + r
  have hdm := Nat.div_add_mod (k - 1) c.rf.postponing
  have hr : (k - 1) % c.rf.postponing < c.rf.postponing := Nat.mod_lt _ hP
  generalize (k - 1) / c.rf.postponing = q at *
  generalize (k - 1) % c.rf.postponing = r at *
  have hkq : k = q * c.rf.postponing + r + 1 := by rw [Nat.mul_comm]; omega
  have := refresh_deadline_qr c hwf hb hwr inputs hins q r hr (by
    have h1 : (q + 1) * (c.rf.postponing * c.rf.tREFI) ≤ (k + c.rf.postponing) * c.rf.tREFI := by
      rw [← Nat.mul_assoc]
      apply Nat.mul_le_mul_right
      rw [Nat.add_mul, Nat.one_mul]; omega
    have h2 : (r + 1) * M c.rf ≤ c.rf.postponing * M c.rf := Nat.mul_le_mul_right _ (by omega)
    omega)
  omega

/-! ### non-vacuity: `C02.cfgC` with tREFI = 130 meets the hypotheses; the request of cycle 260 is being served at cycle 278
(one AUTO REFRESH issued, one owed) -/
def cfgR : Controller.Cfg := { C02.cfgC with rf := { C02.cfgC.rf with tREFI := 130 } }

example : CtlInv.WF cfgR :=
  { nbm := by decide, rf := ⟨by decide, by decide, by intro z h; cases h; decide, by decide, by decide, by decide⟩, hrow := by decide }
example : Budget cfgR := by unfold Budget; decide
example : psiMax cfgR + 2 + cfgR.rf.postponing * M cfgR.rf + zqLen cfgR.rf = 221 ∧ cfgR.rf.postponing * cfgR.rf.tREFI = 260 := by decide
example : refCount cfgR (init cfgR) ((List.range 278).map C02.insC) = 1 ∧
    owed cfgR.rf (C04.runCtl cfgR (init cfgR) ((List.range 278).map C02.insC)).rf = 1 := by decide +kernel

end C04
