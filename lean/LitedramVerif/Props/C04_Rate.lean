/-
C04 for the **composed controller** — the refresh rate, for unbounded time and every traffic.

Configuration hypotheses: `CtlInv.WF` (the one of C02: ≥ 1 bank machine, tRP, tRFC, tZQCS, postponing ≥ 1, A10 present,
tRP + tRFC + 1 ≤ tREFI), refresh enabled, and `Budget`:

    psiMax + 2 + postponing·(tRP + tRFC + 1) + (tRP + tZQCS + 1 if ZQCS) ≤ postponing·tREFI

i.e. one refresh episode — the proved worst-case wait for the bus (`C04.refresh_grant_bound`), the burst of postponed refreshes
and a ZQ calibration — fits between two requests of the postponer (true of every real device: tREFI is 7.8 µs, the left side
a few hundred ns; the check evaluates it for every co-simulated configuration).

For every input sequence of the ports (unbounded length, any traffic) on the composed controller model:
 * `refresh_request_never_lost`  whenever the postponer raises a request the refresher is idle, so the request is taken
                                 (the request is a one-cycle pulse: a busy refresher would lose it);
 * `refresh_accounting`          after t cycles exactly  postponing·⌊t / (postponing·tREFI)⌋ − (what the running episode still
                                 owes) AUTO REFRESH commands have been taken from the refresher;
 * `refresh_rate`                hence  postponing·⌊t/(postponing·tREFI)⌋ − postponing ≤ #REF(t) ≤ postponing·⌊t/(postponing·tREFI)⌋:
                                 never more than `postponing` refreshes are owed, the long-run rate is exactly one per tREFI,
                                 and the k-th refresh is issued before cycle (⌈k/postponing⌉ + 1)·postponing·tREFI.
Each AUTO REFRESH is preceded by its precharge-all (`C04.ref_preceded_by_prea`, C02) and reaches the DFI pins one cycle
later on phase 0 (`C02.controller_dfi_legal`); tREFI in cycles never exceeds the datasheet interval (C16).
The sharper per-refresh deadline (k + postponing)·tREFI + D of the property text is what the check measures on traces.
-/
import LitedramVerif.Proofs.RefreshRate
import LitedramVerif.Props.C04_Controller
namespace C04
open Controller Hw CtlInv CtlLive RefreshRate RefresherInv

theorem nl_reachable (c : Controller.Cfg) (hwf : CtlInv.WF c) (hb : Budget c) (inputs : List (Array BankIn))
    (hins : ∀ ins ∈ inputs, InsOk c ins) :
    ∃ g w, NL c (C04.runCtl c (init c) inputs) g w := by
  have h := nl_run c hwf hb inputs _ _ _ (nl_init c hwf) hins
  rw [runG_state] at h
  exact ⟨_, _, h⟩

/-- **no refresh request is ever lost** -/
theorem refresh_request_never_lost (c : Controller.Cfg) (hwf : CtlInv.WF c) (hb : Budget c) (inputs : List (Array BankIn))
    (hins : ∀ ins ∈ inputs, InsOk c ins) :
    (C04.runCtl c (init c) inputs).rf.reqO = true → (C04.runCtl c (init c) inputs).rf.fsm = .idle := by
  obtain ⟨g, w, h⟩ := nl_reachable c hwf hb inputs hins
  exact h.lost

/-- **exact accounting** of the AUTO REFRESH commands taken from the refresher in `t = inputs.length` cycles -/
theorem refresh_accounting (c : Controller.Cfg) (hwf : CtlInv.WF c) (hb : Budget c) (hwr : c.rf.withRefresh = true)
    (inputs : List (Array BankIn)) (hins : ∀ ins ∈ inputs, InsOk c ins) :
    refCount c (init c) inputs + owed c.rf (C04.runCtl c (init c) inputs).rf +
        (if (C04.runCtl c (init c) inputs).rf.reqO then c.rf.postponing else 0) =
      c.rf.postponing * (inputs.length / (c.rf.postponing * c.rf.tREFI)) ∧
    owed c.rf (C04.runCtl c (init c) inputs).rf + (if (C04.runCtl c (init c) inputs).rf.reqO then c.rf.postponing else 0) ≤
      c.rf.postponing := by
  have hP := hwf.rf.post
  have hT : 1 ≤ c.rf.tREFI := by have := hwf.rf.phantom; omega
  have h0 : Acct c (init c) 0 0 0 := by
    refine ⟨by simp [owed, init, Refresher.init], ?_, by simp [owed, init, Refresher.init]⟩
    simp only [Tr, init, Refresher.init]
    have : c.rf.postponing = (c.rf.postponing - 1) + 1 := by omega
    conv => rhs; rw [Nat.zero_add, Nat.one_mul, this, Nat.add_mul, Nat.one_mul]
    omega
  obtain ⟨q', hq'⟩ := acct_run c hwf hb hwr inputs _ _ _ 0 0 0 (nl_init c hwf) h0 hins
  simp only [Nat.zero_add] at hq'
  obtain ⟨g, w, hnl⟩ := nl_reachable c hwf hb inputs hins
  rw [runCtl_eq] at hnl ⊢
  generalize CtlLive.runCtl c (init c) inputs = s at *
  -- q' is the quotient: 1 ≤ Tr ≤ P·T
  have hTr1 : 1 ≤ Tr c.rf s.rf := by simp only [Tr]; omega
  have hTr2 : Tr c.rf s.rf ≤ c.rf.postponing * c.rf.tREFI := by
    have h1 := hnl.rng.1; have h2 := hnl.rng.2
    simp only [Tr]
    have : s.rf.postCount * c.rf.tREFI ≤ (c.rf.postponing - 1) * c.rf.tREFI := Nat.mul_le_mul_right _ (by omega)
    have e : c.rf.postponing * c.rf.tREFI = (c.rf.postponing - 1) * c.rf.tREFI + c.rf.tREFI := by
      have : c.rf.postponing = (c.rf.postponing - 1) + 1 := by omega
      conv => lhs; rw [this, Nat.add_mul, Nat.one_mul]
    omega
  have hPT : 0 < c.rf.postponing * c.rf.tREFI := Nat.mul_pos hP hT
  have hq : inputs.length / (c.rf.postponing * c.rf.tREFI) = q' := by
    have htime := hq'.time
    rw [Nat.add_mul, Nat.one_mul] at htime
    apply Nat.div_eq_of_lt_le
    · omega
    · rw [Nat.add_mul, Nat.one_mul]; omega
  rw [hq]
  exact ⟨hq'.cnt, hq'.le⟩

/-- **the refresh rate**: never more than `postponing` refreshes owed, never one too many -/
theorem refresh_rate (c : Controller.Cfg) (hwf : CtlInv.WF c) (hb : Budget c) (hwr : c.rf.withRefresh = true)
    (inputs : List (Array BankIn)) (hins : ∀ ins ∈ inputs, InsOk c ins) :
    c.rf.postponing * (inputs.length / (c.rf.postponing * c.rf.tREFI)) ≤ refCount c (init c) inputs + c.rf.postponing ∧
    refCount c (init c) inputs ≤ c.rf.postponing * (inputs.length / (c.rf.postponing * c.rf.tREFI)) := by
  obtain ⟨h1, h2⟩ := refresh_accounting c hwf hb hwr inputs hins
  constructor <;> omega

/-! ### non-vacuity: `C02.cfgC` with tREFI = 130 meets the hypotheses; the request of cycle 260 is being served at cycle 278
(one AUTO REFRESH issued, one owed) -/
def cfgR : Controller.Cfg := { C02.cfgC with rf := { C02.cfgC.rf with tREFI := 130 } }

example : CtlInv.WF cfgR :=
  { nbm := by decide, rf := ⟨by decide, by decide, by intro z h; cases h; decide, by decide, by decide, by decide⟩, hrow := by decide }
example : Budget cfgR := by unfold Budget; decide
example : psiMax cfgR + 2 + cfgR.rf.postponing * M cfgR.rf + zqLen cfgR.rf = 221 ∧ cfgR.rf.postponing * cfgR.rf.tREFI = 260 := by decide
example : refCount cfgR (init cfgR) ((List.range 278).map C02.insC) = 1 ∧
    owed cfgR.rf (C04.runCtl cfgR (init cfgR) ((List.range 278).map C02.insC)).rf = 1 := by decide +kernel

end C04
