/-
C11: Avalon-MM port - bursts and single accesses keep memory semantics.
Theorems about the front-end FSM of Model/Avalon.lean, for every master behaviour and every port timing.
-/
import LitedramVerif.Model.Avalon
namespace C11
open Avalon

/-! ### single accesses -/

/-- a single access presents one command: the Avalon address relative to the base, the Avalon direction, `last` set;
it is accepted by the master (waitrequest low) exactly in the cycle the port takes the command -/
theorem single_access (c : Cfg) (s : State) (i : AvIn) (p : PortResp) (hs : s.fsm = .start)
    (hrw : (i.read || i.write) = true) (hb : ¬ i.burstcount > 1) :
    (portReq c s i).cmdValid = true ∧ (portReq c s i).cmdAddr = relAddr c i.address ∧
    (portReq c s i).cmdWe = i.write ∧ (portReq c s i).cmdLast = true ∧
    ((step c s i p).2.waitrequest = !p.cmdReady) ∧
    (p.cmdReady = true → (step c s i p).1.fsm = (if i.write then Fsm.singleWrite else Fsm.singleRead) ∧
      (step c s i p).1.writedata = i.writedata ∧ (step c s i p).1.byteenable = i.byteenable) := by
  simp only [portReq, step, hs, hrw, hb]
  cases p.cmdReady <;> simp

/-- the single write's data word is the latched one, held until the port takes it -/
theorem single_write_data (c : Cfg) (s : State) (i : AvIn) (p : PortResp) (hs : s.fsm = .singleWrite) :
    (portReq c s i).wValid = true ∧ (portReq c s i).wData = s.writedata ∧ (portReq c s i).wWe = s.byteenable ∧
    (step c s i p).1.writedata = s.writedata ∧ (step c s i p).1.byteenable = s.byteenable ∧
    (step c s i p).1.fsm = (if p.wReady then Fsm.start else Fsm.singleWrite) := by
  simp [portReq, step, hs]

/-- a single read hands the port's word to the master as one `readdatavalid` beat -/
theorem single_read_data (c : Cfg) (s : State) (i : AvIn) (p : PortResp) (hs : s.fsm = .singleRead) :
    (step c s i p).2.readdatavalid = p.rValid ∧ (p.rValid = true → (step c s i p).2.readdata = p.rData ∧ (step c s i p).1.fsm = .start) := by
  simp only [step, hs]
  cases p.rValid <;> simp

/-! ### write bursts -/

/-- an Avalon write beat is accepted in this cycle -/
def beat (c : Cfg) (s : State) (i : AvIn) (p : PortResp) : Bool := i.write && !(step c s i p).2.waitrequest

/-- `k` beats of a burst of `n` starting at (relative) address `a0` have been accepted -/
def BWInv (c : Cfg) (a0 n : Nat) (s : State) (k : Nat) : Prop :=
  match s.fsm with
  | .burstWrite => k ≤ n ∧ s.burstCount = n - k ∧ s.address = (a0 + k * c.inc) % 2 ^ c.aw
  | _ => k = n

/-- what one clock of BURST_WRITE does, case by case -/
theorem bw_facts (c : Cfg) (s : State) (i : AvIn) (p : PortResp) (hs : s.fsm = .burstWrite) :
    ((step c s i p).1.fsm = .burstWrite ∨ ((step c s i p).1.fsm = .start ∧ s.burstCount = 0)) ∧
    (beat c s i p = true →
      s.burstCount > 0 ∧ (step c s i p).1.burstCount = (s.burstCount + 511) % 512 ∧
      (step c s i p).1.address = (s.address + c.inc) % 2 ^ c.aw ∧
      (step c s i p).1.cmdFifo = Fifo.step (fcfg c) s.cmdFifo true s.address p.cmdReady ∧
      (step c s i p).1.wFifo = Fifo.step (fcfg c) s.wFifo true (i.writedata, i.byteenable) p.wReady) ∧
    (beat c s i p = false →
      (step c s i p).1.burstCount = s.burstCount ∧ (step c s i p).1.address = s.address ∧
      (step c s i p).1.cmdFifo = Fifo.step (fcfg c) s.cmdFifo false s.address p.cmdReady ∧
      (step c s i p).1.wFifo = Fifo.step (fcfg c) s.wFifo false (i.writedata, i.byteenable) p.wReady) := by
  simp only [beat, step, hs]
  by_cases h0 : s.burstCount = 0
  · cases i.write <;> simp [h0] <;>
      (by_cases hA : s.cmdFifo.q = [] <;> by_cases hB : s.wFifo.q = [] <;> by_cases hL : s.wFifo.q.length = 1 <;>
        cases p.wReady <;> simp_all)
  · have hpos : s.burstCount > 0 := by omega
    cases hw : i.write
    · simp [h0]
    · cases hr1 : Fifo.sinkReady (fcfg c) s.cmdFifo p.cmdReady <;> cases hr2 : Fifo.sinkReady (fcfg c) s.wFifo p.wReady <;>
        simp [h0, hpos]

theorem bw_step (c : Cfg) (a0 n k : Nat) (s : State) (i : AvIn) (p : PortResp) (hn : n < 512)
    (hs : s.fsm = .burstWrite) (h : BWInv c a0 n s k) :
    BWInv c a0 n (step c s i p).1 (if beat c s i p then k + 1 else k) ∧ (beat c s i p = true → k < n) := by
  simp only [BWInv, hs] at h
  obtain ⟨hk, hbc, ha⟩ := h
  obtain ⟨hf, hacc, hnacc⟩ := bw_facts c s i p hs
  have e2 : ((a0 + k * c.inc) % 2 ^ c.aw + c.inc) % 2 ^ c.aw = (a0 + (k + 1) * c.inc) % 2 ^ c.aw := by
    rw [Nat.mod_add_mod]; congr 1; rw [Nat.add_mul]; omega
  by_cases hb : beat c s i p = true
  · obtain ⟨hpos, h1, h2, _, _⟩ := hacc hb
    refine ⟨?_, fun _ => by omega⟩
    simp only [hb, if_true]
    rcases hf with hf | ⟨hf, hz⟩
    · simp only [BWInv, hf]
      exact ⟨by omega, by omega, by rw [h2, ha, e2]⟩
    · omega
  · have hb' : beat c s i p = false := by simpa using hb
    obtain ⟨h1, h2, _, _⟩ := hnacc hb'
    refine ⟨?_, fun h => absurd h hb⟩
    simp only [hb', Bool.false_eq_true, if_false]
    rcases hf with hf | ⟨hf, hz⟩
    · simp only [BWInv, hf]
      exact ⟨hk, by omega, by rw [h2, ha]⟩
    · simp only [BWInv, hf]; omega

/-- **An idle master cycle inside a write burst is neutral** (the behaviour repaired by the first C11 fix): with beats
still owed and `write` low the FSM stays in the burst, owes the same beats at the same address, and queues nothing. -/
theorem idle_gap_is_neutral (c : Cfg) (s : State) (i : AvIn) (p : PortResp)
    (hs : s.fsm = .burstWrite) (hw : i.write = false) (hb : s.burstCount > 0) :
    (step c s i p).1.fsm = .burstWrite ∧ (step c s i p).1.burstCount = s.burstCount ∧
    (step c s i p).1.address = s.address ∧
    (step c s i p).1.cmdFifo = Fifo.step (fcfg c) s.cmdFifo false s.address p.cmdReady ∧
    (step c s i p).1.wFifo = Fifo.step (fcfg c) s.wFifo false (i.writedata, i.byteenable) p.wReady := by
  have : ¬ s.burstCount = 0 := by omega
  simp [step, hs, hw, this]

/-- run while the FSM is in BURST_WRITE; collect the accepted beats as (address, data, byte enables) -/
def bwrun (c : Cfg) : State → List (AvIn × PortResp) → State × List (Nat × Nat × Nat)
  | s, [] => (s, [])
  | s, (i, p) :: rest =>
    if s.fsm = .burstWrite then
      let r := bwrun c (step c s i p).1 rest
      (r.1, if beat c s i p then (s.address, i.writedata, i.byteenable) :: r.2 else r.2)
    else (s, [])

/-- **Write bursts.** From the start of a burst of `n` beats at address `a0`, under every master behaviour (idle
gaps, any address / burstcount after the first beat) and every port timing: the accepted beats are numbered
consecutively, beat `k` is queued for address `a0 + k·increment` with the data and byte enables the master presents
in the cycle it is accepted, never more than `n` beats are accepted, and the FSM leaves the burst only after all `n`. -/
theorem write_burst_beats (c : Cfg) (a0 n : Nat) (hn : n < 512) (ins : List (AvIn × PortResp)) (s : State) (k : Nat)
    (h : BWInv c a0 n s k) :
    ∃ m, BWInv c a0 n (bwrun c s ins).1 (k + m) ∧
      (bwrun c s ins).2.map (·.1) = (List.range' k m).map (fun j => (a0 + j * c.inc) % 2 ^ c.aw) := by
  induction ins generalizing s k with
  | nil => exact ⟨0, by simpa [bwrun] using h, by simp [bwrun]⟩
  | cons ip rest ih =>
    obtain ⟨i, p⟩ := ip
    by_cases hs : s.fsm = .burstWrite
    · obtain ⟨hinv, _⟩ := bw_step c a0 n k s i p hn hs h
      have ha : s.address = (a0 + k * c.inc) % 2 ^ c.aw := by
        simp only [BWInv, hs] at h; exact h.2.2
      by_cases hb : beat c s i p = true
      · simp only [hb, if_true] at hinv
        obtain ⟨m, hm, hl⟩ := ih _ (k + 1) hinv
        refine ⟨m + 1, by simpa [bwrun, hs, Nat.add_assoc, Nat.add_comm 1 m] using hm, ?_⟩
        simp [bwrun, hs, hb, hl, ha, List.range'_succ]
      · simp only [hb] at hinv
        obtain ⟨m, hm, hl⟩ := ih _ k (by simpa using hinv)
        exact ⟨m, by simpa [bwrun, hs] using hm, by simp [bwrun, hs, hb, hl]⟩
    · exact ⟨0, by simpa [bwrun, hs] using h, by simp [bwrun, hs]⟩

/-- entering a write burst: the first command of a burst latches address (relative to the base) and beat count, and is
not accepted yet (waitrequest stays high until the first beat is queued in BURST_WRITE) -/
theorem write_burst_entry (c : Cfg) (s : State) (i : AvIn) (p : PortResp) (hs : s.fsm = .start)
    (hw : i.write = true) (hr : i.read = false) (hb : i.burstcount > 1) (hlt : i.burstcount < 512) :
    (step c s i p).2.waitrequest = true ∧ BWInv c (relAddr c i.address) i.burstcount (step c s i p).1 0 := by
  have h2 : relAddr c i.address % 2 ^ c.aw = relAddr c i.address := by simp [relAddr]
  simp [step, hs, hw, hr, hb, BWInv, Nat.mod_eq_of_lt hlt, h2]

/-! ### read bursts -/

/-- `kc` read commands issued, `kr` read beats returned of a burst of `n` -/
def BRInv (c : Cfg) (a0 n : Nat) (s : State) (kc kr : Nat) : Prop :=
  match s.fsm with
  | .burstRead =>
    kr < n ∧ s.burstCount = n - kr ∧
    (if s.cmdReadySeen then kc = n else kc < n ∧ s.cmdReadyCount = n - kc ∧ s.address = (a0 + kc * c.inc) % 2 ^ c.aw)
  | _ => kr = n ∧ kc ≤ n

/-- **Read bursts.** One clock of BURST_READ: a command is issued iff the port takes it while commands are still
owed, it carries address `a0 + kc·increment` and `last` exactly on the burst's final command (third C11 fix); every
word the port returns is one `readdatavalid` beat with that word; the FSM leaves after the `n`-th beat. -/
theorem br_step (c : Cfg) (a0 n kc kr : Nat) (s : State) (i : AvIn) (p : PortResp) (hn : n < 512)
    (hs : s.fsm = .burstRead) (h : BRInv c a0 n s kc kr) :
    BRInv c a0 n (step c s i p).1 (if ((portReq c s i).cmdValid && p.cmdReady) then kc + 1 else kc) (if p.rValid then kr + 1 else kr) ∧
    (((portReq c s i).cmdValid && p.cmdReady) = true →
      (portReq c s i).cmdAddr = (a0 + kc * c.inc) % 2 ^ c.aw ∧ (portReq c s i).cmdWe = false ∧
      (portReq c s i).cmdLast = decide (kc + 1 = n)) ∧
    (step c s i p).2.readdatavalid = p.rValid ∧ (p.rValid = true → (step c s i p).2.readdata = p.rData) ∧
    (step c s i p).2.waitrequest = true := by
  simp only [BRInv, hs] at h
  obtain ⟨hkr, hbc, hc⟩ := h
  have e2 : ((a0 + kc * c.inc) % 2 ^ c.aw + c.inc) % 2 ^ c.aw = (a0 + (kc + 1) * c.inc) % 2 ^ c.aw := by
    rw [Nat.mod_add_mod]; congr 1; rw [Nat.add_mul]; omega
  have hfsm : (step c s i p).1.fsm = if p.rValid && s.burstCount == 1 then Fsm.start else Fsm.burstRead := by
    simp [step, hs]
  have hbc' : (step c s i p).1.burstCount = if p.rValid then (s.burstCount + 511) % 512 else s.burstCount := by
    simp [step, hs]
  have hseen' : (step c s i p).1.cmdReadySeen = (if p.cmdReady && s.cmdReadyCount == 1 then true else s.cmdReadySeen) := by
    simp [step, hs]
  have hcc' : (step c s i p).1.cmdReadyCount = if p.cmdReady then (s.cmdReadyCount + 511) % 512 else s.cmdReadyCount := by
    simp [step, hs]
  have had' : (step c s i p).1.address = if p.cmdReady then (s.address + c.inc) % 2 ^ c.aw else s.address := by
    simp [step, hs]
  refine ⟨?_, ?_, by simp [step, hs], by intro h; simp [step, hs, h], by simp [step, hs]⟩
  · -- invariant
    cases hseen : s.cmdReadySeen
    · simp only [hseen, Bool.false_eq_true, if_false] at hc
      obtain ⟨hkc, hcc, ha⟩ := hc
      have hv : (portReq c s i).cmdValid = true := by simp [portReq, hs, hseen]
      cases hcr : p.cmdReady <;> cases hrv : p.rValid <;>
        simp only [hv, hcr, hrv, Bool.and_true, Bool.and_false, Bool.true_and, Bool.false_and, if_true, if_false, Bool.false_eq_true] at * <;>
        (by_cases h2 : s.burstCount = 1 <;> by_cases h1 : s.cmdReadyCount = 1 <;>
          simp only [BRInv, hfsm, hbc', hseen', hcc', had', h1, h2, hseen, beq_self_eq_true, if_true, if_false, Bool.false_eq_true,
            beq_iff_eq, ha, e2] <;> (try simp) <;> omega)
    · simp only [hseen, if_true] at hc
      have hv : (portReq c s i).cmdValid = false := by simp [portReq, hs, hseen]
      cases hcr : p.cmdReady <;> cases hrv : p.rValid <;>
        simp only [hv, hcr, hrv, Bool.and_true, Bool.and_false, Bool.true_and, Bool.false_and, if_true, if_false, Bool.false_eq_true] at * <;>
        (by_cases h2 : s.burstCount = 1 <;>
          simp only [BRInv, hfsm, hbc', hseen', hseen, h2, beq_self_eq_true, if_true, if_false, Bool.false_eq_true, beq_iff_eq,
            Bool.if_true_left, Bool.or_true] <;> (try simp) <;> omega)
  · -- the command issued
    intro hiss
    cases hseen : s.cmdReadySeen
    · simp only [hseen, Bool.false_eq_true, if_false] at hc
      obtain ⟨hkc, hcc, ha⟩ := hc
      refine ⟨by simp [portReq, hs, ha], by simp [portReq, hs], ?_⟩
      simp only [portReq, hs, hcc]
      by_cases hl : kc + 1 = n <;> simp [hl] <;> omega
    · simp [portReq, hs, hseen] at hiss

/-- entering a read burst: accepted at once (waitrequest low), `n` commands and `n` beats owed from the base-relative address -/
theorem read_burst_entry (c : Cfg) (s : State) (i : AvIn) (p : PortResp) (hs : s.fsm = .start)
    (hr : i.read = true) (hb : i.burstcount > 1) (hlt : i.burstcount < 512) :
    (step c s i p).2.waitrequest = false ∧ BRInv c (relAddr c i.address) i.burstcount (step c s i p).1 0 0 := by
  have h2 : relAddr c i.address % 2 ^ c.aw = relAddr c i.address := by simp [relAddr]
  simp [step, hs, hr, hb, BRInv, Nat.mod_eq_of_lt hlt, h2]
  omega

/-! ### non-vacuity -/
example : BWInv { aw := 8 } 5 4 { fsm := .burstWrite, burstCount := 4, address := 5 } 0 := by simp [BWInv]
example : BRInv { aw := 8 } 5 4 { fsm := .burstRead, burstCount := 4, cmdReadyCount := 4, address := 5 } 0 0 := by simp [BRInv]

end C11
