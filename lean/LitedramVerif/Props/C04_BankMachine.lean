/-
C04, bank-machine layer: **a bank machine grants a pending refresh request within an explicit number of cycles**.

`bank_machine_grants_refresh`: from every reachable state of the bank-machine model (any configuration, any input history),
if `refresh_req` is held and the multiplexer accepts every command that stays valid within `A` cycles, `refresh_gnt` is
raised within `phiMax c A` cycles (2·2^w(tWTP) + 2^w(tRAS) + 2^w(tRC) + tRAS + 2·A + 2·tRP + tRCD + 4, where 2^w(t) is the
range of the timer's counter: from reset a tXXD timer first wraps once).  At most one precharge and one activate are still
issued (the row in flight is opened, then everything waits for tRAS / write recovery).
Proof: `BmLive.phi` is a potential that strictly decreases on every clock edge until the grant (`BmLive.phi_step`).
What the composed statement (`C04.refresh_grant_bound_full`) still needs: the multiplexer's side (`A`).
-/
import LitedramVerif.Proofs.BmLive
namespace C04
open Hw BankMachine BmLive

/-- the environment of a run with the refresh request pending: `refresh` is held, and a command that has been valid for
`A − 1` cycles is accepted in the next one (`w` = cycles the current command has waited so far) -/
def Fair (c : Cfg) (A : Nat) : State → Nat → List In → Prop
  | _, _, [] => True
  | s, w, i :: rest =>
    i.refresh = true ∧ ((BankMachine.step c s i).2.cmdValid = true → w + 1 = A → i.ready = true) ∧
    Fair c A (BankMachine.step c s i).1 (wNext c s i w) rest

/-- `refresh_gnt` in cycle `t` of the run -/
def gntAt (c : Cfg) : State → List In → Nat → Bool
  | _, [], _ => false
  | s, i :: _, 0 => (BankMachine.step c s i).2.refreshGnt
  | s, i :: rest, t + 1 => gntAt c (BankMachine.step c s i).1 rest t

theorem progress_from (c : Cfg) (A : Nat) (ins : List In) : ∀ (s : State) (w : Nat), TOk c s → w < A → Fair c A s w ins →
    phi c A s w < ins.length → ∃ t, t ≤ phi c A s w ∧ gntAt c s ins t = true := by
  induction ins with
  | nil => intro s w _ _ _ h; simp at h
  | cons i rest ih =>
    intro s w hk hw hfair hlen
    obtain ⟨hr, hf, hrest⟩ := hfair
    rcases phi_step c A s i w hk hr hw hf with hg | ⟨hdec, hw'⟩
    · exact ⟨0, Nat.zero_le _, hg⟩
    · have hlen' : phi c A (BankMachine.step c s i).1 (wNext c s i w) < rest.length := by
        simp only [List.length_cons] at hlen; omega
      obtain ⟨t, ht, hgt⟩ := ih _ _ (tok_step c s i hk) hw' hrest hlen'
      exact ⟨t + 1, by omega, hgt⟩

def runBm (c : Cfg) (s : State) (ins : List In) : State := ins.foldl (fun st i => (BankMachine.step c st i).1) s

theorem tok_reachable (c : Cfg) (pre : List In) : TOk c (runBm c (State.init c) pre) := by
  have : ∀ s, TOk c s → TOk c (runBm c s pre) := by
    induction pre with
    | nil => intro s h; exact h
    | cons i rest ih => intro s h; exact ih _ (tok_step c s i h)
  exact this _ ⟨txok_init _, txok_init _, txok_init _⟩

/-- **C04, bank machine, every configuration, every history** -/
theorem bank_machine_grants_refresh (c : Cfg) (A : Nat) (hA : 0 < A) (pre post : List In)
    (hfair : Fair c A (runBm c (State.init c) pre) 0 post) (hlen : phiMax c A < post.length) :
    ∃ t, t ≤ phiMax c A ∧ gntAt c (runBm c (State.init c) pre) post t = true := by
  have hk := tok_reachable c pre
  have hle := phi_le c A (runBm c (State.init c) pre) 0 hk
  obtain ⟨t, ht, hg⟩ := progress_from c A post _ 0 hk hA hfair (by omega)
  exact ⟨t, by omega, hg⟩

/-! ### non-vacuity: a bank machine caught in PRECHARGE (row miss pending) when the refresh request arrives, with a multiplexer
that accepts every third cycle, grants in cycle 10 ≤ `phiMax` = 45; the run meets `Fair` with `A` = 3 -/
def cfgB : Cfg := { depth := 4, tRAS := some 5, tRC := some 7, twtp := 4, tRCD := 2, tRP := 2, colbits := 10, rowbits := 13, align := 3, abits := 13, ap := false }
def preB : List In := (List.range 18).map fun k => ⟨k < 6, true, if k < 3 then 5 else 1000, false, k % 2 == 0⟩
def postB : List In := (List.range 46).map fun k => ⟨false, false, 0, true, k % 3 == 2⟩

/-- executable version of `Fair` -/
def fairB (c : Cfg) (A : Nat) : State → Nat → List In → Bool
  | _, _, [] => true
  | s, w, i :: rest =>
    i.refresh && (!(BankMachine.step c s i).2.cmdValid || !(w + 1 == A) || i.ready) &&
    fairB c A (BankMachine.step c s i).1 (wNext c s i w) rest

theorem fairB_sound (c : Cfg) (A : Nat) (ins : List In) : ∀ s w, fairB c A s w ins = true → Fair c A s w ins := by
  induction ins with
  | nil => intro s w _; trivial
  | cons i rest ih =>
    intro s w h
    simp only [fairB, Bool.and_eq_true, Bool.or_eq_true, Bool.not_eq_true', beq_eq_false_iff_ne] at h
    refine ⟨h.1.1, ?_, ih _ _ h.2⟩
    intro hv hw
    rcases h.1.2 with (h1 | h1) | h1
    · rw [hv] at h1; cases h1
    · exact absurd hw h1
    · exact h1

example : (runBm cfgB (State.init cfgB) preB).fsm = .precharge ∧ phiMax cfgB 3 = 45 ∧
    fairB cfgB 3 (runBm cfgB (State.init cfgB) preB) 0 postB = true ∧
    gntAt cfgB (runBm cfgB (State.init cfgB) preB) postB 10 = true ∧
    gntAt cfgB (runBm cfgB (State.init cfgB) preB) postB 9 = false := by decide +kernel

end C04
