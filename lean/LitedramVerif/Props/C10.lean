/-
C10: Wishbone port - one acknowledge per access and memory semantics.
Theorems about the front-end FSMs of Model/Wishbone.lean, for every master behaviour (including aborts at any
cycle) and every port timing.
-/
import LitedramVerif.Model.Wishbone
namespace C10
open Wishbone

/-! ### equal / wider bus: LiteDRAMWishbone2Native's three-state FSM -/
section W2N
open W2N

/-- an acknowledge is only given to a master that is still requesting (CYC high, not aborted), and only in the
cycle the pending access completes (the FSM returns to CMD) -/
theorem ack_only_on_completion (c : Cfg) (s : State) (i : WbIn) (p : PortResp) (h : (step c s i p).2.ack = true) :
    i.cyc = true ∧ s.aborted = false ∧ s.fsm ≠ .cmd ∧ (step c s i p).1.fsm = .cmd := by
  cases hf : s.fsm <;> simp [step, hf] at h ⊢
  · obtain ⟨⟨h1, h2⟩, h3⟩ := h
    simp_all
  · obtain ⟨⟨h1, h2⟩, h3⟩ := h
    simp_all

/-- **An abort is never acknowledged.** If CYC is dropped (now or earlier during this access) the access completes
silently, and the abort is remembered until the FSM is back in CMD. -/
theorem abort_never_acked (c : Cfg) (s : State) (i : WbIn) (p : PortResp) (hb : s.fsm ≠ .cmd)
    (ha : i.cyc = false ∨ s.aborted = true) :
    (step c s i p).2.ack = false ∧ ((step c s i p).1.fsm ≠ .cmd → (step c s i p).1.aborted = true) := by
  cases hf : s.fsm <;> simp [hf] at hb <;> rcases ha with ha | ha <;> simp [step, hf, ha]

/-- **An aborted write cannot hang or corrupt** (the behaviour repaired by the C10 fix): after an abort the WRITE
state keeps offering a data beat with no byte enabled, so the controller's single `wdata.ready` strobe completes it. -/
theorem aborted_write_completes (c : Cfg) (s : State) (i : WbIn) (p : PortResp) (hw : s.fsm = .write)
    (ha : i.cyc = false ∨ s.aborted = true) :
    (portReq c s i).wValid = true ∧ (portReq c s i).wWe = 0 ∧
    (p.wReady = true → (step c s i p).1.fsm = .cmd) := by
  rcases ha with ha | ha <;> simp [portReq, step, hw, ha]

/-- a write that is not aborted presents the master's data and byte selects, and is acknowledged exactly when the
port takes them -/
theorem write_completes (c : Cfg) (s : State) (i : WbIn) (p : PortResp) (hw : s.fsm = .write)
    (hc : i.cyc = true) (hs : i.stb = true) (hwe : i.we = true) (ha : s.aborted = false) :
    (portReq c s i).wValid = true ∧ (portReq c s i).wData = i.datW ∧ (portReq c s i).wWe = i.sel ∧
    (step c s i p).2.ack = p.wReady ∧ (step c s i p).1.fsm = (if p.wReady then Fsm.cmd else Fsm.write) := by
  simp [portReq, step, hw, hc, hs, hwe, ha]

/-- a read that is not aborted is acknowledged with the port's word in the cycle it arrives -/
theorem read_completes (c : Cfg) (s : State) (i : WbIn) (p : PortResp) (hr : s.fsm = .read)
    (hc : i.cyc = true) (ha : s.aborted = false) :
    (step c s i p).2.ack = p.rValid ∧ (p.rValid = true → (step c s i p).2.datR = p.rData) ∧
    (step c s i p).1.fsm = (if p.rValid then Fsm.cmd else Fsm.read) := by
  simp [step, hr, hc, ha]
  intro h; simp [h]

/-- the command: address relative to the base, the bus's direction; issued only from CMD while the master requests -/
theorem command_issued (c : Cfg) (s : State) (i : WbIn) (p : PortResp) :
    (portReq c s i).cmdAddr = relAddr c i.adr ∧ (portReq c s i).cmdWe = i.we ∧
    ((portReq c s i).cmdValid = true ↔ (s.fsm = .cmd ∧ i.cyc = true ∧ i.stb = true)) ∧
    (s.fsm = .cmd → ((portReq c s i).cmdValid && p.cmdReady) = true →
      (step c s i p).1.fsm = (if i.we then Fsm.write else Fsm.read) ∧ (step c s i p).1.aborted = false) := by
  refine ⟨rfl, rfl, by simp [portReq, Bool.and_assoc], ?_⟩
  intro hs h
  simp [step, hs, h]

/-- 1 while an access is in flight -/
def busy (s : State) : Nat := if s.fsm = .cmd then 0 else 1

/-- counting over a whole run: commands accepted by the port, accesses completed, acknowledges given -/
def counts (c : Cfg) : State → List (WbIn × PortResp) → Nat × Nat × Nat
  | _, [] => (0, 0, 0)
  | s, (i, p) :: rest =>
    let r := counts c (step c s i p).1 rest
    (r.1 + (if (portReq c s i).cmdValid && p.cmdReady then 1 else 0),
     r.2.1 + (if busy s = 1 ∧ busy (step c s i p).1 = 0 then 1 else 0),
     r.2.2 + (if (step c s i p).2.ack then 1 else 0))

def runS (c : Cfg) : State → List (WbIn × PortResp) → State
  | s, [] => s
  | s, (i, p) :: rest => runS c (step c s i p).1 rest

/-- **Exactly one completion per accepted access, at most one acknowledge per completion**, under every schedule:
`accepted = completed + (1 if an access is in flight at the end)` (with the in-flight access at the start counted),
and `acknowledges ≤ completed`. -/
theorem one_ack_per_access (c : Cfg) (ins : List (WbIn × PortResp)) (s : State) :
    let n := counts c s ins
    n.1 + busy s = n.2.1 + busy (runS c s ins) ∧ n.2.2 ≤ n.2.1 := by
  induction ins generalizing s with
  | nil => simp [counts, runS]
  | cons ip rest ih =>
    obtain ⟨i, p⟩ := ip
    obtain ⟨h1, h2⟩ := ih (step c s i p).1
    have hack := ack_only_on_completion c s i p
    simp only [counts, runS]
    cases hf : s.fsm
    · -- CMD: either a command is accepted (busy next) or nothing happens
      have hb : busy s = 0 := by simp [busy, hf]
      have hnoack : (step c s i p).2.ack = false := by simp [step, hf]
      by_cases hacc : ((portReq c s i).cmdValid && p.cmdReady) = true
      · have hn : busy (step c s i p).1 = 1 := by
          simp only [busy, step, hf, hacc]; cases i.we <;> simp
        simp only [hb, hn, hacc, hnoack] at h1 ⊢
        simp at h1 ⊢
        omega
      · have hn : busy (step c s i p).1 = 0 := by
          have : ((portReq c s i).cmdValid && p.cmdReady) = false := by simpa using hacc
          simp [busy, step, hf, this]
        simp only [hb, hn, hacc, hnoack] at h1 ⊢
        simp at h1 ⊢
        omega
    all_goals
      have hb : busy s = 1 := by simp [busy, hf]
      have hv : ((portReq c s i).cmdValid && p.cmdReady) = false := by simp [portReq, hf]
      by_cases hd : (step c s i p).1.fsm = .cmd
      · have hn : busy (step c s i p).1 = 0 := by simp [busy, hd]
        simp only [hb, hn, hv] at h1 ⊢
        by_cases ha : (step c s i p).2.ack = true <;> simp [ha] at h1 ⊢ <;> omega
      · have hn : busy (step c s i p).1 = 1 := by simp [busy, hd]
        have hna : (step c s i p).2.ack = false := by
          cases h : (step c s i p).2.ack
          · rfl
          · exact absurd (hack h).2.2.2 hd
        simp only [hb, hn, hv, hna] at h1 ⊢
        simp at h1 ⊢
        omega

end W2N

/-! ### narrower bus: the burst up-converter -/
section Up
open Up

/-- a beat lands in its lane and nowhere else -/
theorem lane_of_shifted (c : Cfg) (d ch k : Nat) (hd : d < 2 ^ c.dw) :
    lane c (d * 2 ^ (c.dw * ch)) k = if k = ch then d else 0 := by
  unfold lane
  by_cases h : k = ch
  · subst h
    simp [Nat.mul_div_cancel _ (Nat.two_pow_pos _), Nat.mod_eq_of_lt hd]
  · simp only [h, if_false]
    rcases Nat.lt_or_gt_of_ne h with hlt | hgt
    · -- lower lane: the shifted beat is a multiple of 2^(dw*(k+1))
      obtain ⟨m, rfl⟩ : ∃ m, ch = k + 1 + m := ⟨ch - k - 1, by omega⟩
      have e : c.dw * (k + 1 + m) = c.dw * k + (c.dw + c.dw * m) := by
        rw [Nat.mul_add, Nat.mul_add, Nat.mul_one, Nat.add_assoc]
      rw [e, Nat.pow_add, Nat.pow_add, Nat.mul_comm (2 ^ (c.dw * k)), ← Nat.mul_assoc,
        Nat.mul_div_cancel _ (Nat.two_pow_pos _), Nat.mul_left_comm, Nat.mul_mod_right]
    · -- higher lane: the beat is too small to reach it
      have e : c.dw * k = c.dw * ch + c.dw * (k - ch) := by rw [← Nat.mul_add]; congr 1; omega
      rw [e, Nat.pow_add, ← Nat.div_div_eq_div_mul, Nat.mul_div_cancel _ (Nat.two_pow_pos _)]
      have : 2 ^ c.dw ≤ 2 ^ (c.dw * (k - ch)) := Nat.pow_le_pow_right (by omega) (by
        have : 1 ≤ k - ch := by omega
        calc c.dw = c.dw * 1 := (Nat.mul_one _).symm
          _ ≤ c.dw * (k - ch) := Nat.mul_le_mul_left _ this)
      rw [Nat.div_eq_of_lt (by omega), Nat.zero_mod]

/-- **Cached data is never served stale.** Any Wishbone write seen in CMD, and any cycle without CYC, invalidates the
read cache; a read while a merged write is pending is not answered from anywhere: the write is drained first. -/
theorem write_invalidates_cache (c : Cfg) (s : State) (i : WbIn) (p : PortResp) (hs : s.fsm = .cmd)
    (h : i.cyc = false ∨ (i.stb = true ∧ i.we = true)) :
    (step c s i p).1.rdCacheValid = false := by
  cases hc : i.cyc
  · cases hv : s.wrValid <;> simp [step, hs, hc, hv]
  · rcases h with h | ⟨h1, h2⟩
    · simp [hc] at h
    · by_cases hm : (!s.wrValid || (s.wrAddr == wideAddr c i && (s.wrSel &&& 2 ^ chunk c i) == 0)) = true
      · simp [step, hs, hc, h1, h2, hm]
      · have hm' : (!s.wrValid || (s.wrAddr == wideAddr c i && (s.wrSel &&& 2 ^ chunk c i) == 0)) = false := by simpa using hm
        simp [step, hs, hc, h1, h2, hm']

theorem read_waits_for_pending_write (c : Cfg) (s : State) (i : WbIn) (p : PortResp) (hs : s.fsm = .cmd)
    (hc : i.cyc = true) (hst : i.stb = true) (hr : i.we = false) (hp : s.wrValid = true) :
    (step c s i p).2.ack = false ∧ (step c s i p).1.fsm = .writeCmd ∧ (step c s i p).1.wrLast = true ∧
    (step c s i p).1.wrData = s.wrData ∧ (step c s i p).1.wrWe = s.wrWe := by
  simp [step, hs, hc, hst, hr, hp]

/-- a cache hit returns the requested lane of a word that was read from the port, for the same wide address, with no
write since (`rdCacheValid`), and an acknowledged port read returns the requested lane of the word just read -/
theorem read_hit_data (c : Cfg) (s : State) (i : WbIn) (p : PortResp) (hs : s.fsm = .cmd)
    (hc : i.cyc = true) (hst : i.stb = true) (hr : i.we = false) (hp : s.wrValid = false)
    (hv : s.rdCacheValid = true) (ha : s.rdCacheAddr = wideAddr c i) :
    (step c s i p).2.ack = true ∧ (step c s i p).2.datR = lane c s.rdCacheData (chunk c i) := by
  simp [step, hs, hc, hst, hr, hp, hv, ha]

theorem read_port_data (c : Cfg) (s : State) (i : WbIn) (p : PortResp) (hs : s.fsm = .readData) (hv : p.rValid = true) :
    (step c s i p).2.ack = (i.cyc && !s.aborted) ∧
    ((step c s i p).2.ack = true → (step c s i p).2.datR = lane c p.rData s.rdChunk) ∧
    (step c s i p).1.fsm = .cmd ∧ (step c s i p).1.rdCacheData = p.rData ∧ (step c s i p).1.rdCacheAddr = s.rdAddr ∧
    ((step c s i p).1.rdCacheValid = true → i.cyc = true ∧ s.aborted = false ∧ s.rdLast = false) := by
  simp only [step, hs, hv]
  cases i.cyc <;> cases s.aborted <;> simp

/-- a merged write: the beat is acknowledged at once, stored in its lane with its byte selects, other lanes kept -/
theorem write_merged (c : Cfg) (s : State) (i : WbIn) (p : PortResp) (hs : s.fsm = .cmd)
    (hc : i.cyc = true) (hst : i.stb = true) (hw : i.we = true)
    (hm : (!s.wrValid || (s.wrAddr == wideAddr c i && (s.wrSel &&& 2 ^ chunk c i) == 0)) = true) :
    (step c s i p).2.ack = true ∧ (step c s i p).1.wrValid = true ∧
    (step c s i p).1.wrAddr = (if s.wrValid then s.wrAddr else wideAddr c i) ∧
    (step c s i p).1.wrData = (if s.wrValid then s.wrData ||| (i.datW % 2 ^ c.dw) * 2 ^ (c.dw * chunk c i) else (i.datW % 2 ^ c.dw) * 2 ^ (c.dw * chunk c i)) ∧
    (step c s i p).1.wrSel = s.wrSel ||| 2 ^ chunk c i := by
  simp only [step, hs, hc, hst, hw, hm]
  simp

/-- the up-converter acknowledges only a requesting master -/
theorem up_ack_requires_cyc (c : Cfg) (s : State) (i : WbIn) (p : PortResp) (h : (step c s i p).2.ack = true) :
    i.cyc = true := by
  cases hf : s.fsm <;> simp only [step, hf] at h
  · cases hc : i.cyc
    · simp [hc] at h; split at h <;> simp at h
    · rfl
  · split at h <;> simp at h
  · split at h <;> simp at h
  · split at h <;> simp at h
  · cases hv : p.rValid <;> simp [hv] at h
    exact h.1

end Up

/-! ### LiteDRAMNative2Wishbone -/
section N2W
open N2W

/-- each native command becomes one Wishbone access at the mapped address; a write carries the port's data and byte
enables and releases them on ACK; a read returns DAT_R on ACK -/
theorem n2w_access (c : Cfg) (s : State) (i : In) :
    (s.fsm = .cmd → (step c s i).2.cmdReady = i.cmdValid ∧ (step c s i).2.cyc = false ∧
      (i.cmdValid = true → (step c s i).1.fsm = (if i.cmdWe then Fsm.write else Fsm.read) ∧
        (step c s i).1.adr = (if c.byteAddressing then i.cmdAddr * (c.dw / 8) + c.base else i.cmdAddr + c.base / (c.dw / 8)) % 2 ^ 32)) ∧
    (s.fsm = .write → i.wValid = true → (step c s i).2.stb = true ∧ (step c s i).2.we = true ∧ (step c s i).2.datW = i.wData ∧
      (step c s i).2.sel = i.wWe ∧ (step c s i).2.adr = s.adr % 2 ^ c.adrBits ∧ (step c s i).2.wReady = i.ack ∧
      (step c s i).1.fsm = (if i.ack then Fsm.cmd else Fsm.write)) ∧
    (s.fsm = .read → (step c s i).2.stb = true ∧ (step c s i).2.we = false ∧ (step c s i).2.adr = s.adr % 2 ^ c.adrBits ∧
      (step c s i).2.rValid = i.ack ∧ (i.ack = true → (step c s i).2.rData = i.datR) ∧
      (step c s i).1.fsm = (if i.ack then Fsm.cmd else Fsm.read)) := by
  refine ⟨?_, ?_, ?_⟩
  · intro h; cases hv : i.cmdValid <;> simp [step, h, hv]
  · intro h hv; simp [step, h, hv]
  · intro h; simp [step, h]; intro ha; simp [ha]

end N2W

/-! ### non-vacuity -/
example : (W2N.step { aw := 8, offset := 0, wider := false } { fsm := .write } ⟨true, true, true, 3, 15, 7, 0⟩ ⟨false, true, false, 0⟩).2.ack = true := by
  simp [W2N.step, W2N.portReq]

end C10
