/-
C19 — the whole simulation PHY/DRAM model against an abstract multi-bank DRAM with data.

`simphy_refines_abstract_dram`: for every geometry, burst length, latency pair, mask granularity and initial memory image,
and for **every legal trace of unbounded length**, `SimPhy.step` (the transcription of litedram/phy/model.py that is
co-simulated against the real module) produces cycle by cycle the read strobe and read data of `aDramStep`: one abstract bank
per bank (`ABank`/`aStep`, Props/C19_Bank.lean), each performing the operation the cycle's phases ask of it
(`cmdFor`: the first phase that addresses the bank, decoded per JEDEC with A10 = auto-precharge / precharge-all), the write data
and masks of the cycle in which a burst is stored, and a `read_latency`-stage delay line.
A legal cycle (`cycLegal`): at most one ACT, one PRE(-all), one WR and one RD on the phases, at most one of them for any one
bank (this is what the one-hot `Case` routing of the model can carry: with two commands of a kind it silently drops both -
shown by `oneHot_spec`), and every bank's operation legal for its abstract bank (`legalOp`).  This covers every cycle the
litedram controller issues (C02: one row command and one column command per cycle, on different banks, or a refresh sequence).
 * `oneHot_spec`      the `Case(flags, {2**np: …})` routing selects phase i iff it is the only one with the flag up
 * `matches_cmdFor`   the strobes the model routes to a bank ask for exactly the operation `cmdFor` specifies
 * `rp_step`          one cycle: same outputs, correspondence (`RP`: `Rb` on every bank, same read pipeline) kept
 * `legalTraceB_sound` an executable form of the legality hypothesis (used for the example below)
Together with `C19.read_latency_exact` this is the data path the whole-core model of C01 rests on.
What remains outside: equality with the *independent* reference `Spec/DramData` as one theorem (`simphy_equals_reference_full`;
the check runs both on the same random legal traces) - `ADram` is a second, much smaller specification (40 lines) whose
per-bank step is spelled out independently of the model's arrays, pipelines and index arithmetic.
-/
import LitedramVerif.Props.C19_Bank
namespace C19
open SimPhy

/-! ### the one-hot `Case` routing -/
/-- at most one flag is up -/
def Uniq (flags : List Bool) : Prop :=
  ∀ i j, i < flags.length → j < flags.length → flags.getD i false = true → flags.getD j false = true → i = j

theorem oneHot_spec (flags : List Bool) (hu : Uniq flags) :
    (∀ i, oneHot flags = some i ↔ (i < flags.length ∧ flags.getD i false = true)) ∧
    (oneHot flags = none ↔ ∀ i, i < flags.length → flags.getD i false = false) := by
  have hmem : ∀ i, i ∈ (List.range flags.length).filter (fun i => flags.getD i false) ↔ (i < flags.length ∧ flags.getD i false = true) := by
    intro i; simp [List.mem_filter]
  have hnd : ((List.range flags.length).filter (fun i => flags.getD i false)).Nodup := List.Nodup.sublist List.filter_sublist List.nodup_range
  unfold oneHot
  rcases hL : (List.range flags.length).filter (fun i => flags.getD i false) with _ | ⟨a, _ | ⟨b, t⟩⟩
  · rw [hL] at hmem
    refine ⟨fun i => ?_, ?_⟩
    · simp only [reduceCtorEq, false_iff]
      intro h; exact absurd ((hmem i).mpr h) (by simp)
    · simp only [true_iff]
      intro i hi
      cases hf : flags.getD i false
      · rfl
      · exact absurd ((hmem i).mpr ⟨hi, hf⟩) (by simp)
  · rw [hL] at hmem
    have ha := (hmem a).mp (by simp)
    refine ⟨fun i => ?_, ?_⟩
    · simp only [Option.some.injEq]
      constructor
      · intro e; subst e; exact ha
      · intro h; have := (hmem i).mpr h; simp at this; exact this.symm
    · simp only [reduceCtorEq, false_iff]
      intro h; rw [h a ha.1] at ha; exact absurd ha.2 (by simp)
  · exfalso
    rw [hL] at hmem hnd
    have ha := (hmem a).mp (by simp)
    have hb := (hmem b).mp (by simp)
    have := hu a b ha.1 hb.1 ha.2 hb.2
    subst this
    simp at hnd
/-! ### which operation a cycle's phases ask of bank `nb` (specification-level decode) -/
def targets (p : Phase) (nb : Nat) : Bool :=
  ((isAct p || isWr p || isRd p) && p.bank == nb) || (isPre p && (p.bank == nb || p.address.testBit 10))

def opOfPhase (c : Cfg) (p : Phase) : BOp :=
  if isAct p then .act (p.address % 2 ^ c.rowbits) else if isPre p then .pre
  else if isWr p then .wr (colOf c p.address) (p.address.testBit 10)
  else if isRd p then .rd (colOf c p.address) (p.address.testBit 10) else .nop

def cmdFor (c : Cfg) (phases : List Phase) (nb : Nat) : BOp :=
  match (List.range phases.length).find? (fun i => targets (phases.getD i default) nb) with
  | some i => opOfPhase c (phases.getD i default)
  | none => .nop

/-- a cycle the model's routing handles: at most one command of each kind on the phases, at most one command for bank `nb` -/
structure CycOk (phases : List Phase) (nb : Nat) : Prop where
  uAct : Uniq (phases.map isAct)
  uPre : Uniq (phases.map isPre)
  uWr : Uniq (phases.map isWr)
  uRd : Uniq (phases.map isRd)
  one : ∀ i j, i < phases.length → j < phases.length → targets (phases.getD i default) nb = true →
    targets (phases.getD j default) nb = true → i = j

theorem getD_map_flag (phases : List Phase) (f : Phase → Bool) (i : Nat) (hi : i < phases.length) :
    (phases.map f).getD i false = f (phases.getD i default) := by
  simp [List.getD_eq_getElem?_getD, List.getElem?_map, List.getElem?_eq_getElem hi]

/-- the selected phase of a kind, if any -/
theorem sel_cases (phases : List Phase) (f : Phase → Bool) (hu : Uniq (phases.map f)) :
    oneHot (phases.map f) = none ∧ (∀ i, i < phases.length → f (phases.getD i default) = false) ∨
    ∃ j, oneHot (phases.map f) = some j ∧ j < phases.length ∧ f (phases.getD j default) = true := by
  obtain ⟨h1, h2⟩ := oneHot_spec _ hu
  cases h : oneHot (phases.map f) with
  | none =>
    left
    refine ⟨rfl, fun i hi => ?_⟩
    have := h2.mp h i (by simpa using hi)
    rwa [getD_map_flag _ _ _ hi] at this
  | some j =>
    right
    have := (h1 j).mp h
    simp only [List.length_map] at this
    exact ⟨j, rfl, this.1, by rw [← getD_map_flag phases f j this.1]; exact this.2⟩

theorem sel_of (phases : List Phase) (f : Phase → Bool) (hu : Uniq (phases.map f)) (i : Nat) (hi : i < phases.length)
    (hf : f (phases.getD i default) = true) : oneHot (phases.map f) = some i := by
  apply ((oneHot_spec _ hu).1 i).mpr
  exact ⟨by simpa using hi, by rw [getD_map_flag _ _ _ hi]; exact hf⟩

theorem kinds_excl (p : Phase) :
    (isAct p = true → isPre p = false ∧ isWr p = false ∧ isRd p = false) ∧
    (isPre p = true → isAct p = false ∧ isWr p = false ∧ isRd p = false) ∧
    (isWr p = true → isAct p = false ∧ isPre p = false ∧ isRd p = false) ∧
    (isRd p = true → isAct p = false ∧ isPre p = false ∧ isWr p = false) := by
  simp only [isAct, isPre, isWr, isRd]
  cases sel p <;> cases p.rasN <;> cases p.casN <;> cases p.weN <;> simp

theorem opOfPhase_kinds (c : Cfg) (p : Phase) :
    (opOfPhase c p).isAct = isAct p ∧ (opOfPhase c p).isPre = isPre p ∧ (opOfPhase c p).isWr = isWr p ∧
    (opOfPhase c p).isRd = isRd p := by
  obtain ⟨k1, k2, k3, k4⟩ := kinds_excl p
  cases hA : isAct p <;> cases hP : isPre p <;> cases hW : isWr p <;> cases hR : isRd p <;>
    simp_all [opOfPhase, BOp.isAct, BOp.isPre, BOp.isWr, BOp.isRd]

theorem opOfPhase_data (c : Cfg) (p : Phase) :
    (∀ r, opOfPhase c p = .act r → isAct p = true ∧ r = p.address % 2 ^ c.rowbits) ∧
    (∀ col ap, opOfPhase c p = .wr col ap → isWr p = true ∧ col = colOf c p.address) ∧
    (∀ col ap, opOfPhase c p = .rd col ap → isRd p = true ∧ col = colOf c p.address) := by
  refine ⟨?_, ?_, ?_⟩ <;> intros <;> rename_i hr <;> simp only [opOfPhase] at hr <;>
    (split at hr <;> (try cases hr) <;> (try (split at hr <;> (try cases hr) <;> (try (split at hr <;> (try cases hr) <;> (try (split at hr <;> (try cases hr)))))))) <;>
    simp_all

theorem tg_of (p : Phase) (nb : Nat) :
    (isAct p = true → (p.bank == nb) = true → targets p nb = true) ∧
    (isPre p = true → (p.bank == nb || p.address.testBit 10) = true → targets p nb = true) ∧
    (isWr p = true → (p.bank == nb) = true → targets p nb = true) ∧
    (isRd p = true → (p.bank == nb) = true → targets p nb = true) := by
  refine ⟨?_, ?_, ?_, ?_⟩ <;> intro h1 h2 <;> simp only [targets, h1, h2] <;> simp

/-- the strobes the model routes to bank `nb` ask for exactly the operation the cycle's phases specify -/
theorem matches_cmdFor (c : Cfg) (phases : List Phase) (nb : Nat) (h : CycOk phases nb) :
    Matches (bankIn c phases nb) (cmdFor c phases nb) := by
  have hA := sel_cases phases isAct h.uAct
  have hP := sel_cases phases isPre h.uPre
  have hW := sel_cases phases isWr h.uWr
  have hR := sel_cases phases isRd h.uRd
  -- a strobe of kind K that reaches bank nb comes from a phase that targets nb
  cases hfind : (List.range phases.length).find? (fun i => targets (phases.getD i default) nb) with
  | none =>
    have hnone : ∀ i, i < phases.length → targets (phases.getD i default) nb = false := by
      intro i hi
      have := List.find?_eq_none.mp hfind i (List.mem_range.mpr hi)
      simpa using this
    have hop : cmdFor c phases nb = .nop := by unfold cmdFor; rw [hfind]
    rw [hop]
    have hoff : ∀ (f : Phase → Bool) (tg : Phase → Bool), (∀ p, f p = true → tg p = true → targets p nb = true) →
        (oneHot (phases.map f) = none ∧ (∀ i, i < phases.length → f (phases.getD i default) = false) ∨
          ∃ j, oneHot (phases.map f) = some j ∧ j < phases.length ∧ f (phases.getD j default) = true) →
        (match oneHot (phases.map f) with | some i => tg (phases.getD i default) | none => false) = false := by
      intro f tg htg hc
      rcases hc with ⟨e, _⟩ | ⟨j, e, hj, hf⟩
      · rw [e]
      · rw [e]
        cases htj : tg (phases.getD j default) with
        | false => exact htj
        | true => have := htg _ hf htj; rw [hnone j hj] at this; cases this
    have sA := hoff isAct (fun p => p.bank == nb) (fun p => (tg_of p nb).1) hA
    have sP := hoff isPre (fun p => p.bank == nb || p.address.testBit 10) (fun p => (tg_of p nb).2.1) hP
    have sW := hoff isWr (fun p => p.bank == nb) (fun p => (tg_of p nb).2.2.1) hW
    have sR := hoff isRd (fun p => p.bank == nb) (fun p => (tg_of p nb).2.2.2) hR
    try simp only [] at sA sP sW sR
    constructor
    · exact sA
    · intro r hr; cases hr
    · exact sP
    · exact sW
    · intro col ap hr; cases hr
    · exact sR
    · intro col ap hr; cases hr
  | some i0 =>
    have hi0 : i0 < phases.length := List.mem_range.mp (List.mem_of_find?_eq_some hfind)
    have ht0 : targets (phases.getD i0 default) nb = true := by simpa using List.find?_some hfind
    have hop : cmdFor c phases nb = opOfPhase c (phases.getD i0 default) := by unfold cmdFor; rw [hfind]
    rw [hop]
    -- any phase that targets nb is phase i0
    have honly : ∀ j, j < phases.length → targets (phases.getD j default) nb = true → j = i0 :=
      fun j hj ht => h.one j i0 hj hi0 ht ht0
    obtain ⟨kA, kP, kW, kR⟩ := kinds_excl (phases.getD i0 default)
    -- the strobe of kind f is up iff phase i0 is of kind f
    have hstrobe : ∀ (f : Phase → Bool) (hu : Uniq (phases.map f)) (tg : Phase → Bool),
        (∀ p, f p = true → tg p = true → targets p nb = true) →
        (f (phases.getD i0 default) = true → tg (phases.getD i0 default) = true) →
        (match oneHot (phases.map f) with | some i => tg (phases.getD i default) | none => false) = f (phases.getD i0 default) := by
      intro f hu tg htg h0
      cases hf0 : f (phases.getD i0 default) with
      | true => rw [sel_of phases f hu i0 hi0 hf0]; exact h0 hf0
      | false =>
        rcases sel_cases phases f hu with ⟨e, _⟩ | ⟨j, e, hj, hf⟩
        · rw [e]
        · rw [e]
          cases htj : tg (phases.getD j default) with
          | false => exact htj
          | true =>
            have := honly j hj (htg _ hf htj)
            subst this; rw [hf0] at hf; cases hf
    have sA := hstrobe isAct h.uAct (fun p => p.bank == nb) (fun p h1 h2 => by simp [targets, h1, h2])
      (fun h1 => by have := ht0; simp only [targets, h1, (kA h1).1, (kA h1).2.1, (kA h1).2.2] at this; simpa using this)
    have sP := hstrobe isPre h.uPre (fun p => p.bank == nb || p.address.testBit 10) (fun p h1 h2 => by simp only [targets, h1, h2]; simp)
      (fun h1 => by have := ht0; simp only [targets, h1, (kP h1).1, (kP h1).2.1, (kP h1).2.2] at this; simpa using this)
    have sW := hstrobe isWr h.uWr (fun p => p.bank == nb) (fun p h1 h2 => by simp [targets, h1, h2])
      (fun h1 => by have := ht0; simp only [targets, h1, (kW h1).1, (kW h1).2.1, (kW h1).2.2] at this; simpa using this)
    have sR := hstrobe isRd h.uRd (fun p => p.bank == nb) (fun p h1 h2 => by simp [targets, h1, h2])
      (fun h1 => by have := ht0; simp only [targets, h1, (kR h1).1, (kR h1).2.1, (kR h1).2.2] at this; simpa using this)
    try simp only [] at sA sP sW sR
    obtain ⟨q1, q2, q3, q4⟩ := opOfPhase_kinds c (phases.getD i0 default)
    obtain ⟨d1, d2, d3⟩ := opOfPhase_data c (phases.getD i0 default)
    constructor
    · exact sA.trans q1.symm
    · intro r hr
      obtain ⟨hk, e⟩ := d1 r hr
      simp only [bankIn, sel_of phases isAct h.uAct i0 hi0 hk]; exact e.symm
    · exact sP.trans q2.symm
    · exact sW.trans q3.symm
    · intro col ap hr
      obtain ⟨hk, e⟩ := d2 col ap hr
      simp only [bankIn, sel_of phases isWr h.uWr i0 hi0 hk]; exact e.symm
    · exact sR.trans q4.symm
    · intro col ap hr
      obtain ⟨hk, e⟩ := d3 col ap hr
      simp only [bankIn, sel_of phases isRd h.uRd i0 hi0 hk]; exact e.symm

/-! ### the whole model against an abstract multi-bank DRAM -/
structure ADram where
  abanks : Nat → ABank
  rpipe : List (Bool × Nat)

/-- one controller cycle of the abstract DRAM: every bank performs the operation the phases ask of it (`cmdFor`), with the
write data / masks of this cycle; the read strobe and the (wired-OR of the) banks' read data enter a delay line of
`read_latency` stages -/
def aDramStep (c : Cfg) (k : Nat) (s : ADram) (phases : List Phase) : ADram × Out :=
  let word := wrdataOf c phases
  let mask := wrmaskOf c phases
  let st (nb : Nat) := aStep c.writeLatency (2 ^ k) (c.dataWidth / 8) (c.weGranularity != 0) (s.abanks nb) (cmdFor c phases nb) word mask
  let rd := (List.range c.nbanks).any fun nb => (cmdFor c phases nb).isRd
  let data := (List.range c.nbanks).foldl (fun acc nb => acc ||| (st nb).2.getD 0) 0
  let rstages := (rd, data) :: s.rpipe
  ({ abanks := fun nb => (st nb).1, rpipe := rstages.take c.readLatency },
   { rddataValid := (rstages.getD c.readLatency (false, 0)).1, rddata := (rstages.getD c.readLatency (false, 0)).2 })

/-- the correspondence of the two machines -/
structure RP (c : Cfg) (k : Nat) (ss : State) (s : ADram) : Prop where
  banks : ∀ nb, nb < c.nbanks → Rb c k ss.banks[nb]! (s.abanks nb)
  rpipe : ss.rpipe = s.rpipe

/-- a cycle the abstract DRAM accepts: the routing handles it (`CycOk`) and every bank's operation is legal -/
def cycLegal (c : Cfg) (k : Nat) (s : ADram) (phases : List Phase) : Prop :=
  ∀ nb, nb < c.nbanks → CycOk phases nb ∧ legalOp c (s.abanks nb) (cmdFor c phases nb)

theorem any_map_range {α : Type} (n : Nat) (f : Nat → α) (p : α → Bool) :
    ((Array.range n).map f).any p = (List.range n).any (fun i => p (f i)) := by
  rw [← Array.any_toList]; simp [List.any_map]; rfl

theorem foldl_map_range {α : Type} (n : Nat) (f : Nat → α) (g : Nat → α → Nat) (z : Nat) :
    ((Array.range n).map f).foldl g z = (List.range n).foldl (fun acc i => g acc (f i)) z := by
  rw [← Array.foldl_toList]; simp [List.foldl_map]

theorem foldl_congr_range (n : Nat) (f g : Nat → Nat → Nat) (z : Nat) (h : ∀ acc i, i < n → f acc i = g acc i) :
    (List.range n).foldl f z = (List.range n).foldl g z := by
  induction n generalizing z with
  | zero => rfl
  | succ n ih =>
    rw [List.range_succ, List.foldl_append, List.foldl_append, ih _ (fun acc i hi => h acc i (by omega))]
    simp [h _ n (by omega)]

theorem any_congr_range (n : Nat) (f g : Nat → Bool) (h : ∀ i, i < n → f i = g i) :
    (List.range n).any f = (List.range n).any g := by
  induction n with
  | zero => rfl
  | succ n ih =>
    rw [List.range_succ, List.any_append, List.any_append, ih (fun i hi => h i (by omega))]
    simp [h n (by omega)]

/-- what `SimPhy.step` outputs, in terms of `bankStep` -/
theorem step_out (c : Cfg) (s : State) (phases : List Phase) :
    let bs (nb : Nat) := bankStep c s.banks[nb]! (bankIn c phases nb) (wrdataOf c phases) (wrmaskOf c phases)
    let rd := (List.range c.nbanks).any fun nb => (bs nb).2.1
    let data := (List.range c.nbanks).foldl (fun acc nb => acc ||| (bs nb).2.2) 0
    (step c s phases).1.rpipe = ((rd, data) :: s.rpipe).take c.readLatency ∧
    (step c s phases).2.rddataValid = (((rd, data) :: s.rpipe).getD c.readLatency (false, 0)).1 ∧
    (step c s phases).2.rddata = (((rd, data) :: s.rpipe).getD c.readLatency (false, 0)).2 := by
  intro bs rd data
  have hr : rd = ((Array.range c.nbanks).map bs).any fun r => r.2.1 := (any_map_range c.nbanks bs (fun r => r.2.1)).symm
  have hd : data = ((Array.range c.nbanks).map bs).foldl (fun acc r => acc ||| r.2.2) 0 := (foldl_map_range c.nbanks bs (fun acc r => acc ||| r.2.2) 0).symm
  rw [hr, hd]
  exact ⟨rfl, rfl, rfl⟩

/-- **one controller cycle of the whole model** on a legal cycle: same outputs, correspondence kept -/
theorem rp_step (c : Cfg) (k : Nat) (hw : c.burst * c.nphases = 2 ^ k) (hk : k ≤ c.colbits) (ss : State) (s : ADram)
    (h : RP c k ss s) (phases : List Phase) (hl : cycLegal c k s phases) :
    RP c k (step c ss phases).1 (aDramStep c k s phases).1 ∧ (step c ss phases).2 = (aDramStep c k s phases).2 := by
  have hb : ∀ nb, nb < c.nbanks →
      Rb c k (bankStep c ss.banks[nb]! (bankIn c phases nb) (wrdataOf c phases) (wrmaskOf c phases)).1
        (aStep c.writeLatency (2 ^ k) (c.dataWidth / 8) (c.weGranularity != 0) (s.abanks nb) (cmdFor c phases nb) (wrdataOf c phases) (wrmaskOf c phases)).1 ∧
      (bankStep c ss.banks[nb]! (bankIn c phases nb) (wrdataOf c phases) (wrmaskOf c phases)).2.1 = (cmdFor c phases nb).isRd ∧
      (bankStep c ss.banks[nb]! (bankIn c phases nb) (wrdataOf c phases) (wrmaskOf c phases)).2.2 =
        (aStep c.writeLatency (2 ^ k) (c.dataWidth / 8) (c.weGranularity != 0) (s.abanks nb) (cmdFor c phases nb) (wrdataOf c phases) (wrmaskOf c phases)).2.getD 0 := by
    intro nb hnb
    exact rb_step_in c k hw hk _ _ (h.banks nb hnb) _ (hl nb hnb).2 _ (matches_cmdFor c phases nb (hl nb hnb).1) _ _
  obtain ⟨o1, o2, o3⟩ := step_out c ss phases
  have e1 : ((List.range c.nbanks).any fun nb => (bankStep c ss.banks[nb]! (bankIn c phases nb) (wrdataOf c phases) (wrmaskOf c phases)).2.1) =
      ((List.range c.nbanks).any fun nb => (cmdFor c phases nb).isRd) :=
    any_congr_range _ _ _ (fun i hi => (hb i hi).2.1)
  have e2 : ((List.range c.nbanks).foldl (fun acc nb => acc ||| (bankStep c ss.banks[nb]! (bankIn c phases nb) (wrdataOf c phases) (wrmaskOf c phases)).2.2) 0) =
      ((List.range c.nbanks).foldl (fun acc nb => acc ||| (aStep c.writeLatency (2 ^ k) (c.dataWidth / 8) (c.weGranularity != 0) (s.abanks nb) (cmdFor c phases nb) (wrdataOf c phases) (wrmaskOf c phases)).2.getD 0) 0) :=
    foldl_congr_range _ _ _ _ (fun acc i hi => by rw [(hb i hi).2.2])
  simp only [] at o1 o2 o3
  rw [e1, e2, h.rpipe] at o1 o2 o3
  refine ⟨⟨?_, ?_⟩, ?_⟩
  · intro nb hnb
    rw [step_bank c ss phases nb hnb]
    exact (hb nb hnb).1
  · exact o1
  · have : ∀ (a b : Out), a.rddataValid = b.rddataValid → a.rddata = b.rddata → a = b := by
      intro a b h1 h2; cases a; cases b; simp_all
    exact this _ _ o2 o3

/-! ### runs -/
def outsA (c : Cfg) (k : Nat) : ADram → List (List Phase) → List Out
  | _, [] => []
  | s, ph :: rest => (aDramStep c k s ph).2 :: outsA c k (aDramStep c k s ph).1 rest

def outsS (c : Cfg) : State → List (List Phase) → List Out
  | _, [] => []
  | s, ph :: rest => (step c s ph).2 :: outsS c (step c s ph).1 rest

def legalTrace (c : Cfg) (k : Nat) : ADram → List (List Phase) → Prop
  | _, [] => True
  | s, ph :: rest => cycLegal c k s ph ∧ legalTrace c k (aDramStep c k s ph).1 rest

/-- the abstract DRAM that corresponds to the model after reset -/
def aDramInit (c : Cfg) (k : Nat) (initMem : Nat → Array Nat) : ADram :=
  { abanks := fun nb => aInit c k (SimPhy.init c initMem).banks[nb]!, rpipe := List.replicate c.readLatency (false, 0) }

/-- **C19, the whole simulation model, every geometry / latency / initial image, every legal trace of unbounded length**
(any number of phases; up to one command of each kind per cycle, on different banks): the model's read strobe and read
data are, cycle by cycle, those of the abstract multi-bank DRAM -/
theorem simphy_refines_abstract_dram (c : Cfg) (k : Nat) (hw : c.burst * c.nphases = 2 ^ k) (hk : k ≤ c.colbits)
    (initMem : Nat → Array Nat) (tr : List (List Phase)) (hl : legalTrace c k (aDramInit c k initMem) tr) :
    outsS c (SimPhy.init c initMem) tr = outsA c k (aDramInit c k initMem) tr := by
  have h0 : RP c k (SimPhy.init c initMem) (aDramInit c k initMem) :=
    ⟨fun nb hnb => rb_init c k hw hk initMem nb hnb, rfl⟩
  have : ∀ (tr : List (List Phase)) (ss : State) (s : ADram), RP c k ss s → legalTrace c k s tr → outsS c ss tr = outsA c k s tr := by
    intro tr
    induction tr with
    | nil => intro _ _ _ _; rfl
    | cons ph rest ih =>
      intro ss s h hl
      obtain ⟨h1, h2⟩ := rp_step c k hw hk ss s h ph hl.1
      simp only [outsS, outsA]
      rw [h2, ih _ _ h1 hl.2]
  exact this tr _ _ h0 hl

/-! ### executable legality (for examples and for evaluating the hypothesis on concrete traces) -/
def uniqB (flags : List Bool) : Bool :=
  (List.range flags.length).all fun i => (List.range flags.length).all fun j =>
    !(flags.getD i false) || !(flags.getD j false) || i == j

theorem uniqB_sound (flags : List Bool) (h : uniqB flags = true) : Uniq flags := by
  intro i j hi hj h1 h2
  simp only [uniqB, List.all_eq_true, List.mem_range] at h
  have := h i hi j hj
  rw [h1, h2] at this
  simpa using this

def cycOkB (phases : List Phase) (nb : Nat) : Bool :=
  uniqB (phases.map isAct) && uniqB (phases.map isPre) && uniqB (phases.map isWr) && uniqB (phases.map isRd) &&
  ((List.range phases.length).all fun i => (List.range phases.length).all fun j =>
    !(targets (phases.getD i default) nb) || !(targets (phases.getD j default) nb) || i == j)

theorem cycOkB_sound (phases : List Phase) (nb : Nat) (h : cycOkB phases nb = true) : CycOk phases nb := by
  simp only [cycOkB, Bool.and_eq_true] at h
  obtain ⟨⟨⟨⟨h1, h2⟩, h3⟩, h4⟩, h5⟩ := h
  refine ⟨uniqB_sound _ h1, uniqB_sound _ h2, uniqB_sound _ h3, uniqB_sound _ h4, ?_⟩
  intro i j hi hj t1 t2
  simp only [List.all_eq_true, List.mem_range] at h5
  have := h5 i hi j hj
  rw [t1, t2] at this
  simpa using this

def legalOpB (c : Cfg) (a : ABank) : BOp → Bool
  | .nop => true
  | .act r => a.openRow.isNone && decide (r < 2 ^ c.rowbits) && a.inflight.all (· == none)
  | .pre => a.inflight.all (· == none)
  | .wr col _ => a.openRow.isSome && decide (col < 2 ^ c.colbits)
  | .rd col _ => a.openRow.isSome && decide (col < 2 ^ c.colbits)

theorem legalOpB_sound (c : Cfg) (a : ABank) (op : BOp) (h : legalOpB c a op = true) : legalOp c a op := by
  cases op with
  | nop => trivial
  | act r =>
    simp only [legalOpB, Bool.and_eq_true, decide_eq_true_eq, List.all_eq_true, beq_iff_eq] at h
    exact ⟨by simpa using h.1.1, h.1.2, h.2⟩
  | pre =>
    simp only [legalOpB, List.all_eq_true, beq_iff_eq] at h
    exact h
  | wr col ap => simpa [legalOpB, legalOp] using h
  | rd col ap => simpa [legalOpB, legalOp] using h

def legalTraceB (c : Cfg) (k : Nat) : ADram → List (List Phase) → Bool
  | _, [] => true
  | s, ph :: rest =>
    ((List.range c.nbanks).all fun nb => cycOkB ph nb && legalOpB c (s.abanks nb) (cmdFor c ph nb)) &&
    legalTraceB c k (aDramStep c k s ph).1 rest

theorem legalTraceB_sound (c : Cfg) (k : Nat) (tr : List (List Phase)) : ∀ s, legalTraceB c k s tr = true → legalTrace c k s tr := by
  induction tr with
  | nil => intro _ _; trivial
  | cons ph rest ih =>
    intro s h
    simp only [legalTraceB, Bool.and_eq_true, List.all_eq_true, List.mem_range] at h
    exact ⟨fun nb hnb => ⟨cycOkB_sound _ _ (h.1 nb hnb).1, legalOpB_sound _ _ _ (h.1 nb hnb).2⟩, ih _ h.2⟩

/-! ### non-vacuity: 2 phases, 2 banks; ACT b0 / ACT b1, WR b0 with data on the next cycle (write latency 1), a cycle with
a RD of b0 on phase 0 *and* a PRE of b1 on phase 1, then the read data appears `read_latency` = 2 cycles later -/
def cfgP : Cfg := { nphases := 2, nbanks := 2, rowbits := 2, colbits := 3, burst := 2, phaseBits := 8, writeLatency := 1,
                    readLatency := 2, weGranularity := 8 }
def idleP (d m : Nat) : Phase := { csN := 1, rasN := true, casN := true, weN := true, bank := 0, address := 0, wrdata := d, wrdataMask := m }
def cmdP (ras cas we : Bool) (bank address : Nat) : Phase :=
  { csN := 0, rasN := !ras, casN := !cas, weN := !we, bank := bank, address := address, wrdata := 0, wrdataMask := 0 }
def traceP : List (List Phase) :=
  [[cmdP true false false 0 1, idleP 0 0],            -- ACT bank 0 row 1
   [idleP 0 0, cmdP true false false 1 2],            -- ACT bank 1 row 2
   [cmdP false true true 0 4, idleP 0 0],             -- WR bank 0 col 4
   [idleP 0xAB 0, idleP 0xCD 0],                      -- its data: 0xCDAB
   [cmdP false true false 0 4, cmdP true false true 1 0],   -- RD bank 0 col 4 | PRE bank 1
   [idleP 0 0, idleP 0 0], [idleP 0 0, idleP 0 0]]

example : legalTrace cfgP 2 (aDramInit cfgP 2 fun _ => #[]) traceP :=
  legalTraceB_sound _ _ _ _ (by decide +kernel)
example : (outsA cfgP 2 (aDramInit cfgP 2 fun _ => #[]) traceP).map (fun o => (o.rddataValid, o.rddata)) =
    [(false, 0), (false, 0), (false, 0), (false, 0), (false, 0), (false, 0), (true, 0xCDAB)] := by decide +kernel

end C19
