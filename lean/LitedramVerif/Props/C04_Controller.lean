/-
C04 for the **composed controller** — bounded liveness of the refresh handshake ("refresh is never starved").

`refresh_grant_bound`: for every controller configuration with at least one bank machine (single- or multi-phase), every
reachable state of the composed controller model (N bank machines + command choosers + tRRD/tFAW/tCCD/tWTR gates +
READ/WRITE/RTW/WTR/REFRESH FSM + refresher, `Model/Controller.lean`) and **every** sequence of port inputs: once the
refresher requests the bus (`WAIT-BANK-MACHINES`), the multiplexer is in REFRESH — and hands the bus to the refresher —
within `CtlLive.psiMax c` cycles, whatever the ports do.  `psiMax` is an explicit function of the configuration:

    psiMax  = phiMax(A) + muxMax + 2
    phiMax  = 2·2^w(tWTP) + 2^w(tRAS) + 2^w(tRC) + tRAS + 2·A + 2·tRP + tRCD + 4      (BmLive.phiMax: one bank machine)
    A       = omegaGMax + 1        bound on the time a precharge/activate waits for the multiplexer:
              multi-phase   muxMax + (n − 1)·(tRRD + tFAW + 2) + 2^w(tRRD) + tFAW² + 1
              single-phase  muxMax + 2^w(tCCD) + 2^w(tRRD) + tFAW² + 1 + (n − 1) + n·(tRRD + tFAW + 1 + n)
    muxMax  = 2^w(tWTR) + 1 + read_latency

(2^w(t) = range of the timer's counter; n = number of bank machines).  Proof: `CtlLive.psi` is a potential on the states
of the composed model that strictly decreases on every clock edge until REFRESH is entered (`CtlLive.live_step`): per bank
machine `BmLive.phi` (at most one precharge and one activate are still issued, then tRAS / write recovery elapse), whose
fairness hypothesis is discharged by the multiplexer potentials `omegaB` / `omega1` (round-robin distance of the grant,
tRRD/tFAW/tCCD gates, FSM turn-around states).

What this does not cover: the tighter bound `C04.grantBound` that the check compares the *measured* latencies with
(`refresh_grant_bound_full` in Props/C04.lean stays unproved for that constant); the check evaluates `psiMax` for every
co-simulated configuration and reports the measured maximum against both.
-/
import LitedramVerif.Proofs.CtlLive
import LitedramVerif.Props.C02_Controller
namespace C04
open Controller Hw CtlInv CtlLive

theorem runCtl_eq (c : Controller.Cfg) (s : State) (l : List (Array BankIn)) : C04.runCtl c s l = CtlLive.runCtl c s l := rfl

theorem mok_reachable (c : Controller.Cfg) (hn : 0 < c.nbm) (pre : List (Array BankIn)) : MOk c (C04.runCtl c (init c) pre) := by
  have : ∀ s, MOk c s → MOk c (C04.runCtl c s pre) := by
    induction pre with
    | nil => intro s h; exact h
    | cons i rest ih => intro s h; exact ih _ (mok_step c s i h)
  exact this _ (mok_init c hn)

/-- **C04, composed controller, every configuration, every input sequence**: the refresher is handed the bus within
`psiMax c` cycles of requesting it. -/
theorem refresh_grant_bound (c : Controller.Cfg) (hn : 0 < c.nbm) (pre post : List (Array BankIn))
    (hw : (C04.runCtl c (init c) pre).rf.fsm = .waitBm) (hlen : psiMax c ≤ post.length) :
    ∃ k, k ≤ psiMax c ∧ (C04.runCtl c (C04.runCtl c (init c) pre) (post.take k)).fsm = .refresh := by
  have hk := mok_reachable c hn pre
  have hle := psi_le c _ (fun _ => 0) hk
  obtain ⟨k, hk1, hk2⟩ := reach_refresh c post _ _ (linv_zero c _ hk) hw (by omega)
  exact ⟨k, by omega, hk2⟩

/-- the same from any state meeting the invariant `MOk` (not only reachable ones), with the state-dependent bound -/
theorem refresh_grant_from (c : Controller.Cfg) (s : State) (hk : MOk c s) (post : List (Array BankIn))
    (hw : s.rf.fsm = .waitBm) (hlen : psi c s (fun _ => 0) ≤ post.length) :
    ∃ k, k ≤ psi c s (fun _ => 0) ∧ (C04.runCtl c s (post.take k)).fsm = .refresh :=
  reach_refresh c post _ _ (linv_zero c _ hk) hw hlen

/-! ### non-vacuity: on the configuration and traffic of `C02.cfgC` / `C02.insC` the refresher reaches WAIT-BANK-MACHINES
with traffic in flight, and REFRESH follows within the bound -/
def firstWait (c : Controller.Cfg) (ins : Nat → Array BankIn) (n : Nat) : Option Nat :=
  (List.range n).find? fun k => (C04.runCtl c (init c) ((List.range k).map ins)).rf.fsm == .waitBm

/-- after 49 cycles of `insC` traffic the refresher waits while the multiplexer is turning the bus round (RTW) and bank
machines are in tRCD / tRP chains; REFRESH is entered 6 cycles later; `psi` = 92 there, `psiMax` = 199 -/
example :
    let sW := C04.runCtl C02.cfgC (init C02.cfgC) ((List.range 49).map C02.insC)
    let post := (List.range 200).map fun j => C02.insC (49 + j)
    sW.rf.fsm = .waitBm ∧ sW.fsm = .rtw 0 ∧ (sW.bms[0]!).fsm = .trcd 0 ∧ (sW.bms[2]!).fsm = .trp 0 ∧
    (C04.runCtl C02.cfgC sW (post.take 5)).fsm ≠ .refresh ∧ (C04.runCtl C02.cfgC sW (post.take 6)).fsm = .refresh ∧
    psi C02.cfgC sW (fun _ => 0) = 92 ∧ psiMax C02.cfgC = 199 := by
  decide +kernel

end C04
