/-
C18 — DFI plumbing is transparent: injector mux and rate converter.
-/
import LitedramVerif.Model.Injector
import LitedramVerif.Model.RateConv
import LitedramVerif.Spec.RateSpec
namespace C18

section injector
open Injector

/-- **Hardware mode is transparent** (no clam shell): whatever the CSRs hold, for every value on every signal
the PHY side sees exactly the controller's signals in the same cycle, and the PHY's read data goes back
unchanged. -/
theorem injector_hw_transparent (c : Cfg) (q : Csr) (slave ext : M2S) (rd : S2M)
    (hsel : q.sel = true) (hc : c.clamShell = false) :
    mux c q false slave ext rd = (slave, rd, {}) := by
  simp [mux, hsel, hc]

/-- with clam shell the only difference is that the chip selects are replicated for the two halves -/
theorem injector_hw_transparent_clam (c : Cfg) (q : Csr) (slave ext : M2S) (rd : S2M)
    (hsel : q.sel = true) (hc : c.clamShell = true) :
    (mux c q false slave ext rd).1 =
      { slave with csN := slave.csN % 2 ^ c.nranks + (slave.csN % 2 ^ c.nranks) * 2 ^ c.nranks } ∧
    (mux c q false slave ext rd).2.1 = rd := by
  simp [mux, hsel, hc]

/-- **Software mode isolates the controller**: the PHY side does not depend on anything the controller or the
external interface drives, and the controller gets no read data. -/
theorem injector_sw_isolated (c : Cfg) (q : Csr) (e1 e2 : Bool) (s1 s2 x1 x2 : M2S) (rd : S2M) (hsel : q.sel = false) :
    (mux c q e1 s1 x1 rd).1 = (mux c q e2 s2 x2 rd).1 ∧ (mux c q e1 s1 x1 rd).2.1 = {} := by
  simp [mux, hsel]

/-- in software mode a command appears on the PHY side only in a cycle with the issue strobe -/
theorem injector_sw_idle_without_issue (c : Cfg) (q : Csr) (e : Bool) (s x : M2S) (rd : S2M)
    (hsel : q.sel = false) (hi : q.issue = false) :
    let m := (mux c q e s x rd).1
    m.casN = 1 ∧ m.rasN = 1 ∧ m.weN = 1 ∧ m.wrdataEn = 0 ∧ m.rddataEn = 0 := by
  simp [mux, hsel, phaseInj, hi]

end injector

section serializer
open RateConv

/-- run a serializer for `k` fast ticks without a slow tick -/
def fastTicks {α : Type} (ratio : Nat) : Nat → Ser α → Ser α
  | 0, s => s
  | k + 1, s => fastTicks ratio k (Ser.step ratio s false [])

theorem fastTicks_iD {α : Type} (ratio k : Nat) (s : Ser α) : (fastTicks ratio k s).iD = s.iD := by
  induction k generalizing s with
  | zero => rfl
  | succ k ih => simp only [fastTicks]; rw [ih]; simp [Ser.step]

theorem fastTicks_cnt {α : Type} (ratio k : Nat) (s : Ser α) (h : s.cnt + k < ratio) :
    (fastTicks ratio k s).cnt = s.cnt + k := by
  induction k generalizing s with
  | zero => rfl
  | succ k ih =>
    simp only [fastTicks]
    have hne : (s.cnt == ratio - 1) = false := by
      have : s.cnt ≠ ratio - 1 := by omega
      simpa using this
    rw [ih]
    · simp [Ser.step, hne]; omega
    · simp [Ser.step, hne]; omega

/-- **Serializer latency and order**: a word latched at a slow edge (when the counter is at `ratio − 1`, which
is where the aligned counter stands at every slow edge) is emitted slot by slot on the following `ratio`
fast cycles: slot `j` in the `j`-th cycle after the edge — each slot exactly once, in order. -/
theorem serializer_sequence {α : Type} [Inhabited α] (ratio : Nat) (hr : 0 < ratio) (s : Ser α) (hc : s.cnt = ratio - 1)
    (word : List α) (j : Nat) (hj : j < ratio) :
    (fastTicks ratio j (Ser.step ratio s true word)).out = word.getD j default := by
  have h0 : (Ser.step ratio s true word).cnt = 0 := by simp [Ser.step, hc]
  have hi : (Ser.step ratio s true word).iD = word := by simp [Ser.step]
  unfold Ser.out
  rw [fastTicks_iD, hi, fastTicks_cnt _ _ _ (by omega), h0, Nat.zero_add]

/-- and after `ratio` fast ticks the counter is back at `ratio − 1`: the alignment is an invariant -/
theorem serializer_realigned {α : Type} (ratio : Nat) (hr : 0 < ratio) (s : Ser α) (hc : s.cnt = ratio - 1) (word : List α) :
    (fastTicks ratio (ratio - 1) (Ser.step ratio s true word)).cnt = ratio - 1 := by
  have h0 : (Ser.step ratio s true word).cnt = 0 := by simp [Ser.step, hc]
  rw [fastTicks_cnt _ _ _ (by omega), h0, Nat.zero_add]

end serializer

/-! ### non-vacuity -/
example : (fastTicks 4 2 (RateConv.Ser.step 4 ⟨[0, 0, 0, 0], 3⟩ true [10, 11, 12, 13])).out = 12 := by decide

end C18
