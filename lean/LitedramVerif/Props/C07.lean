/-
C07: width-converted ports behave like one memory at the narrower or wider width.
-/
import LitedramVerif.Model.Adapter
import LitedramVerif.Spec.AdapterWitness
namespace C07
open Adapter

/-! ### the byte-addressed view: a wide word is the concatenation of its narrow chunks -/

def splitW (width : Nat) : Nat → Nat → List Nat
  | 0, _ => []
  | n + 1, w => (w % 2 ^ width) :: splitW width n (w / 2 ^ width)

def joinW (width : Nat) : List Nat → Nat
  | [] => 0
  | c :: cs => c + 2 ^ width * joinW width cs

theorem splitW_length (width n w : Nat) : (splitW width n w).length = n := by
  induction n generalizing w with
  | zero => rfl
  | succ n ih => simp [splitW, ih]

/-- joining the chunks of a word gives the word back (up to its `n·width` bits) -/
theorem joinW_splitW (width n w : Nat) : joinW width (splitW width n w) = w % 2 ^ (width * n) := by
  induction n generalizing w with
  | zero => simp [splitW, joinW, Nat.mod_one]
  | succ n ih =>
    simp only [splitW, joinW, ih]
    rw [Nat.mul_succ, Nat.pow_add, Nat.mul_comm (2 ^ (width * n)), Nat.mod_mul]

/-- splitting a word built from chunks gives the chunks back: narrow word `j` of the view is chunk `j` -/
theorem splitW_joinW (width : Nat) (cs : List Nat) (h : ∀ c ∈ cs, c < 2 ^ width) :
    splitW width cs.length (joinW width cs) = cs := by
  induction cs with
  | nil => rfl
  | cons c cs ih =>
    have hc : c < 2 ^ width := h c (by simp)
    simp only [List.length_cons, splitW, joinW]
    rw [Nat.add_mul_mod_self_left, Nat.mod_eq_of_lt hc, Nat.add_mul_div_left _ _ (Nat.two_pow_pos _),
      Nat.div_eq_of_lt hc, Nat.zero_add, ih (fun x hx => h x (by simp [hx]))]

/-- the address arithmetic of the view: narrow address `a` is chunk `a % ratio` of wide word `a / ratio` -/
theorem view_address (ratio a : Nat) : (a / ratio) * ratio + a % ratio = a := by
  rw [Nat.mul_comm]; exact Nat.div_add_mod a ratio

/-! ### down-converter: every accepted command becomes `ratio` commands, in order -/

def expand (c : Cfg) (addr : Nat) (we : Bool) : List (Nat × Bool) :=
  (List.range c.ratio).map (fun j => ((addr * c.ratio + j) % 2 ^ c.toAddrBits, we))

/-- commands the converter still owes the controller side in state `s` -/
def owed (c : Cfg) (s : DState) : List (Nat × Bool) :=
  if s.convert then (expand c s.cmdAddr s.cmdWe).drop s.cmdCount else []

/-- run the model; collect the user-side accepted commands and the controller-side issued commands -/
def drun (c : Cfg) : DState → List DIn → DState × List (Nat × Bool) × List (Nat × Bool)
  | s, [] => (s, [], [])
  | s, i :: is =>
    let o := (dstep c s i).2
    let rest := drun c (dstep c s i).1 is
    (rest.1,
     (if i.cmdValid && o.cmdReady then (i.cmdAddr, i.cmdWe) :: rest.2.1 else rest.2.1),
     (if o.toCmdValid && i.toCmdReady then (o.toCmdAddr, o.toCmdWe) :: rest.2.2 else rest.2.2))

def DInv (c : Cfg) (s : DState) : Prop := s.convert = true → s.cmdCount < c.ratio

theorem expand_drop (c : Cfg) (a : Nat) (we : Bool) (k : Nat) (hk : k < c.ratio) :
    (expand c a we).drop k = ((a * c.ratio + k) % 2 ^ c.toAddrBits, we) :: (expand c a we).drop (k + 1) := by
  unfold expand
  rw [← List.map_drop, ← List.map_drop, List.drop_eq_getElem_cons (by simpa using hk)]
  simp

theorem dstep_cmd (c : Cfg) (s : DState) (i : DIn) (hr : c.ratio = 2 ^ c.logRatio) (h : DInv c s) :
    let o := (dstep c s i).2
    let s' := (dstep c s i).1
    DInv c s' ∧
    (if o.toCmdValid && i.toCmdReady then (o.toCmdAddr, o.toCmdWe) :: owed c s' else owed c s') =
      owed c s ++ (if i.cmdValid && o.cmdReady then expand c i.cmdAddr i.cmdWe else []) := by
  have hpos : 0 < c.ratio := by rw [hr]; exact Nat.two_pow_pos _
  cases hc : s.convert
  · -- IDLE
    cases hv : i.cmdValid <;> simp [dstep, DInv, owed, hc, hv, hpos]
  · -- CONVERT
    have hk : s.cmdCount < c.ratio := h hc
    cases ht : i.toCmdReady
    · simp [dstep, DInv, owed, hc, ht, hk]
    · by_cases hl : s.cmdCount = c.ratio - 1
      · have : (expand c s.cmdAddr s.cmdWe).drop (c.ratio - 1 + 1) = [] := by
          simp [expand]; omega
        simp [dstep, DInv, owed, hc, ht, hl, expand_drop c s.cmdAddr s.cmdWe (c.ratio - 1) (by omega), this]
      · have hlt : s.cmdCount + 1 < c.ratio := by omega
        have hm : (s.cmdCount + 1) % 2 ^ c.logRatio = s.cmdCount + 1 := Nat.mod_eq_of_lt (by rw [← hr]; exact hlt)
        simp [dstep, DInv, owed, hc, ht, hl, hm, hlt, expand_drop c s.cmdAddr s.cmdWe s.cmdCount hk]

/-- **Down-converter, commands.** Under every schedule of user commands and controller-side acceptance, the commands
issued to the controller, followed by those still owed, are exactly the expansion `addr·ratio + 0 … ratio-1` (same
`we`) of the accepted user commands, in order: none lost, duplicated or reordered. -/
theorem down_commands (c : Cfg) (hr : c.ratio = 2 ^ c.logRatio) (ins : List DIn) (s : DState) (h : DInv c s) :
    (drun c s ins).2.2 ++ owed c (drun c s ins).1 =
      owed c s ++ (drun c s ins).2.1.flatMap (fun p => expand c p.1 p.2) := by
  induction ins generalizing s with
  | nil => simp [drun]
  | cons i is ih =>
    obtain ⟨hinv, hstep⟩ := dstep_cmd c s i hr h
    have := ih _ hinv
    simp only [drun]
    by_cases he : ((dstep c s i).2.toCmdValid && i.toCmdReady) = true <;>
    by_cases ha : (i.cmdValid && (dstep c s i).2.cmdReady) = true <;>
      simp only [he, ha, if_true, if_false, Bool.false_eq_true, List.cons_append, List.flatMap_cons, List.append_nil] at hstep ⊢
    · rw [this, ← List.cons_append, hstep]; simp [List.append_assoc]
    · rw [this, ← List.cons_append, hstep]
    · rw [this, hstep]; simp [List.append_assoc]
    · rw [this, hstep]

theorem down_commands_from_reset (c : Cfg) (hr : c.ratio = 2 ^ c.logRatio) (ins : List DIn) :
    (drun c (DState.init c) ins).2.2 ++ owed c (drun c (DState.init c) ins).1 =
      (drun c (DState.init c) ins).2.1.flatMap (fun p => expand c p.1 p.2) := by
  have := down_commands c hr ins (DState.init c) (by simp [DInv, DState.init])
  simpa [owed, DState.init] using this

/-! ### down-converter: write data beats -/

/-- collect the controller-side write beats: (chunk index used, chunk sent, user's word taken in this beat) -/
def dwrun (c : Cfg) : DState → List DIn → DState × List (Nat × Chunk × Bool)
  | s, [] => (s, [])
  | s, i :: is =>
    let o := (dstep c s i).2
    let rest := dwrun c (dstep c s i).1 is
    (rest.1, if o.toWValid && i.toWReady then (s.wmux, o.toWData, i.wValid && o.wReady) :: rest.2 else rest.2)

/-- **Down-converter, write data.** Counting the write beats taken by the controller from reset, beat number `k`
carries chunk `k mod ratio` (mirrored when `reverse`) of the word the user presents in that cycle, and the user's word
is taken exactly on the beats with `k mod ratio = ratio - 1`: a master that holds its word until taken sees it cut
into its `ratio` chunks, each sent once, in order. -/
theorem down_wdata_beats (c : Cfg) (hw : c.hasW = true) (hpos : 0 < c.ratio) (ins : List DIn) (s : DState) (k : Nat)
    (hk : s.wmux = k % c.ratio) :
    ∀ n (b : Nat × Chunk × Bool), (dwrun c s ins).2[n]? = some b →
      b.1 = (k + n) % c.ratio ∧ b.2.2 = decide ((k + n) % c.ratio = c.ratio - 1) ∧
      ∃ i ∈ ins, b.2.1 = downData c.ratio c.reverse ((k + n) % c.ratio) i.wData := by
  induction ins generalizing s k with
  | nil => intro n b h; simp [dwrun] at h
  | cons i is ih =>
    intro n b h
    simp only [dwrun] at h
    by_cases hb : ((dstep c s i).2.toWValid && i.toWReady) = true
    · have hv : i.wValid = true ∧ i.toWReady = true := by simpa [dstep, hw] using hb
      have hnext : (dstep c s i).1.wmux = (k + 1) % c.ratio := by
        simp only [dstep, hw, downStep, hv.1, hv.2, if_true, Bool.and_self, hk]
        by_cases hl : k % c.ratio = c.ratio - 1
        · have : (k + 1) % c.ratio = 0 := by
            rw [Nat.add_mod, hl]
            by_cases h1 : c.ratio = 1
            · simp [h1]
            · rw [Nat.mod_eq_of_lt (by omega : 1 < c.ratio)]
              have : c.ratio - 1 + 1 = c.ratio := by omega
              rw [this, Nat.mod_self]
          simp [hl, this]
        · have hlt : k % c.ratio < c.ratio := Nat.mod_lt _ hpos
          have : (k + 1) % c.ratio = k % c.ratio + 1 := by
            rw [Nat.add_mod]
            by_cases h1 : c.ratio = 1
            · omega
            · rw [Nat.mod_eq_of_lt (by omega : 1 < c.ratio), Nat.mod_eq_of_lt (by omega)]
          simp [hl, this]
      simp only [hb, if_true] at h
      cases n with
      | zero =>
        simp only [List.getElem?_cons_zero, Option.some.injEq] at h
        subst h
        refine ⟨by simpa using hk, ?_, i, by simp, ?_⟩
        · simp only [dstep, hw, hv.1, hv.2, hk, Bool.true_and, Bool.and_true, Nat.add_zero]
          by_cases hl : k % c.ratio = c.ratio - 1 <;> simp [hl]
        · simp [dstep, hk]
      | succ n =>
        simp only [List.getElem?_cons_succ] at h
        obtain ⟨h1, h2, j, hj, h3⟩ := ih _ (k + 1) hnext n b h
        have e : k + 1 + n = k + (n + 1) := by omega
        rw [e] at h1 h2 h3
        exact ⟨h1, h2, j, by simp [hj], h3⟩
    · have hnext : (dstep c s i).1.wmux = k % c.ratio := by
        have : (i.wValid && i.toWReady) = false := by simpa [dstep, hw] using hb
        simp [dstep, hw, downStep, this, hk]
      simp only [hb] at h
      obtain ⟨h1, h2, j, hj, h3⟩ := ih _ k hnext n b (by simpa using h)
      exact ⟨h1, h2, j, by simp [hj], h3⟩

/-! ### up-converter: which chunks of the wide word a write may touch -/

theorem place_lt (ratio : Nat) (rev : Bool) (j : Nat) (h : j < ratio) : place ratio rev j < ratio := by
  unfold place; split <;> omega

/-! ### down-converter: read data regrouping -/

theorem place_inj (ratio : Nat) (rev : Bool) (i j : Nat) (hi : i < ratio) (hj : j < ratio)
    (h : place ratio rev i = place ratio rev j) : i = j := by
  unfold place at h; split at h <;> omega

/-- the read-data regrouping register of the down-converter: `ws` = words taken from the controller so far,
`nd` = wide words delivered to the user so far -/
def RInv (c : Cfg) (u : UpS) (ws : List Nat) (nd : Nat) : Prop :=
  u.regs.length = c.ratio ∧ u.demux < c.ratio ∧
  (if u.strobeAll then
     u.demux = 0 ∧ ws.length = c.ratio * (nd + 1) ∧
     ∀ i, i < c.ratio → (u.regs.getD (place c.ratio c.reverse i) (0, 0)).1 = ws.getD (c.ratio * nd + i) 0
   else
     ws.length = c.ratio * nd + u.demux ∧
     ∀ i, i < u.demux → (u.regs.getD (place c.ratio c.reverse i) (0, 0)).1 = ws.getD (c.ratio * nd + i) 0)

theorem rinv_init (c : Cfg) (h : 0 < c.ratio) : RInv c (UpS.init c.ratio) [] 0 := by
  simp [RInv, UpS.init, h]

/-- one clock with the user ready: a controller word is always taken; a wide word is delivered exactly when the
register is complete, and it is the next `ratio` controller words, word `i` of the group in chunk `place i` -/
theorem rup_step (c : Cfg) (u : UpS) (ws : List Nat) (nd : Nat) (v : Bool) (d : Nat) (h2 : 2 ≤ c.ratio)
    (h : RInv c u ws nd) :
    u.sinkReady true = true ∧
    RInv c (u.step c.ratio c.reverse v (d, 0) true) (if v then ws ++ [d] else ws) (if u.strobeAll then nd + 1 else nd) ∧
    (u.strobeAll = true → ∀ i, i < c.ratio →
      (u.regs.map (·.1)).getD (place c.ratio c.reverse i) 0 = ws.getD (c.ratio * nd + i) 0) := by
  obtain ⟨hlen, hdm, hrest⟩ := h
  refine ⟨by simp [UpS.sinkReady], ?_, ?_⟩
  · have hget_set_self : ∀ (k : Nat), k < c.ratio →
        ((u.regs.set (place c.ratio c.reverse k) (d, 0)).getD (place c.ratio c.reverse k) (0, 0)).1 = d := by
      intro k hk
      have hp := place_lt c.ratio c.reverse k hk
      rw [List.getD_eq_getElem?_getD, List.getElem?_set_self (by omega)]
      rfl
    have hget_set_ne : ∀ (k i : Nat), k < c.ratio → i < c.ratio → i ≠ k →
        (u.regs.set (place c.ratio c.reverse k) (d, 0)).getD (place c.ratio c.reverse i) (0, 0) =
          u.regs.getD (place c.ratio c.reverse i) (0, 0) := by
      intro k i hk hi hne
      have : place c.ratio c.reverse k ≠ place c.ratio c.reverse i := fun e => hne (place_inj _ _ _ _ hi hk e.symm)
      rw [List.getD_eq_getElem?_getD, List.getElem?_set_ne this, ← List.getD_eq_getElem?_getD]
    cases hv : v
    · -- nothing offered: a pending wide word (if any) is delivered
      cases hs : u.strobeAll
      · simp only [hs, Bool.false_eq_true, if_false] at hrest ⊢
        simpa [RInv, UpS.step, UpS.sinkReady, hs, hlen, hdm] using hrest
      · simp only [hs, if_true] at hrest ⊢
        obtain ⟨h0, hl, _⟩ := hrest
        simp [RInv, UpS.step, UpS.sinkReady, hs, hlen, h0, hl]
        omega
    · simp only [if_true]
      by_cases hlast : u.demux = c.ratio - 1
      · -- the word completes the register
        have hsf : u.strobeAll = false := by
          cases hs : u.strobeAll
          · rfl
          · simp only [hs, if_true] at hrest; omega
        simp only [hsf, Bool.false_eq_true, if_false] at hrest ⊢
        obtain ⟨hl, hreg⟩ := hrest
        have hstep : u.step c.ratio c.reverse true (d, 0) true =
            { demux := 0, strobeAll := true, regs := u.regs.set (place c.ratio c.reverse u.demux) (d, 0) } := by
          simp [UpS.step, UpS.sinkReady, hsf, hlast]
        rw [hstep]; unfold RInv; dsimp only
        refine ⟨by simp [hlen], by omega, ?_⟩
        simp only [if_true]
        refine ⟨trivial, by rw [List.length_append, hl, hlast]; simp; rw [Nat.mul_add]; omega, ?_⟩
        intro i hi
        by_cases hid : i = u.demux
        · subst hid
          rw [hget_set_self _ hdm, List.getD_eq_getElem?_getD, ← hl, List.getElem?_append_right (Nat.le_refl _)]
          simp
        · rw [hget_set_ne _ _ hdm hi hid, hreg i (by omega), List.getD_eq_getElem?_getD, List.getD_eq_getElem?_getD,
            List.getElem?_append_left (by omega)]
      · have hstep : u.step c.ratio c.reverse true (d, 0) true =
            { demux := u.demux + 1, strobeAll := false, regs := u.regs.set (place c.ratio c.reverse u.demux) (d, 0) } := by
          simp [UpS.step, UpS.sinkReady, hlast]
        rw [hstep]; unfold RInv; dsimp only
        refine ⟨by simp [hlen], by omega, ?_⟩
        simp only [Bool.false_eq_true, if_false]
        cases hs : u.strobeAll
        · simp only [hs, Bool.false_eq_true, if_false] at hrest ⊢
          obtain ⟨hl, hreg⟩ := hrest
          refine ⟨by rw [List.length_append, hl]; simp; omega, ?_⟩
          intro i hi
          by_cases hid : i = u.demux
          · subst hid
            rw [hget_set_self _ hdm, List.getD_eq_getElem?_getD, ← hl, List.getElem?_append_right (Nat.le_refl _)]
            simp
          · rw [hget_set_ne _ _ hdm (by omega) hid, hreg i (by omega), List.getD_eq_getElem?_getD, List.getD_eq_getElem?_getD,
              List.getElem?_append_left (by omega)]
        · simp only [hs, if_true] at hrest ⊢
          obtain ⟨h0, hl, _⟩ := hrest
          refine ⟨by rw [List.length_append, hl, h0]; simp, ?_⟩
          intro i hi
          have hi0 : i = 0 := by omega
          subst hi0
          have := hget_set_self 0 (by omega)
          rw [h0, this, List.getD_eq_getElem?_getD, Nat.add_zero, ← hl, List.getElem?_append_right (Nat.le_refl _)]
          simp
  · intro hs i hi
    simp only [hs, if_true] at hrest
    have := hrest.2.2 i hi
    have hp := place_lt c.ratio c.reverse i hi
    simp only [List.getD_eq_getElem?_getD, List.getElem?_map] at this ⊢
    rw [← this]
    cases hg : u.regs[place c.ratio c.reverse i]? <;> simp [hg]

/-- run the down-converter; collect the controller read words taken and the wide words delivered to the user -/
def drrun (c : Cfg) : DState → List DIn → List Nat × List (List Nat)
  | _, [] => ([], [])
  | s, i :: is =>
    let o := (dstep c s i).2
    let rest := drrun c (dstep c s i).1 is
    ((if i.toRValid && o.toRReady then i.toRData :: rest.1 else rest.1),
     (if o.rValid && i.rReady then o.rData :: rest.2 else rest.2))

/-- **Down-converter, read data.** With a user that always accepts read data, under every controller-side timing:
every controller read word is taken (none can be lost), and the `m`-th wide word delivered to the user consists of
controller words `ratio·m … ratio·m + ratio − 1`, word `i` of the group in chunk `place i` - regrouped in order,
none dropped or repeated. -/
theorem down_rdata_regrouped (c : Cfg) (h2 : 2 ≤ c.ratio) (hr : c.hasR = true) (ins : List DIn)
    (hrdy : ∀ i ∈ ins, i.rReady = true) (s : DState) (ws0 : List Nat) (nd0 : Nat) (h : RInv c s.rup ws0 nd0) :
    ∀ m, m < (drrun c s ins).2.length → ∀ i, i < c.ratio →
      ((drrun c s ins).2.getD m []).getD (place c.ratio c.reverse i) 0 =
        (ws0 ++ (drrun c s ins).1).getD (c.ratio * (nd0 + m) + i) 0 := by
  induction ins generalizing s ws0 nd0 with
  | nil => intro m hm; simp [drrun] at hm
  | cons e es ih =>
    intro m hm i hi
    have hre : e.rReady = true := hrdy e (by simp)
    obtain ⟨hsr, hinv, hdel⟩ := rup_step c s.rup ws0 nd0 e.toRValid e.toRData h2 h
    have hrup' : (dstep c s e).1.rup = s.rup.step c.ratio c.reverse e.toRValid (e.toRData, 0) true := by
      simp [dstep, hr, hre]
    have hready : (dstep c s e).2.toRReady = true := by simp [dstep, hr, hre, hsr]
    have hvalid : (dstep c s e).2.rValid = s.rup.strobeAll := by simp [dstep, hr]
    have hdata : (dstep c s e).2.rData = s.rup.regs.map (·.1) := by simp [dstep]
    rw [← hrup'] at hinv
    have ih' := ih (fun j hj => hrdy j (by simp [hj])) (dstep c s e).1 _ _ hinv
    simp only [drrun, hready, Bool.and_true, hvalid, hre, hdata] at hm ⊢
    -- the words taken so far, re-associated
    have hassoc : (if e.toRValid = true then ws0 ++ [e.toRData] else ws0) ++ (drrun c (dstep c s e).1 es).1 =
        ws0 ++ (if e.toRValid = true then e.toRData :: (drrun c (dstep c s e).1 es).1 else (drrun c (dstep c s e).1 es).1) := by
      cases e.toRValid <;> simp
    rw [hassoc] at ih'
    cases hs : s.rup.strobeAll
    · simp only [hs, Bool.false_eq_true, if_false] at hm ih' ⊢
      exact ih' m hm i hi
    · simp only [hs, if_true] at hm ih' ⊢
      cases m with
      | zero =>
        simp only [List.getD_cons_zero, Nat.add_zero]
        rw [hdel hs i hi]
        have hl : ws0.length = c.ratio * (nd0 + 1) := by
          have := h.2.2; simp only [hs, if_true] at this; exact this.2.1
        rw [List.getD_eq_getElem?_getD, List.getD_eq_getElem?_getD, List.getElem?_append_left (by rw [hl, Nat.mul_add]; omega)]
      | succ m =>
        simp only [List.length_cons] at hm
        have := ih' m (by omega) i hi
        simp only [List.getD_cons_succ]
        rw [this]
        have e1 : nd0 + 1 + m = nd0 + (m + 1) := by omega
        rw [e1]

/-- **Up-converter, byte enables.** In the wide word handed to the controller, a chunk whose bit is not in the latched
select mask has all its byte enables cleared, and a selected chunk keeps the user's byte enables and data: a write can
only update bytes of the narrow words that were part of the burst, under the user's own enables. -/
theorem maskWide_chunk (c : Cfg) (wsel : Nat) (w : List Chunk) (j : Nat) (hj : j < c.ratio) :
    (maskWide c wsel w)[j]? =
      some ((w.getD j (0, 0)).1, if wsel.testBit (place c.ratio c.reverse j) then (w.getD j (0, 0)).2 else 0) := by
  simp [maskWide, hj]

theorem maskWide_unselected (c : Cfg) (wsel : Nat) (w : List Chunk) (j : Nat) (hj : j < c.ratio)
    (hs : wsel.testBit (place c.ratio c.reverse j) = false) :
    ((maskWide c wsel w).getD j (0, 0)).2 = 0 := by
  simp [List.getD, maskWide_chunk c wsel w j hj, hs]

/-- the select mask of a burst is the set of the low address parts of its commands: first command … -/
theorem sel_first (c : Cfg) (s : UState) (i : UIn) (hn : s.fsm = .new) (ha : (ustep c s i).2.cmdReady = true) :
    (ustep c s i).1.sel = 2 ^ (i.cmdAddr % 2 ^ c.logRatio) ∧ (ustep c s i).1.cmdAddr = i.cmdAddr ∧
    (ustep c s i).1.cmdWe = i.cmdWe := by
  have : (i.cmdValid && !s.readLock) = true := by simpa [ustep, hn] using ha
  simp [ustep, hn, this]

/-- … and every further command accepted while filling adds its bit, and is accepted only if it has the same type and
the same wide address as the burst (so a burst never mixes reads with writes or two wide words) -/
theorem sel_fill (c : Cfg) (s : UState) (i : UIn) (hf : s.fsm = .fill) (ha : (ustep c s i).2.cmdReady = true) :
    (ustep c s i).1.sel = s.sel ||| 2 ^ (i.cmdAddr % 2 ^ c.logRatio) ∧
    i.cmdWe = s.cmdWe ∧ i.cmdAddr / 2 ^ c.logRatio = s.cmdAddr / 2 ^ c.logRatio ∧ (ustep c s i).1.fsm = .fill := by
  simp only [ustep, hf] at ha ⊢
  simp only [Bool.and_eq_true, Bool.not_eq_true', Bool.or_eq_false_iff] at ha
  obtain ⟨⟨⟨⟨⟨h1, h2⟩, h3⟩, h4⟩, h5⟩, hv⟩ := ha
  simp only [bne_eq_false_iff_eq] at h1 h2
  simp_all

/-! ### the property is false of the up-converter for non-ascending addresses inside one wide word (known finding) -/
open AdapterWitness in
/-- **Descending addresses are misplaced.** The user writes 0xAA to address 5 and then 0xBB to address 4; both are
accepted (cycles 0, 1), one write command for wide word 2 is issued (cycle 5), and the word handed to the controller
has 0xAA in chunk 0 (= address 4) and 0xBB in chunk 1 (= address 5): swapped.  The converter consumes the write data in
chunk order, not in command order. The harness replays these inputs on the real converter on every run. -/
theorem up_descending_misplaced :
    (outs cfg (UState.init cfg) descending).map digest =
      [(true, false, 0, false, []), (true, false, 0, false, []), (false, false, 0, false, []), (false, false, 0, false, []),
       (false, false, 0, false, []), (false, true, 2, false, []),
       (false, false, 0, true, [(0xAA, 1), (0xBB, 1)]), (false, false, 0, true, [(0xAA, 1), (0xBB, 1)])] := by
  rfl

open AdapterWitness in
/-- **Repeated addresses desynchronise the data stream.** Two writes to address 4 (0x11, 0x22) set one select bit, so
only one data word is consumed; the later write of 0x33 to address 6 (wide word 3, cycle 10) is then sent with the stale
0x22. -/
theorem up_repeated_misaligned :
    ((outs cfg (UState.init cfg) repeated).map digest).drop 10 =
      [(false, true, 3, true, [(0x11, 1), (0, 0)]), (false, false, 0, true, [(0x11, 1), (0, 0)]),
       (false, false, 0, true, [(0x22, 1), (0, 0)]), (false, false, 0, true, [(0x22, 1), (0, 0)]),
       (false, false, 0, true, [(0x22, 1), (0, 0)])] := by
  rfl

/-! The full-strength statement of C07 - for every master obeying the port rules and every controller-side timing the
user port is a byte-addressed view of the controller-side memory - is NOT proved here: for the up-converter it is
refuted by the two witnesses above (known finding), and for ascending streams and the down-converter it is evaluated on
the real converters by the harness with the PortMemory specification (Spec/PortMemory.lean) rather than proved. What is
proved for every schedule: the down-converter's command expansion and write-beat order, the up-converter's select-mask
construction and byte-enable masking, and the chunk/word view arithmetic. -/

/-! ### non-vacuity -/
example : DInv { ratio := 4, toAddrBits := 6, logRatio := 2 } (DState.init { ratio := 4, toAddrBits := 6, logRatio := 2 }) := by
  simp [DInv, DState.init]
example : (4 : Nat) = 2 ^ 2 := by decide

end C07
