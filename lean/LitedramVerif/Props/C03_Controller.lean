/-
C03 for the **composed controller** — the top-level timing theorem, in controller cycles.

`controller_timing_ok`: for every controller configuration meeting `WF3` and **every** sequence of bank-machine inputs,
the commands the composed controller model issues (N bank machines + choosers + multiplexer FSM + refresher,
`Model/Controller.lean`) are accepted by the specification monitor `Spec/TimingMon.lean` run with the controller's own
timing settings: tRCD, tRP (after PRE, after PREA, after an auto-precharge: tRP after RD+AP, tWTP+tRP after WR+AP,
tRAS+tRP after the ACT), tRC, tRAS and tWTP before PRE / PREA, tRRD, at most four ACT per tFAW window, tCCD, tWTR
(WR→RD), tRFC after REF, tZQCS after ZQC, tRP between PREA and REF/ZQC.

Distances are in controller cycles between the cycles in which the commands are issued (accepted by the multiplexer /
taken from the refresher); every command reaches the DFI pins exactly one register stage later (the steerer), on the
phase `C02.controller_dfi_legal` describes.  `C03.worst_phase` turns a distance of `c` controller cycles between commands on
arbitrary phases into ≥ c·n − (n−1) DRAM clocks, and C16 (`margin_covers_worst_phase`, `ck_span`) shows that the cycle
counts handed to the controller make this cover the datasheet's ns and ck values.

Hypotheses (`WF3`, configuration only): `WF2` of C02; one tRP for bank machines and refresher; tRP ≥ 1; and
`twtr ≤ tRP + tRFC`: a write followed by a refresh followed by a read by-passes the WTR state of the multiplexer, so the
write-to-read turn-around is then only guaranteed by the duration of the refresh (true of every real configuration:
tRFC is ≥ 60 ns, tWTR 7.5 ns).
Not covered: the composition with the datasheet values themselves is C16's; read-to-precharge (tRTP) is not a rule of the
property and the controller has no such timer.
-/
import LitedramVerif.Proofs.CtlTiming
import LitedramVerif.Props.C02_Controller
namespace C03
open Controller CtlInv CtlTiming TimingMon

/-- the commands issued cycle by cycle -/
def issueTrace (c : Controller.Cfg) : State → List (Array BankIn) → List (List Ev)
  | _, [] => []
  | s, ins :: rest => evsOf c s ins :: issueTrace c (step c s ins).1 rest

theorem timing_run_from (c : Controller.Cfg) (hwf : WF3 c) (inputs : List (Array BankIn)) :
    ∀ (s : State) (g : Ghost) (m : St), CInv c s g → TInv c s g m → (∀ ins ∈ inputs, InsOk c ins) →
      ∃ m', TimingMon.run (reqOf c) m (issueTrace c s inputs) = some m' := by
  induction inputs with
  | nil => intro s g m _ _ _; exact ⟨m, rfl⟩
  | cons ins rest ih =>
    intro s g m hc ht hins
    have hc' := (cinv_step c hwf.wf2.base s g ins (hins ins (by simp)) hc).1
    have hall := all_allowed c hwf s g ins m hc ht
    obtain ⟨ht', hwin⟩ := tinv_step c hwf s g ins m hc hc' ht
    obtain ⟨m', hm'⟩ := ih (step c s ins).1 (gNext c s g ins) _ hc' ht' (fun x hx => hins x (by simp [hx]))
    refine ⟨m', ?_⟩
    have hex := evs_exclusive c hwf.wf2.abits s ins
    simp only [issueTrace, TimingMon.run, TimingMon.step, hall, hex, Bool.and_self, if_true, hwin, decide_true]
    exact hm'

/-- **C03, composed controller, every configuration, every input sequence, unbounded time** (controller-cycle layer). -/
theorem controller_timing_ok (c : Controller.Cfg) (hwf : WF3 c) (inputs : List (Array BankIn))
    (hins : ∀ ins ∈ inputs, InsOk c ins) :
    ∃ m, TimingMon.run (reqOf c) (St.init (reqOf c)) (issueTrace c (init c) inputs) = some m :=
  timing_run_from c hwf inputs (init c) g0 _ (cinv_init c hwf.wf2.base) (tinv_init c hwf) hins

/-! ### non-vacuity: the configuration of `C02.cfgC` meets `WF3`, and the monitor sees commands on a concrete run -/
example : WF3 C02.cfgC :=
  { wf2 := { base := { nbm := by decide, rf := ⟨by decide, by decide, by intro z h; cases h; decide, by decide, by decide, by decide⟩,
                       hrow := by decide },
             nbm := by decide, abits := by decide, nph := by decide, rdp := by decide, wrp := by decide },
    rp := rfl, wtr := by decide, rpPos := by decide }

example : ((issueTrace C02.cfgC (init C02.cfgC) ((List.range 120).map C02.insC)).flatten.length ≥ 40) ∧
    (TimingMon.run (reqOf C02.cfgC) (St.init (reqOf C02.cfgC))
      (issueTrace C02.cfgC (init C02.cfgC) ((List.range 120).map C02.insC))).isSome = true := by
  decide +kernel

/-- the monitor's same-cycle rule: an ACT and a RD of the same bank in ONE controller cycle (distance 0 < tRCD) are rejected even
though each of them is allowed with respect to the earlier cycles; commands of different banks may share a cycle; and every cycle
of the controller passes it (`evs_exclusive`, used in `timing_run_from`) -/
example : (TimingMon.step (reqOf C02.cfgC) (St.init (reqOf C02.cfgC)) [.act 0, .rd 0 false]).isNone = true ∧
    (TimingMon.step (reqOf C02.cfgC) (St.init (reqOf C02.cfgC)) [.act 0, .act 1]).isNone = true ∧
    (TimingMon.step (reqOf C02.cfgC) (St.init (reqOf C02.cfgC)) [.act 0, .rd 1 false]).isSome = true := by
  decide +kernel

end C03
