/- C05 — theorems follow -/
import LitedramVerif.Model.Core
import LitedramVerif.Spec.PortMemory
namespace C05
theorem placeholder : True := trivial
end C05
