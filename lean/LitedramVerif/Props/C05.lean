/-
C05 — no deadlock, no starved port, no starved direction.

Proved here, for every size and configuration (component theorems of DESIGN §6 C05):
 * `rr_fair`               round-robin (SP_CE): a requester that keeps requesting gets the grant after at most
                           n − 1 enabled arbitrations, whatever the other requesters do
 * `arbiter_moves_only_when_idle` (= C01.grant_stable_while_busy) the crossbar never takes a bank away from a
                           master with commands in flight
 * `anti_starvation_fires` with the timeout enabled, the direction timer reaches 0 after at most `timeout`
                           cycles spent in one direction: the READ/WRITE state is left within `read_time` /
                           `write_time` cycles once the other direction is waiting
The composed latency bound `request_latency_bounded_full` (every offered command accepted and served within
Bound(cfg)) is stated, **not proved**; the check measures every latency on implementation traces against
Bound(cfg), and the known finding `c05-same-bank-lockout` shows the bound is false when one master
monopolises a bank.
-/
import LitedramVerif.Model.Core
import LitedramVerif.Props.C01
namespace C05
open Hw

/-! ### round-robin fairness -/

/-- cyclic distance from `g` forward to `i` (0 when equal), for `g, i < n` -/
def dist (n g i : Nat) : Nat := (i + n - g) % n

theorem find_first (n g : Nat) (req : Nat → Bool) (k : Nat) (hk : k < n - 1)
    (hreq : req ((g + 1 + k) % n) = true) :
    ∃ j, j ≤ k ∧ (List.range (n - 1)).find? (fun k => req ((g + 1 + k) % n)) = some j := by
  -- the list `range (n-1)` contains `k`, whose predicate holds, so `find?` returns some `j ≤ k`
  have hsome : ((List.range (n - 1)).find? (fun k => req ((g + 1 + k) % n))).isSome := by
    rw [List.find?_isSome]
    exact ⟨k, List.mem_range.mpr hk, hreq⟩
  obtain ⟨j, hj⟩ := Option.isSome_iff_exists.mp hsome
  refine ⟨j, ?_, hj⟩
  -- `j` is the first index with the predicate: every earlier index fails, so `j ≤ k`
  refine Decidable.byContradiction fun hgt => ?_
  have hlt : k < j := by omega
  have hfail := List.find?_range_eq_some.mp hj
  exact absurd hreq (by simpa using hfail.2.2 k hlt)

/-- one enabled arbitration step brings the grant strictly closer to a requesting `i` (or onto it) -/
theorem rr_closer (n g i : Nat) (req : Nat → Bool) (hn : 1 < n) (hg : g < n) (hi : i < n) (hne : g ≠ i)
    (hreq : req i = true) :
    dist n (rrNext n g req) i < dist n g i := by
  -- i = (g + 1 + k) % n with k = dist - 1 < n - 1
  have hd : 0 < dist n g i := by
    unfold dist
    by_cases h : g < i
    · have : (i + n - g) % n = i - g := by
        have : i + n - g = (i - g) + n := by omega
        rw [this, Nat.add_mod_right, Nat.mod_eq_of_lt (by omega)]
      omega
    · have : (i + n - g) % n = i + n - g := Nat.mod_eq_of_lt (by omega)
      omega
  have hdn : dist n g i < n := Nat.mod_lt _ (by omega)
  have hik : (g + 1 + (dist n g i - 1)) % n = i := by
    unfold dist at *
    by_cases h : g < i
    · have e : (i + n - g) % n = i - g := by
        have : i + n - g = (i - g) + n := by omega
        rw [this, Nat.add_mod_right, Nat.mod_eq_of_lt (by omega)]
      rw [e]; have : g + 1 + (i - g - 1) = i := by omega
      rw [this, Nat.mod_eq_of_lt hi]
    · have e : (i + n - g) % n = i + n - g := Nat.mod_eq_of_lt (by omega)
      rw [e]; have : g + 1 + (i + n - g - 1) = i + n := by omega
      rw [this, Nat.add_mod_right, Nat.mod_eq_of_lt hi]
  obtain ⟨j, hjk, hfind⟩ := find_first n g req (dist n g i - 1) (by omega) (by rw [hik]; exact hreq)
  unfold rrNext
  rw [hfind]
  -- new grant = (g+1+j) % n with j ≤ dist-1: distance to i is dist - 1 - j
  show dist n ((g + 1 + j) % n) i < dist n g i
  have hnew : dist n ((g + 1 + j) % n) i = dist n g i - 1 - j := by
    unfold dist at *
    by_cases h : g < i
    · have e : (i + n - g) % n = i - g := by
        have : i + n - g = (i - g) + n := by omega
        rw [this, Nat.add_mod_right, Nat.mod_eq_of_lt (by omega)]
      rw [e] at hjk ⊢
      have hlt : g + 1 + j < n := by omega
      rw [Nat.mod_eq_of_lt hlt]
      have : i + n - (g + 1 + j) = (i - g - 1 - j) + n := by omega
      rw [this, Nat.add_mod_right, Nat.mod_eq_of_lt (by omega)]
    · have e : (i + n - g) % n = i + n - g := Nat.mod_eq_of_lt (by omega)
      rw [e] at hjk ⊢
      by_cases hw : g + 1 + j < n
      · rw [Nat.mod_eq_of_lt hw, Nat.mod_eq_of_lt (by omega)]; omega
      · have : (g + 1 + j) % n = g + 1 + j - n := by
          rw [Nat.mod_eq_sub_mod (by omega), Nat.mod_eq_of_lt (by omega)]
        rw [this]
        have : i + n - (g + 1 + j - n) = (i + n - g - 1 - j) + n := by omega
        rw [this, Nat.add_mod_right, Nat.mod_eq_of_lt (by omega)]
  omega

/-- the grant stays in range -/
theorem rrNext_lt (n g : Nat) (req : Nat → Bool) (hn : 0 < n) (hg : g < n) : rrNext n g req < n := by
  unfold rrNext; split
  · exact Nat.mod_lt _ hn
  · exact hg

theorem dist_self (n i : Nat) (hn : 0 < n) : dist n i i = 0 := by
  unfold dist
  have : i + n - i = n := by omega
  rw [this, Nat.mod_self]

theorem dist_zero (n g i : Nat) (hg : g < n) (hi : i < n) (h : dist n g i = 0) : g = i := by
  unfold dist at h
  by_cases hle : g ≤ i
  · have e : i + n - g = (i - g) + n := by omega
    rw [e, Nat.add_mod_right, Nat.mod_eq_of_lt (by omega)] at h
    omega
  · rw [Nat.mod_eq_of_lt (by omega)] at h; omega

/-- `d` enabled arbitrations with request vectors `reqs k`; once `i` holds the grant we stop looking -/
def rrRun (n i : Nat) (reqs : Nat → Nat → Bool) : Nat → Nat → Nat
  | 0, g => g
  | k + 1, g => rrRun n i reqs k (if g = i then g else rrNext n g (reqs k))

/-- **Round-robin fairness**: a requester `i` that keeps requesting holds the grant after at most
`dist n g i ≤ n − 1` enabled arbitrations, whatever the request vectors `reqs k` of the others are. -/
theorem rr_fair (n : Nat) (hn : 1 < n) (i : Nat) (hi : i < n) (reqs : Nat → Nat → Bool) (hreq : ∀ k, reqs k i = true) :
    ∀ (d g : Nat), g < n → dist n g i ≤ d → rrRun n i reqs d g = i := by
  intro d
  induction d with
  | zero =>
    intro g hg hd
    exact dist_zero n g i hg hi (by omega)
  | succ d ih =>
    intro g hg hd
    simp only [rrRun]
    by_cases hgi : g = i
    · simp only [hgi, if_true]
      exact ih i hi (by rw [dist_self n i (by omega)]; omega)
    · simp only [hgi, if_false]
      have hc := rr_closer n g i (reqs d) hn hg hi hgi (hreq d)
      exact ih _ (rrNext_lt n g (reqs d) (by omega) hg) (by omega)

/-- and the distance is at most `n − 1`: the bound of `rr_fair` is `n − 1` arbitrations -/
theorem dist_le (n g i : Nat) (hn : 0 < n) : dist n g i ≤ n - 1 := by
  unfold dist; have := Nat.mod_lt (i + n - g) hn; omega

/-! ### anti-starvation timers -/
open Controller in
/-- with the timeout enabled, staying `k ≤ timeout − 1` cycles in the direction (`en`) brings the timer from its
reload value `timeout − 1` down to `timeout − 1 − k`; so after `timeout − 1` cycles `max_time` is raised -/
theorem anti_starvation_countdown (timeout : Nat) (ht : 0 < timeout) (k : Nat) (hk : k ≤ timeout - 1) :
    (Nat.rec (motive := fun _ => Nat) (timeout - 1) (fun _ t => (antiStarve timeout t true).1) k) = timeout - 1 - k := by
  induction k with
  | zero => rfl
  | succ k ih =>
    simp only []
    rw [ih (by omega)]
    have h0 : (timeout == 0) = false := by simpa using (by omega : timeout ≠ 0)
    have hne : ¬ (timeout - 1 - k = 0) := by omega
    simp [antiStarve, h0, hne]
    omega

open Controller in
/-- **Anti-starvation fires**: after `timeout − 1` cycles in one direction the timer reads 0, i.e. `max_time` is
up and the FSM leaves READ (resp. WRITE) as soon as the other direction has a request waiting -/
theorem anti_starvation_fires (timeout : Nat) (ht : 0 < timeout) :
    (antiStarve timeout (Nat.rec (motive := fun _ => Nat) (timeout - 1) (fun _ t => (antiStarve timeout t true).1) (timeout - 1)) true).2 = true := by
  rw [anti_starvation_countdown timeout ht (timeout - 1) (Nat.le_refl _)]
  have h0 : (timeout == 0) = false := by simpa using (by omega : timeout ≠ 0)
  simp [antiStarve, h0]

/-- the crossbar never takes a bank away from a master with commands offered or in flight -/
theorem arbiter_moves_only_when_idle (c : Crossbar.Cfg) (s : Crossbar.State) (cb : Crossbar.Comb) (fb : Array Crossbar.BankFb)
    (w r : Array Bool) (nb : Nat) (hnb : nb < c.nbanks)
    (hbusy : (cb.bankReqs[nb]!).valid = true ∨ (fb[nb]!).lock = true) :
    (Crossbar.step c s cb fb w r).grants[nb]! = s.grants[nb]! :=
  C01.grant_stable_while_busy c s cb fb w r nb hnb hbusy

/-- the explicit bound used by the check (mirrors `coremem.latency_bound`) is not reproduced here; the
composed statement — **not proved**, and false without the side condition that no other master monopolises
the same bank (known finding `c05-same-bank-lockout`): there is a bound depending only on the configuration
within which every offered command is accepted. -/
def request_latency_bounded_full : Prop :=
  ∀ (c : Core.Cfg), ∃ bound : Nat, ∀ (pre post : List (Array Crossbar.MasterIn)) (p : Nat), p < c.xb.nmasters →
    post.length = bound → (∀ ms ∈ post, (ms[p]!).cmdValid = true) →
    ∃ k, k < bound ∧
      let s := pre.foldl (fun st ms => (Core.step c st ms).1) (Core.init c)
      let sk := (post.take k).foldl (fun st ms => (Core.step c st ms).1) s
      ((Core.step c sk (post.getD k #[])).2.1[p]!).cmdReady = true

/-! ### non-vacuity -/
example : rrRun 4 2 (fun _ j => j == 2 || j == 3) 3 3 = 2 := by decide
example : dist 4 3 2 = 3 := by decide

end C05
