/-
C04 — refresh is never starved and keeps the datasheet refresh rate.

Proved here, for every configuration and unbounded time, about `Model/Refresher.lean`:
 * `refresh_timer_period`   the request pulses are exactly tREFI controller cycles apart, for ever
 * `postponer_ratio`        one request leaves the postponer per `postponing` pulses
 * `ref_preceded_by_prea`   every REF the executer puts out was preceded, exactly tRP cycles earlier, by
                            its precharge-all (invariant with a ghost "cycles since PREA")
 * `deadline_arith`         the accounting step from "grant latency ≤ D" to the k-th refresh deadline
The bound D on the grant latency itself (bank machines and multiplexer give way within D(cfg) cycles) is
bounded liveness of the composed controller: stated as `refresh_grant_bound_full`, not proved;
the check measures it on every implementation trace against the explicit `D` of the harness.
The datasheet rate additionally needs `tREFI_cycles · T ≤ tREFI` (C16, `refresh_interval_not_longer`).
-/
import LitedramVerif.Model.Refresher
import LitedramVerif.Model.Controller
namespace C04
open Hw Refresher

/-! ### iteration helper -/
def iter {α : Type} (f : α → α) : Nat → α → α
  | 0, x => x
  | n + 1, x => iter f n (f x)

theorem iter_add {α : Type} (f : α → α) (a b : Nat) (x : α) : iter f (a + b) x = iter f b (iter f a x) := by
  induction a generalizing x with
  | zero => simp [iter]
  | succ a ih => rw [Nat.succ_add]; simp only [iter]; exact ih (f x)

/-! ### RefreshTimer -/
def timerNext (T cnt : Nat) : Nat := if cnt ≠ 0 then cnt - 1 else T - 1

/-- the model's timer register follows `timerNext` whatever else happens -/
theorem step_timer (c : Cfg) (s : State) (ready : Bool) :
    (step c s ready).timerCount = timerNext c.tREFI s.timerCount := by
  unfold step timerNext
  cases c.tZQCS <;> simp <;> split <;> simp_all

theorem timer_countdown (T k j : Nat) (hj : j ≤ k) : iter (timerNext T) j k = k - j := by
  induction j generalizing k with
  | zero => rfl
  | succ j ih =>
    have hk : k ≠ 0 := by omega
    simp only [iter, timerNext, hk, ne_eq, not_false_eq_true, if_true]
    rw [ih (k - 1) (by omega)]; omega

/-- after exactly T steps the timer is back at its reset value, having been at 0 (done) exactly once -/
theorem timer_full_period (T : Nat) (hT : 0 < T) : iter (timerNext T) T (T - 1) = T - 1 := by
  obtain ⟨n, rfl⟩ : ∃ n, T = n + 1 := ⟨T - 1, by omega⟩
  rw [iter_add, Nat.add_sub_cancel, timer_countdown (n + 1) n n (Nat.le_refl _)]
  simp [iter, timerNext]

/-- **Refresh timer period**: from reset, for every number of elapsed periods `m` and offset `j < T`, the
counter reads `T − 1 − j`; so `done` (counter = 0) is raised exactly in the cycles ≡ T − 1 (mod T): one
request pulse every tREFI controller cycles, for ever, independently of everything else. -/
theorem refresh_timer_period (T : Nat) (hT : 0 < T) (m j : Nat) (hj : j < T) :
    iter (timerNext T) (m * T + j) (T - 1) = T - 1 - j := by
  induction m with
  | zero => simp only [Nat.zero_mul, Nat.zero_add]; exact timer_countdown T (T - 1) j (by omega)
  | succ m ih =>
    have : (m + 1) * T + j = T + (m * T + j) := by rw [Nat.succ_mul]; omega
    rw [this, iter_add, timer_full_period T hT, ih]

/-! ### RefreshPostponer -/
/-- the postponer's (count, req_o) under a pulse / no pulse, as in `Refresher.step` -/
def postNext (P : Nat) (pulse : Bool) (cnt : Nat) : Nat × Bool :=
  if pulse then (if cnt == 0 then (P - 1, true) else ((cnt + 2 ^ bitsFor P - 1) % 2 ^ bitsFor P, false))
  else (cnt, false)

theorem step_postponer (c : Cfg) (s : State) (ready : Bool) :
    ((step c s ready).postCount, (step c s ready).reqO) = postNext c.postponing (s.timerCount == 0) s.postCount := by
  unfold step postNext
  cases c.tZQCS <;> simp <;> split <;> simp_all

theorem lt_two_pow_bitsFor (n : Nat) : n < 2 ^ bitsFor n := by
  unfold bitsFor
  split
  · next h => subst h; decide
  · exact Nat.lt_log2_self

/-- **Postponer ratio**: with the counter at `k < P`, the next `k` pulses are swallowed (counter counts
down, no request) and the `(k+1)`-th raises the request and reloads `P − 1`: exactly one request per
`P = postponing` timer pulses. -/
theorem postponer_ratio (P k : Nat) (hk : k < P) :
    (k ≠ 0 → postNext P true k = (k - 1, false)) ∧ (k = 0 → postNext P true k = (P - 1, true)) ∧
    postNext P false k = (k, false) := by
  have hb := lt_two_pow_bitsFor P
  refine ⟨?_, ?_, by simp [postNext]⟩
  · intro h0
    have : (k == 0) = false := by simpa using h0
    simp only [postNext, if_true, this, Bool.false_eq_true, if_false, Prod.mk.injEq, and_true]
    have e : k + 2 ^ bitsFor P - 1 = (k - 1) + 2 ^ bitsFor P := by omega
    rw [e, Nat.add_mod_right, Nat.mod_eq_of_lt (by omega)]
  · intro h0; subst h0; simp [postNext]

/-! ### RefreshExecuter: every REF is preceded by its precharge-all, tRP cycles earlier -/

/-- the executer's command registers as a code: 0 = none, 1 = precharge-all, 2 = auto-refresh -/
def exRegs (tRP tRFC cnt : Nat) (start : Bool) : Nat :=
  if cnt == tRP + tRFC then 0 else if cnt == tRP then 2 else if start && cnt == 0 then 1 else 0

/-- the executer's timeline counter -/
def exCnt (tRP tRFC cnt : Nat) (start : Bool) : Nat := timelineStep (tRP + tRFC) cnt start

def regsCode (s : State) : Nat :=
  if s.ras && !s.cas && s.we && s.a == 1024 then 1 else if s.ras && s.cas && !s.we then 2 else 0

theorem fires_pos (off cnt : Nat) (tr : Bool) (h : off ≠ 0) : timelineFires off cnt tr = (cnt == off) := by
  have : (off == 0) = false := by simpa using h
  simp [timelineFires, this]

theorem fires_zero (cnt : Nat) (tr : Bool) : timelineFires 0 cnt tr = (tr && cnt == 0) := by
  simp [timelineFires]

/-- the model's executer registers follow `exRegs` / `exCnt` (no-ZQCS configuration, ≥ 11 address lines) -/
theorem step_executer (c : Cfg) (s : State) (ready : Bool) (hz : c.tZQCS = none) (hrp : 1 ≤ c.tRP) (ha : 11 ≤ c.abits) :
    regsCode (step c s ready) = exRegs c.tRP c.tRFC s.exCounter ((s.fsm == .waitBm && ready) || s.seqCount != 0) ∧
    (step c s ready).exCounter = exCnt c.tRP c.tRFC s.exCounter ((s.fsm == .waitBm && ready) || s.seqCount != 0) := by
  have h1024 : 1024 % 2 ^ c.abits = 1024 := Nat.mod_eq_of_lt (Nat.lt_of_lt_of_le (by decide) (Nat.pow_le_pow_right (by decide) ha))
  have hne : c.tRP ≠ 0 := by omega
  have hne2 : c.tRP + c.tRFC ≠ 0 := by omega
  simp only [step, hz, regsCode, exRegs, exCnt, fires_pos _ _ _ hne, fires_pos _ _ _ hne2, fires_zero]
  refine ⟨?_, trivial⟩
  generalize ((s.fsm == Fsm.waitBm && ready) || s.seqCount != 0) = start
  by_cases h2 : s.exCounter = c.tRP + c.tRFC
  · simp [h2]
  · have e2 : (s.exCounter == c.tRP + c.tRFC) = false := by simpa using h2
    by_cases h1 : s.exCounter = c.tRP
    · simp [h1, e2]
    · have e1 : (s.exCounter == c.tRP) = false := by simpa using h1
      cases hs : (start && s.exCounter == 0) <;> simp [e1, e2, hs, h1024]

/-- invariant: the register code is determined by the counter; the ghost `g` counts the cycles since the
precharge-all appeared -/
def ExInv (tRP tRFC cnt code g : Nat) : Prop :=
  cnt ≤ tRP + tRFC ∧ (code = 1 ↔ cnt = 1) ∧ (code = 2 ↔ cnt = tRP + 1) ∧ (cnt ≠ 0 → g + 1 = cnt)

/-- `x &&& (x+1) = 0` (the test `timeline` uses for "wraps naturally") means `x + 1` is a power of two -/
theorem succ_pow_of_and_succ (L : Nat) (hL : L ≠ 0) (hw : L &&& (L + 1) = 0) : L + 1 = 2 ^ (L.log2 + 1) := by
  have hlo := Nat.log2_self_le hL
  have hhi := @Nat.lt_log2_self L
  apply Nat.le_antisymm (by omega)
  refine Decidable.byContradiction fun hlt => ?_
  have hlt' : L + 1 < 2 ^ (L.log2 + 1) := by omega
  have hlog : (L + 1).log2 = L.log2 := (Nat.log2_eq_iff (by omega)).mpr ⟨by omega, hlt'⟩
  have hbit : L.testBit L.log2 = true := Nat.testBit_log2 hL
  have hbit2 : (L + 1).testBit L.log2 = true := by
    have := Nat.testBit_log2 (n := L + 1) (by omega)
    rwa [hlog] at this
  have := congrArg (fun x => x.testBit L.log2) hw
  simp [hbit, hbit2] at this

/-- at its last event the timeline counter returns to 0 (by the explicit reset, or by natural overflow) -/
theorem timeline_last (L : Nat) (start : Bool) (hL : L ≠ 0) : timelineStep L L start = 0 := by
  unfold timelineStep
  by_cases hw : (L &&& (L + 1)) = 0
  · have hpow := succ_pow_of_and_succ L hL hw
    have hmb : maxBits (L + 1) = L.log2 + 1 := by simp [maxBits, bitsFor, hL]
    have e : ((L &&& (L + 1)) == 0) = true := by simpa using hw
    have hL' : (L != 0) = true := by simpa using hL
    simp only [e, Bool.not_true, Bool.false_and, Bool.false_eq_true, if_false, hL', if_true, hmb]
    rw [hpow, Nat.mod_self]
  · have e : ((L &&& (L + 1)) == 0) = false := by simpa using hw
    simp [e]

theorem ex_step (tRP tRFC cnt code g : Nat) (start : Bool) (hrp : 1 ≤ tRP) (hrfc : 1 ≤ tRFC)
    (h : ExInv tRP tRFC cnt code g) :
    ExInv tRP tRFC (exCnt tRP tRFC cnt start) (exRegs tRP tRFC cnt start)
      (if exRegs tRP tRFC cnt start = 1 then 0 else g + 1) := by
  obtain ⟨hle, _, _, hg⟩ := h
  have hb := lt_two_pow_bitsFor (tRP + tRFC)
  have hmb : maxBits (tRP + tRFC + 1) = bitsFor (tRP + tRFC) := by simp [maxBits]
  by_cases hl : cnt = tRP + tRFC
  · subst hl
    have hc : exCnt tRP tRFC (tRP + tRFC) start = 0 := timeline_last _ _ (by omega)
    have hr : exRegs tRP tRFC (tRP + tRFC) start = 0 := by simp [exRegs]
    rw [hc, hr]
    refine ⟨Nat.zero_le _, by simp, by simp, by simp⟩
  · have hne : ((cnt == tRP + tRFC) = false) := by simpa using hl
    unfold ExInv exCnt exRegs timelineStep
    rw [hmb]
    simp only [hne, Bool.and_false, Bool.false_eq_true, if_false]
    by_cases h0 : cnt = 0
    · subst h0
      have e2 : ((0 : Nat) == tRP) = false := by simpa using (by omega : ¬ (0 = tRP))
      cases start <;> simp [e2] <;> omega
    · have hlt : cnt + 1 < 2 ^ bitsFor (tRP + tRFC) := by omega
      have hg' := hg h0
      have e0 : (cnt != 0) = true := by simpa using h0
      have e00 : (cnt == 0) = false := by simpa using h0
      simp only [e0, if_true, Nat.mod_eq_of_lt hlt, e00, Bool.and_false, Bool.false_eq_true, if_false]
      by_cases h1 : cnt = tRP
      · subst h1; simp; omega
      · have e1 : (cnt == tRP) = false := by simpa using h1
        simp [e1]; omega

/-- **Every auto-refresh is preceded by the precharge of all banks**: whenever the executer's
registers show REF, the precharge-all was shown exactly tRP controller cycles earlier (`g = tRP`),
and nothing but idle in between — in every reachable state, for every tRP, tRFC ≥ 1. -/
theorem ref_preceded_by_prea (tRP tRFC cnt code g : Nat) (hrp : 1 ≤ tRP) (h : ExInv tRP tRFC cnt code g)
    (href : code = 2) : g = tRP := by
  obtain ⟨_, _, h2, hg⟩ := h
  have := h2.mp href
  have := hg (by omega)
  omega

theorem ex_inv_init (tRP tRFC g : Nat) : ExInv tRP tRFC 0 0 g := by
  refine ⟨Nat.zero_le _, ?_, ?_, ?_⟩ <;> simp

/-- accounting: if the refresher obtains the bus within `D` cycles of each request, and a request is
raised every `P·T` cycles from `P·T − 1` on (timer period × postponer ratio), the k-th REF of the run
(k ≥ 1, `P` per granted request, `L` cycles per PREA/REF pair) is issued no later than
`(k + P)·T + D + P·L`. -/
theorem deadline_arith (T P D L k q r : Nat) (hP : 0 < P) (hk : k = q * P + r + 1) (hr : r < P)
    (t : Nat) (ht : t ≤ ((q + 1) * P * T - 1) + D + (r + 1) * L) :
    t ≤ (k + P) * T + D + P * L := by
  subst hk
  have h1 : (q + 1) * P * T ≤ (q * P + r + 1 + P) * T := by
    apply Nat.mul_le_mul_right
    rw [Nat.add_mul, Nat.one_mul]; omega
  have h2 : (r + 1) * L ≤ P * L := Nat.mul_le_mul_right L (by omega)
  omega

/-- explicit bound on the grant latency, the same formula the check uses (`corelib.grant_bound`) -/
def grantBound (c : Controller.Cfg) : Nat :=
  c.bm.tRAS.getD 0 + c.bm.twtp + c.bm.tRP + c.bm.tRC.getD 0 + c.tFAW.getD 0 + c.tRRD.getD 0 * c.nbm + c.bm.tRCD + c.twtr +
    c.readLatency + 2 * c.tCCD + 2 * c.nbm + 16

def runCtl (c : Controller.Cfg) (s : Controller.State) (inputs : List (Array Controller.BankIn)) : Controller.State :=
  inputs.foldl (fun st i => (Controller.step c st i).1) s

/-- the bounded-liveness statement with the *tight* constant `grantBound` — **not proved for this constant**; proved with
the explicit (larger) bound `CtlLive.psiMax` as `C04.refresh_grant_bound` in Props/C04_Controller.lean (potential-function
proof over bank machines, choosers, timing gates and FSM).  The check measures the latency on every implementation trace
against `grantBound` and against `psiMax`: once the refresher waits for the bank machines, the multiplexer reaches REFRESH within
`grantBound c` cycles whatever the ports do. -/
def refresh_grant_bound_full : Prop :=
  ∀ (c : Controller.Cfg) (pre : List (Array Controller.BankIn)),
    (runCtl c (Controller.init c) pre).rf.fsm = .waitBm →
    ∀ (post : List (Array Controller.BankIn)), post.length = grantBound c →
      ∃ k, k ≤ grantBound c ∧ (runCtl c (runCtl c (Controller.init c) pre) (post.take k)).fsm = .refresh

/-! ### non-vacuity -/
example : iter (timerNext 100) 99 99 = 0 ∧ iter (timerNext 100) 100 99 = 99 := by decide +kernel
example : ExInv 3 10 4 2 3 := by refine ⟨by decide, by decide, by decide, by decide⟩

end C04
