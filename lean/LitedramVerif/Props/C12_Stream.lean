/-
C12, stream level (all FIFO depths ≥ 1, buffered or not, every producer / consumer / port schedule, unbounded time):

 * `writer_data_in_order`   the write-data words the DMA writer hands to the port are, in order, the data of the (address, data)
                            pairs it accepted - whose commands went out in the very cycle the pair was accepted, with that pair's
                            address (`writer_command_is_the_pair`): the k-th data word belongs to the k-th command.
 * `reader_stream_in_order` the words the DMA reader emits are, in order, the words the port returned, each with the end-of-stream
                            mark of the address accepted at the same position; reservation and data FIFO are popped together.

Both are refinements of the FIFO shapes to queues (`Proofs/FifoQueue.step_contents`) lifted over histories.
-/
import LitedramVerif.Proofs.FifoQueue
import LitedramVerif.Model.Dma
namespace C12
open Dma Fifo

/-! ### writer -/
def wRun (c : Dma.Cfg) : WState → List WIn → WState
  | s, [] => s
  | s, i :: is => wRun c (wstep c s i).1 is

/-- (data of the accepted pairs = issued commands, data words taken by the port), both in time order -/
def wHist (c : Dma.Cfg) : WState → List WIn → List Nat × List Nat
  | _, [] => ([], [])
  | s, i :: is =>
    let o := (wstep c s i).2
    let rest := wHist c (wstep c s i).1 is
    ((if o.cmdValid && i.cmdReady then [i.sinkData] else []) ++ rest.1,
     (if o.wdataValid && i.wdataReady then [o.wdata] else []) ++ rest.2)

/-- a pair is taken from the producer exactly when its command is taken by the port, and the command carries the pair's address -/
theorem writer_command_is_the_pair (c : Dma.Cfg) (s : WState) (i : WIn) :
    ((wstep c s i).2.sinkReady && i.sinkValid) = ((wstep c s i).2.cmdValid && i.cmdReady) ∧
    (wstep c s i).2.cmdAddr = i.sinkAddr := by
  refine ⟨?_, rfl⟩
  simp only [wstep]
  cases Fifo.sinkReady (dataCfg c) s.fifo i.wdataReady <;> cases i.sinkValid <;> cases i.cmdReady <;> rfl

theorem writer_from (c : Dma.Cfg) (hd : 1 ≤ c.depth) (is : List WIn) :
    ∀ s : WState, WF (dataCfg c) s.fifo →
      contents s.fifo ++ (wHist c s is).1 = (wHist c s is).2 ++ contents (wRun c s is).fifo := by
  induction is with
  | nil => intro s _; simp [wHist, wRun]
  | cons i is ih =>
    intro s hw
    obtain ⟨hc, hhead, hne, hw'⟩ := step_contents (dataCfg c) hd s.fifo hw (i.sinkValid && i.cmdReady) i.sinkData i.wdataReady
    have hfifo : (wstep c s i).1.fifo = Fifo.step (dataCfg c) s.fifo (i.sinkValid && i.cmdReady) i.sinkData i.wdataReady := rfl
    have ih' := ih (wstep c s i).1 (by rw [hfifo]; exact hw')
    rw [hfifo, hc] at ih'
    have hacc : ((wstep c s i).2.cmdValid && i.cmdReady) =
        (i.sinkValid && i.cmdReady && Fifo.sinkReady (dataCfg c) s.fifo i.wdataReady) := by
      simp only [wstep]
      cases Fifo.sinkReady (dataCfg c) s.fifo i.wdataReady <;> cases i.sinkValid <;> cases i.cmdReady <;> rfl
    have hpop : ((wstep c s i).2.wdataValid && i.wdataReady) =
        (Fifo.srcValid (dataCfg c) s.fifo (i.sinkValid && i.cmdReady) && i.wdataReady) := rfl
    have hdat : (wstep c s i).2.wdata = (Fifo.srcData (dataCfg c) s.fifo i.sinkData).getD 0 := rfl
    simp only [wHist, wRun]
    rw [hacc, hpop, hdat]
    cases hv : Fifo.srcValid (dataCfg c) s.fifo (i.sinkValid && i.cmdReady) with
    | false =>
      simp only [hv, Bool.false_and, Bool.false_eq_true, if_false, List.nil_append] at ih' ⊢
      rw [← ih', List.append_assoc]
    | true =>
      cases hr : i.wdataReady with
      | false =>
        simp only [hv, hr, Bool.and_false, Bool.false_eq_true, if_false, List.nil_append] at ih' ⊢
        rw [← ih', List.append_assoc]
      | true =>
        simp only [hv, hr, Bool.and_self, if_true] at ih' ⊢
        have hh := hhead hv
        have hn := hne hv
        cases hcs : contents s.fifo with
        | nil => exact absurd hcs hn
        | cons x xs =>
          rw [hcs] at ih' hh
          simp only [List.tail_cons, List.head?_cons] at ih' hh
          rw [hh]
          simp only [Option.getD_some, List.cons_append, List.nil_append]
          rw [← ih', List.append_assoc]

/-- **Writer: data paired with its own address, exactly once, in order** (from reset). -/
theorem writer_data_in_order (c : Dma.Cfg) (hd : 1 ≤ c.depth) (is : List WIn) :
    (wHist c {} is).1 = (wHist c {} is).2 ++ contents (wRun c {} is).fifo := by
  have := writer_from c hd is {} (wf_init (dataCfg c))
  simpa [contents] using this

/-! ### reader -/
def rRun (c : Dma.Cfg) : RState → List RIn → RState
  | s, [] => s
  | s, i :: is => rRun c (rstep c s i).1 is

structure RHist where
  lasts : List Bool            -- end-of-stream marks of the accepted addresses (= read commands taken by the port), in order
  rets : List Nat              -- words the port returned and the reader took, in order
  emitted : List (Nat × Bool)  -- (data, last) handed to the consumer, in order

def rHist (c : Dma.Cfg) : RState → List RIn → RHist
  | _, [] => ⟨[], [], []⟩
  | s, i :: is =>
    let o := (rstep c s i).2
    let rest := rHist c (rstep c s i).1 is
    ⟨(if o.cmdValid && i.cmdReady then [i.sinkLast] else []) ++ rest.lasts,
     (if i.rdataValid && o.rdataReady then [i.rdata] else []) ++ rest.rets,
     (if o.srcValid && i.srcReady then [(o.srcData, o.srcLast)] else []) ++ rest.emitted⟩

/-- environment: the reader stays enabled, and the port returns a word only for a read that is outstanding (more reservations
than buffered words) -/
def EnvS (c : Dma.Cfg) : RState → List RIn → Prop
  | _, [] => True
  | s, i :: is =>
    i.enable = true ∧
    (i.rdataValid = true → (contents s.fifo).length < (contents s.res).length) ∧
    EnvS c (rstep c s i).1 is

/-- an address is taken from the producer exactly when its read command is taken by the port, with that address and mark -/
theorem reader_command_is_the_address (c : Dma.Cfg) (s : RState) (i : RIn) :
    ((rstep c s i).2.sinkReady && i.sinkValid) = ((rstep c s i).2.cmdValid && i.cmdReady) ∧
    (rstep c s i).2.cmdAddr = i.sinkAddr ∧ (rstep c s i).2.cmdLast = i.sinkLast := by
  refine ⟨?_, rfl, rfl⟩
  simp only [rstep]
  generalize Fifo.sinkReady (resCfg c) s.res _ = x
  cases x <;> cases i.enable <;> cases i.sinkValid <;> cases i.cmdReady <;> rfl

/-- the reader's internal signals -/
def rFValid (c : Dma.Cfg) (s : RState) (i : RIn) : Bool := Fifo.srcValid (dataCfg c) s.fifo i.rdataValid
def rFReady (i : RIn) : Bool := i.srcReady || !i.enable
def rResReady (c : Dma.Cfg) (s : RState) (i : RIn) : Bool := rFValid c s i && rFReady i
def rResSinkReady (c : Dma.Cfg) (s : RState) (i : RIn) : Bool := Fifo.sinkReady (resCfg c) s.res (rResReady c s i)
def rPush (c : Dma.Cfg) (s : RState) (i : RIn) : Bool := (i.enable && i.sinkValid && rResSinkReady c s i) && i.cmdReady
def rResValid (c : Dma.Cfg) (s : RState) (i : RIn) : Bool := Fifo.srcValid (resCfg c) s.res (rPush c s i)

/-- every word the port returns is taken by the reader (the native read-data channel cannot be back-pressured: a word that is
not taken is lost) -/
def rTaken (c : Dma.Cfg) : RState → List RIn → Bool
  | _, [] => true
  | s, i :: is => (!i.rdataValid || (rstep c s i).2.rdataReady) && rTaken c (rstep c s i).1 is

theorem reader_from (c : Dma.Cfg) (hd : 1 ≤ c.depth) (is : List RIn) :
    ∀ s : RState, WF (resCfg c) s.res → WF (dataCfg c) s.fifo → (contents s.fifo).length ≤ (contents s.res).length →
      EnvS c s is →
      contents s.res ++ (rHist c s is).lasts = (rHist c s is).emitted.map (·.2) ++ contents (rRun c s is).res ∧
      contents s.fifo ++ (rHist c s is).rets = (rHist c s is).emitted.map (·.1) ++ contents (rRun c s is).fifo ∧
      rTaken c s is = true := by
  induction is with
  | nil => intro s _ _ _ _; simp [rHist, rRun, rTaken]
  | cons i is ih =>
    intro s hwr hwf hlen henv
    obtain ⟨hen, hret, henv'⟩ := henv
    have hres : (rstep c s i).1.res = Fifo.step (resCfg c) s.res (rPush c s i) i.sinkLast (rResReady c s i) := rfl
    have hfifo : (rstep c s i).1.fifo = Fifo.step (dataCfg c) s.fifo i.rdataValid i.rdata (rFReady i) := rfl
    obtain ⟨hcr, hheadr, hner, hwr'⟩ := step_contents (resCfg c) hd s.res hwr (rPush c s i) i.sinkLast (rResReady c s i)
    obtain ⟨hcf, hheadf, hnef, hwf'⟩ := step_contents (dataCfg c) hd s.fifo hwf i.rdataValid i.rdata (rFReady i)
    have hsr : rFReady i = i.srcReady := by simp [rFReady, hen]
    -- a buffered word always has its reservation
    have hfr : rFValid c s i = true → rResValid c s i = true := by
      intro hf
      have h1 : contents s.fifo ≠ [] := hnef hf
      have h2 : contents s.res ≠ [] := by
        intro e; rw [e] at hlen; simp at hlen; exact h1 hlen
      have hout : s.res.out = none := hwr.out (by simp [resCfg])
      have hq : s.res.q ≠ [] := by simpa [contents, hout] using h2
      have e0 : (c.depth == 0) = false := by simpa using (by omega : c.depth ≠ 0)
      simp only [rResValid, Fifo.srcValid, e0, resCfg, Bool.false_eq_true, if_false, Bool.and_false]
      cases hqq : s.res.q with
      | nil => exact absurd hqq hq
      | cons _ _ => simp
    have hpushr : (rPush c s i && Fifo.sinkReady (resCfg c) s.res (rResReady c s i)) = rPush c s i := by
      show (rPush c s i && rResSinkReady c s i) = _
      simp only [rPush]
      generalize rResSinkReady c s i = x
      cases i.enable <;> cases i.sinkValid <;> cases x <;> cases i.cmdReady <;> rfl
    -- the three events of this cycle
    have hacc : ((rstep c s i).2.cmdValid && i.cmdReady) = rPush c s i := rfl
    have hrt : (i.rdataValid && (rstep c s i).2.rdataReady) = (i.rdataValid && Fifo.sinkReady (dataCfg c) s.fifo (rFReady i)) := rfl
    have hem : ((rstep c s i).2.srcValid && i.srcReady) = (rResValid c s i && rFValid c s i && i.srcReady) := rfl
    have hdat : (rstep c s i).2.srcData = (Fifo.srcData (dataCfg c) s.fifo i.rdata).getD 0 := rfl
    have hlast : (rstep c s i).2.srcLast = (rResValid c s i && (Fifo.srcData (resCfg c) s.res i.sinkLast).getD false) := rfl
    have hpopr : (Fifo.srcValid (resCfg c) s.res (rPush c s i) && rResReady c s i) = (rResValid c s i && rFValid c s i && i.srcReady) := by
      show (rResValid c s i && (rFValid c s i && rFReady i)) = _
      rw [hsr, Bool.and_assoc]
    have hpopf : (Fifo.srcValid (dataCfg c) s.fifo i.rdataValid && rFReady i) = (rResValid c s i && rFValid c s i && i.srcReady) := by
      show (rFValid c s i && rFReady i) = _
      rw [hsr]
      cases hf : rFValid c s i
      · simp
      · rw [hfr hf]; simp
    -- no overrun: a returned word finds room in the data FIFO
    have htk : (!i.rdataValid || (rstep c s i).2.rdataReady) = true := by
      cases hv : i.rdataValid with
      | false => rfl
      | true =>
        have hl := hret hv
        have hout : s.res.out = none := hwr.out (by simp [resCfg])
        have hcapr : (contents s.res).length ≤ c.depth := by
          have := hwr.cap; simpa [contents, hout, resCfg] using this
        have hqf : s.fifo.q.length ≤ (contents s.fifo).length := by simp [contents]
        have e0 : (c.depth == 0) = false := by simpa using (by omega : c.depth ≠ 0)
        show (!true || Fifo.sinkReady (dataCfg c) s.fifo (rFReady i)) = true
        simp only [Bool.not_true, Bool.false_or, Fifo.sinkReady, dataCfg, e0, Bool.false_eq_true, if_false]
        by_cases h1 : c.depth = 1
        · have : s.fifo.q = [] := List.eq_nil_of_length_eq_zero (by omega)
          simp [h1, this]
        · have e1 : (c.depth == 1) = false := by simpa using h1
          simp only [e1, Bool.false_eq_true, if_false, bne_iff_ne, ne_eq]
          omega
    rw [hpushr, hpopr] at hcr
    rw [hpopf] at hcf
    have ih' := ih (rstep c s i).1 (by rw [hres]; exact hwr') (by rw [hfifo]; exact hwf') ?_ henv'
    · rw [hres, hfifo, hcr, hcf] at ih'
      simp only [rHist, rRun, rTaken, htk, Bool.true_and]
      rw [hacc, hrt, hem, hdat, hlast]
      cases he : (rResValid c s i && rFValid c s i && i.srcReady) with
      | false =>
        simp only [he, Bool.false_eq_true, if_false, List.nil_append] at ih' ⊢
        rw [← ih'.1, ← ih'.2.1, List.append_assoc, List.append_assoc]
        exact ⟨rfl, rfl, ih'.2.2⟩
      | true =>
        simp only [he, if_true] at ih' ⊢
        simp only [Bool.and_eq_true] at he
        obtain ⟨⟨hrv, hfv⟩, _⟩ := he
        have hh1 := hheadr hrv
        have hn1 := hner hrv
        have hh2 := hheadf hfv
        have hn2 := hnef hfv
        cases hc1 : contents s.res with
        | nil => exact absurd hc1 hn1
        | cons x xs =>
          cases hc2 : contents s.fifo with
          | nil => exact absurd hc2 hn2
          | cons y ys =>
            rw [hc1, hc2] at ih'
            rw [hc1] at hh1; rw [hc2] at hh2
            simp only [List.tail_cons, List.head?_cons] at ih' hh1 hh2
            rw [hh1, hh2, hrv]
            simp only [Option.getD_some, List.cons_append, List.nil_append, List.map_cons, Bool.true_and]
            rw [← ih'.1, ← ih'.2.1, List.append_assoc, List.append_assoc]
            exact ⟨rfl, rfl, ih'.2.2⟩
    · -- the data FIFO never holds more words than there are reservations
      rw [hres, hfifo, hcr, hcf]
      have hpushf : (i.rdataValid && Fifo.sinkReady (dataCfg c) s.fifo (rFReady i)) = true → i.rdataValid = true := by
        intro h; simp only [Bool.and_eq_true] at h; exact h.1
      cases he : (rResValid c s i && rFValid c s i && i.srcReady) with
      | false =>
        simp only [Bool.false_eq_true, if_false, List.length_append]
        cases hp : (i.rdataValid && Fifo.sinkReady (dataCfg c) s.fifo (rFReady i)) with
        | false => cases rPush c s i <;> simp <;> omega
        | true => have := hret (hpushf hp); cases rPush c s i <;> simp <;> omega
      | true =>
        simp only [Bool.and_eq_true] at he
        obtain ⟨⟨hrv, hfv⟩, _⟩ := he
        have hn1 := hner hrv
        have hn2 := hnef hfv
        simp only [if_true, List.length_append, List.length_tail]
        have l1 : 0 < (contents s.res).length := List.length_pos_iff.mpr hn1
        have l2 : 0 < (contents s.fifo).length := List.length_pos_iff.mpr hn2
        cases hp : (i.rdataValid && Fifo.sinkReady (dataCfg c) s.fifo (rFReady i)) with
        | false => cases rPush c s i <;> simp <;> omega
        | true => have := hret (hpushf hp); cases rPush c s i <;> simp <;> omega

/-- **Reader: one word per accepted address, in order, with the end-of-stream mark on the matching word** (from reset, while
enabled, with a memory that returns only requested words): the emitted (data, last) pairs are position by position the returned
words and the marks of the accepted addresses; what has not been emitted yet is still in the two FIFOs. -/
theorem reader_stream_in_order (c : Dma.Cfg) (hd : 1 ≤ c.depth) (is : List RIn) (henv : EnvS c {} is) :
    (rHist c {} is).lasts = (rHist c {} is).emitted.map (·.2) ++ contents (rRun c {} is).res ∧
    (rHist c {} is).rets = (rHist c {} is).emitted.map (·.1) ++ contents (rRun c {} is).fifo := by
  have := reader_from c hd is {} (wf_init (resCfg c)) (wf_init (dataCfg c)) (by simp [contents]) henv
  simpa [contents] using ⟨this.1, this.2.1⟩

/-- **Reader: no returned word is lost, however long the consumer stalls** - every FIFO depth ≥ 1, buffered or not (this lifts the
`buffered = false` hypothesis of `C12.reader_never_overruns`): whenever the port returns a word, the reader takes it. -/
theorem reader_never_loses_a_word (c : Dma.Cfg) (hd : 1 ≤ c.depth) (is : List RIn) (henv : EnvS c {} is) :
    rTaken c {} is = true :=
  (reader_from c hd is {} (wf_init (resCfg c)) (wf_init (dataCfg c)) (by simp [contents]) henv).2.2

/-! ### the environment hypothesis is decidable on a concrete history, and non-vacuity -/
def envSB (c : Dma.Cfg) : RState → List RIn → Bool
  | _, [] => true
  | s, i :: is =>
    i.enable && (!i.rdataValid || decide ((contents s.fifo).length < (contents s.res).length)) && envSB c (rstep c s i).1 is

theorem envSB_sound (c : Dma.Cfg) (is : List RIn) : ∀ s, envSB c s is = true → EnvS c s is := by
  induction is with
  | nil => intro _ _; trivial
  | cons i is ih =>
    intro s h
    simp only [envSB, Bool.and_eq_true, Bool.or_eq_true, Bool.not_eq_true', decide_eq_true_eq] at h
    refine ⟨h.1.1, fun hv => ?_, ih _ h.2⟩
    rcases h.1.2 with h' | h'
    · rw [hv] at h'; cases h'
    · exact h'

/-- a reader with 2-deep FIFOs (buffered data FIFO): three addresses (the last one marked) are accepted, their words come back
while the consumer stalls, then the consumer takes them: the hypothesis holds and the three words come out in order, marked -/
def cfgD : Dma.Cfg := { depth := 2, buffered := true }
def rin (sv : Bool) (a : Nat) (l : Bool) (rv : Bool) (d : Nat) (sr : Bool) : RIn :=
  { enable := true, sinkValid := sv, sinkAddr := a, sinkLast := l, cmdReady := true, rdataValid := rv, rdata := d, srcReady := sr }
def insD : List RIn :=
  [rin true 5 false false 0 false, rin true 6 false false 0 false, rin true 7 true true 50 false, rin true 7 true true 60 false,
   rin true 7 true false 0 true, rin true 7 true false 0 true, rin false 0 false true 70 true, rin false 0 false false 0 true,
   rin false 0 false false 0 true]

example : envSB cfgD {} insD = true ∧ (rHist cfgD {} insD).emitted = [(50, false), (60, false), (70, true)] ∧
    (rHist cfgD {} insD).lasts = [false, false, true] := by decide

/-- the writer with a 2-deep FIFO: three pairs accepted while the port takes data late; the data words come out in order -/
def win (sv : Bool) (a d : Nat) (cr wr : Bool) : WIn :=
  { sinkValid := sv, sinkAddr := a, sinkData := d, sinkLast := false, cmdReady := cr, wdataReady := wr }
def insW : List WIn := [win true 1 10 true false, win true 2 20 true false, win true 3 30 true false, win true 3 30 true true,
  win false 0 0 false true, win false 0 0 false true]

/-- the writer with a 2-deep FIFO: the port takes data late, so the third pair is only accepted once a word has left; the data
words come out in the order of the accepted pairs -/
example : (wHist { depth := 2, buffered := false } {} insW).1 = [10, 20] ∧
    (wHist { depth := 2, buffered := false } {} insW).2 = [10, 20] := by decide

end C12
