/-
C01, controller level: the data strobes of the bank interfaces.

`one_strobe_per_cycle`: in every state of the composed controller and for every input, at most one bank machine raises
`wdata_ready` / `rdata_valid` - a strobe means the request chooser accepted that bank machine's RD/WR in this very cycle
(`strobe_is_req`).  This is what makes the crossbar's delayed strobes one-hot and its `Case` on them select exactly the
writing master (`C01.wdata_routed`), and it pairs every strobe with the request `C01.bank_queue_fifo` says is being served.
-/
import LitedramVerif.Proofs.CtlTiming
namespace C01
open Controller CtlInv CtlTiming

theorem step_outs (c : Controller.Cfg) (s : State) (ins : Array BankIn) (i : Nat) (h : i < c.nbm) :
    ((step c s ins).2[i]!).wdataReady = (BankMachine.step c.bm s.bms[i]! (bmIn c s ins i)).2.wdataReady ∧
    ((step c s ins).2[i]!).rdataValid = (BankMachine.step c.bm s.bms[i]! (bmIn c s ins i)).2.rdataValid := by
  have : (step c s ins).2 = ((Array.range c.nbm).map fun i => BankMachine.step c.bm s.bms[i]! (bmIn c s ins i)).map
      (fun (_, o) => ({ ready := o.reqReady, lock := o.lock, wdataReady := o.wdataReady, rdataValid := o.rdataValid } : BankOut)) := rfl
  rw [this, Array.map_map, getElem!_map_range _ _ _ h]
  exact ⟨rfl, rfl⟩

/-- a data strobe of bank machine `i` means: the request chooser accepted this bank machine's RD/WR in this cycle -/
theorem strobe_is_req (c : Controller.Cfg) (hab : 11 ≤ c.bm.abits) (s : State) (ins : Array BankIn) (i : Nat) (hi : i < c.nbm)
    (h : ((step c s ins).2[i]!).wdataReady = true ∨ ((step c s ins).2[i]!).rdataValid = true) :
    (combOf c s ins).reqAccept = true ∧ s.grantReq = i := by
  obtain ⟨e1, e2⟩ := step_outs c s ins i hi
  rw [e1, e2] at h
  have hrdy : (bmIn c s ins i).ready = bmReadyOf c s ins i := rfl
  have hcas : bmReadyOf c s ins i = true ∧ (reqJ c s ins i).cas = true := by
    simp only [BankMachine.step, reqJ, BankMachine.req, hrdy] at h ⊢
    simp at h ⊢
    have hrf : (bmIn c s ins i).refresh = (roOf c s).valid := rfl
    rcases h with h | h <;> simp [h, ← hrf]
  obtain ⟨hr, hc⟩ := hcas
  rw [bmReady_eq] at hr
  simp only [Bool.or_eq_true, Bool.and_eq_true, beq_iff_eq] at hr
  rcases hr with ⟨ha, e⟩ | ⟨ha, e⟩
  · exact ⟨ha, e⟩
  · exfalso
    obtain ⟨_, _, hcf, _⟩ := cmd_accept_facts c hab s ins ha
    rw [e, hc] at hcf; cases hcf

/-- **One data strobe per cycle**: in every state and for every input, at most one bank machine raises `wdata_ready` or
`rdata_valid` - so the crossbar's delayed strobes are one-hot and its `Case` on them selects exactly the writing master. -/
theorem one_strobe_per_cycle (c : Controller.Cfg) (hab : 11 ≤ c.bm.abits) (s : State) (ins : Array BankIn) (i j : Nat)
    (hi : i < c.nbm) (hj : j < c.nbm)
    (h1 : ((step c s ins).2[i]!).wdataReady = true ∨ ((step c s ins).2[i]!).rdataValid = true)
    (h2 : ((step c s ins).2[j]!).wdataReady = true ∨ ((step c s ins).2[j]!).rdataValid = true) : i = j := by
  rw [← (strobe_is_req c hab s ins i hi h1).2, ← (strobe_is_req c hab s ins j hj h2).2]

end C01
