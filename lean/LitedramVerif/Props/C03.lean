/-
C03 — datasheet timing minimums are respected on the DRAM bus.

Layers (DESIGN §6 C03): (a) the controller spaces the relevant command pairs by at least the configured
number of controller cycles — proved here for the mechanisms that enforce it: the `tXXDController`
(tRRD, tCCD, tWTR, tRC, tRAS, write-to-precharge), the `tFAWController`, and the bank machine's
`TRP` / `TRCD` delay chains; (b) `c` controller cycles apart on arbitrary phases is at least
`c·n − (n−1)` DRAM clocks (`worst_phase`); (c) that many clocks cover the datasheet value (C16).
The composed whole-controller statement is `Dram.Mon.step` (with the timing table) never rejecting a
controller trace; it is evaluated on every implementation trace by the check.
-/
import LitedramVerif.Model.Controller
import LitedramVerif.Spec.Dram
import LitedramVerif.Props.C02
namespace C03
open Hw

/-! ### tXXDController -/

/-- ghost: cycles elapsed since the last strobe (as seen in the state after the edge) -/
def since' (since : Nat) (valid : Bool) : Nat := if valid then 1 else since + 1

/-- while fewer than `txxd` cycles have elapsed since a strobe, `ready` is low and the counter
holds the remaining distance -/
def TxInv (txxd : Nat) (s : TX) (since : Nat) : Prop :=
  since < txxd → s.ready = false ∧ s.count = txxd - since

theorem bits_ok (txxd : Nat) : txxd - 1 < 2 ^ maxBits (max txxd 2) := by
  unfold maxBits bitsFor
  have h2 : max txxd 2 - 1 ≠ 0 := by omega
  simp only [h2, if_false]
  have := @Nat.lt_log2_self (max txxd 2 - 1)
  omega

/-- one step preserves the invariant (any `valid`) -/
theorem tx_step (txxd : Nat) (s : TX) (since : Nat) (valid : Bool) (h : TxInv txxd s since) :
    TxInv txxd (TX.step (some txxd) s valid) (since' since valid) := by
  have hb := bits_ok txxd
  unfold TxInv at *
  intro hlt
  cases valid
  · -- no strobe
    simp only [since', Bool.false_eq_true, if_false] at hlt
    have hs : since < txxd := by omega
    obtain ⟨hr, hc⟩ := h hs
    have hc1 : s.count ≠ 1 := by omega
    have hge : s.count ≥ 1 := by omega
    have hsmall : s.count - 1 < 2 ^ maxBits (max txxd 2) := by omega
    simp only [TX.step, hr, Bool.false_eq_true, if_false, Bool.not_false, if_true, since']
    have e : (s.count + 2 ^ maxBits (max txxd 2) - 1) % 2 ^ maxBits (max txxd 2) = s.count - 1 := by
      have : s.count + 2 ^ maxBits (max txxd 2) - 1 = (s.count - 1) + 2 ^ maxBits (max txxd 2) := by omega
      rw [this, Nat.add_mod_right, Nat.mod_eq_of_lt hsmall]
    simp only [e]
    refine ⟨?_, by omega⟩
    simp [hc1]
  · -- strobe
    simp only [since', if_true] at hlt
    simp only [TX.step, if_true, since']
    refine ⟨?_, ?_⟩
    · have : txxd - 1 ≠ 0 := by omega
      simp [this]
    · exact Nat.mod_eq_of_lt hb

/-- run a controller whose client only strobes when `ready` (as every user in the multiplexer and the
bank machine does: the strobe is `accept = valid & ready`-gated) -/
def txRun (txxd : Nat) : TX → Nat → List Bool → TX × Nat
  | s, since, [] => (s, since)
  | s, since, want :: rest =>
    let v := want && s.ready
    txRun txxd (TX.step (some txxd) s v) (since' since v) rest

theorem tx_run_inv (txxd : Nat) (wants : List Bool) :
    ∀ s since, TxInv txxd s since → TxInv txxd (txRun txxd s since wants).1 (txRun txxd s since wants).2 := by
  induction wants with
  | nil => intro s since h; exact h
  | cons w ws ih => intro s since h; exact ih _ _ (tx_step txxd s since _ h)

/-- **Spacing**: in every reachable state, `ready` high means at least `txxd` cycles have passed since
the previous strobe: two gated strobes are never closer than `txxd` controller cycles (from reset,
where `ready` starts low, for every request pattern). -/
theorem tx_spacing (txxd : Nat) (wants : List Bool) :
    (txRun txxd (TX.init (some txxd)) txxd wants).1.ready = true →
      txxd ≤ (txRun txxd (TX.init (some txxd)) txxd wants).2 := by
  intro hr
  have hinv := tx_run_inv txxd wants (TX.init (some txxd)) txxd (by intro h; omega)
  refine Decidable.byContradiction fun hlt => ?_
  have := (hinv (by omega)).1
  rw [this] at hr
  exact Bool.false_ne_true hr

/-! ### tFAWController -/

def TfInv (tfaw : Nat) (s : TF) : Prop :=
  s.window.length = tfaw ∧ s.count ≤ 4 ∧ (5 ≤ tfaw → s.count = 4 → s.ready = false)

theorem count_cons (v : Bool) (w : List Bool) : ((v :: w).filter id).length = (if v then 1 else 0) + (w.filter id).length := by
  cases v <;> simp [List.filter, Nat.add_comm]

theorem count_take_le (n : Nat) (l : List Bool) : ((l.take n).filter id).length ≤ (l.filter id).length :=
  ((List.take_sublist n l).filter id).length_le

theorem count_le_length (l : List Bool) : (l.filter id).length ≤ l.length := List.length_filter_le _ _

/-- the window never holds more than four activates, provided strobes are gated by `ready`
(for `tfaw ≤ 4` the window is too short to hold more; for `tfaw ≥ 5` the counter does not truncate) -/
theorem tf_step (tfaw : Nat) (s : TF) (valid : Bool) (hg : valid = true → s.ready = true) (h : TfInv tfaw s) :
    TfInv tfaw (TF.step (some tfaw) s valid) := by
  obtain ⟨hl, hc, hr⟩ := h
  have hle := count_take_le tfaw (valid :: s.window)
  rw [count_cons] at hle
  have hlen : ((valid :: s.window).take tfaw).length = tfaw := by
    simp only [List.length_take, List.length_cons, hl]; omega
  unfold TF.count at hc hr
  by_cases hsmall : tfaw ≤ 4
  · refine ⟨by simp only [TF.step]; exact hlen, ?_, fun h5 => by omega⟩
    simp only [TF.step, TF.count]
    have := count_le_length ((valid :: s.window).take tfaw)
    omega
  · have h5 : 5 ≤ tfaw := by omega
    have hw : (s.window.filter id).length % 2 ^ maxBits (max tfaw 2) = (s.window.filter id).length := by
      apply Nat.mod_eq_of_lt
      have hb : max tfaw 2 - 1 < 2 ^ maxBits (max tfaw 2) := by
        have := bits_ok (max tfaw 2); simpa using this
      have : 4 ≤ max tfaw 2 - 1 := by omega
      omega
    have hr' := hr h5
    refine ⟨by simp only [TF.step]; exact hlen, ?_, ?_⟩
    · simp only [TF.step, TF.count]
      cases valid
      · simp at hle; omega
      · have := hg rfl
        have hne : (s.window.filter id).length ≠ 4 := fun e => by simp [hr' e] at this
        simp at hle; omega
    · intro _
      simp only [TF.step, TF.count, hw]
      intro h4
      cases valid
      · simp at hle
        have : (s.window.filter id).length = 4 := by omega
        simp [this, hr' this]
      · have hrd := hg rfl
        have hne : (s.window.filter id).length ≠ 4 := fun e => by simp [hr' e] at hrd
        simp at hle
        have : (s.window.filter id).length = 3 := by omega
        simp [this]

/-- **Four-activate window**: from reset, whatever is requested, any `tfaw` consecutive controller
cycles contain at most four gated activates (the window register *is* the last `tfaw` strobes). -/
theorem tfaw_window (tfaw : Nat) (wants : List Bool) :
    TfInv tfaw (wants.foldl (fun s w => TF.step (some tfaw) s (w && s.ready)) (TF.init (some tfaw))) := by
  have h0 : TfInv tfaw (TF.init (some tfaw)) := by
    refine ⟨by simp [TF.init], ?_, ?_⟩ <;> simp [TF.init, TF.count]
  generalize TF.init (some tfaw) = s0 at h0
  induction wants generalizing s0 with
  | nil => exact h0
  | cons w ws ih =>
    apply ih
    apply tf_step _ _ _ _ h0
    intro hv; simp at hv; exact hv.2

/-! ### bank machine: tRCD and tRP chains (ghost counters on top of C02's invariant) -/
section bm
open BankMachine C02

/-- ghosts: cycles since the last accepted ACT / since the last accepted PRE or auto-precharge start -/
def gStep (g : Nat) : Cmd → Nat
  | .act _ => 1
  | _ => g + 1

def InvT (c : Cfg) (s : State) (g : Nat) : Prop :=
  match s.fsm with
  | .trcd k => g = k + 1 ∧ k + 1 < c.tRCD
  | .regular => s.rowOpened = true → c.tRCD ≤ g
  | _ => True

/-- **tRCD**: every accepted RD/WR is at least tRCD controller cycles after the ACT that opened the row -/
theorem trcd_respected (c : Cfg) (s : State) (g : Nat) (i : In) (h : InvT c s g) :
    let r := step c s i
    let cmd := cmdOf r.1 r.2 i.ready
    (∀ ap, cmd = .cas ap → c.tRCD ≤ g) ∧ InvT c r.1 (gStep g cmd) := by
  simp only [step, cmdOf, InvT] at *
  cases hf : s.fsm <;> simp_all [enter, gStep] <;> grind

def pStep (p : Nat) (s s' : State) : Cmd → Nat
  | .pre => 1
  | _ => if s.fsm == .autoprecharge && s'.fsm != .autoprecharge then 1 else p + 1

/-- `p` = cycles since the precharge (explicit PRE accepted, or the auto-precharge state left) -/
def InvP (c : Cfg) (s : State) (p : Nat) : Prop :=
  match s.fsm with
  | .trp k => p = k + 1 ∧ k + 1 < c.tRP
  | .activate => c.tRP ≤ p
  | _ => True

/-- **tRP**: every accepted ACT is at least tRP controller cycles after the precharge of that bank;
the hypothesis `hreg` says the bank was precharged long ago when the machine goes from REGULAR (row
closed by refresh or never opened) straight to ACTIVATE — the refresh case is covered by the
refresher's own PREA→(tRP)→REF→(tRFC) timeline (C04). -/
theorem trp_respected (c : Cfg) (s : State) (p : Nat) (i : In) (h : InvP c s p)
    (hreg : s.fsm = .regular → c.tRP ≤ p + 1) :
    let r := step c s i
    let cmd := cmdOf r.1 r.2 i.ready
    (∀ row, cmd = .act row → c.tRP ≤ p) ∧ InvP c r.1 (pStep p s r.1 cmd) := by
  simp only [step, cmdOf, InvP] at *
  cases hf : s.fsm <;> simp_all [enter, pStep] <;> grind

end bm

/-- **Worst phase**: two commands issued `c` controller cycles apart, on any phases `p₁ p₂ < n` of their
cycles, are at least `c·n − (n−1)` DRAM clocks apart (time = cycle·n + phase). -/
theorem worst_phase (t1 t2 n p1 p2 c : Nat) (hp1 : p1 < n) (hc : t1 + c ≤ t2) :
    c * n - (n - 1) ≤ (t2 * n + p2) - (t1 * n + p1) := by
  have h1 : (t1 + c) * n ≤ t2 * n := Nat.mul_le_mul_right n hc
  rw [Nat.add_mul] at h1
  omega

/-! ### non-vacuity -/
example : (txRun 3 (TX.init (some 3)) 3 [true, true, true, true, true, true, true, true]).1.ready = false := by decide
example : TfInv 6 (TF.init (some 6)) := by refine ⟨rfl, by decide, fun _ h => by simp [TF.init, TF.count] at h⟩

end C03
