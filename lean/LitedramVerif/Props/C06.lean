/-
C06 — port addresses map one-to-one onto DRAM locations.
Property statements and their proofs only; the model is `Model/AddrMap.lean`.
-/
import LitedramVerif.Model.AddrMap
import LitedramVerif.Proofs.NatBits
import LitedramVerif.Generated.ModuleLib
namespace C06
open AddrMap NatBits

/-- Geometries the generator accepts and the property quantifies over.
* `align ≤ colbits` (burst fits in a row), `1 ≤ rowbits`
* the bank field lies inside the address (`bank_byte_alignment` not beyond the device)
* when `colbits > 10` the column address needs `colbits+1` address lines (A10 skipped) and
  `cmd.a` has `max(rowbits, colbits)` lines: `colbits < rowbits` (checked for every module of
  the library in `Props/C16`'s generated table) and `align ≤ 10`. -/
structure WF (g : Geom) : Prop where
  align_le  : g.align ≤ g.colbits
  row_pos   : 1 ≤ g.rowbits
  cba_le    : g.cbaShift ≤ g.rowbits + g.split
  wide_col  : 10 < g.colbits → g.colbits < g.rowbits
  align_le10 : 10 < g.colbits → g.align ≤ 10

/-- A DRAM burst location. `colidx` is the burst index inside the row (`< 2^split`). -/
structure Loc where
  rank : Nat
  bank : Nat
  row  : Nat
  colidx : Nat
deriving DecidableEq, Repr

def Loc.InRange (g : Geom) (l : Loc) : Prop :=
  l.rank < 2 ^ g.rankbits ∧ l.bank < 2 ^ g.bankbits ∧ l.row < 2 ^ g.rowbits ∧ l.colidx < 2 ^ g.split

/-- Specification side: how a burst index is presented on the column address lines
(JEDEC: column bits on A0..A9, A11.., A10 = auto-precharge flag; low `align` bits zero). -/
def encodeCol (g : Geom) (ci : Nat) : Nat :=
  if 10 < g.colbits then (ci % 2 ^ (10 - g.align)) * 2 ^ g.align + (ci / 2 ^ (10 - g.align)) * 2 ^ 11
  else ci * 2 ^ g.align

/-- Specification side: the address at which location `l` lives (`ROW_BANK_COL` with bank shift). -/
def addrOf (g : Geom) (l : Loc) : Nat :=
  let rca := l.colidx + 2 ^ g.split * l.row
  let ba  := l.bank + 2 ^ g.bankbits * l.rank
  rca % 2 ^ g.cbaShift + 2 ^ g.cbaShift * (ba + 2 ^ g.bankBits * (rca / 2 ^ g.cbaShift))

/-- Location reached by port address `a`, read off the model's DFI-level outputs. -/
def locOf (g : Geom) (a : Nat) : Loc :=
  let t := translate g a
  { rank := t.1, bank := t.2.1, row := t.2.2.1, colidx := rcaOf g a % 2 ^ g.split }

/-! ### helper facts -/

theorem portBits_eq (g : Geom) (h : WF g) : g.portBits = g.rowbits + g.split + g.bankBits := by
  have := h.align_le
  simp only [Geom.portBits, Geom.rcaBits, Geom.bankBits, Geom.split]; omega

theorem rcaBits_eq (g : Geom) (h : WF g) : g.rcaBits = g.rowbits + g.split + g.rankbits := by
  have := h.align_le
  simp only [Geom.rcaBits, Geom.split]; omega

/-- closed form of the model's `rcaOf` for in-range addresses -/
theorem rcaOf_eq (g : Geom) (h : WF g) (a : Nat) (ha : a < 2 ^ g.portBits) :
    rcaOf g a = a % 2 ^ g.cbaShift + 2 ^ g.cbaShift * (a / (2 ^ g.cbaShift * 2 ^ g.bankBits)) := by
  have hpb := portBits_eq g h
  have hrb := rcaBits_eq g h
  have hcle := h.cba_le
  -- a / (2^C * 2^BB) < 2^(R+S-C)
  have hsplit : 2 ^ g.portBits = (2 ^ g.cbaShift * 2 ^ g.bankBits) * 2 ^ (g.rowbits + g.split - g.cbaShift) := by
    rw [← Nat.pow_add, ← Nat.pow_add]; congr 1; omega
  have hhi : a / (2 ^ g.cbaShift * 2 ^ g.bankBits) < 2 ^ (g.rowbits + g.split - g.cbaShift) := by
    apply Nat.div_lt_of_lt_mul; rw [← hsplit]; exact ha
  have hlo : a % 2 ^ g.cbaShift < 2 ^ g.cbaShift := Nat.mod_lt _ (two_pow_pos _)
  have hval : a % 2 ^ g.cbaShift + 2 ^ g.cbaShift * (a / (2 ^ g.cbaShift * 2 ^ g.bankBits)) < 2 ^ g.rcaBits := by
    have h1 := join_lt hlo hhi
    have h2 : 2 ^ g.cbaShift * 2 ^ (g.rowbits + g.split - g.cbaShift) = 2 ^ (g.rowbits + g.split) := by
      rw [← Nat.pow_add]; congr 1; omega
    have h3 : 2 ^ (g.rowbits + g.split) ≤ 2 ^ g.rcaBits := Nat.pow_le_pow_right (by decide) (by omega)
    omega
  unfold rcaOf
  simp only []
  by_cases hc : g.cbaShift < g.rcaBits
  · by_cases h0 : g.cbaShift = 0
    · rw [if_pos hc, if_neg (by simp [h0])]
      rw [h0] at hval ⊢
      simp only [Nat.pow_zero, Nat.mod_one, Nat.zero_add, Nat.one_mul, Nat.shiftRight_eq_div_pow] at hval ⊢
      exact Nat.mod_eq_of_lt hval
    · rw [if_pos hc, if_pos h0]
      simp only [Nat.shiftRight_eq_div_pow, Nat.shiftLeft_eq, Nat.pow_add]
      rw [Nat.mul_comm (a / _) _]
      exact Nat.mod_eq_of_lt hval
  · rw [if_neg hc]
    have hz : a / (2 ^ g.cbaShift * 2 ^ g.bankBits) = 0 := by
      have : g.rowbits + g.split - g.cbaShift = 0 := by omega
      rw [this, Nat.pow_zero] at hhi; exact Nat.lt_one_iff.mp hhi
    rw [hz] at hval ⊢
    simp only [Nat.mul_zero, Nat.add_zero] at hval ⊢
    exact Nat.mod_eq_of_lt hval

theorem rcaOf_lt (g : Geom) (h : WF g) (a : Nat) (ha : a < 2 ^ g.portBits) :
    rcaOf g a < 2 ^ (g.rowbits + g.split) := by
  rw [rcaOf_eq g h a ha]
  have hpb := portBits_eq g h
  have hcle := h.cba_le
  have hsplit : 2 ^ g.portBits = (2 ^ g.cbaShift * 2 ^ g.bankBits) * 2 ^ (g.rowbits + g.split - g.cbaShift) := by
    rw [← Nat.pow_add, ← Nat.pow_add]; congr 1; omega
  have hhi : a / (2 ^ g.cbaShift * 2 ^ g.bankBits) < 2 ^ (g.rowbits + g.split - g.cbaShift) := by
    apply Nat.div_lt_of_lt_mul; rw [← hsplit]; exact ha
  have hlo : a % 2 ^ g.cbaShift < 2 ^ g.cbaShift := Nat.mod_lt _ (two_pow_pos _)
  have h1 := join_lt hlo hhi
  have h2 : 2 ^ g.cbaShift * 2 ^ (g.rowbits + g.split - g.cbaShift) = 2 ^ (g.rowbits + g.split) := by
    rw [← Nat.pow_add]; congr 1; omega
  omega

/-- the column address the model emits is the JEDEC encoding of the burst index -/
theorem colOf_eq (g : Geom) (h : WF g) (rca : Nat) :
    colOf g rca = encodeCol g (rca % 2 ^ g.split) := by
  unfold colOf encodeCol
  simp only [gt_iff_lt, Nat.shiftLeft_eq, Nat.shiftRight_eq_div_pow]
  by_cases hc : 10 < g.colbits
  · have hal := h.align_le10 hc
    have hw := h.wide_col hc
    have hk : 10 - g.align ≤ g.split := by simp only [Geom.split]; omega
    simp only [hc, if_true]
    -- (rca % 2^S) % 2^k = rca % 2^k ; (rca % 2^S) / 2^k = (rca / 2^k) % 2^(S-k)
    have e1 : rca % 2 ^ g.split % 2 ^ (10 - g.align) = rca % 2 ^ (10 - g.align) :=
      Nat.mod_mod_of_dvd _ (Nat.pow_dvd_pow 2 hk)
    have e2 : rca % 2 ^ g.split / 2 ^ (10 - g.align) = rca / 2 ^ (10 - g.align) % 2 ^ (g.split - (10 - g.align)) := by
      conv => lhs; rw [pow_split hk]
      rw [Nat.mod_mul_right_div_self]
    rw [e1, e2]
    apply Nat.mod_eq_of_lt
    have hA : rca % 2 ^ (10 - g.align) < 2 ^ (10 - g.align) := Nat.mod_lt _ (two_pow_pos _)
    have hB : rca / 2 ^ (10 - g.align) % 2 ^ (g.split - (10 - g.align)) < 2 ^ (g.split - (10 - g.align)) :=
      Nat.mod_lt _ (two_pow_pos _)
    have h10 : 2 ^ (10 - g.align) * 2 ^ g.align = 2 ^ 10 := by rw [← Nat.pow_add]; congr 1; omega
    have hA' : rca % 2 ^ (10 - g.align) * 2 ^ g.align < 2 ^ 10 := by
      rw [← h10]; exact Nat.mul_lt_mul_of_pos_right hA (two_pow_pos _)
    have hB' : rca / 2 ^ (10 - g.align) % 2 ^ (g.split - (10 - g.align)) * 2 ^ 11 + 2 ^ 11
        ≤ 2 ^ (g.split - (10 - g.align)) * 2 ^ 11 := by
      have := Nat.mul_le_mul_right (2 ^ 11) (Nat.succ_le_of_lt hB)
      simpa [Nat.succ_mul] using this
    have htot : 2 ^ (g.split - (10 - g.align)) * 2 ^ 11 = 2 ^ (g.colbits + 1) := by
      rw [← Nat.pow_add]; congr 1; simp only [Geom.split]; omega
    have hab : 2 ^ (g.colbits + 1) ≤ 2 ^ g.addressbits :=
      Nat.pow_le_pow_right (by decide) (by simp only [Geom.addressbits]; omega)
    have : (2:Nat) ^ 10 < 2 ^ 11 := by decide
    omega
  · simp only [hc, if_false]
    apply Nat.mod_eq_of_lt
    have hA : rca % 2 ^ g.split < 2 ^ g.split := Nat.mod_lt _ (two_pow_pos _)
    have : rca % 2 ^ g.split * 2 ^ g.align < 2 ^ g.split * 2 ^ g.align :=
      Nat.mul_lt_mul_of_pos_right hA (two_pow_pos _)
    have e : 2 ^ g.split * 2 ^ g.align = 2 ^ g.colbits := by
      rw [← Nat.pow_add]; congr 1; have := h.align_le; simp only [Geom.split]; omega
    have hab : 2 ^ g.colbits ≤ 2 ^ g.addressbits :=
      Nat.pow_le_pow_right (by decide) (by simp only [Geom.addressbits]; omega)
    omega

/-! ### the property -/

/-- Left inverse: the location an address reaches determines the address (⇒ injectivity). -/
theorem addrOf_locOf (g : Geom) (h : WF g) (a : Nat) (ha : a < 2 ^ g.portBits) :
    addrOf g (locOf g a) = a := by
  have hr := rcaOf_lt g h a ha
  have hre := rcaOf_eq g h a ha
  unfold addrOf locOf translate
  simp only [rankOf, dfiBank, rowOf, Nat.shiftRight_eq_div_pow]
  -- rca re-assembled
  have hrow : rcaOf g a / 2 ^ g.split % 2 ^ g.rowbits = rcaOf g a / 2 ^ g.split := by
    apply Nat.mod_eq_of_lt; apply Nat.div_lt_of_lt_mul
    rw [← Nat.pow_add, Nat.add_comm]; exact hr
  rw [hrow, split_join, split_join]
  -- now in terms of a
  have hlo : a % 2 ^ g.cbaShift < 2 ^ g.cbaShift := Nat.mod_lt _ (two_pow_pos _)
  rw [hre, join_mod _ hlo, join_div _ hlo]
  unfold bankOf
  rw [Nat.shiftRight_eq_div_pow, ← Nat.div_div_eq_div_mul, split_join, split_join]

theorem locOf_inRange (g : Geom) (a : Nat) :
    (locOf g a).InRange g := by
  unfold Loc.InRange locOf translate
  simp only [rankOf, dfiBank, rowOf, bankOf, Nat.shiftRight_eq_div_pow]
  refine ⟨?_, Nat.mod_lt _ (two_pow_pos _), Nat.mod_lt _ (two_pow_pos _), Nat.mod_lt _ (two_pow_pos _)⟩
  apply Nat.div_lt_of_lt_mul
  rw [← Nat.pow_add]
  exact Nat.mod_lt _ (two_pow_pos _)

/-- Right inverse: every location of the device is reached by an in-range address (⇒ onto). -/
theorem locOf_addrOf (g : Geom) (h : WF g) (l : Loc) (hl : l.InRange g) :
    addrOf g l < 2 ^ g.portBits ∧ locOf g (addrOf g l) = l := by
  obtain ⟨hrank, hbank, hrow, hcol⟩ := hl
  have hcle := h.cba_le
  have hpb := portBits_eq g h
  -- names
  have hrca : l.colidx + 2 ^ g.split * l.row < 2 ^ (g.rowbits + g.split) := by
    rw [Nat.add_comm g.rowbits, Nat.pow_add]; exact join_lt hcol hrow
  have hba : l.bank + 2 ^ g.bankbits * l.rank < 2 ^ g.bankBits := by
    simp only [Geom.bankBits]; rw [Nat.pow_add]; exact join_lt hbank hrank
  have hlo : (l.colidx + 2 ^ g.split * l.row) % 2 ^ g.cbaShift < 2 ^ g.cbaShift := Nat.mod_lt _ (two_pow_pos _)
  have hhi : (l.colidx + 2 ^ g.split * l.row) / 2 ^ g.cbaShift < 2 ^ (g.rowbits + g.split - g.cbaShift) := by
    apply Nat.div_lt_of_lt_mul
    rw [← Nat.pow_add]
    have : g.cbaShift + (g.rowbits + g.split - g.cbaShift) = g.rowbits + g.split := by omega
    rw [this]; exact hrca
  have hmid := join_lt hba hhi
  have hlt : addrOf g l < 2 ^ g.portBits := by
    unfold addrOf; simp only []
    have := join_lt hlo hmid
    have e : 2 ^ g.cbaShift * (2 ^ g.bankBits * 2 ^ (g.rowbits + g.split - g.cbaShift)) = 2 ^ g.portBits := by
      rw [← Nat.pow_add, ← Nat.pow_add]; congr 1; omega
    rw [e] at this; exact this
  refine ⟨hlt, ?_⟩
  have hre := rcaOf_eq g h _ hlt
  -- bank and rca recovered from the address
  have hbank' : bankOf g (addrOf g l) = l.bank + 2 ^ g.bankbits * l.rank := by
    unfold bankOf addrOf; simp only []
    rw [Nat.shiftRight_eq_div_pow, join_div _ hlo, join_mod _ hba]
  have hrca' : rcaOf g (addrOf g l) = l.colidx + 2 ^ g.split * l.row := by
    rw [hre]; unfold addrOf; simp only []
    rw [join_mod _ hlo, ← Nat.div_div_eq_div_mul, join_div _ hlo, join_div _ hba, split_join]
  unfold locOf translate
  simp only [hbank', hrca', rankOf, dfiBank, rowOf, Nat.shiftRight_eq_div_pow]
  rw [join_div _ hbank, join_mod _ hbank, join_div _ hcol, join_mod _ hcol, Nat.mod_eq_of_lt hrow]

/-- **Injective**: two different in-range addresses never reach the same DRAM burst. -/
theorem addr_map_injective (g : Geom) (h : WF g) (a b : Nat)
    (ha : a < 2 ^ g.portBits) (hb : b < 2 ^ g.portBits) (hab : locOf g a = locOf g b) : a = b := by
  rw [← addrOf_locOf g h a ha, ← addrOf_locOf g h b hb, hab]

/-- **Onto** the device: every (rank, bank, row, burst) is reached by some in-range address. -/
theorem addr_map_surjective (g : Geom) (h : WF g) (l : Loc) (hl : l.InRange g) :
    ∃ a, a < 2 ^ g.portBits ∧ locOf g a = l :=
  ⟨addrOf g l, (locOf_addrOf g h l hl).1, (locOf_addrOf g h l hl).2⟩

/-- decoding the column address lines back to a burst index (JEDEC reading of the lines) -/
def decodeCol (g : Geom) (col : Nat) : Nat :=
  if 10 < g.colbits then (col % 2 ^ 11) / 2 ^ g.align + 2 ^ (10 - g.align) * (col / 2 ^ 11)
  else col / 2 ^ g.align

theorem decode_encodeCol (g : Geom) (h : WF g) (ci : Nat) : decodeCol g (encodeCol g ci) = ci := by
  unfold decodeCol encodeCol
  by_cases hc : 10 < g.colbits
  · have hal := h.align_le10 hc
    simp only [hc, if_true]
    have hA : ci % 2 ^ (10 - g.align) < 2 ^ (10 - g.align) := Nat.mod_lt _ (two_pow_pos _)
    have h10 : 2 ^ (10 - g.align) * 2 ^ g.align = 2 ^ 10 := by rw [← Nat.pow_add]; congr 1; omega
    have hA' : ci % 2 ^ (10 - g.align) * 2 ^ g.align < 2 ^ 11 := by
      have : ci % 2 ^ (10 - g.align) * 2 ^ g.align < 2 ^ 10 := by
        rw [← h10]; exact Nat.mul_lt_mul_of_pos_right hA (two_pow_pos _)
      have : (2:Nat) ^ 10 < 2 ^ 11 := by decide
      omega
    rw [Nat.mul_comm (ci / _) (2 ^ 11), join_mod _ hA', join_div _ hA',
      Nat.mul_div_cancel _ (two_pow_pos _), split_join]
  · simp only [hc, if_false]
    exact Nat.mul_div_cancel _ (two_pow_pos _)

/-- The DFI-visible tuple (rank, bank, row on ACT, column address on RD/WR) already separates
addresses: injectivity as observable on the bus. -/
theorem dfi_translation_injective (g : Geom) (h : WF g) (a b : Nat)
    (ha : a < 2 ^ g.portBits) (hb : b < 2 ^ g.portBits) (hab : translate g a = translate g b) : a = b := by
  apply addr_map_injective g h a b ha hb
  unfold translate at hab
  simp only [Prod.mk.injEq] at hab
  obtain ⟨h1, h2, h3, h4⟩ := hab
  rw [colOf_eq g h, colOf_eq g h] at h4
  have h5 := congrArg (decodeCol g) h4
  rw [decode_encodeCol g h, decode_encodeCol g h] at h5
  unfold locOf translate
  simp only [h1, h2, h3, h5]

/-- **A10 is never a column bit**: bit 10 of every emitted column address is 0
(the auto-precharge flag is OR-ed in separately by the bank machine). -/
theorem a10_never_column (g : Geom) (h : WF g) (rca : Nat) : colOf g rca / 2 ^ 10 % 2 = 0 := by
  rw [colOf_eq g h]
  unfold encodeCol
  by_cases hc : 10 < g.colbits
  · have hal := h.align_le10 hc
    simp only [hc, if_true]
    have hA : rca % 2 ^ g.split % 2 ^ (10 - g.align) < 2 ^ (10 - g.align) := Nat.mod_lt _ (two_pow_pos _)
    have h10 : 2 ^ (10 - g.align) * 2 ^ g.align = 2 ^ 10 := by rw [← Nat.pow_add]; congr 1; omega
    have hA' : rca % 2 ^ g.split % 2 ^ (10 - g.align) * 2 ^ g.align < 2 ^ 10 := by
      rw [← h10]; exact Nat.mul_lt_mul_of_pos_right hA (two_pow_pos _)
    have e11 : (2:Nat) ^ 11 = 2 ^ 10 * 2 := by decide
    rw [e11, ← Nat.mul_assoc, Nat.mul_comm (_ / _) (2 ^ 10), Nat.mul_assoc, join_div _ hA']
    omega
  · simp only [hc, if_false]
    have hA : rca % 2 ^ g.split < 2 ^ g.split := Nat.mod_lt _ (two_pow_pos _)
    have : rca % 2 ^ g.split * 2 ^ g.align < 2 ^ g.split * 2 ^ g.align :=
      Nat.mul_lt_mul_of_pos_right hA (two_pow_pos _)
    have e : 2 ^ g.split * 2 ^ g.align = 2 ^ g.colbits := by
      rw [← Nat.pow_add]; congr 1; have := h.align_le; simp only [Geom.split]; omega
    have hle : 2 ^ g.colbits ≤ 2 ^ 10 := Nat.pow_le_pow_right (by decide) (by omega)
    rw [Nat.div_eq_of_lt (by omega)]

/-- **The row opened by the activate is the row part of the address** and the column/bank/rank
are its other parts: reading `addrOf` backwards. -/
theorem act_row_is_row_part (g : Geom) (h : WF g) (l : Loc) (hl : l.InRange g) :
    rowOf g (rcaOf g (addrOf g l)) = l.row ∧
    colOf g (rcaOf g (addrOf g l)) = encodeCol g l.colidx := by
  have := (locOf_addrOf g h l hl).2
  have hrow : (locOf g (addrOf g l)).row = l.row := by rw [this]
  have hcol : (locOf g (addrOf g l)).colidx = l.colidx := by rw [this]
  refine ⟨hrow, ?_⟩
  rw [colOf_eq g h]; unfold locOf at hcol; simp only [] at hcol; rw [hcol]

/-- **Consecutive addresses walk columns, then banks, then rows** (with the configured bank
alignment `cbaShift`): the successor of an address either advances inside the low `cbaShift`
bits (same bank, same upper part), or wraps them and advances the bank, or wraps both and
advances the part above the bank field. -/
theorem consecutive_walk (g : Geom) (a : Nat) :
    let lo  := a % 2 ^ g.cbaShift
    let ba  := a / 2 ^ g.cbaShift % 2 ^ g.bankBits
    let hi  := a / 2 ^ g.cbaShift / 2 ^ g.bankBits
    let lo' := (a+1) % 2 ^ g.cbaShift
    let ba' := (a+1) / 2 ^ g.cbaShift % 2 ^ g.bankBits
    let hi' := (a+1) / 2 ^ g.cbaShift / 2 ^ g.bankBits
    (lo + 1 < 2 ^ g.cbaShift → lo' = lo + 1 ∧ ba' = ba ∧ hi' = hi) ∧
    (lo + 1 = 2 ^ g.cbaShift → ba + 1 < 2 ^ g.bankBits → lo' = 0 ∧ ba' = ba + 1 ∧ hi' = hi) ∧
    (lo + 1 = 2 ^ g.cbaShift → ba + 1 = 2 ^ g.bankBits → lo' = 0 ∧ ba' = 0 ∧ hi' = hi + 1) := by
  intro lo ba hi lo' ba' hi'
  have hM := two_pow_pos g.cbaShift
  have hB := two_pow_pos g.bankBits
  have e1 := succ_mod a _ hM
  have e2 := succ_div a _ hM
  have e3 := fun x => succ_mod x _ hB
  have e4 := fun x => succ_div x _ hB
  simp only [lo, ba, hi, lo', ba', hi']
  refine ⟨?_, ?_, ?_⟩
  · intro h; rw [e1, e2]; have : ¬ a % 2 ^ g.cbaShift + 1 = 2 ^ g.cbaShift := by omega
    simp [this]
  · intro h h2; rw [e1, e2]; simp only [h, if_true]; rw [e3, e4]
    have : ¬ a / 2 ^ g.cbaShift % 2 ^ g.bankBits + 1 = 2 ^ g.bankBits := by omega
    simp [this]
  · intro h h2; rw [e1, e2]; simp only [h, if_true]; rw [e3, e4]; simp [h2]

/-- **One port word is one DRAM burst**: with the `address_align` the controller derives from the memory type and the
number of phases, consecutive port addresses are exactly one burst of columns apart (2^align = burst length, SDR: the
number of phases), for every memory type and every phase count the PHYs use - so bursts neither overlap nor leave gaps. -/
theorem align_is_burst (memtype nphases : Nat) (hp : nphases = 1 ∨ nphases = 2 ∨ nphases = 4 ∨ nphases = 8) :
    2 ^ alignOf memtype nphases = burstLengthCode memtype nphases := by
  unfold alignOf burstLengthCode
  rcases hp with h | h | h | h <;> subst h <;> (split <;> decide)

/-- Every module of the library (table regenerated from `litedram/modules.py` on every run) has
power-of-two dimensions and meets the `wide_col` clause of `WF`: a device with more than 1024
columns has more rows than columns, so `cmd.a` has the extra address line the A10 skip needs. -/
theorem library_geometries_wf :
    ∀ m ∈ Generated.moduleLib,
      m.nbanks = 2 ^ m.nbanks.log2 ∧ m.nrows = 2 ^ m.nrows.log2 ∧ m.ncols = 2 ^ m.ncols.log2 ∧
      (10 < m.ncols.log2 → m.ncols.log2 < m.nrows.log2) ∧ 8 ≤ m.ncols.log2 ∧ 1 ≤ m.nbanks.log2 := by
  decide +kernel

/-! ### non-vacuity: concrete geometries meet `WF`, and the map is exercised on both sides of A10 -/

/-- MT41K128M16-like: 8 banks, 14 row bits, 10 column bits, BL8 -/
def gDDR3 : Geom := { bankbits := 3, rowbits := 14, colbits := 10, align := 3, rankbits := 0, bba := 0 }
/-- MT46H128M16-like with wide columns (A10 skipped), two ranks, bank alignment above the columns -/
def gWide : Geom := { bankbits := 2, rowbits := 14, colbits := 11, align := 2, rankbits := 1, bba := 12 }

example : WF gDDR3 := by constructor <;> simp [gDDR3, Geom.cbaShift, Geom.split]
example : WF gWide := by constructor <;> simp [gWide, Geom.cbaShift, Geom.split]
example : translate gDDR3 0x12345 = (0, 6, 0x48, 0x228) := by decide
example : translate gWide 0x5FFFF = (1, 3, 95, 0xBFC) := by decide
example : locOf gWide (addrOf gWide ⟨1, 3, 77, 300⟩) = ⟨1, 3, 77, 300⟩ := by decide

end C06
