/-
C13: the DRAM-backed FIFO is lossless, ordered and bounded.
-/
import LitedramVerif.Model.DramFifo
import LitedramVerif.Spec.FifoSpec
import LitedramVerif.Spec.FifoWitness
namespace C13
open DramFifo

/-! ### pointer / level bookkeeping of `_LiteDRAMFIFOCtrl` -/

/-- the controller's invariant: the level never exceeds the depth, both pointers stay inside the buffer and the
write pointer is exactly `level` slots (modulo the depth) ahead of the read pointer -/
def CInv (depth : Nat) (c : Ctrl) : Prop :=
  c.level ≤ depth ∧ c.produce < depth ∧ c.consume < depth ∧ c.produce = (c.consume + c.level) % depth

theorem cinv_init (depth : Nat) (h : 0 < depth) : CInv depth {} := by
  simp [CInv, h, Nat.zero_mod]

theorem succ_mod_wrap (x depth : Nat) (hx : x < depth) :
    (if x == depth - 1 then 0 else x + 1) = (x + 1) % depth := by
  by_cases h : x = depth - 1
  · have : depth - 1 + 1 = depth := by omega
    simp [h, this]
  · have : x + 1 < depth := by omega
    simp [h, Nat.mod_eq_of_lt this]

theorem add_one_mod (a depth : Nat) (_h : 0 < depth) : (a % depth + 1) % depth = (a + 1) % depth := by
  rw [Nat.add_mod, Nat.mod_mod, ← Nat.add_mod]

/-- one clock: with writes gated by `writable` and reads by `readable` the invariant is kept -/
theorem cinv_step (depth : Nat) (c : Ctrl) (write read : Bool) (hd : 0 < depth) (h : CInv depth c)
    (hw : write = true → c.writable depth = true) (hr : read = true → c.readable = true) :
    CInv depth (c.step depth write read) := by
  obtain ⟨hl, hp, hc, he⟩ := h
  have hw' : write = true → c.level < depth := by simpa [Ctrl.writable] using hw
  have hr' : read = true → 0 < c.level := by simpa [Ctrl.readable] using hr
  simp only [CInv, Ctrl.step, succ_mod_wrap _ _ hp, succ_mod_wrap _ _ hc]
  cases write <;> cases read <;> simp at hw' hr' ⊢
  · exact ⟨hl, hp, hc, he⟩
  · refine ⟨by omega, hp, Nat.mod_lt _ hd, ?_⟩
    rw [he]; congr 1; omega
  · refine ⟨by omega, Nat.mod_lt _ hd, hc, ?_⟩
    rw [he]; simp only [Nat.mod_add_mod]; congr 1
  · refine ⟨by omega, Nat.mod_lt _ hd, Nat.mod_lt _ hd, ?_⟩
    rw [he]; simp only [Nat.mod_add_mod]; congr 1; omega

/-- **No unread word is overwritten.** While the invariant holds and the FIFO is writable, the slot about to be
written is none of the `level` slots that still hold unread words. -/
theorem write_slot_is_free (depth : Nat) (c : Ctrl) (h : CInv depth c) (hw : c.level < depth) :
    ∀ j, j < c.level → (c.consume + j) % depth ≠ c.produce := by
  obtain ⟨_, _, _, he⟩ := h
  intro j hj heq
  rw [he] at heq
  have hd : 0 < depth := by omega
  -- write level = j + d with 0 < d < depth
  obtain ⟨d, hd1, hd2, hlev⟩ : ∃ d, 0 < d ∧ d < depth ∧ c.level = j + d := ⟨c.level - j, by omega, by omega, by omega⟩
  rw [hlev, ← Nat.add_assoc] at heq
  have hx : (c.consume + j) % depth < depth := Nat.mod_lt _ hd
  rw [Nat.add_mod (c.consume + j) d depth, Nat.mod_eq_of_lt hd2] at heq
  generalize (c.consume + j) % depth = x at *
  by_cases hlt : x + d < depth
  · rw [Nat.mod_eq_of_lt hlt] at heq; omega
  · rw [Nat.mod_eq_sub_mod (by omega), Nat.mod_eq_of_lt (by omega)] at heq; omega

/-! ### the whole FIFO: the gating really is in place, for every schedule -/

theorem step_gates (c : Cfg) (s : State) (i : In) :
    ((step c s i).2.dramWrite = true → s.ctrl.writable c.depth = true) ∧
    ((step c s i).2.dramRead = true → s.ctrl.readable = true) := by
  constructor <;> intro h <;> simp only [step] at h <;> simp_all

theorem step_ctrl (c : Cfg) (s : State) (i : In) :
    (step c s i).1.ctrl = s.ctrl.step c.depth (step c s i).2.dramWrite (step c s i).2.dramRead := by
  simp [step]

def run (c : Cfg) : State → List In → State
  | s, [] => s
  | s, i :: is => run c (step c s i).1 is

/-- **Bounded, for every producer/consumer/port schedule.** From reset the number of words held in DRAM never
exceeds the depth, the pointers never leave the buffer and stay `level` apart, in every FIFO shape (with or
without bypass, every width ratio) - hence (previous theorem) a write never lands on an unread word. -/
theorem level_bounded (c : Cfg) (hd : 0 < c.depth) (ins : List In) :
    CInv c.depth (run c (State.init c) ins).ctrl := by
  suffices ∀ s, CInv c.depth s.ctrl → CInv c.depth (run c s ins).ctrl from
    this _ (by simpa [State.init] using cinv_init c.depth hd)
  induction ins with
  | nil => intro s h; simpa [run] using h
  | cons i is ih =>
    intro s h
    simp only [run]
    apply ih
    rw [step_ctrl]
    exact cinv_step c.depth s.ctrl _ _ hd h (step_gates c s i).1 (step_gates c s i).2

/-- the DRAM addresses used: the write port is driven with `base + produce`, the read port with `base + consume` -/
theorem port_addresses (c : Cfg) (s : State) (i : In) :
    (step c s i).2.w.cmdAddr = c.base + s.ctrl.produce ∧ (step c s i).2.r.cmdAddr = c.base + s.ctrl.consume := by
  simp [step, Dma.wstep, Dma.rstep]

/-- count the DRAM writes and reads of a run -/
def counts (c : Cfg) : State → List In → Nat × Nat
  | _, [] => (0, 0)
  | s, i :: is =>
    let o := (step c s i).2
    let rest := counts c (step c s i).1 is
    (rest.1 + (if o.dramWrite then 1 else 0), rest.2 + (if o.dramRead then 1 else 0))

/-- **Words come back in the order they were stored, across any number of pointer wrap-arounds.** After any run
from reset with `w` DRAM writes and `r` DRAM reads: `r ≤ w`, the level is `w - r`, the next write goes to slot
`w mod depth` and the next read to slot `r mod depth` - so the k-th read fetches the slot of the k-th write. -/
theorem pointers_count (c : Cfg) (hd : 0 < c.depth) (ins : List In) :
    let fin := (run c (State.init c) ins).ctrl
    let n := counts c (State.init c) ins
    n.2 ≤ n.1 ∧ fin.level = n.1 - n.2 ∧ fin.produce = n.1 % c.depth ∧ fin.consume = n.2 % c.depth := by
  suffices ∀ (s : State) (w r : Nat), CInv c.depth s.ctrl → r ≤ w → s.ctrl.level = w - r → s.ctrl.produce = w % c.depth →
      s.ctrl.consume = r % c.depth →
      r + (counts c s ins).2 ≤ w + (counts c s ins).1 ∧
      (run c s ins).ctrl.level = w + (counts c s ins).1 - (r + (counts c s ins).2) ∧
      (run c s ins).ctrl.produce = (w + (counts c s ins).1) % c.depth ∧
      (run c s ins).ctrl.consume = (r + (counts c s ins).2) % c.depth by
    have := this (State.init c) 0 0 (by simpa [State.init] using cinv_init c.depth hd) (Nat.le_refl _)
      (by simp [State.init]) (by simp [State.init, Nat.zero_mod]) (by simp [State.init, Nat.zero_mod])
    simpa using this
  induction ins with
  | nil => intro s w r _ hle hl hp hc; simpa [run, counts] using ⟨hle, hl, hp, hc⟩
  | cons i is ih =>
    intro s w r hinv hle hl hp hc
    have hg := step_gates c s i
    have hinv' : CInv c.depth (step c s i).1.ctrl := by
      rw [step_ctrl]; exact cinv_step c.depth s.ctrl _ _ hd hinv hg.1 hg.2
    have hr0 : (step c s i).2.dramRead = true → 0 < s.ctrl.level := by
      intro h; simpa [Ctrl.readable] using hg.2 h
    obtain ⟨_, hp0, hc0, _⟩ := hinv
    have key := ih (step c s i).1 (w + (if (step c s i).2.dramWrite then 1 else 0)) (r + (if (step c s i).2.dramRead then 1 else 0)) hinv'
      (by split <;> split <;> simp_all <;> omega)
      (by rw [step_ctrl]; simp only [Ctrl.step]; split <;> split <;> simp_all <;> omega)
      (by rw [step_ctrl]; simp only [Ctrl.step, succ_mod_wrap _ _ hp0]
          split
          · rw [hp, add_one_mod _ _ hd]
          · simpa using hp)
      (by rw [step_ctrl]; simp only [Ctrl.step, succ_mod_wrap _ _ hc0]
          split
          · rw [hc, add_one_mod _ _ hd]
          · simpa using hc)
    simp only [run, counts]
    have e1 : ∀ a b x : Nat, w + a + x = w + (x + a) := by intros; omega
    have e2 : ∀ a x : Nat, r + a + x = r + (x + a) := by intros; omega
    simpa [e1, e2, Nat.add_assoc, Nat.add_comm, Nat.add_left_comm] using key

/-! ### the stream claim is false of the bypass FIFO on ports wider than the stream (known finding) -/

/-- **A word is invented.** On the inputs of Spec/FifoWitness.lean (ratio 2, seven words 1..7, consumer blocked at
first) the model - which the harness shows to be cycle-exact with the real LiteDRAMFIFO on these very inputs - accepts
`[1..7]` and delivers `[1..7, 0]`: the zero that pads the half-filled DRAM word in PUMP_PRECONVERTER reaches the source. -/
theorem bypass_partial_word_invents_a_word :
    FifoWitness.streams FifoWitness.cfg (State.init FifoWitness.cfg) FifoWitness.inputs =
      ([1, 2, 3, 4, 5, 6, 7], [1, 2, 3, 4, 5, 6, 7, 0]) := by
  rfl

/-! The full-strength stream statement (source stream = sink stream for every schedule) is therefore not provable for
`with_bypass` on ratio > 1. For the other shapes it is evaluated on the real FIFO by the harness with Spec/FifoSpec.lean;
what is proved for every schedule and every shape is the DRAM-side bookkeeping above (bounded, no overwrite of unread
words, read-back in write order across wrap-around). -/

/-! ### non-vacuity -/
example : CInv 3 { level := 2, produce := 1, consume := 2 } := by simp [CInv]
example : (0 : Nat) < 3 := by decide

end C13
