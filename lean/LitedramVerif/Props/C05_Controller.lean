/-
C05, command path of the composed controller — no row command is starved.

`row_command_accepted`: for every controller configuration with several phases (`WF2` of C02), every reachable state of the
composed controller model and **every** traffic on the bank interfaces (reads and writes arriving on any bank, the multiplexer
switching direction, refreshes coming and going): a PRECHARGE or ACTIVATE that a bank machine offers is accepted by the
multiplexer within `rowMax c` cycles,

    rowMax = ((n − 1)·(tRRD + tFAW + 2) + 2^w(tRRD) + tFAW² + 1) · (muxCap + 1) + muxCap,   muxCap = 2^w(tWTR) + 1 + read_latency

so no bank machine can be locked out of the command bus by the others (round-robin command chooser, tRRD / tFAW gates,
RTW / WTR turn-around states).  Proof: potential `CtlLive.psiR` (Proofs/CtlLiveRow.lean), strictly decreasing until acceptance.
Together with C04.refresh_grant_bound (the same for a pending refresh) and the component lemmas of Props/C05.lean.
Not covered: column commands (READ / WRITE), whose service depends on the anti-starvation timers and on the direction the
multiplexer is in (`request_latency_bounded_full` stays unproved; measured against Bound(cfg) by the check), and single-phase
controllers, where row and column commands share one chooser.
-/
import LitedramVerif.Proofs.CtlLiveRow
import LitedramVerif.Props.C04_Controller
namespace C05
open Controller Hw CtlInv CtlLive

theorem cinv_reachable (c : Controller.Cfg) (hwf : CtlInv.WF c) (pre : List (Array BankIn)) (hpre : ∀ ins ∈ pre, InsOk c ins) :
    ∃ g, CInv c (CtlLive.runCtl c (init c) pre) g := by
  have : ∀ (l : List (Array BankIn)) s g, CInv c s g → (∀ ins ∈ l, InsOk c ins) → ∃ g', CInv c (CtlLive.runCtl c s l) g' := by
    intro l
    induction l with
    | nil => intro s g h _; exact ⟨g, h⟩
    | cons i rest ih =>
      intro s g h hins
      exact ih _ _ (cinv_step c hwf s g i (hins i (by simp)) h).1 (fun x hx => hins x (by simp [hx]))
  exact this pre _ _ (cinv_init c hwf) hpre

/-- **C05, command path, every multi-phase configuration, every reachable state, every traffic**: an offered PRECHARGE /
ACTIVATE is accepted within `rowMax c` cycles. -/
theorem row_command_accepted (c : Controller.Cfg) (hwf : WF2 c) (hone : (c.nphases == 1) = false) (b : Nat) (hb : b < c.nbm)
    (pre post : List (Array BankIn)) (hpre : ∀ ins ∈ pre, InsOk c ins) (hpost : ∀ ins ∈ post, InsOk c ins)
    (hv : bmValid (CtlLive.runCtl c (init c) pre).bms[b]! = true) (hlen : rowMax c < post.length) :
    ∃ k, k ≤ rowMax c ∧
      bmReadyOf c (CtlLive.runCtl c (CtlLive.runCtl c (init c) pre) (post.take k)) (post.getD k default) b = true := by
  obtain ⟨g, hci⟩ := cinv_reachable c hwf.base pre hpre
  have hk : MOk c (CtlLive.runCtl c (init c) pre) := by
    have := C04.mok_reachable c hwf.base.nbm pre
    rwa [C04.runCtl_eq] at this
  have hle := psiR_le c _ hk b
  obtain ⟨k, hk1, hk2⟩ := row_cmd_accepted_from c hwf.base hwf.abits hone b hb post _ g hci hk hpost hv (by omega)
  exact ⟨k, by omega, hk2⟩

/-! ### non-vacuity: after 8 cycles of `C02.insC` traffic on `C02.cfgC` three bank machines offer an ACTIVATE at once; bank
machine 3 is served after 5 cycles (round-robin order, tRRD between the activates); `rowMax` = 629 -/
example :
    let s8 := CtlLive.runCtl C02.cfgC (init C02.cfgC) ((List.range 8).map C02.insC)
    let post := (List.range 40).map fun j => C02.insC (8 + j)
    bmValid s8.bms[0]! = true ∧ bmValid s8.bms[2]! = true ∧ bmValid s8.bms[3]! = true ∧
    bmReadyOf C02.cfgC (CtlLive.runCtl C02.cfgC s8 (post.take 4)) (post.getD 4 default) 3 = false ∧
    bmReadyOf C02.cfgC (CtlLive.runCtl C02.cfgC s8 (post.take 5)) (post.getD 5 default) 3 = true ∧
    rowMax C02.cfgC = 629 := by decide +kernel

end C05
