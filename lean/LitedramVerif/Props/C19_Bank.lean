/-
C19, data path of one bank of the simulation PHY/DRAM model — for every geometry and every legal operation sequence.

`SimPhy.step` is, on each bank, the function `bankStep` of the decoded strobes (`step_bank`).  `bank_data_refines` shows that
this function is a correct DRAM bank *with data*: against an abstract bank (`ABank`: open row, contents as a function
row → burst index → word, write bursts in flight as a delay line of `write_latency` stages; `aStep`, 12 lines) the model
returns for every READ exactly the stored word, for unbounded operation sequences and every geometry:
 * the flattened memory index `(row·ncols | col) >> log2(B)` never aliases two (row, burst) pairs (`word_index`,
   `word_index_injective` of Props/C19.lean, used here for the array update);
 * a write burst is stored `write_latency` cycles after its command at the row that was open *then* (the model looks at its
   row register only when the data arrives: sound because a legal trace does not precharge or activate the bank in between);
 * the data and byte masks are those of the cycle in which the burst is stored; `mergeBytes` is the byte-wise merge;
 * a READ returns the contents before that cycle's store; auto-precharge (which the model ignores) is harmless: the abstract
   bank closes, the model stays active on the same row until the (legal) re-activate reloads it.
Legality (`legalOp`) is JEDEC's: ACT only on a precharged bank, accesses only on an open row, no PRE/ACT while a write burst is
still on its way.  The read data then travels through the global read pipeline, `C19.read_latency_exact`.
What is not covered here: the routing of DFI phases to bank strobes for several commands per cycle (`bankIn`, one-hot `Case`s)
- co-simulated and compared with the independent reference `Spec/DramData` on random legal traces (`simphy_equals_reference_full`).
-/
import LitedramVerif.Props.C19
namespace C19
open SimPhy

/-- the per-bank strobes that `SimPhy.step` derives from the DFI phases (one-hot `Case` routing) -/
structure BankIn where
  activate : Bool
  actRow : Nat
  precharge : Bool
  bw : Bool
  bwCol : Nat
  rd : Bool
  rdCol : Nat

def bankIn (c : Cfg) (phases : List Phase) (nb : Nat) : BankIn :=
  let actSel := oneHot (phases.map isAct)
  let preSel := oneHot (phases.map isPre)
  let wrSel := oneHot (phases.map isWr)
  let rdSel := oneHot (phases.map isRd)
  let ph (i : Nat) : Phase := phases.getD i default
  { activate := match actSel with | some i => (ph i).bank == nb | none => false
    actRow := match actSel with | some i => (ph i).address % 2 ^ c.rowbits | none => 0
    precharge := match preSel with | some i => (ph i).bank == nb || (ph i).address.testBit 10 | none => false
    bw := match wrSel with | some i => (ph i).bank == nb | none => false
    bwCol := match wrSel with | some i => colOf c (ph i).address | none => 0
    rd := match rdSel with | some i => (ph i).bank == nb | none => false
    rdCol := match rdSel with | some i => colOf c (ph i).address | none => 0 }

def wrdataOf (c : Cfg) (phases : List Phase) : Nat :=
  (List.range c.nphases).foldl (fun acc i => acc ||| ((phases.getD i default).wrdata % 2 ^ c.phaseBits) <<< (i * c.phaseBits)) 0
def wrmaskOf (c : Cfg) (phases : List Phase) : Nat :=
  (List.range c.nphases).foldl (fun acc i => acc ||| ((phases.getD i default).wrdataMask % 2 ^ (c.phaseBits / 8)) <<< (i * (c.phaseBits / 8))) 0

/-- BankModel: one clock edge of one bank (the body of the per-bank map in `SimPhy.step`): new state, read strobe, read data -/
def bankStep (c : Cfg) (b : Bank) (i : BankIn) (wrdata wrmask : Nat) : Bank × Bool × Nat :=
  let ncols := 2 ^ c.colbits
  let nb8 := c.dataWidth / 8
  let stages := (i.bw, i.bwCol) :: b.wpipe
  let (write, writeCol) := stages.getD c.writeLatency (false, 0)
  let wpipe' := stages.take c.writeLatency
  let wraddr := ((b.row * ncols) ||| writeCol) >>> c.shift
  let rdaddr := ((b.row * ncols) ||| i.rdCol) >>> c.shift
  let readData := if b.active && i.rd then b.mem.getD rdaddr 0 else 0
  let mem' :=
    if b.active && write && wraddr < b.mem.size then
      if c.weGranularity == 0 then b.mem.set! wraddr wrdata
      else b.mem.set! wraddr (mergeBytes nb8 (b.mem.getD wraddr 0) wrdata wrmask)
    else b.mem
  let (active', row') := bankNext b.active b.row i.precharge i.activate i.actRow
  (({ active := active', row := row', mem := mem', wpipe := wpipe' } : Bank), i.rd, readData)

theorem getElemBang_map_range {α : Type} [Inhabited α] (n i : Nat) (f : Nat → α) (h : i < n) :
    ((Array.range n).map f)[i]! = f i := by
  rw [getElem!_pos _ _ (by simpa using h)]
  simp

/-- `SimPhy.step` is `bankStep` on every bank -/
theorem step_bank (c : Cfg) (s : State) (phases : List Phase) (nb : Nat) (h : nb < c.nbanks) :
    (step c s phases).1.banks[nb]! = (bankStep c s.banks[nb]! (bankIn c phases nb) (wrdataOf c phases) (wrmaskOf c phases)).1 := by
  have : (step c s phases).1.banks =
      ((Array.range c.nbanks).map fun nb => bankStep c s.banks[nb]! (bankIn c phases nb) (wrdataOf c phases) (wrmaskOf c phases)).map (·.1) := rfl
  rw [this, Array.map_map, getElemBang_map_range _ _ _ h]
  rfl
/-! ### an abstract DRAM bank with data -/
/-- open row, contents as a function of (row, burst index), and the write bursts whose data has not arrived yet (a delay
line of `write_latency` stages, newest first) -/
structure ABank where
  openRow : Option Nat
  mem : Nat → Nat → Nat
  inflight : List (Option (Nat × Nat))

inductive BOp
  | nop | act (r : Nat) | pre | wr (col : Nat) (ap : Bool) | rd (col : Nat) (ap : Bool)

def issuedOf (bc : Nat) (o : Option Nat) : BOp → Option (Nat × Nat)
  | .wr col _ => match o with | some r => some (r, col / bc) | none => none
  | _ => none

def rdataOf (bc : Nat) (a : ABank) : BOp → Option Nat
  | .rd col _ => match a.openRow with | some r => some (a.mem r (col / bc)) | none => none
  | _ => none

def openNext (o : Option Nat) : BOp → Option Nat
  | .act r => some r
  | .pre => none
  | .wr _ ap => if ap then none else o
  | .rd _ ap => if ap then none else o
  | .nop => o

def memNext (nb8 : Nat) (masks : Bool) (m : Nat → Nat → Nat) (word mask : Nat) : Option (Nat × Nat) → Nat → Nat → Nat
  | some (r, u) => fun r' u' => if r' = r ∧ u' = u then (if masks then DramData.merge nb8 (m r u) word mask else word) else m r' u'
  | none => m

/-- one controller cycle of the abstract bank: a write burst is stored `L` cycles after its command, at the row that was open
when the command was given, with the data and mask of the cycle in which it is stored; a read returns the contents before
this cycle's store; auto-precharge closes the bank -/
def aStep (L bc nb8 : Nat) (masks : Bool) (a : ABank) (op : BOp) (word mask : Nat) : ABank × Option Nat :=
  let stages := issuedOf bc a.openRow op :: a.inflight
  ({ openRow := openNext a.openRow op, mem := memNext nb8 masks a.mem word mask (stages.getD L none), inflight := stages.take L },
   rdataOf bc a op)

/-- what the bank may be asked to do (JEDEC): activate only when precharged, access only an open row, no precharge or
activate while a write burst is still on its way -/
def legalOp (c : Cfg) (a : ABank) : BOp → Prop
  | .nop => True
  | .act r => a.openRow = none ∧ r < 2 ^ c.rowbits ∧ ∀ x ∈ a.inflight, x = none
  | .pre => ∀ x ∈ a.inflight, x = none
  | .wr col _ => a.openRow.isSome = true ∧ col < 2 ^ c.colbits
  | .rd col _ => a.openRow.isSome = true ∧ col < 2 ^ c.colbits

def BOp.isRd : BOp → Bool
  | .rd _ _ => true
  | _ => false
def BOp.isWr : BOp → Bool
  | .wr _ _ => true
  | _ => false
def BOp.isAct : BOp → Bool
  | .act _ => true
  | _ => false
def BOp.isPre : BOp → Bool
  | .pre => true
  | _ => false
def rowAfter (row : Nat) : BOp → Nat
  | .act r => r
  | _ => row
def activeAfter (active : Bool) : BOp → Bool
  | .act _ => true
  | .pre => false
  | _ => active

/-- the strobes the model's bank sees for an operation -/
def opIn : BOp → BankIn
  | .nop => ⟨false, 0, false, false, 0, false, 0⟩
  | .act r => ⟨true, r, false, false, 0, false, 0⟩
  | .pre => ⟨false, 0, true, false, 0, false, 0⟩
  | .wr col _ => ⟨false, 0, false, true, col, false, 0⟩
  | .rd col _ => ⟨false, 0, false, false, 0, true, col⟩

/-- the strobes `i` ask the bank for operation `op` (fields the model does not look at are free) -/
structure Matches (i : BankIn) (op : BOp) : Prop where
  act : i.activate = op.isAct
  actRow : ∀ r, op = .act r → i.actRow = r
  pre : i.precharge = op.isPre
  bw : i.bw = op.isWr
  bwCol : ∀ col ap, op = .wr col ap → i.bwCol = col
  rd : i.rd = op.isRd
  rdCol : ∀ col ap, op = .rd col ap → i.rdCol = col

theorem matches_opIn (op : BOp) : Matches (opIn op) op := by
  cases op <;> constructor <;> simp [opIn, BOp.isRd, BOp.isWr, BOp.isAct, BOp.isPre] <;> (try (intros; simp_all))

/-- the correspondence between the model's bank and the abstract bank (`k` = log2 of the columns per burst) -/
structure Rb (c : Cfg) (k : Nat) (b : Bank) (a : ABank) : Prop where
  size : b.mem.size = 2 ^ c.rowbits * 2 ^ (c.colbits - k)
  memEq : ∀ r u, r < 2 ^ c.rowbits → u < 2 ^ (c.colbits - k) → b.mem.getD (r * 2 ^ (c.colbits - k) + u) 0 = a.mem r u
  rows : ∀ r, a.openRow = some r → b.active = true ∧ b.row = r ∧ r < 2 ^ c.rowbits
  pipe : a.inflight = b.wpipe.map (fun st => if st.1 then some (b.row, st.2 / 2 ^ k) else none)
  pipeOk : ∀ st ∈ b.wpipe, st.1 = true → b.active = true ∧ b.row < 2 ^ c.rowbits ∧ st.2 < 2 ^ c.colbits
  len : b.wpipe.length = c.writeLatency

theorem merge_eq (n old new mask : Nat) : mergeBytes n old new mask = DramData.merge n old new mask := rfl

theorem getD_set! (arr : Array Nat) (i j v d : Nat) (hi : i < arr.size) :
    (arr.set! i v).getD j d = if j = i then v else arr.getD j d := by
  simp only [Array.set!_eq_setIfInBounds, Array.getD_eq_getD_getElem?, Array.getElem?_setIfInBounds]
  by_cases h : i = j
  · subst h; simp [hi]
  · have : ¬ j = i := fun e => h e.symm
    simp [h, this]

theorem getD_map_fn {α β : Type} (l : List α) (g : α → β) (n : Nat) (d : α) : (l.map g).getD n (g d) = g (l.getD n d) := by
  simp [List.getD_eq_getElem?_getD, List.getElem?_map]

theorem idx_lt (R W r u : Nat) (hr : r < R) (hu : u < W) : r * W + u < R * W := by
  have : (r + 1) * W ≤ R * W := Nat.mul_le_mul_right W hr
  rw [Nat.add_mul, Nat.one_mul] at this
  omega

/-- **one clock edge**: the model's bank and the abstract bank stay in correspondence and return the same read data -/
theorem rb_step_in (c : Cfg) (k : Nat) (hw : c.burst * c.nphases = 2 ^ k) (hk : k ≤ c.colbits) (b : Bank) (a : ABank)
    (h : Rb c k b a) (op : BOp) (hl : legalOp c a op) (i : BankIn) (hm : Matches i op) (word mask : Nat) :
    Rb c k (bankStep c b i word mask).1 (aStep c.writeLatency (2 ^ k) (c.dataWidth / 8) (c.weGranularity != 0) a op word mask).1 ∧
    (bankStep c b i word mask).2.1 = op.isRd ∧
    (bankStep c b i word mask).2.2 =
      ((aStep c.writeLatency (2 ^ k) (c.dataWidth / 8) (c.weGranularity != 0) a op word mask).2).getD 0 := by
  have hsh : c.shift = k := by simp only [Cfg.shift, hw]; exact Nat.log2_two_pow
  -- the delay line
  let g : Bool × Nat → Option (Nat × Nat) := fun st => if st.1 then some (b.row, st.2 / 2 ^ k) else none
  have hg0 : g (false, 0) = none := rfl
  have hissued : issuedOf (2 ^ k) a.openRow op = g (i.bw, i.bwCol) := by
    cases op with
    | wr col ap =>
      simp only [legalOp] at hl
      cases ho : a.openRow with
      | none => rw [ho] at hl; simp at hl
      | some r =>
        have e1 := hm.bw; have e2 := hm.bwCol col ap rfl
        simp only [BOp.isWr] at e1
        simp only [g, issuedOf, e1, e2]; rw [(h.rows r ho).2.1]; simp
    | _ => have e1 := hm.bw; simp only [BOp.isWr] at e1; simp [g, issuedOf, e1]
  have hstages : (issuedOf (2 ^ k) a.openRow op :: a.inflight) = ((i.bw, i.bwCol) :: b.wpipe).map g := by
    rw [hissued, h.pipe]; rfl
  -- properties of the stage that lands now
  have hstOk : ∀ st ∈ ((i.bw, i.bwCol) :: b.wpipe), st.1 = true → b.active = true ∧ b.row < 2 ^ c.rowbits ∧ st.2 < 2 ^ c.colbits := by
    intro st hst ht
    rcases List.mem_cons.mp hst with e | e
    · subst e
      cases op with
      | wr col ap =>
        simp only [legalOp] at hl
        cases ho : a.openRow with
        | none => rw [ho] at hl; simp at hl
        | some r =>
          obtain ⟨h1, h2, h3⟩ := h.rows r ho
          have e2 := hm.bwCol col ap rfl
          exact ⟨h1, by rw [h2]; exact h3, by simp only []; rw [e2]; exact hl.2⟩
      | _ => have e1 := hm.bw; simp only [BOp.isWr] at e1; simp [e1] at ht
    · exact h.pipeOk st e ht
  have hW : 2 ^ c.colbits = 2 ^ k * 2 ^ (c.colbits - k) := by rw [← Nat.pow_add]; congr 1; omega
  have hdiv : ∀ col, col < 2 ^ c.colbits → col / 2 ^ k < 2 ^ (c.colbits - k) := by
    intro col hc
    apply Nat.div_lt_of_lt_mul
    rw [← hW]; exact hc
  have hidx : ∀ col, col < 2 ^ c.colbits → ((b.row * 2 ^ c.colbits) ||| col) >>> c.shift = b.row * 2 ^ (c.colbits - k) + col / 2 ^ k := by
    intro col hc; rw [hsh]; exact word_index b.row col c.colbits k hk hc
  -- no stage is set when the operation is ACT or PRE
  have hquiet : (∀ x ∈ a.inflight, x = none) → ∀ st ∈ b.wpipe, st.1 = false := by
    intro hq st hst
    have : g st ∈ a.inflight := by rw [h.pipe]; exact List.mem_map_of_mem hst
    have := hq _ this
    cases h1 : st.1
    · rfl
    · simp [g, h1] at this
  -- the stage that lands in this cycle
  have hland : (issuedOf (2 ^ k) a.openRow op :: a.inflight).getD c.writeLatency none =
      g (((i.bw, i.bwCol) :: b.wpipe).getD c.writeLatency (false, 0)) := by
    rw [hstages]; exact getD_map_fn _ g _ (false, 0)
  have hmem_of : ∀ st, ((i.bw, i.bwCol) :: b.wpipe).getD c.writeLatency (false, 0) = st → st.1 = true →
      st ∈ ((i.bw, i.bwCol) :: b.wpipe) := by
    intro st hst ht
    rw [List.getD_eq_getElem?_getD] at hst
    cases hh : ((i.bw, i.bwCol) :: b.wpipe)[c.writeLatency]? with
    | none => rw [hh] at hst; simp at hst; rw [← hst] at ht; cases ht
    | some x => rw [hh] at hst; simp at hst; rw [← hst]; exact List.mem_of_getElem? hh
  simp only [bankStep, aStep]
  rw [hland]
  generalize hst : ((i.bw, i.bwCol) :: b.wpipe).getD c.writeLatency (false, 0) = st
  obtain ⟨write, wcol⟩ := st
  have hstf := hmem_of _ hst
  simp only [] at hstf
  -- the registers after the edge
  have hrow' : (bankNext b.active b.row i.precharge i.activate i.actRow).2 = rowAfter b.row op := by
    have e1 := hm.act; have e2 := hm.pre
    cases op with
    | act r => have e3 := hm.actRow r rfl; simp only [BOp.isAct, BOp.isPre] at e1 e2; simp [bankNext, e1, e2, e3, rowAfter]
    | _ => simp only [BOp.isAct, BOp.isPre] at e1 e2; simp [bankNext, e1, e2, rowAfter]
  have hact' : (bankNext b.active b.row i.precharge i.activate i.actRow).1 = activeAfter b.active op := by
    have e1 := hm.act; have e2 := hm.pre
    cases op <;> simp only [BOp.isAct, BOp.isPre] at e1 e2 <;> simp [bankNext, e1, e2, activeAfter]
  refine ⟨⟨?_, ?_, ?_, ?_, ?_, ?_⟩, ?_, ?_⟩
  · -- size
    simp only []
    split <;> (try split) <;> simp [h.size]
  · -- memory contents
    intro r u hr hu
    simp only []
    cases hwr : write with
    | false =>
      simp only [Bool.and_false, Bool.false_and, Bool.false_eq_true, if_false, g, memNext]
      exact h.memEq r u hr hu
    | true =>
      obtain ⟨hba, hbr, hwc⟩ := hstOk _ (hstf hwr) hwr
      simp only [] at hwc
      have hlt : b.row * 2 ^ (c.colbits - k) + wcol / 2 ^ k < b.mem.size := by
        rw [h.size]; exact idx_lt _ _ _ _ hbr (hdiv _ hwc)
      simp only [hba, Bool.true_and, hidx wcol hwc, hlt, decide_true, if_true, g, memNext]
      have hinj : (r * 2 ^ (c.colbits - k) + u = b.row * 2 ^ (c.colbits - k) + wcol / 2 ^ k) ↔ (r = b.row ∧ u = wcol / 2 ^ k) := by
        constructor
        · intro e; exact word_index_injective _ _ _ _ _ hu (hdiv _ hwc) e
        · rintro ⟨e1, e2⟩; rw [e1, e2]
      have hold := h.memEq b.row (wcol / 2 ^ k) hbr (hdiv _ hwc)
      by_cases hg : c.weGranularity = 0
      · simp only [hg, beq_self_eq_true, if_true, bne_self_eq_false, Bool.false_eq_true, if_false]
        rw [getD_set! _ _ _ _ _ hlt]
        by_cases e : r = b.row ∧ u = wcol / 2 ^ k
        · rw [if_pos (hinj.mpr e), if_pos e]
        · rw [if_neg (fun x => e (hinj.mp x)), if_neg e]; exact h.memEq r u hr hu
      · have hne : (c.weGranularity == 0) = false := by simpa using hg
        have hne2 : (c.weGranularity != 0) = true := by simp [bne, hne]
        simp only [hne, Bool.false_eq_true, if_false, hne2, if_true]
        rw [getD_set! _ _ _ _ _ hlt]
        by_cases e : r = b.row ∧ u = wcol / 2 ^ k
        · rw [if_pos (hinj.mpr e), if_pos e, hold, merge_eq]
        · rw [if_neg (fun x => e (hinj.mp x)), if_neg e]; exact h.memEq r u hr hu
  · -- open row
    intro r hr
    simp only [] at hr ⊢
    rw [hact', hrow']
    cases op with
    | nop => exact h.rows r hr
    | act r' => simp only [openNext] at hr; cases hr; exact ⟨rfl, rfl, hl.2.1⟩
    | pre => simp [openNext] at hr
    | wr col ap => cases ap <;> simp [openNext] at hr; exact h.rows r hr
    | rd col ap => cases ap <;> simp [openNext] at hr; exact h.rows r hr
  · -- delay line
    simp only []
    rw [hstages, hrow', ← List.map_take]
    apply List.map_congr_left
    intro st hst
    have hst' := List.mem_of_mem_take hst
    cases op with
    | act r' =>
      have hq := hquiet hl.2.2
      rcases List.mem_cons.mp hst' with e | e
      · subst e; have e1 := hm.bw; simp only [BOp.isWr] at e1; simp [g, e1]
      · simp [g, hq st e]
    | _ => rfl
  · -- every pending stage belongs to an active bank with a valid row
    intro st hst ht
    simp only [] at hst ⊢
    have hst' := List.mem_of_mem_take hst
    obtain ⟨h1, h2, h3⟩ := hstOk st hst' ht
    rw [hact', hrow']
    cases op with
    | act r' =>
      exfalso
      rcases List.mem_cons.mp hst' with e | e
      · subst e; have e1 := hm.bw; simp only [BOp.isWr] at e1; simp [e1] at ht
      · rw [hquiet hl.2.2 st e] at ht; cases ht
    | pre =>
      exfalso
      rcases List.mem_cons.mp hst' with e | e
      · subst e; have e1 := hm.bw; simp only [BOp.isWr] at e1; simp [e1] at ht
      · rw [hquiet hl st e] at ht; cases ht
    | _ => exact ⟨h1, h2, h3⟩
  · simp only [List.length_take, List.length_cons, h.len]; omega
  · exact hm.rd
  · -- read data
    cases op with
    | rd col ap =>
      simp only [legalOp] at hl
      cases ho : a.openRow with
      | none => rw [ho] at hl; simp at hl
      | some r =>
        obtain ⟨h1, h2, h3⟩ := h.rows r ho
        have e1 := hm.rd; have e2 := hm.rdCol col ap rfl
        simp only [BOp.isRd] at e1
        simp only [rdataOf, ho, Option.getD_some, h1, e1, e2, if_true, Bool.and_self]
        rw [hidx col hl.2, h2]
        exact h.memEq r (col / 2 ^ k) h3 (hdiv _ hl.2)
    | _ => have e1 := hm.rd; simp only [BOp.isRd] at e1; simp [rdataOf, e1]

theorem rb_step (c : Cfg) (k : Nat) (hw : c.burst * c.nphases = 2 ^ k) (hk : k ≤ c.colbits) (b : Bank) (a : ABank)
    (h : Rb c k b a) (op : BOp) (hl : legalOp c a op) (word mask : Nat) :
    Rb c k (bankStep c b (opIn op) word mask).1 (aStep c.writeLatency (2 ^ k) (c.dataWidth / 8) (c.weGranularity != 0) a op word mask).1 ∧
    (bankStep c b (opIn op) word mask).2.1 = op.isRd ∧
    (bankStep c b (opIn op) word mask).2.2 =
      ((aStep c.writeLatency (2 ^ k) (c.dataWidth / 8) (c.weGranularity != 0) a op word mask).2).getD 0 :=
  rb_step_in c k hw hk b a h op hl (opIn op) (matches_opIn op) word mask

/-! ### whole runs -/
/-- read strobe and data the model's bank returns cycle by cycle -/
def bankRun (c : Cfg) : Bank → List (BOp × Nat × Nat) → List (Bool × Nat)
  | _, [] => []
  | b, (op, word, mask) :: rest =>
    ((bankStep c b (opIn op) word mask).2.1, (bankStep c b (opIn op) word mask).2.2) :: bankRun c (bankStep c b (opIn op) word mask).1 rest

def bankFinal (c : Cfg) : Bank → List (BOp × Nat × Nat) → Bank
  | b, [] => b
  | b, (op, word, mask) :: rest => bankFinal c (bankStep c b (opIn op) word mask).1 rest

def aRun (c : Cfg) (k : Nat) : ABank → List (BOp × Nat × Nat) → List (Option Nat)
  | _, [] => []
  | a, (op, word, mask) :: rest =>
    (aStep c.writeLatency (2 ^ k) (c.dataWidth / 8) (c.weGranularity != 0) a op word mask).2 ::
      aRun c k (aStep c.writeLatency (2 ^ k) (c.dataWidth / 8) (c.weGranularity != 0) a op word mask).1 rest

def aFinal (c : Cfg) (k : Nat) : ABank → List (BOp × Nat × Nat) → ABank
  | a, [] => a
  | a, (op, word, mask) :: rest => aFinal c k (aStep c.writeLatency (2 ^ k) (c.dataWidth / 8) (c.weGranularity != 0) a op word mask).1 rest

def legalRun (c : Cfg) (k : Nat) : ABank → List (BOp × Nat × Nat) → Prop
  | _, [] => True
  | a, (op, word, mask) :: rest =>
    legalOp c a op ∧ legalRun c k (aStep c.writeLatency (2 ^ k) (c.dataWidth / 8) (c.weGranularity != 0) a op word mask).1 rest

/-- **C19, one bank, every geometry, every legal operation sequence, unbounded length**: the model's bank returns, for every
READ, exactly the word the abstract bank holds (the data of the last write burst stored at that row and burst index, merged
under the byte masks, or the initial contents), and the two stay in correspondence (`Rb`: same contents word for word,
same open row, same write bursts in flight) -/
theorem bank_data_refines (c : Cfg) (k : Nat) (hw : c.burst * c.nphases = 2 ^ k) (hk : k ≤ c.colbits)
    (ops : List (BOp × Nat × Nat)) : ∀ (b : Bank) (a : ABank), Rb c k b a → legalRun c k a ops →
      bankRun c b ops = (List.zip ops (aRun c k a ops)).map (fun x => (x.1.1.isRd, x.2.getD 0)) ∧
      Rb c k (bankFinal c b ops) (aFinal c k a ops) := by
  induction ops with
  | nil => intro b a h _; exact ⟨rfl, h⟩
  | cons x rest ih =>
    obtain ⟨op, word, mask⟩ := x
    intro b a h hl
    obtain ⟨h1, h2, h3⟩ := rb_step c k hw hk b a h op hl.1 word mask
    obtain ⟨i1, i2⟩ := ih _ _ h1 hl.2
    refine ⟨?_, i2⟩
    simp only [bankRun, aRun, List.zip_cons_cons, List.map_cons]
    rw [i1, h2, h3]

/-! ### from reset -/
theorem memLen_eq (c : Cfg) (k : Nat) (hw : c.burst * c.nphases = 2 ^ k) (hk : k ≤ c.colbits) :
    c.memLen = 2 ^ c.rowbits * 2 ^ (c.colbits - k) := by
  have hW : 2 ^ c.colbits = 2 ^ k * 2 ^ (c.colbits - k) := by rw [← Nat.pow_add]; congr 1; omega
  simp only [Cfg.memLen, hw, hW]
  rw [Nat.mul_comm (2 ^ k), ← Nat.mul_assoc, Nat.mul_div_cancel _ (Nat.two_pow_pos k)]

/-- the abstract bank that corresponds to the model's bank after reset: precharged, nothing in flight, the initial image -/
def aInit (c : Cfg) (k : Nat) (b : Bank) : ABank :=
  { openRow := none, mem := fun r u => b.mem.getD (r * 2 ^ (c.colbits - k) + u) 0, inflight := List.replicate c.writeLatency none }

theorem rb_init (c : Cfg) (k : Nat) (hw : c.burst * c.nphases = 2 ^ k) (hk : k ≤ c.colbits) (initMem : Nat → Array Nat)
    (nb : Nat) (h : nb < c.nbanks) :
    Rb c k (SimPhy.init c initMem).banks[nb]! (aInit c k (SimPhy.init c initMem).banks[nb]!) := by
  have hb : (SimPhy.init c initMem).banks[nb]! =
      { mem := (initMem nb ++ Array.replicate (c.memLen - (initMem nb).size) 0).extract 0 c.memLen,
        wpipe := List.replicate c.writeLatency (false, 0) } := by
    simp only [SimPhy.init]; rw [getElemBang_map_range _ _ _ h]
  rw [hb]
  refine ⟨?_, ?_, ?_, ?_, ?_, ?_⟩
  · simp only [Array.size_extract, Array.size_append, Array.size_replicate, memLen_eq c k hw hk]; omega
  · intro r u _ _; rfl
  · intro r hr; simp [aInit] at hr
  · simp [aInit]
  · intro st hst ht; simp at hst; rw [hst.2] at ht; cases ht
  · simp

/-! ### non-vacuity: a 2-bit-row, 4-column bank (bursts of 2 columns, write latency 1): write row 1 / burst 1 under a byte
mask, auto-precharge, re-activate, read it back -/
def cfgK : Cfg := { nphases := 1, nbanks := 1, rowbits := 2, colbits := 2, burst := 2, phaseBits := 16, writeLatency := 1,
                    readLatency := 2, weGranularity := 8 }
def opsK : List (BOp × Nat × Nat) :=
  [(.act 1, 0, 0), (.wr 2 true, 0, 0), (.nop, 0xBEEF, 0b01), (.act 1, 0, 0), (.rd 3 false, 0, 0), (.rd 0 false, 0, 0)]
def bankK : Bank := { mem := #[1, 2, 3, 4, 5, 6, 7, 8], wpipe := [(false, 0)] }

example : bankRun cfgK bankK opsK = [(false, 0), (false, 0), (false, 0), (false, 0), (true, 0xBE04), (true, 3)] := by decide
example : (aRun cfgK 1 (aInit cfgK 1 bankK) opsK) = [none, none, none, none, some 0xBE04, some 3] := by decide
example : legalRun cfgK 1 (aInit cfgK 1 bankK) opsK := by
  simp [legalRun, legalOp, aStep, aInit, opsK, cfgK, issuedOf, openNext, bankK]

end C19
