/-
C12 — DMA reader and writer stream exactly once, in order, without overrun.

Proved here for `Model/Dma.lean` (FIFO depth ≥ 1, unbuffered data FIFO; the buffered variant and the AXI
flavour are covered by co-simulation and the monitors):
 * `reader_no_overrun`  the reservation accounting `reserved = in flight + buffered ≤ depth` is an inductive
   invariant, and under it the reader is *ready* for every word the memory returns — so a memory that
   pulses `rdata.valid` without waiting for `ready` (the real crossbar) never loses a word, however long the
   consumer stalls, for every depth ≥ 1
 * `writer_pairs`       the writer pushes the data word into its FIFO in exactly the cycle its address is
   accepted as a command (same handshake), so the k-th command and the k-th data word belong together
-/
import LitedramVerif.Model.Dma
import LitedramVerif.Spec.DmaSpec
namespace C12
open Dma

/-! ### FIFO length lemmas (unbuffered shapes) -/
theorem len_d1 {α : Type} (s : Fifo.State α) (v : Bool) (d : α) (r : Bool) :
    (Fifo.step ({ depth := 1 } : Fifo.Cfg) s v d r).q.length =
      if s.q.isEmpty || r then (if v then 1 else 0) else s.q.length := by
  have e0 : ((1 : Nat) == 0) = false := by decide
  have e1 : ((1 : Nat) == 1) = true := by decide
  simp only [Fifo.step, e0, e1, Bool.false_eq_true, if_false, if_true]
  by_cases h : (s.q.isEmpty || r) = true
  · simp only [h, if_true]; cases v <;> simp
  · simp only [h, if_false]; simp

theorem out_d1 {α : Type} (s : Fifo.State α) (v : Bool) (d : α) (r : Bool) (h : s.out = none) :
    (Fifo.step ({ depth := 1 } : Fifo.Cfg) s v d r).out = none := by
  have e0 : ((1 : Nat) == 0) = false := by decide
  have e1 : ((1 : Nat) == 1) = true := by decide
  simp only [Fifo.step, e0, e1, Bool.false_eq_true, if_false, if_true]
  by_cases hh : (s.q.isEmpty || r) = true
  · simp only [hh, if_true]
  · simp only [hh, if_false]; exact h

theorem len_ge2 {α : Type} (depth : Nat) (hd : 2 ≤ depth) (s : Fifo.State α) (v : Bool) (d : α) (r : Bool) :
    (Fifo.step ({ depth := depth } : Fifo.Cfg) s v d r).q.length =
      s.q.length - (if !s.q.isEmpty && r then 1 else 0) + (if v && s.q.length != depth then 1 else 0) := by
  have e0 : (depth == 0) = false := by simpa using (by omega : depth ≠ 0)
  have e1 : (depth == 1) = false := by simpa using (by omega : depth ≠ 1)
  simp only [Fifo.step, e0, e1, Bool.false_eq_true, if_false, Bool.not_false, if_true]
  by_cases hr : (!s.q.isEmpty && r) = true <;> by_cases hw : (v && s.q.length != depth) = true <;>
    simp [hr, hw, List.length_tail]

theorem out_ge2 {α : Type} (depth : Nat) (hd : 2 ≤ depth) (s : Fifo.State α) (v : Bool) (d : α) (r : Bool) (h : s.out = none) :
    (Fifo.step ({ depth := depth } : Fifo.Cfg) s v d r).out = none := by
  have e0 : (depth == 0) = false := by simpa using (by omega : depth ≠ 0)
  have e1 : (depth == 1) = false := by simpa using (by omega : depth ≠ 1)
  simp [Fifo.step, e0, e1, h]

/-- reservation invariant with the ghost `n` = read commands accepted whose data has not come back yet -/
def RInv (c : Cfg) (s : RState) (n : Nat) : Prop :=
  s.res.q.length = n + s.fifo.q.length ∧ s.res.q.length ≤ c.depth ∧ s.res.out = none ∧ s.fifo.out = none

/-- the ghost's evolution: +1 on an accepted command, −1 on a returned word -/
def nNext (n : Nat) (o : ROut) (i : RIn) : Nat :=
  n + (if o.cmdValid && i.cmdReady then 1 else 0) - (if i.rdataValid then 1 else 0)

theorem isEmpty_len {α : Type} (l : List α) : l.isEmpty = decide (l.length = 0) := by
  cases l <;> simp

/-- **No overrun** (one step; by induction every reachable state): if the memory only returns words that
were requested (`rdataValid → 1 ≤ n`), the reader is ready for them, and the invariant is re-established. -/
theorem reader_no_overrun (c : Cfg) (s : RState) (n : Nat) (i : RIn) (hd : 1 ≤ c.depth) (hb : c.buffered = false)
    (henv : i.rdataValid = true → 1 ≤ n) (h : RInv c s n) :
    (i.rdataValid = true → (rstep c s i).2.rdataReady = true) ∧
    RInv c (rstep c s i).1 (nNext n (rstep c s i).2 i) := by
  obtain ⟨h1, h2, h3, h4⟩ := h
  obtain ⟨depth, buffered⟩ := c
  simp only at hd hb h2
  subst hb
  by_cases hd1 : depth = 1
  · subst hd1
    simp only [rstep, resCfg, dataCfg, RInv, nNext]
    rw [len_d1, len_d1, out_d1 _ _ _ _ h3, out_d1 _ _ _ _ h4]
    simp only [Fifo.sinkReady, Fifo.srcValid, Fifo.srcData, isEmpty_len]
    generalize s.res.q.length = a at *
    generalize s.fifo.q.length = b at *
    have ha : a = 0 ∨ a = 1 := by omega
    have hb' : b = 0 ∨ b = 1 := by omega
    rcases ha with rfl | rfl <;> rcases hb' with rfl | rfl <;>
      cases hrv : i.rdataValid <;> cases i.enable <;> cases i.sinkValid <;> cases i.cmdReady <;> cases i.srcReady <;>
      simp at henv h1 ⊢ <;> first | omega | (have := henv hrv; omega)
  · have hd2 : 2 ≤ depth := by omega
    have e0 : (depth == 0) = false := by simpa using (by omega : depth ≠ 0)
    have e1 : (depth == 1) = false := by simpa using hd1
    simp only [rstep, resCfg, dataCfg, RInv, nNext]
    rw [len_ge2 depth hd2, len_ge2 depth hd2, out_ge2 depth hd2 _ _ _ _ h3, out_ge2 depth hd2 _ _ _ _ h4]
    simp only [Fifo.sinkReady, Fifo.srcValid, Fifo.srcData, isEmpty_len, e0, e1, Bool.false_eq_true, if_false, Bool.and_false]
    generalize s.res.q.length = a at *
    generalize s.fifo.q.length = b at *
    have hz : ¬ (0 = depth) := by omega
    by_cases ha0 : a = 0 <;> by_cases hb0 : b = 0 <;> by_cases had : a = depth <;> by_cases hbd : b = depth <;>
      cases hrv : i.rdataValid <;> cases i.enable <;> cases i.sinkValid <;> cases i.cmdReady <;> cases i.srcReady <;>
      simp [ha0, hb0, had, hbd, hz] at henv h1 ⊢ <;>
      first | omega | (have := henv hrv; omega) | (split <;> omega) | (split <;> split <;> omega)

/-- lift: the invariant holds in every reachable state of the reader, for every input history in which the
memory returns only requested words (`n` tracked alongside) -/
def runR (c : Cfg) : RState → Nat → List RIn → Bool
  | _, _, [] => true
  | s, n, i :: is =>
    let r := rstep c s i
    (!i.rdataValid || r.2.rdataReady) && runR c r.1 (nNext n r.2 i) is

def EnvR (c : Cfg) : RState → Nat → List RIn → Prop
  | _, _, [] => True
  | s, n, i :: is => (i.rdataValid = true → 1 ≤ n) ∧ EnvR c (rstep c s i).1 (nNext n (rstep c s i).2 i) is

theorem reader_never_overruns (c : Cfg) (hd : 1 ≤ c.depth) (hb : c.buffered = false) (is : List RIn) :
    ∀ s n, RInv c s n → EnvR c s n is → runR c s n is = true := by
  induction is with
  | nil => intros; rfl
  | cons i is ih =>
    intro s n hinv henv
    have h := reader_no_overrun c s n i hd hb henv.1 hinv
    simp only [runR, Bool.and_eq_true, Bool.or_eq_true, Bool.not_eq_true']
    refine ⟨?_, ih _ _ h.2 henv.2⟩
    cases hv : i.rdataValid
    · exact Or.inl rfl
    · exact Or.inr (h.1 hv)

/-- **Writer pairing** (depth ≥ 2, unbuffered): the data FIFO grows exactly when a write command is accepted
by the port and shrinks exactly when a write-data word is taken: the k-th command and the k-th data word come
from the same accepted (address, data) pair. -/
theorem writer_pairs (c : Cfg) (s : WState) (i : WIn) (hd : 2 ≤ c.depth) (hb : c.buffered = false) :
    (wstep c s i).1.fifo.q.length =
      s.fifo.q.length + (if (wstep c s i).2.cmdValid && i.cmdReady then 1 else 0)
        - (if (wstep c s i).2.wdataValid && i.wdataReady then 1 else 0) := by
  obtain ⟨depth, buffered⟩ := c
  simp only at hd hb
  subst hb
  have e0 : (depth == 0) = false := by simpa using (by omega : depth ≠ 0)
  have e1 : (depth == 1) = false := by simpa using (by omega : depth ≠ 1)
  simp only [wstep, dataCfg]
  rw [len_ge2 depth hd]
  simp only [Fifo.sinkReady, Fifo.srcValid, isEmpty_len, e0, e1, Bool.false_eq_true, if_false, Bool.and_false]
  generalize s.fifo.q.length = a
  by_cases ha0 : a = 0 <;> by_cases had : a = depth <;>
    cases i.sinkValid <;> cases i.cmdReady <;> cases i.wdataReady <;> simp [ha0, had] <;> omega

/-! ### non-vacuity -/
example : RInv ⟨4, false⟩ {} 0 := by simp [RInv]
example : runR ⟨1, false⟩ {} 0 [⟨true, true, 5, false, true, false, 0, false⟩, ⟨true, true, 6, false, true, true, 77, false⟩,
                                 ⟨true, false, 0, false, true, false, 0, true⟩] = true := by decide

end C12
