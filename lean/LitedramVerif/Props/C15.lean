/-
C15 — the ECC port corrects any single and flags any double bit error.
Property statements and proofs; model in `Model/Secded.lean`.
-/
import LitedramVerif.Model.Secded
import LitedramVerif.Proofs.SecdedLemmas
namespace C15
open Secded

/-! ### lemmas about the model's encoder -/

theorem lookup_zip_not_mem (L : List Nat) (data : List Bool) (c : Nat) (h : c ∉ L) :
    (L.zip data).lookup c = none := by
  induction L generalizing data with
  | nil => simp
  | cons a L ih =>
    cases data with
    | nil => simp
    | cons d ds =>
      have hca : (c == a) = false := by
        have : c ≠ a := fun e => h (by simp [e])
        simpa using this
      simp only [List.zip_cons_cons, List.lookup_cons, hca]
      exact ih ds (fun hm => h (List.mem_cons_of_mem _ hm))

theorem lookup_zip_map_gen (L : List Nat) (hL : L.Nodup) (data : List Bool) (h : data.length ≤ L.length)
    (f : Nat → Bool) (hf : ∀ c ∈ L, f c = ((L.zip data).lookup c).getD false) :
    (L.map f).take data.length = data := by
  induction L generalizing data with
  | nil => cases data <;> simp_all
  | cons a L ih =>
    cases data with
    | nil => simp
    | cons d ds =>
      have hn := List.nodup_cons.mp hL
      have hlen : ds.length ≤ L.length := by simpa using h
      have hfa : f a = d := by
        rw [hf a (by simp)]; simp
      have hrest : ∀ c ∈ L, f c = ((L.zip ds).lookup c).getD false := by
        intro c hc
        have hne : (c == a) = false := by
          have : c ≠ a := fun e => hn.1 (e ▸ hc)
          simpa using this
        rw [hf c (List.mem_cons_of_mem _ hc)]
        simp [List.lookup_cons, hne]
      simp only [List.map_cons, List.length_cons, List.take_succ_cons, hfa]
      rw [ih hn.2 ds hlen hrest]

theorem lookup_zip_map (L : List Nat) (hL : L.Nodup) (data : List Bool) (h : data.length ≤ L.length) :
    (L.map (fun c => ((L.zip data).lookup c).getD false)).take data.length = data :=
  lookup_zip_map_gen L hL data h _ (fun _ _ => rfl)

theorem placeData_pow2 (n : Nat) (data : List Bool) (c : Nat) (hc : isPow2 c = true) :
    placeData n data c = false := by
  unfold placeData
  rw [lookup_zip_not_mem]; · rfl
  unfold dataPos; rw [List.mem_filter]; simp [hc]

/-- every syndrome bit of an encoded word is zero -/
theorem synBit_encode (n : Nat) (data : List Bool) (i : Nat) : synBit n (encode n data) i = false := by
  unfold synBit
  -- on the covered positions the stored word is `cwD` toggled at `2^i` by the syndrome bit
  have hcongr : ∀ c ∈ cover n i, encode n data c =
      (placeData n data c != (c == 2 ^ i && synBit n (placeData n data) i)) := by
    intro c hc
    obtain ⟨⟨h1, _⟩, hb⟩ := mem_cover.mp hc
    have hc0 : c ≠ 0 := by omega
    unfold encode withSyndrome
    simp only [hc0, if_false]
    by_cases hp : isPow2 c = true
    · have := pow2_testBit hp hb
      subst this
      simp [hp, placeData_pow2 n data _ hp, Nat.log2_two_pow]
    · have hne : (c == 2 ^ i) = false := by
        have : c ≠ 2 ^ i := fun e => hp (e ▸ isPow2_two_pow i)
        simpa using this
      simp [hp, hne]
  rw [xorAll_map_congr _ _ _ hcongr, xorAll_map_toggle _ (cover_nodup n i)]
  by_cases hm : 2 ^ i ∈ cover n i
  · simp [hm, synBit]
  · -- 2^i > n: nothing is covered
    have hempty : cover n i = [] := by
      apply List.eq_nil_iff_forall_not_mem.mpr
      intro c hc
      obtain ⟨⟨h1, h2⟩, hb⟩ := mem_cover.mp hc
      have hge : 2 ^ i ≤ c := Nat.ge_two_pow_of_testBit hb
      apply hm
      rw [mem_cover]
      exact ⟨⟨Nat.two_pow_pos i, by omega⟩, Nat.testBit_two_pow_self⟩
    simp [hempty, xorAll]

/-- the overall parity of an encoded word (all n+1 stored bits) is even -/
theorem parity_encode (n : Nat) (data : List Bool) :
    xorAll ((0 :: positions n).map (encode n data)) = false := by
  rw [List.map_cons, xorAll_cons]
  have : ∀ c ∈ positions n, encode n data c = withSyndrome n (placeData n data) c := by
    intro c hc
    have := (mem_positions.mp hc).1
    have hc0 : c ≠ 0 := by omega
    simp [encode, hc0]
  rw [xorAll_map_congr _ _ _ this]
  simp [encode]

/-- the data positions of an encoded word hold the data -/
theorem data_of_encode (n : Nat) (data : List Bool) (h : data.length ≤ (dataPos n).length) :
    ((dataPos n).map (encode n data)).take data.length = data := by
  have hcongr : ∀ c ∈ dataPos n, encode n data c = (((dataPos n).zip data).lookup c).getD false := by
    intro c hc
    unfold dataPos at hc
    rw [List.mem_filter] at hc
    have := (mem_positions.mp hc.1).1
    have hc0 : c ≠ 0 := by omega
    have hp : isPow2 c = false := by simpa using hc.2
    simp [encode, withSyndrome, hc0, hp, placeData, dataPos]
  rw [List.map_congr_left hcongr]
  exact lookup_zip_map _ ((positions_nodup n).filter _) data h

/-! ### lemmas about flips and the decoder -/

theorem synBit_flip (n q : Nat) (w : Word) (i : Nat) :
    synBit n (flipBit q w) i = (synBit n w i != (decide (1 ≤ q ∧ q ≤ n) && q.testBit i)) := by
  unfold synBit flipBit
  have := xorAll_map_toggle (cover n i) (cover_nodup n i) w q true
  simp only [Bool.and_true, Bool.true_and] at this
  rw [this]
  congr 1
  by_cases h : 1 ≤ q ∧ q ≤ n
  · by_cases hb : q.testBit i = true
    · have : q ∈ cover n i := mem_cover.mpr ⟨h, hb⟩
      simp [h, hb, this]
    · have : q ∉ cover n i := fun hm => hb (mem_cover.mp hm).2
      simp [hb, this]
  · have : q ∉ cover n i := fun hm => h (mem_cover.mp hm).1
    simp [h, this]

theorem parity_flip (n q : Nat) (w : Word) (hq : q ≤ n) :
    xorAll ((0 :: positions n).map (flipBit q w)) = !xorAll ((0 :: positions n).map w) := by
  unfold flipBit
  have := xorAll_map_toggle (0 :: positions n) (zero_cons_positions_nodup n) w q true
  simp only [Bool.and_true, Bool.true_and] at this
  rw [this]
  have hm : q ∈ 0 :: positions n := by
    rw [List.mem_cons, mem_positions]; omega
  simp [hm]

/-- `Case(syndrome)`: when the syndrome value is `q`, exactly position `q` is corrected -/
theorem synIs_eq (n q : Nat) (en : Bool) (w : Word) (hq : q < 2 ^ nsyn n)
    (hs : ∀ i, decSyn n en w i = q.testBit i) (c : Nat) (hc : c ≤ n) :
    synIs n en w c = decide (c = q) := by
  unfold synIs
  by_cases h : c = q
  · subst h
    simp only [decide_true, List.all_eq_true, List.mem_range]
    intro i _; rw [hs]; simp
  · simp only [h, decide_false]
    rw [Bool.eq_false_iff]
    intro hall
    rw [List.all_eq_true] at hall
    apply h
    apply Nat.eq_of_testBit_eq
    intro i
    by_cases hi : i < nsyn n
    · have := hall i (List.mem_range.mpr hi)
      rw [hs] at this
      exact (by simpa using this : q.testBit i = c.testBit i).symm
    · have hle : 2 ^ nsyn n ≤ 2 ^ i := Nat.pow_le_pow_right (by decide) (Nat.le_of_not_lt hi)
      rw [Nat.testBit_lt_two_pow (Nat.lt_of_lt_of_le (lt_two_pow_nsyn hc) hle),
          Nat.testBit_lt_two_pow (Nat.lt_of_lt_of_le hq hle)]

theorem synNonzero_eq (n q : Nat) (en : Bool) (w : Word) (hq : q < 2 ^ nsyn n)
    (hs : ∀ i, decSyn n en w i = q.testBit i) :
    synNonzero n en w = decide (q ≠ 0) := by
  unfold synNonzero
  by_cases h : q = 0
  · subst h
    simp only [ne_eq, not_true_eq_false, decide_false]
    rw [Bool.eq_false_iff]
    intro hany
    rw [List.any_eq_true] at hany
    obtain ⟨i, _, hi⟩ := hany
    rw [hs] at hi; simp at hi
  · simp only [ne_eq, h, not_false_eq_true, decide_true, List.any_eq_true, List.mem_range]
    refine ⟨q.log2, ?_, ?_⟩
    · have := (Nat.log2_lt h).mpr hq; exact this
    · rw [hs]; exact Nat.testBit_log2 h

/-! ### the property -/

/-- **Round trip**: data written through the ECC lane and read back is returned unchanged and no
event is flagged (whatever `enable` is). Holds for every code length `n` and every data word that
fits the data positions. -/
theorem decode_encode (n : Nat) (data : List Bool) (h : data.length ≤ (dataPos n).length) (en : Bool) :
    decode n data.length en (encode n data) = { data := data, sec := false, ded := false } := by
  have hs : ∀ i, decSyn n en (encode n data) i = (0 : Nat).testBit i := by
    intro i; simp [decSyn, synBit_encode]
  have hnz := synNonzero_eq n 0 en _ (Nat.two_pow_pos _) hs
  have hcorr : ∀ c ∈ dataPos n, corrected n en (encode n data) c = encode n data c := by
    intro c hc
    unfold dataPos at hc; rw [List.mem_filter] at hc
    have hp := mem_positions.mp hc.1
    have hc0 : c ≠ 0 := by omega
    simp [corrected, synIs_eq n 0 en _ (Nat.two_pow_pos _) hs c hp.2, hc0]
  unfold decode
  simp only [hnz, List.map_congr_left hcorr, data_of_encode n data h]
  simp

/-- **Single error**: flipping any one of the n+1 stored bits (position `p`, 0 = the overall parity
bit) still returns the original data, is never reported as uncorrectable, and is reported as a
corrected error exactly when the flipped bit is not the overall parity bit. -/
theorem single_flip_corrected (n : Nat) (data : List Bool) (h : data.length ≤ (dataPos n).length)
    (p : Nat) (hp : p ≤ n) :
    decode n data.length true (flipBit p (encode n data)) =
      { data := data, sec := decide (p ≠ 0), ded := false } := by
  have hs : ∀ i, decSyn n true (flipBit p (encode n data)) i = p.testBit i := by
    intro i
    simp only [decSyn, Bool.true_and, synBit_flip, synBit_encode]
    by_cases h0 : p = 0
    · subst h0; simp
    · have : 1 ≤ p ∧ p ≤ n := by omega
      simp [this]
  have hplt := lt_two_pow_nsyn hp
  have hnz := synNonzero_eq n p true _ hplt hs
  have hcorr : ∀ c ∈ dataPos n, corrected n true (flipBit p (encode n data)) c = encode n data c := by
    intro c hc
    unfold dataPos at hc; rw [List.mem_filter] at hc
    have hpc := mem_positions.mp hc.1
    simp only [corrected, synIs_eq n p true _ hplt hs c hpc.2, flipBit]
    by_cases hcp : c = p
    · subst hcp; simp
    · have : (c == p) = false := by simpa using hcp
      simp [hcp, this]
  unfold decode
  simp only [hnz, List.map_congr_left hcorr, data_of_encode n data h, parity_flip n p _ hp, parity_encode]
  simp

/-- **Double error**: flipping any two distinct stored bits is reported as uncorrectable and never as
clean or as corrected. -/
theorem double_flip_detected (n : Nat) (data : List Bool) (k : Nat)
    (p q : Nat) (hp : p ≤ n) (hq : q ≤ n) (hpq : p ≠ q) :
    (decode n k true (flipBit p (flipBit q (encode n data)))).ded = true ∧
    (decode n k true (flipBit p (flipBit q (encode n data)))).sec = false := by
  have hs : ∀ i, decSyn n true (flipBit p (flipBit q (encode n data))) i = (p ^^^ q).testBit i := by
    intro i
    simp only [decSyn, Bool.true_and, synBit_flip, synBit_encode, Nat.testBit_xor]
    have e1 : (decide (1 ≤ p ∧ p ≤ n) && p.testBit i) = p.testBit i := by
      by_cases h0 : p = 0
      · subst h0; simp
      · have : 1 ≤ p ∧ p ≤ n := by omega
        simp [this]
    have e2 : (decide (1 ≤ q ∧ q ≤ n) && q.testBit i) = q.testBit i := by
      by_cases h0 : q = 0
      · subst h0; simp
      · have : 1 ≤ q ∧ q ≤ n := by omega
        simp [this]
    rw [e1, e2]
    cases p.testBit i <;> cases q.testBit i <;> rfl
  have hlt : p ^^^ q < 2 ^ nsyn n := Nat.xor_lt_two_pow (lt_two_pow_nsyn hp) (lt_two_pow_nsyn hq)
  have hne : p ^^^ q ≠ 0 := by
    intro h0
    apply hpq
    apply Nat.eq_of_testBit_eq
    intro i
    have := congrArg (fun x => x.testBit i) h0
    simp only [Nat.testBit_xor, Nat.zero_testBit] at this
    cases hp' : p.testBit i <;> cases hq' : q.testBit i <;> simp_all
  have hnz := synNonzero_eq n (p ^^^ q) true _ hlt hs
  unfold decode
  simp only [hnz, parity_flip n p _ hp, parity_flip n q _ hq, parity_encode]
  simp [hne]

/-- The code lengths produced by `compute_m_n` have room for the data, for every lane width up to
128 bits (the widths in use are 8..64): a finite table, decided by the kernel. -/
theorem compute_m_n_has_room : ∀ k ∈ List.range 129, k ≤ (dataPos (computeN k)).length := by
  decide +kernel

/-! ### non-vacuity -/
example : (dataPos (computeN 8)).length = 8 ∧ computeN 8 = 12 := by decide +kernel
example : decode 12 8 true (flipBit 5 (encode 12 [true,false,true,false,false,true,false,true])) =
    { data := [true,false,true,false,false,true,false,true], sec := true, ded := false } := by decide
example : (decode 12 8 true (flipBit 5 (flipBit 12 (encode 12 [true,false,true,false,false,true,false,true])))).ded = true := by
  decide

end C15
