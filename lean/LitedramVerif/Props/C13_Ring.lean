/-
C13, the ring buffer as a queue: `_LiteDRAMFIFOCtrl`'s pointer/level logic (`DramFifo.Ctrl.step`, the model's transcription)
over an ideal word store refines a FIFO queue, for every depth and every schedule of gated writes and reads, across any
number of pointer wrap-arounds: the words still stored are, oldest first, the slots `consume, consume+1, …` (`queueOf`); a
write appends, a read returns and removes the head.  The gating itself (a write only when writable, a read only when readable)
is what `C13.step_gates` proves of the whole FIFO; the DMA engines between the controller and the DRAM are C12's.
-/
import LitedramVerif.Props.C13
namespace C13
open DramFifo

structure Ring where
  ctrl : Ctrl := {}
  mem : Nat → Nat := fun _ => 0

structure ROp where
  write : Bool
  data : Nat
  read : Bool

def Ring.wr (depth : Nat) (r : Ring) (o : ROp) : Bool := o.write && r.ctrl.writable depth
def Ring.rd (r : Ring) (o : ROp) : Bool := o.read && r.ctrl.readable

/-- one clock; returns the word read -/
def Ring.step (depth : Nat) (r : Ring) (o : ROp) : Ring × Option Nat :=
  ({ ctrl := r.ctrl.step depth (r.wr depth o) (r.rd o),
     mem := if r.wr depth o then (fun a => if a = r.ctrl.produce then o.data else r.mem a) else r.mem },
   if r.rd o then some (r.mem r.ctrl.consume) else none)

/-- the stored words, oldest first -/
def queueOf (depth : Nat) (r : Ring) : List Nat := (List.range r.ctrl.level).map fun j => r.mem ((r.ctrl.consume + j) % depth)

theorem ring_step_queue (depth : Nat) (hd : 0 < depth) (r : Ring) (o : ROp) (h : CInv depth r.ctrl) :
    queueOf depth (r.step depth o).1 =
      (if r.rd o then (queueOf depth r).tail else queueOf depth r) ++ (if r.wr depth o then [o.data] else []) ∧
    (r.rd o = true → (r.step depth o).2 = (queueOf depth r).head?) ∧
    CInv depth (r.step depth o).1.ctrl := by
  have hw : r.wr depth o = true → r.ctrl.writable depth = true := by
    intro e; simp only [Ring.wr, Bool.and_eq_true] at e; exact e.2
  have hr : r.rd o = true → r.ctrl.readable = true := by
    intro e; simp only [Ring.rd, Bool.and_eq_true] at e; exact e.2
  have hinv' := cinv_step depth r.ctrl (r.wr depth o) (r.rd o) hd h hw hr
  have hfree := write_slot_is_free depth r.ctrl h
  obtain ⟨hl, hp, hc, he⟩ := h
  refine ⟨?_, ?_, hinv'⟩
  · -- the queue after the step
    cases hwv : r.wr depth o <;> cases hrv : r.rd o
    · simp [queueOf, Ring.step, hwv, hrv, Ctrl.step]
    · -- read only
      have hlev : 0 < r.ctrl.level := by simpa [Ctrl.readable] using hr hrv
      simp only [queueOf, Ring.step, hwv, hrv, Ctrl.step, if_true, Bool.false_eq_true, if_false, List.append_nil,
        succ_mod_wrap _ _ hc, Nat.add_zero]
      apply List.ext_getElem
      · simp
      · intro i h1 h2
        simp only [List.getElem_map, List.getElem_range, List.getElem_tail]
        congr 1
        rw [Nat.mod_add_mod]; congr 1; omega
    · -- write only
      have hlev : r.ctrl.level < depth := by simpa [Ctrl.writable] using hw hwv
      simp only [queueOf, Ring.step, hwv, hrv, Ctrl.step, if_true, Bool.false_eq_true, if_false, Nat.sub_zero]
      rw [List.range_succ, List.map_append]
      congr 1
      · apply List.map_congr_left
        intro j hj
        have hj' : j < r.ctrl.level := List.mem_range.mp hj
        simp [hfree hlev j hj']
      · simp [he]
    · -- write and read in the same clock
      have hlev : r.ctrl.level < depth := by simpa [Ctrl.writable] using hw hwv
      have hlev0 : 0 < r.ctrl.level := by simpa [Ctrl.readable] using hr hrv
      simp only [queueOf, Ring.step, hwv, hrv, Ctrl.step, if_true, succ_mod_wrap _ _ hc]
      have e : r.ctrl.level + 1 - 1 = (r.ctrl.level - 1) + 1 := by omega
      rw [e, List.range_succ, List.map_append]
      congr 1
      · apply List.ext_getElem
        · simp
        · intro i h1 h2
          simp only [List.length_map, List.length_range] at h1
          simp only [List.getElem_map, List.getElem_range, List.getElem_tail]
          have hs : ((r.ctrl.consume + 1) % depth + i) % depth = (r.ctrl.consume + (i + 1)) % depth := by
            rw [Nat.mod_add_mod]; congr 1; omega
          rw [hs, if_neg (hfree hlev (i + 1) (by omega))]
      · have hs : (r.ctrl.consume + 1 + (r.ctrl.level - 1)) % depth = r.ctrl.produce := by
          rw [he]; congr 1; omega
        simp [hs]
  · intro hrv
    have hlev : 0 < r.ctrl.level := by simpa [Ctrl.readable] using hr hrv
    simp only [Ring.step, hrv, if_true, queueOf]
    obtain ⟨n, hn⟩ : ∃ n, r.ctrl.level = n + 1 := ⟨r.ctrl.level - 1, by omega⟩
    rw [hn, List.range_succ_eq_map]
    simp [Nat.mod_eq_of_lt hc]

/-! ### over histories -/
def ringRun (depth : Nat) : Ring → List ROp → Ring
  | r, [] => r
  | r, o :: os => ringRun depth (r.step depth o).1 os

/-- (words written, words read), in time order -/
def ringHist (depth : Nat) : Ring → List ROp → List Nat × List Nat
  | _, [] => ([], [])
  | r, o :: os =>
    let rest := ringHist depth (r.step depth o).1 os
    ((if r.wr depth o then [o.data] else []) ++ rest.1, ((r.step depth o).2).toList ++ rest.2)

theorem ring_from (depth : Nat) (hd : 0 < depth) (os : List ROp) :
    ∀ r : Ring, CInv depth r.ctrl →
      queueOf depth r ++ (ringHist depth r os).1 = (ringHist depth r os).2 ++ queueOf depth (ringRun depth r os) := by
  induction os with
  | nil => intro r _; simp [ringHist, ringRun]
  | cons o os ih =>
    intro r h
    obtain ⟨hq, hhead, hinv⟩ := ring_step_queue depth hd r o h
    have ih' := ih (r.step depth o).1 hinv
    rw [hq] at ih'
    simp only [ringHist, ringRun]
    cases hrv : r.rd o with
    | false =>
      have h2 : (r.step depth o).2 = none := by simp [Ring.step, hrv]
      simp only [hrv, Bool.false_eq_true, if_false] at ih'
      rw [h2]
      simp only [Option.toList_none, List.nil_append]
      rw [← ih', List.append_assoc]
    | true =>
      have hh := hhead hrv
      simp only [hrv, if_true] at ih'
      cases hqq : queueOf depth r with
      | nil =>
        -- a read is only performed when the level is positive, so the queue is not empty
        have hlev : 0 < r.ctrl.level := by
          have : r.ctrl.readable = true := by
            simp only [Ring.rd, Bool.and_eq_true] at hrv; exact hrv.2
          simpa [Ctrl.readable] using this
        have : (queueOf depth r).length = r.ctrl.level := by simp [queueOf]
        rw [hqq] at this; simp at this; omega
      | cons x xs =>
        rw [hqq] at ih' hh
        simp only [List.tail_cons, List.head?_cons] at ih' hh
        rw [hh]
        simp only [Option.toList_some, List.cons_append, List.nil_append]
        rw [← ih', List.append_assoc]

/-- **The ring buffer is a queue** (every depth > 0, every schedule, unbounded time, any number of wrap-arounds): from reset, the
words read are, in order, the words written; what has not been read yet is exactly what the slots from `consume` on hold. -/
theorem ring_buffer_is_a_queue (depth : Nat) (hd : 0 < depth) (os : List ROp) :
    (ringHist depth {} os).1 = (ringHist depth {} os).2 ++ queueOf depth (ringRun depth {} os) := by
  have := ring_from depth hd os {} (cinv_init depth hd)
  simpa [queueOf] using this

/-- non-vacuity: depth 3, seven words pushed against a slow reader: the pointers wrap twice, the words come back in order -/
def opsR : List ROp :=
  [⟨true, 1, false⟩, ⟨true, 2, false⟩, ⟨true, 3, true⟩, ⟨true, 4, true⟩, ⟨true, 5, false⟩, ⟨true, 6, true⟩, ⟨true, 6, true⟩,
   ⟨true, 7, true⟩, ⟨false, 0, true⟩, ⟨false, 0, true⟩, ⟨false, 0, true⟩]

example : (ringHist 3 {} opsR).2 = [1, 2, 3, 4, 5, 6, 7] ∧ (ringHist 3 {} opsR).1 = [1, 2, 3, 4, 5, 6, 7] := by decide

end C13
